#!/bin/bash
# Build everything from files on disk (offline): full .vo build of the Coq development,
# forbidden-word scan, extraction, OCaml driver.
set -e
cd "$(dirname "$0")"
ulimit -s unlimited 2>/dev/null || true
# one builder at a time: the checks rebuild under the same lock (harness/common.py)
exec 9>.build.lock
flock 9
cd coq
mkdir -p extracted
coq_makefile -f _CoqProject -o Makefile > /dev/null 2>&1
timeout 3000 make -j16 > ../build.log 2>&1 || { tail -40 ../build.log; echo "coq build failed"; exit 1; }
if grep -rnE '\b(Admitted|admit|Axiom|Parameter|Conjecture|Abort)\b|Unset Guard|bypass_check|type-in-type' \
     --include=*.v Model Proofs Properties Ext | grep -vE '^[^:]*:[0-9]*: *\(\*'; then
  echo "forbidden construct found"; exit 1
fi
cd ../ocaml
# build beside the old binary and rename over it: a check that is running the old one keeps its inode
cp ../coq/extracted/model.ml ../coq/extracted/model.mli .
ocamlfind ocamlopt -w -a model.mli model.ml driver.ml -o tdfmodel.$$ && mv -f tdfmodel.$$ tdfmodel
echo "setup ok"

#!/bin/bash
# Build everything from files on disk (offline): full .vo build of the Coq development,
# forbidden-word scan, extraction, OCaml driver.
set -e
cd "$(dirname "$0")"
ulimit -s unlimited 2>/dev/null || true
cd coq
mkdir -p extracted
coq_makefile -f _CoqProject -o Makefile > /dev/null 2>&1
timeout 3000 make -j16 > ../build.log 2>&1 || { tail -40 ../build.log; echo "coq build failed"; exit 1; }
if grep -rnE '\b(Admitted|admit|Axiom|Parameter|Conjecture)\b|Unset Guard|bypass_check|type-in-type' \
     --include=*.v Model Proofs Properties Ext | grep -vE '^[^:]*:[0-9]*: *\(\*'; then
  echo "forbidden construct found"; exit 1
fi
cd ../ocaml
cp ../coq/extracted/model.ml ../coq/extracted/model.mli .
ocamlfind ocamlopt -w -a model.mli model.ml driver.ml -o tdfmodel.new && mv -f tdfmodel.new tdfmodel
echo "setup ok"

(* TwoFacts.v — overlapping sessions of two objects on one file. *)
From Model Require Import Base Str Fmt Container AFile TwoObjects.
From Proofs Require Import BaseFacts ContainerFacts ContainerProps.
Open Scope Z_scope.

Lemma run_ops_app s l1 l2 : run_ops s (l1 ++ l2) = run_ops (run_ops s l1) l2.
Proof. unfold run_ops. now rewrite fold_left_app. Qed.

Lemma view_put t w s : view (put t w s) w = s.
Proof. destruct s, w; reflexivity. Qed.

Lemma t_run_app t l1 l2 : t_run t (l1 ++ l2) = t_run (t_run t l1) l2.
Proof. unfold t_run. now rewrite fold_left_app. Qed.

(* the object that issues the calls sees Container.step, whatever the other object holds *)
Lemma view_run_ops w : forall ops t, view (t_run t (map (TOp w) ops)) w = run_ops (view t w) ops.
Proof.
  induction ops as [|o ops IH]; intros t; [reflexivity|].
  cbn [map]. change (t_run t (TOp w o :: map (TOp w) ops)) with (t_run (t_step t (TOp w o)) (map (TOp w) ops)).
  rewrite IH. cbn [t_step]. rewrite view_put. reflexivity.
Qed.

Lemma view_enter t w : view (t_step t (TEnter w)) w = file_of t.
Proof. cbn [t_step]. now rewrite view_put. Qed.

Lemma file_of_view t w : mem (view t w) = tab (view t w) -> file_of t = view t w.
Proof. destruct t, w; cbn; intros ->; reflexivity. Qed.

(* A enters and mutates; while A is still inside its context B enters, runs a whole session and leaves; A leaves.
   The file is what A's calls followed by B's calls make of it, and B's — the last writer's — table copy is the table. *)
Theorem overlapping_sessions s opsA opsB :
  compact s -> Forall op_ok opsA -> Forall op_ok opsB ->
  let calls := TEnter ObjA :: map (TOp ObjA) opsA ++ TEnter ObjB :: map (TOp ObjB) opsB ++ [TExit ObjB; TExit ObjA] in
  file_of (t_run (start s) calls) = run_ops s (opsA ++ opsB) /\ compact (file_of (t_run (start s) calls)).
Proof.
  intros Hc HA HB calls. subst calls.
  assert (Hs : mem s = tab s) by now apply compact_wf.
  change (t_run (start s) (TEnter ObjA :: ?l)) with (t_run (t_step (start s) (TEnter ObjA)) l).
  set (t1 := t_step (start s) (TEnter ObjA)).
  assert (V1 : view t1 ObjA = s).
  { unfold t1. rewrite view_enter. destruct s as [n m tb d]. cbn in *. now subst. }
  rewrite t_run_app. set (t2 := t_run t1 (map (TOp ObjA) opsA)).
  assert (V2 : view t2 ObjA = run_ops s opsA) by (unfold t2; now rewrite view_run_ops, V1).
  assert (C2 : compact (run_ops s opsA)) by now apply run_compact.
  assert (F2 : file_of t2 = run_ops s opsA).
  { rewrite (file_of_view t2 ObjA); [exact V2|]. rewrite V2. now apply compact_wf. }
  change (t_run t2 (TEnter ObjB :: ?l)) with (t_run (t_step t2 (TEnter ObjB)) l).
  set (t3 := t_step t2 (TEnter ObjB)).
  assert (V3 : view t3 ObjB = run_ops s opsA) by (unfold t3; now rewrite view_enter).
  rewrite t_run_app. set (t4 := t_run t3 (map (TOp ObjB) opsB)).
  assert (V4 : view t4 ObjB = run_ops s (opsA ++ opsB)).
  { unfold t4. now rewrite view_run_ops, V3, run_ops_app. }
  assert (C4 : compact (run_ops s (opsA ++ opsB))) by (apply run_compact; [exact Hc|now apply Forall_app]).
  cbn [t_run fold_left t_step].
  rewrite (file_of_view t4 ObjB); [|rewrite V4; now apply compact_wf].
  rewrite V4. split; [reflexivity|exact C4].
Qed.

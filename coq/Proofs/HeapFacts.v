(* HeapFacts.v — separation invariant of the object heap and the frame property (C20). *)
From Model Require Import Base Heap.
From Coq Require Import ZifyBool.
Open Scope Z_scope.

Record Sep (s : hstate) : Prop := mkSep {
  sep_inj : forall h1 h2 l, h_blocks s h1 = Some l -> h_blocks s h2 = Some l -> h1 = h2;
  sep_blk : forall h l, h_blocks s h = Some l -> l < h_next s /\ exists its, h_lists s l = Some its;
  sep_lst : forall l its, h_lists s l = Some its -> l < h_next s /\ Forall (fun it => it < h_next s) its;
  sep_ver : forall it v, h_vers s it = Some v -> it < h_next s }.

Definition op_ok (s : hstate) (o : hop) : Prop :=
  match o with
  | HNew h None => h_blocks s h = None
  | HNew h (Some lid) => h_blocks s h = None /\ (exists its, h_lists s lid = Some its)
                         (* any list: also one another block was constructed from, or another block's own *)
  | HDecode h _ => h_blocks s h = None
  | _ => True
  end.

Lemma fupd_same {A} k (v : A) f : fupd k v f k = Some v.
Proof. unfold fupd. now rewrite Z.eqb_refl. Qed.
Lemma fupd_other {A} k (v : A) f x : x <> k -> fupd k v f x = f x.
Proof. intros H. unfold fupd. destruct (Z.eqb_spec x k); [contradiction|reflexivity]. Qed.

Lemma zseq_bounds k : forall start, Forall (fun it => start <= it < start + Z.of_nat k) (zseq start k).
Proof.
  induction k as [|k IH]; intros start; cbn [zseq]; constructor; [lia|].
  eapply Forall_impl; [|apply IH]. cbn beta. intros it H. lia.
Qed.

Lemma fupd_all_below {A} ks (v : A) f x : Forall (fun k => x < k) ks -> fupd_all ks v f x = f x.
Proof.
  induction 1 as [|k ks Hk _ IH]; cbn [fupd_all]; [reflexivity|].
  rewrite fupd_other by lia. exact IH.
Qed.

Lemma fupd_all_some {A} ks (v : A) f x w : fupd_all ks v f x = Some w -> In x ks \/ f x = Some w.
Proof.
  induction ks as [|k ks IH]; cbn [fupd_all In]; [tauto|]. unfold fupd at 1.
  destruct (Z.eqb_spec x k); [subst; tauto|]. intros H. destruct (IH H); tauto.
Qed.

Lemma Sep_init : Sep h_init.
Proof. split; cbn; unfold fempty; intros; discriminate. Qed.

Ltac inv_some := repeat match goal with H : Some _ = Some _ |- _ => inversion H; subst; clear H end.

Lemma fresh_items_lt lid k : Forall (fun it => it < lid + 1 + Z.of_nat k) (zseq (lid + 1) k).
Proof. eapply Forall_impl; [|apply zseq_bounds]. cbn beta. intros; lia. Qed.

Lemma Forall_lt_mono (l : list Z) a b : a <= b -> Forall (fun it => it < a) l -> Forall (fun it => it < b) l.
Proof. intros H. apply Forall_impl. intros; lia. Qed.

(* a step that allocates [lid .. lid + k] and binds nothing else *)
Lemma Sep_alloc s k (bl : fmap Z) :
  Sep s ->
  (forall h1 h2 l, bl h1 = Some l -> bl h2 = Some l -> h1 = h2) ->
  (forall h l, bl h = Some l -> l = h_next s \/ h_blocks s h = Some l) ->
  Sep (mkH (h_next s + 1 + Z.of_nat k) (fupd (h_next s) (zseq (h_next s + 1) k) (h_lists s))
           (fupd_all (zseq (h_next s + 1) k) 0 (h_vers s)) bl).
Proof.
  intros [I1 I2 I3 I4] Hinj Hbl. split; cbn [h_next h_lists h_vers h_blocks].
  - exact Hinj.
  - intros h l Hh. destruct (Hbl h l Hh) as [->|Hold].
    + split; [lia|]. rewrite fupd_same. now eexists.
    + destruct (I2 h l Hold) as [Hl [its Hi]]. split; [lia|]. rewrite fupd_other by lia. now exists its.
  - intros l its. unfold fupd. destruct (Z.eqb_spec l (h_next s)) as [->|N].
    + intros H. inv_some. split; [lia|]. apply fresh_items_lt.
    + intros H. destruct (I3 l its H) as [Hl Hf]. split; [lia|]. eapply Forall_lt_mono; [|exact Hf]. lia.
  - intros it v H. apply fupd_all_some in H. destruct H as [Hin|Hold].
    + pose proof (zseq_bounds k (h_next s + 1)) as Hb. rewrite Forall_forall in Hb. specialize (Hb it Hin). lia.
    + specialize (I4 it v Hold). lia.
Qed.

Lemma Forall_remove_at {A} (P : A -> Prop) l : Forall P l -> forall i, Forall P (remove_at i l).
Proof.
  induction 1 as [|x l Hx Hl IH]; intros [|i]; cbn [remove_at]; try constructor; try assumption. apply IH.
Qed.

Lemma new_given_eq s h lid its : h_lists s lid = Some its ->
  h_step s (HNew h (Some lid)) =
  mkH (h_next s + 1) (fupd (h_next s) its (h_lists s)) (h_vers s) (fupd h (h_next s) (h_blocks s)).
Proof. intros H. cbn [h_step]. now rewrite H. Qed.

Theorem Sep_step s o : Sep s -> op_ok s o -> Sep (h_step s o).
Proof.
  intros HS Hok. pose proof HS as [I1 I2 I3 I4].
  destruct o as [k|h [lid|]|h k|h|h i|h i|h h'|h]; cbn [h_step op_ok] in *.
  - (* HMkList *) apply Sep_alloc; [exact HS|exact I1|intros; tauto].
  - (* HNew, caller's list: copied into a fresh one *)
    destruct Hok as [Hnew [its Hits]]. rewrite Hits.
    destruct (I3 lid its Hits) as [Hlid Hf].
    split; cbn [h_next h_lists h_vers h_blocks].
    + intros h1 h2 l. unfold fupd. destruct (Z.eqb_spec h1 h), (Z.eqb_spec h2 h); intros H1 H2; inv_some; try congruence;
        try (exfalso; destruct (I2 h2 _ H2); lia); try (exfalso; destruct (I2 h1 _ H1); lia).
      now apply (I1 h1 h2 l).
    + intros h0 l. unfold fupd at 1. destruct (Z.eqb_spec h0 h); intros H.
      * inv_some. split; [lia|]. rewrite fupd_same. now eexists.
      * destruct (I2 h0 l H) as [H1 [its0 H2]]. split; [lia|]. rewrite fupd_other by lia. now exists its0.
    + intros l its0. unfold fupd. destruct (Z.eqb_spec l (h_next s)) as [->|N]; intros H.
      * inv_some. split; [lia|]. eapply Forall_lt_mono; [|exact Hf]. lia.
      * destruct (I3 l its0 H) as [H1 H2]. split; [lia|]. eapply Forall_lt_mono; [|exact H2]. lia.
    + intros it v H. specialize (I4 it v H). lia.
  - (* HNew, own list *)
    replace (h_next s + 1) with (h_next s + 1 + Z.of_nat 0) by lia.
    change (@nil Z) with (zseq (h_next s + 1) 0). change (h_vers s) with (fupd_all (zseq (h_next s + 1) 0) 0 (h_vers s)).
    apply Sep_alloc; [exact HS| |].
    + intros h1 h2 l. unfold fupd. destruct (Z.eqb_spec h1 h), (Z.eqb_spec h2 h); intros H1 H2; inv_some; try congruence;
        try (exfalso; destruct (I2 h2 _ H2); lia); try (exfalso; destruct (I2 h1 _ H1); lia).
      now apply (I1 h1 h2 l).
    + intros h0 l. unfold fupd. destruct (Z.eqb_spec h0 h); intros H; inv_some; tauto.
  - (* HDecode *)
    apply Sep_alloc; [exact HS| |].
    + intros h1 h2 l. unfold fupd. destruct (Z.eqb_spec h1 h), (Z.eqb_spec h2 h); intros H1 H2; inv_some; try congruence;
        try (exfalso; destruct (I2 h2 _ H2); lia); try (exfalso; destruct (I2 h1 _ H1); lia).
      now apply (I1 h1 h2 l).
    + intros h0 l. unfold fupd. destruct (Z.eqb_spec h0 h); intros H; inv_some; tauto.
  - (* HAdd *)
    destruct (h_blocks s h) as [lid|] eqn:Hb; [|exact HS]. destruct (h_lists s lid) as [its|] eqn:Hl; [|exact HS].
    destruct (I3 lid its Hl) as [Hlid Hits].
    split; cbn [h_next h_lists h_vers h_blocks].
    + exact I1.
    + intros h0 l H0. destruct (I2 h0 l H0) as [H1 [its0 H2]]. split; [lia|]. unfold fupd.
      destruct (Z.eqb_spec l lid); [now eexists|now exists its0].
    + intros l its0. unfold fupd. destruct (Z.eqb_spec l lid) as [->|N]; intros H.
      * inv_some. split; [lia|]. apply Forall_app. split; [eapply Forall_lt_mono; [|exact Hits]; lia|].
        constructor; [lia|constructor].
      * destruct (I3 l its0 H) as [H1 H2]. split; [lia|]. eapply Forall_lt_mono; [|exact H2]. lia.
    + intros it v. unfold fupd. destruct (Z.eqb_spec it (h_next s)); intros H; [lia|]. specialize (I4 it v H). lia.
  - (* HRemove *)
    destruct (h_blocks s h) as [lid|] eqn:Hb; [|exact HS]. destruct (h_lists s lid) as [its|] eqn:Hl; [|exact HS].
    destruct (I3 lid its Hl) as [Hlid Hits].
    split; cbn [h_next h_lists h_vers h_blocks]; [exact I1| | |exact I4].
    + intros h0 l H0. destruct (I2 h0 l H0) as [H1 [its0 H2]]. split; [lia|]. unfold fupd.
      destruct (Z.eqb_spec l lid); [now eexists|now exists its0].
    + intros l its0. unfold fupd. destruct (Z.eqb_spec l lid) as [->|N]; intros H; [|now apply I3].
      inv_some. split; [lia|]. now apply Forall_remove_at.
  - (* HEdit *)
    destruct (h_blocks s h) as [lid|] eqn:Hb; [|exact HS]. destruct (h_lists s lid) as [its|] eqn:Hl; [|exact HS].
    destruct (nth_error its i) as [it|] eqn:Hn; [|exact HS]. destruct (h_vers s it) as [v|] eqn:Hv; [|exact HS].
    split; cbn [h_next h_lists h_vers h_blocks]; [exact I1|exact I2|exact I3|].
    intros it0 v0. unfold fupd. destruct (Z.eqb_spec it0 it) as [->|N]; intros H; [now apply (I4 it v)|now apply (I4 it0 v0)].
  - (* HAssign *)
    destruct (h_blocks s h) as [lid0|] eqn:Hb; [|exact HS]. destruct (h_blocks s h') as [lid'|] eqn:Hb'; [|exact HS].
    destruct (h_lists s lid') as [its|] eqn:Hl; [|exact HS].
    destruct (I3 lid' its Hl) as [Hlid Hits].
    split; cbn [h_next h_lists h_vers h_blocks].
    + intros h1 h2 l. unfold fupd. destruct (Z.eqb_spec h1 h), (Z.eqb_spec h2 h); intros H1 H2; inv_some; try congruence;
        try (exfalso; destruct (I2 h2 _ H2); lia); try (exfalso; destruct (I2 h1 _ H1); lia).
      now apply (I1 h1 h2 l).
    + intros h0 l. unfold fupd at 1. destruct (Z.eqb_spec h0 h); intros H.
      * inv_some. split; [lia|]. rewrite fupd_same. now eexists.
      * destruct (I2 h0 l H) as [H1 [its0 H2]]. split; [lia|]. rewrite fupd_other by lia. now exists its0.
    + intros l its0. unfold fupd. destruct (Z.eqb_spec l (h_next s)) as [->|N]; intros H.
      * inv_some. split; [lia|]. eapply Forall_lt_mono; [|exact Hits]. lia.
      * destruct (I3 l its0 H) as [H1 H2]. split; [lia|]. eapply Forall_lt_mono; [|exact H2]. lia.
    + intros it v H. specialize (I4 it v H). lia.
  - exact HS.
Qed.

Theorem Sep_run os : forall s, Sep s ->
  (fix ok (s : hstate) (os : list hop) : Prop :=
     match os with [] => True | o :: r => op_ok s o /\ ok (h_step s o) r end) s os ->
  Sep (h_run s os).
Proof.
  induction os as [|o os IH]; intros s HS Hok; cbn [h_run fold_left]; [exact HS|].
  destruct Hok as [H1 H2]. apply IH; [now apply Sep_step|exact H2].
Qed.

(* ---------- the frame property ---------- *)
Lemma content_ext s s' h :
  h_blocks s' h = h_blocks s h ->
  (forall l, h_blocks s h = Some l -> h_lists s' l = h_lists s l) ->
  (forall it, In it (items_of s h) -> h_vers s' it = h_vers s it) ->
  content s' h = content s h.
Proof.
  intros Hb Hl Hv. unfold content, items_of in *. rewrite Hb.
  destruct (h_blocks s h) as [l|]; [|reflexivity]. rewrite (Hl l eq_refl).
  destruct (h_lists s l) as [its|]; [|reflexivity]. f_equal. apply map_ext_in. intros it Hin. now rewrite Hv.
Qed.

Theorem frame s o h : Sep s -> op_ok s o -> target o <> Some h ->
  (forall h' i lid its it, o = HEdit h' i -> h_blocks s h' = Some lid -> h_lists s lid = Some its ->
                           nth_error its i = Some it -> ~ In it (items_of s h)) ->
  content (h_step s o) h = content s h.
Proof.
  intros [I1 I2 I3 I4] Hok Ht Hedit.
  assert (Hitems : forall it, In it (items_of s h) -> it < h_next s).
  { intros it Hin. unfold items_of in Hin. destruct (h_blocks s h) as [l|] eqn:Hb; [|contradiction].
    destruct (h_lists s l) as [its|] eqn:Hl; [|contradiction].
    destruct (I3 l its Hl) as [_ Hf]. rewrite Forall_forall in Hf. now apply Hf. }
  assert (Hlid : forall l, h_blocks s h = Some l -> l < h_next s) by (intros l Hb; now apply (I2 h l)).
  destruct o as [k|h0 [lid|]|h0 k|h0|h0 i|h0 i|h0 h'|h0]; cbn [h_step target] in *;
    try (assert (Hne : h <> h0) by congruence).
  - apply content_ext; cbn [h_blocks h_lists h_vers].
    + reflexivity.
    + intros l Hb. rewrite fupd_other; [reflexivity|specialize (Hlid l Hb); lia].
    + intros it Hin. apply fupd_all_below. specialize (Hitems it Hin).
      eapply Forall_impl; [|apply zseq_bounds]. cbn beta. intros; lia.
  - destruct (h_lists s lid) as [its|] eqn:Hl0; [|reflexivity].
    apply content_ext; cbn [h_blocks h_lists h_vers]; [now rewrite fupd_other| |reflexivity].
    intros l Hb. rewrite fupd_other; [reflexivity|specialize (Hlid l Hb); lia].
  - apply content_ext; cbn [h_blocks h_lists h_vers]; [now rewrite fupd_other| |reflexivity].
    intros l Hb. rewrite fupd_other; [reflexivity|specialize (Hlid l Hb); lia].
  - apply content_ext; cbn [h_blocks h_lists h_vers]; [now rewrite fupd_other| |].
    + intros l Hb. rewrite fupd_other; [reflexivity|specialize (Hlid l Hb); lia].
    + intros it Hin. apply fupd_all_below. specialize (Hitems it Hin).
      eapply Forall_impl; [|apply zseq_bounds]. cbn beta. intros; lia.
  - destruct (h_blocks s h0) as [lid|] eqn:Hb0; [|reflexivity]. destruct (h_lists s lid) as [its|] eqn:Hl0; [|reflexivity].
    apply content_ext; cbn [h_blocks h_lists h_vers]; [reflexivity| |].
    + intros l Hb. rewrite fupd_other; [reflexivity|]. intros ->. apply Hne. now apply (I1 h h0 lid).
    + intros it Hin. rewrite fupd_other; [reflexivity|]. specialize (Hitems it Hin). lia.
  - destruct (h_blocks s h0) as [lid|] eqn:Hb0; [|reflexivity]. destruct (h_lists s lid) as [its|] eqn:Hl0; [|reflexivity].
    apply content_ext; cbn [h_blocks h_lists h_vers]; [reflexivity| |reflexivity].
    intros l Hb. rewrite fupd_other; [reflexivity|]. intros ->. apply Hne. now apply (I1 h h0 lid).
  - destruct (h_blocks s h0) as [lid|] eqn:Hb0; [|reflexivity]. destruct (h_lists s lid) as [its|] eqn:Hl0; [|reflexivity].
    destruct (nth_error its i) as [it|] eqn:Hn; [|reflexivity]. destruct (h_vers s it) as [v|] eqn:Hv; [|reflexivity].
    apply content_ext; cbn [h_blocks h_lists h_vers]; [reflexivity|reflexivity|].
    intros it0 Hin. rewrite fupd_other; [reflexivity|]. intros ->.
    now apply (Hedit h0 i lid its it eq_refl Hb0 Hl0 Hn).
  - destruct (h_blocks s h0) as [lid0|] eqn:Hb0; [|reflexivity]. destruct (h_blocks s h') as [lid'|] eqn:Hb'; [|reflexivity].
    destruct (h_lists s lid') as [its|] eqn:Hl'; [|reflexivity].
    apply content_ext; cbn [h_blocks h_lists h_vers]; [now rewrite fupd_other| |reflexivity].
    intros l Hb. rewrite fupd_other; [reflexivity|specialize (Hlid l Hb); lia].
  - reflexivity.
Qed.

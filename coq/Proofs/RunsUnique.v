(* RunsUnique.v — the run table of a track is CANONICAL: the conditions the property lists
   (non-empty, increasing, never touching, inside the frame range, covering exactly the present
   frames) determine the list of (start, length) pairs uniquely, and `chunks` (what `_segments`
   / `_write` compute) is that list.  So a writer that emits any other table — split runs, merged
   runs, a run shifted by one — breaks one of the listed conditions; nothing else is left free. *)
From Model Require Import Base Segments.
From Proofs Require Import BaseFacts SegFacts.
Open Scope Z_scope.

Definition iv := (Z * Z)%type.                        (* (start, number of frames) *)
Definition iv_pos (r : iv) : Prop := 0 < snd r.
Fixpoint iv_sep (l : list iv) : Prop :=
  match l with
  | r1 :: ((r2 :: _) as t) => fst r1 + snd r1 < fst r2 /\ iv_sep t
  | _ => True
  end.
Definition iv_cov (l : list iv) (i : Z) : Prop :=
  exists r, In r l /\ fst r <= i < fst r + snd r.

Lemma iv_sep_tail r t : iv_sep (r :: t) -> iv_sep t.
Proof. destruct t as [|r2 t']; [intros _; exact I|]. cbn [iv_sep]. tauto. Qed.

(* every later run starts strictly behind the end of the first *)
Lemma iv_sep_after : forall t r, Forall iv_pos (r :: t) -> iv_sep (r :: t) ->
  forall q, In q t -> fst r + snd r < fst q.
Proof.
  induction t as [|r2 t IH]; intros r Hp Hs q Hq; [destruct Hq|].
  cbn [iv_sep] in Hs. destruct Hs as [H12 Hs].
  destruct Hq as [->|Hq]; [exact H12|].
  inversion Hp as [|? ? _ Hp2]; subst.
  pose proof (IH r2 Hp2 Hs q Hq) as H. inversion Hp2 as [|? ? Hr2 _]; subst.
  unfold iv_pos in Hr2. lia.
Qed.

Lemma iv_cov_cons r t i :
  iv_cov (r :: t) i <-> (fst r <= i < fst r + snd r) \/ iv_cov t i.
Proof.
  unfold iv_cov. split.
  - intros (q & [->|Hq] & Hi); [now left|right; now exists q].
  - intros [Hi|(q & Hq & Hi)]; [exists r|exists q]; (split; [|exact Hi]); cbn [In]; tauto.
Qed.

Lemma iv_cov_tail_after r t i : Forall iv_pos (r :: t) -> iv_sep (r :: t) ->
  iv_cov t i -> fst r + snd r < i.
Proof.
  intros Hp Hs (q & Hq & Hi). pose proof (iv_sep_after t r Hp Hs q Hq). lia.
Qed.

Lemma iv_unique : forall l1 l2,
  Forall iv_pos l1 -> Forall iv_pos l2 -> iv_sep l1 -> iv_sep l2 ->
  (forall i, iv_cov l1 i <-> iv_cov l2 i) -> l1 = l2.
Proof.
  induction l1 as [|[s1 n1] t1 IH]; intros l2 Hp1 Hp2 Hs1 Hs2 Hc.
  - destruct l2 as [|[s2 n2] t2]; [reflexivity|].
    inversion Hp2 as [|? ? Hr _]; subst. unfold iv_pos in Hr. cbn [snd] in Hr.
    assert (iv_cov [] s2) as (q & [] & _).
    apply Hc, iv_cov_cons. left. cbn [fst snd]. lia.
  - destruct l2 as [|[s2 n2] t2].
    + inversion Hp1 as [|? ? Hr _]; subst. unfold iv_pos in Hr. cbn [snd] in Hr.
      assert (iv_cov [] s1) as (q & [] & _).
      apply Hc, iv_cov_cons. left. cbn [fst snd]. lia.
    + pose proof Hp1 as Hp1'. pose proof Hp2 as Hp2'.
      inversion Hp1 as [|? ? Hr1 Hpt1]; subst. inversion Hp2 as [|? ? Hr2 Hpt2]; subst.
      unfold iv_pos in Hr1, Hr2. cbn [snd] in Hr1, Hr2.
      assert (forall i, iv_cov t1 i -> s1 + n1 < i) as A1
        by (intros i Hi; exact (iv_cov_tail_after (s1, n1) t1 i Hp1' Hs1 Hi)).
      assert (forall i, iv_cov t2 i -> s2 + n2 < i) as A2
        by (intros i Hi; exact (iv_cov_tail_after (s2, n2) t2 i Hp2' Hs2 Hi)).
      assert (forall i, (s1 <= i < s1 + n1) \/ iv_cov t1 i <-> (s2 <= i < s2 + n2) \/ iv_cov t2 i) as Hc'.
      { intros i. rewrite <- (iv_cov_cons (s1, n1) t1 i), <- (iv_cov_cons (s2, n2) t2 i). apply Hc. }
      assert (s1 = s2) as ->.
      { destruct (proj1 (Hc' s1)) as [H|H]; [left; lia| |apply A2 in H];
        (destruct (proj2 (Hc' s2)) as [H'|H']; [left; lia| |apply A1 in H']); lia. }
      assert (n1 = n2) as ->.
      { destruct (Z.lt_trichotomy n1 n2) as [L|[E|L]]; [|exact E|].
        - destruct (proj2 (Hc' (s2 + n1))) as [H|H]; [left; lia|lia|apply A1 in H; lia].
        - destruct (proj1 (Hc' (s2 + n2))) as [H|H]; [left; lia|lia|apply A2 in H; lia]. }
      f_equal. apply IH; [exact Hpt1|exact Hpt2|exact (iv_sep_tail _ _ Hs1)|exact (iv_sep_tail _ _ Hs2)|].
      intros i. split; intros Hi.
      * pose proof (A1 i Hi). destruct (proj1 (Hc' i)) as [H'|H']; [now right|lia|exact H'].
      * pose proof (A2 i Hi). destruct (proj2 (Hc' i)) as [H'|H']; [now right|lia|exact H'].
Qed.

(* ---- chunks, seen as intervals ---- *)
Definition iv_of (sc : Z * list V) : iv := (fst sc, zlength (snd sc)).

Lemma iv_sep_map l : separated l -> iv_sep (map iv_of l).
Proof.
  induction l as [|a [|b t] IH]; intros H; cbn [map iv_sep]; [exact I|exact I|].
  cbn [separated] in H. destruct H as [H1 H2]. split; [exact H1|]. exact (IH H2).
Qed.

Lemma iv_cov_map l i : iv_cov (map iv_of l) i <-> covers l i.
Proof.
  unfold iv_cov, covers. split.
  - intros (r & Hr & Hi). apply in_map_iff in Hr. destruct Hr as (sc & <- & Hsc). now exists sc.
  - intros (sc & Hsc & Hi). exists (iv_of sc). split; [now apply in_map|exact Hi].
Qed.

Lemma zlength_pos_nonnil {A} (l : list A) : l <> [] -> 0 < zlength l.
Proof. destruct l; [congruence|]. intros _. rewrite zlength_cons. pose proof (zlength_nonneg l). lia. Qed.

Theorem runs_canonical : forall fs (rs : list iv),
  Forall iv_pos rs -> iv_sep rs ->
  (forall i, iv_cov rs i -> 0 <= i < zlength fs) ->
  (forall i, 0 <= i < zlength fs -> (present (nth (Z.to_nat i) fs gap) = true <-> iv_cov rs i)) ->
  rs = map iv_of (chunks fs 0).
Proof.
  intros fs rs Hp Hs Hin Hc.
  destruct (chunks_shape fs 0) as [Hok Hsep]. rewrite Z.add_0_l in Hok.
  apply iv_unique; [exact Hp| |exact Hs|now apply iv_sep_map|].
  - apply Forall_forall. intros r Hr. apply in_map_iff in Hr. destruct Hr as (sc & <- & Hsc).
    rewrite Forall_forall in Hok. destruct (Hok sc Hsc) as (Hne & _).
    unfold iv_pos, iv_of. cbn [snd]. now apply zlength_pos_nonnil.
  - intros i. rewrite iv_cov_map. split; intros Hi.
    + pose proof (Hin i Hi) as R. apply (chunks_cover fs 0 i R). now apply Hc.
    + assert (0 <= i < zlength fs) as R.
      { destruct Hi as (sc & Hsc & Hi). rewrite Forall_forall in Hok.
        destruct (Hok sc Hsc) as (_ & H1 & H2 & _). lia. }
      apply Hc; [exact R|]. now apply (chunks_cover fs 0 i R).
Qed.

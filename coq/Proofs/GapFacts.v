(* GapFacts.v — the statement-by-statement container model (Container.v) refines the abstract file
   with holes (GFile.v): the generalisation of ContainerFacts.v from packed files to files whose
   blocks are in table order with padding between them and bytes behind them. *)
From Model Require Import Base Str Fmt Container AFile GFile.
From Proofs Require Import BaseFacts ContainerFacts ContainerProps.
From Coq Require Import ZifyBool.
Open Scope Z_scope.

(* ---------- layout facts ---------- *)
Lemma gspan_nonneg g : 0 <= gspan g.
Proof. unfold gspan. pose proof (zlength_nonneg (g_pad g)). pose proof (psize_nonneg (g_blk g)). lia. Qed.

Lemma gtotal_app l1 l2 : gtotal (l1 ++ l2) = gtotal l1 + gtotal l2.
Proof. induction l1 as [|b l1 IH]; cbn [gtotal app]; lia. Qed.

Lemma gtotal_nonneg l : 0 <= gtotal l.
Proof. induction l as [|b l IH]; cbn [gtotal]; [lia|pose proof (gspan_nonneg b); lia]. Qed.

Lemma glay_app l1 : forall off l2, glay off (l1 ++ l2) = glay off l1 ++ glay (off + gtotal l1) l2.
Proof.
  induction l1 as [|b l1 IH]; intros off l2; cbn [glay app gtotal].
  - now rewrite Z.add_0_r.
  - rewrite IH. now rewrite Z.add_assoc.
Qed.

Lemma glay_length l : forall off, length (glay off l) = length l.
Proof. induction l as [|b l IH]; intros off; cbn [glay length]; [reflexivity|now rewrite IH]. Qed.

Lemma glay_shift d l : forall off, map (shift d) (glay off l) = glay (off + d) l.
Proof.
  induction l as [|b l IH]; intros off; cbn [glay map]; [reflexivity|].
  rewrite IH. replace (off + gspan b + d) with (off + d + gspan b) by lia.
  f_equal. unfold shift, set_off, live_entry. cbn [e_type e_format e_off e_size e_cdate e_mdate e_adate e_comment].
  f_equal. lia.
Qed.

Lemma gbytes_length g : zlength (gbytes g) = gspan g.
Proof. unfold gbytes, gspan, psize. now rewrite zlength_app. Qed.

Lemma gdata_length l : zlength (flat_map gbytes l) = gtotal l.
Proof.
  induction l as [|b l IH]; cbn [flat_map gtotal]; [reflexivity|].
  rewrite zlength_app, IH, gbytes_length. reflexivity.
Qed.

Lemma gdata_length_nat l : length (flat_map gbytes l) = Z.to_nat (gtotal l).
Proof. rewrite <- gdata_length, zlength_correct. lia. Qed.

Definition gtypes_ok (l : list gblock) : Prop := Forall (fun g => l_type (g_blk g) <> 0) l.
Definition gty (g : gblock) : Z := l_type (g_blk g).

Lemma glay_no_unused l : gtypes_ok l -> forall off, existsb is_unused (glay off l) = false.
Proof.
  induction 1 as [|b l Hb Hl IH]; intros off; cbn [glay existsb]; [reflexivity|].
  rewrite IH. unfold is_unused, live_entry; cbn [e_type]. apply Z.eqb_neq in Hb. now rewrite Hb.
Qed.

Lemma glay_has_type ty l : forall off,
  existsb (has_type ty) (glay off l) = existsb (Z.eqb ty) (map gty l).
Proof.
  induction l as [|b l IH]; intros off; cbn [glay map existsb]; [reflexivity|].
  rewrite IH. unfold has_type, live_entry, gty; cbn. now rewrite Z.eqb_sym.
Qed.

Lemma gtable_has_type a ty : ty <> 0 ->
  existsb (has_type ty) (gtable a) = existsb (Z.eqb ty) (g_types a).
Proof.
  intros H. unfold gtable. rewrite existsb_app, glay_has_type, free_has_type by exact H.
  now rewrite orb_false_r.
Qed.

Lemma glay_types l : forall off, map e_type (glay off l) = map gty l.
Proof. induction l as [|b l IH]; intros off; cbn [glay map]; [reflexivity|now rewrite IH]. Qed.

(* the end of the last live block *)
Lemma glay_last_end l : forall off,
  match rev (glay off l) with
  | e :: _ => e_off e + e_size e
  | [] => off
  end = off + gtotal l.
Proof.
  intros off. destruct (list_last_cases l) as [E|[l' [b E]]]; rewrite E.
  - cbn. lia.
  - rewrite glay_app. cbn [glay]. rewrite rev_snoc. cbn [e_off e_size live_entry].
    rewrite gtotal_app. cbn [gtotal]. unfold gspan. lia.
Qed.

Lemma gtable_find_unused a f fr : gtypes_ok (gf_live a) -> gf_free a = f :: fr ->
  find_pos is_unused (gtable a) = Some (length (gf_live a)).
Proof.
  intros Ht Ef. unfold gtable. rewrite Ef.
  rewrite find_pos_app_none by (apply glay_no_unused; exact Ht).
  cbn [map find_pos]. cbn. rewrite glay_length. f_equal. lia.
Qed.

Lemma gtable_no_unused a : gtypes_ok (gf_live a) -> gf_free a = [] ->
  find_pos is_unused (gtable a) = None.
Proof.
  intros Ht Ef. unfold gtable. rewrite Ef. cbn [map]. rewrite app_nil_r.
  pose proof (glay_no_unused _ Ht (base (gf_n a))) as H.
  revert H. generalize (glay (base (gf_n a)) (gf_live a)). intros l.
  induction l as [|x l IH]; cbn [existsb find_pos]; intros H; [reflexivity|].
  apply orb_false_iff in H. destruct H as [Hx Hl]. rewrite Hx, (IH Hl). reflexivity.
Qed.

(* writing at the offset the unused slots carry: over the bytes behind it *)
Lemma skipn_len_plus_app {A} (pre : list A) n tail : skipn (length pre + n) (pre ++ tail) = skipn n tail.
Proof. induction pre as [|x pre IH]; cbn [length app Nat.add skipn]; [reflexivity|exact IH]. Qed.

Lemma write_data_overlay pre bs tail :
  write_data (zlength pre) bs (pre ++ tail) = pre ++ bs ++ skipn (length bs) tail.
Proof.
  unfold write_data. rewrite zlength_app.
  assert (H : (zlength pre + zlength tail <? zlength pre) = false).
  { pose proof (zlength_nonneg tail). lia. }
  rewrite H. rewrite zlength_correct, Nat2Z.id.
  rewrite firstn_len_app, skipn_len_plus_app. reflexivity.
Qed.

(* ---------- add_block refines g_add ---------- *)
Theorem gadd_refines a b c now p f fr x :
  gtypes_ok (gf_live a) -> blk_ok b ->
  existsb (Z.eqb (b_type b)) (g_types a) = false ->
  gf_free a = f :: fr -> str_write 256 c = Ok x -> b_payload b = Some p ->
  c_add (gconc a) b c now = (Done, gconc (g_add a (new_block b c p now))).
Proof.
  intros Ht [Hty Hsz] Hdup Ef Hc Hp. rewrite Hp in Hsz.
  unfold c_add. cbn [mem gconc tab data s_n].
  rewrite gtable_has_type, Hdup by exact Hty.
  rewrite (gtable_find_unused a f fr Ht Ef).
  set (L := glay (base (gf_n a)) (gf_live a)) in *.
  set (E := g_end a) in *.
  assert (Etab : gtable a = L ++ free_entry E f :: map (free_entry E) fr).
  { unfold gtable. rewrite Ef. reflexivity. }
  assert (HL : length L = length (gf_live a)) by (unfold L; apply glay_length).
  rewrite Etab. rewrite <- HL.
  rewrite skipn_S_len_app, free_no_live. rewrite Hc, Hp.
  unfold nth_entry. rewrite nth_len_app. cbn [e_off free_entry].
  rewrite set_nth_len_app, firstn_S_len_app, skipn_S_len_app, free_set_off.
  rewrite firstn_len_app.
  assert (Eps : psize (new_block b c p now) = b_size b) by (unfold psize, new_block; cbn [l_payload]; lia).
  assert (Ene : mkE (b_type b) (b_format b) E (b_size b) (b_cdate b) (b_mdate b) now c =
                live_entry (base (gf_n a) + gtotal (gf_live a) + zlength (gf_gap a)) (new_block b c p now)).
  { unfold live_entry. rewrite Eps. reflexivity. }
  rewrite Ene.
  f_equal. unfold gconc, g_add. cbn [gf_n]. f_equal.
  - (* Tdf.entries *)
    unfold gtable, g_end. cbn [gf_n gf_live gf_free gf_gap gf_tail]. rewrite Ef. cbn [tl].
    rewrite glay_app, gtotal_app. cbn [glay gtotal]. fold L. unfold gspan. cbn [g_pad g_blk].
    rewrite Eps. change (zlength (@nil Z)) with 0.
    replace (base (gf_n a) + gtotal (gf_live a) + zlength (gf_gap a)) with E by reflexivity.
    replace (base (gf_n a) + (gtotal (gf_live a) + (zlength (gf_gap a) + b_size b + 0)) + 0) with (E + b_size b)
      by (unfold E, g_end; lia).
    rewrite <- app_assoc. reflexivity.
  - (* the table on disk *)
    unfold gtable, g_end. cbn [gf_n gf_live gf_free gf_gap gf_tail]. rewrite Ef. cbn [tl].
    rewrite glay_app, gtotal_app. cbn [glay gtotal]. fold L. unfold gspan. cbn [g_pad g_blk].
    rewrite Eps. change (zlength (@nil Z)) with 0.
    replace (base (gf_n a) + gtotal (gf_live a) + zlength (gf_gap a)) with E by reflexivity.
    replace (base (gf_n a) + (gtotal (gf_live a) + (zlength (gf_gap a) + b_size b + 0)) + 0) with (E + b_size b)
      by (unfold E, g_end; lia).
    rewrite <- !app_assoc. rewrite skipn_len_app. reflexivity.
  - (* the data *)
    unfold gdata. cbn [gf_live gf_gap gf_tail].
    rewrite flat_map_app. cbn [flat_map]. rewrite app_nil_r.
    change (gbytes (mkG (gf_gap a) (new_block b c p now))) with (gf_gap a ++ p).
    cbn [l_payload new_block].
    replace (E - base (gf_n a)) with (zlength (flat_map gbytes (gf_live a) ++ gf_gap a))
      by (rewrite zlength_app, gdata_length; unfold E, g_end; lia).
    rewrite (app_assoc (flat_map gbytes (gf_live a)) (gf_gap a) (gf_tail a)).
    rewrite write_data_overlay. rewrite <- !app_assoc. reflexivity.
Qed.

(* ---------- remove_block refines g_remove ---------- *)
Definition gmerge (p : list Z) (l : list gblock) : list gblock :=
  match l with [] => [] | h :: r => mkG (p ++ g_pad h) (g_blk h) :: r end.
Definition gextra (p : list Z) (l : list gblock) : list Z :=
  match l with [] => p | _ :: _ => [] end.

Lemma gsplit_first ty l : existsb (Z.eqb ty) (map gty l) = true ->
  exists l1 g l2, l = l1 ++ g :: l2 /\ gty g = ty /\
                  existsb (Z.eqb ty) (map gty l1) = false /\
                  gremove ty l = (l1 ++ gmerge (g_pad g) l2, gextra (g_pad g) l2).
Proof.
  induction l as [|x l IH]; cbn [map existsb]; [discriminate|].
  destruct (Z.eqb_spec ty (gty x)) as [E|N]; cbn [orb]; intros H.
  - exists [], x, l. cbn [gremove app]. unfold gty in E. subst ty. rewrite Z.eqb_refl.
    repeat split; try reflexivity. destruct l; reflexivity.
  - destruct (IH H) as [l1 [b [l2 [E1 [E2 [E3 E4]]]]]].
    exists (x :: l1), b, l2.
    split; [rewrite E1; reflexivity|]. split; [exact E2|]. split.
    + cbn [map existsb]. rewrite E3. destruct (Z.eqb_spec ty (gty x)) as [E|_]; [congruence|reflexivity].
    + cbn [gremove]. unfold gty in N. destruct (Z.eqb_spec (l_type (g_blk x)) ty) as [E|_]; [congruence|].
      rewrite E4. reflexivity.
Qed.

Lemma glay_merge p l : forall off, glay (off + zlength p) l = glay off (gmerge p l).
Proof.
  intros off. destruct l as [|h r]; cbn [gmerge glay]; [reflexivity|].
  unfold gspan. cbn [g_pad g_blk]. rewrite zlength_app. f_equal.
  - f_equal. lia.
  - f_equal. lia.
Qed.

Lemma gtotal_merge p l : gtotal (gmerge p l) + zlength (gextra p l) = gtotal l + zlength p.
Proof.
  destruct l as [|h r]; cbn [gmerge gextra gtotal].
  - lia.
  - unfold gspan. cbn [g_pad g_blk]. rewrite zlength_app. change (zlength (@nil Z)) with 0. lia.
Qed.

Lemma gdata_merge p l : flat_map gbytes (gmerge p l) ++ gextra p l = p ++ flat_map gbytes l.
Proof.
  destruct l as [|h r]; cbn [gmerge gextra flat_map].
  - now rewrite app_nil_r.
  - unfold gbytes at 1. cbn [g_pad g_blk]. rewrite app_nil_r. unfold gbytes at 2. now rewrite <- !app_assoc.
Qed.

Lemma gfind_pos_first ty l1 b l2 off : gty b = ty ->
  existsb (Z.eqb ty) (map gty l1) = false ->
  forall rest, find_pos (has_type ty) (glay off (l1 ++ b :: l2) ++ rest) = Some (length l1).
Proof.
  intros Hb Hn rest. rewrite glay_app. cbn [glay]. rewrite <- app_assoc.
  rewrite find_pos_app_none by (rewrite glay_has_type; exact Hn).
  cbn [app find_pos]. unfold has_type at 1. cbn [e_type live_entry]. unfold gty in Hb. rewrite Hb, Z.eqb_refl.
  cbn [option_map]. rewrite glay_length. f_equal. lia.
Qed.

Lemma free_fresh off now : free_entry off (fresh_slot now) = unused_entry off now.
Proof. reflexivity. Qed.

Lemma cut_payload (pre pay rest : list Z) :
  firstn (Z.to_nat (zlength pre)) (pre ++ pay ++ rest) ++
  skipn (Z.to_nat (zlength pre) + Z.to_nat (zlength pay)) (pre ++ pay ++ rest) = pre ++ rest.
Proof.
  rewrite !zlength_correct, !Nat2Z.id. rewrite firstn_len_app. f_equal.
  rewrite skipn_len_plus_app. apply skipn_len_app.
Qed.

Lemma gdata_split l1 b l2 gap tail :
  flat_map gbytes (l1 ++ b :: l2) ++ gap ++ tail =
  (flat_map gbytes l1 ++ g_pad b) ++ l_payload (g_blk b) ++ (flat_map gbytes l2 ++ gap ++ tail).
Proof. rewrite flat_map_app. cbn [flat_map]. unfold gbytes at 2. now rewrite <- !app_assoc. Qed.

Theorem gremove_refines a ty now :
  gtypes_ok (gf_live a) -> ty <> 0 ->
  existsb (Z.eqb ty) (g_types a) = true ->
  c_remove (gconc a) ty now = (Done, gconc (g_remove a ty now)).
Proof.
  intros Ht Hty Hin. unfold g_types in Hin. fold gty in Hin.
  destruct (gsplit_first ty (gf_live a) Hin) as [l1 [b [l2 [El [Hb [Hn Hrm]]]]]].
  unfold c_remove. cbn [mem gconc tab data s_n].
  set (B := base (gf_n a)).
  set (FR := gf_free a).
  set (E := g_end a).
  set (p := g_pad b).
  assert (Etab : gtable a = glay B l1 ++ live_entry (B + gtotal l1 + zlength p) (g_blk b) ::
                 (glay (B + gtotal l1 + gspan b) l2 ++ map (free_entry E) FR)).
  { unfold gtable. fold B. fold FR. fold E. rewrite El at 1. rewrite glay_app. cbn [glay].
    now rewrite <- app_assoc. }
  assert (Etot : gtotal (gf_live a) = gtotal l1 + gspan b + gtotal l2).
  { rewrite El, gtotal_app. cbn [gtotal]. lia. }
  assert (Hfp : find_pos (has_type ty) (gtable a) = Some (length l1)).
  { unfold gtable. rewrite El. now apply gfind_pos_first. }
  rewrite Hfp. rewrite Etab.
  assert (HL : length (glay B l1) = length l1) by apply glay_length.
  rewrite <- HL.
  unfold nth_entry. rewrite nth_len_app, remove_nth_len_app.
  rewrite firstn_len_app, skipn_len_app.
  cbn [e_size e_off live_entry].
  rewrite map_app, glay_shift, free_shift.
  set (l' := l1 ++ gmerge p l2).
  assert (EL2 : glay (B + gtotal l1 + gspan b + - psize (g_blk b)) l2 = glay (B + gtotal l1) (gmerge p l2)).
  { rewrite <- glay_merge. f_equal. unfold gspan. fold p. lia. }
  rewrite EL2.
  assert (EM2 : glay B l1 ++ glay (B + gtotal l1) (gmerge p l2) = glay B l').
  { unfold l'. now rewrite glay_app. }
  rewrite app_assoc, EM2.
  assert (Etl : gtotal l' + zlength (gextra p l2) = gtotal l1 + gtotal l2 + zlength p).
  { unfold l'. rewrite gtotal_app. pose proof (gtotal_merge p l2). lia. }
  unfold g_remove. rewrite Hrm. fold p. fold l'. fold FR.
  destruct FR as [|f0 fr0] eqn:EFR.
  - (* the table was full: the freed slot takes the end of the last live block *)
    cbn [map]. rewrite app_nil_r.
    pose proof (glay_last_end l' B) as Hlast. rewrite Hlast.
    f_equal. unfold gconc. cbn [gf_n]. f_equal.
    + unfold gtable, g_end. cbn [gf_n gf_live gf_free gf_gap map]. fold B.
      change (zlength (@nil Z)) with 0. rewrite free_fresh. now rewrite Z.add_0_r.
    + unfold gtable, g_end. cbn [gf_n gf_live gf_free gf_gap map]. fold B.
      change (zlength (@nil Z)) with 0. rewrite free_fresh, Z.add_0_r.
      rewrite firstn_len_app. rewrite <- EM2, <- app_assoc. rewrite skipn_len_app.
      reflexivity.
    + unfold gdata. cbn [gf_live gf_gap gf_tail app]. rewrite El, gdata_split. fold p.
      replace (B + gtotal l1 + zlength p - B) with (zlength (flat_map gbytes l1 ++ p))
        by (rewrite zlength_app, gdata_length; lia).
      unfold psize. rewrite cut_payload.
      unfold l'. rewrite flat_map_app. rewrite <- !app_assoc. f_equal.
      rewrite (app_assoc (flat_map gbytes (gmerge p l2))), gdata_merge. now rewrite <- !app_assoc.
  - (* there were unused slots: they move with the data, and the freed one joins them *)
    assert (Eend : E + - psize (g_blk b) = B + gtotal l' + zlength (gextra p l2 ++ gf_gap a)).
    { unfold E, g_end. fold B. rewrite zlength_app. unfold gspan in Etot. fold p in Etot. lia. }
    rewrite Eend.
    set (E' := B + gtotal l' + zlength (gextra p l2 ++ gf_gap a)).
    assert (Hlast : match rev (glay B l' ++ map (free_entry E') (f0 :: fr0)) with
                    | e :: _ => e_off e + e_size e | [] => B end = E').
    { destruct (list_last_cases (f0 :: fr0)) as [Ex|[fr' [f' Ex]]]; [discriminate|].
      rewrite Ex, map_app. cbn [map]. rewrite app_assoc, rev_snoc. cbn. lia. }
    rewrite Hlast.
    f_equal. unfold gconc. cbn [gf_n]. f_equal.
    + unfold gtable, g_end. cbn [gf_n gf_live gf_free gf_gap]. fold B. fold E'.
      rewrite map_app. cbn [map]. rewrite free_fresh. now rewrite <- app_assoc.
    + unfold gtable, g_end. cbn [gf_n gf_live gf_free gf_gap]. fold B. fold E'.
      rewrite map_app. cbn [map]. rewrite free_fresh.
      rewrite firstn_len_app. rewrite <- EM2, <- !app_assoc. rewrite skipn_len_app. reflexivity.
    + unfold gdata. cbn [gf_live gf_gap gf_tail]. rewrite El, gdata_split. fold p.
      replace (B + gtotal l1 + zlength p - B) with (zlength (flat_map gbytes l1 ++ p))
        by (rewrite zlength_app, gdata_length; lia).
      unfold psize. rewrite cut_payload.
      unfold l'. rewrite flat_map_app. rewrite <- !app_assoc. f_equal.
      rewrite (app_assoc (flat_map gbytes (gmerge p l2))), gdata_merge. now rewrite <- !app_assoc.
Qed.

(* ---------- finding blocks ---------- *)
Lemma gfind_has_type ty l1 b l2 off rest : gty b = ty ->
  existsb (Z.eqb ty) (map gty l1) = false ->
  find (has_type ty) (glay off (l1 ++ b :: l2) ++ rest) =
  Some (live_entry (off + gtotal l1 + zlength (g_pad b)) (g_blk b)).
Proof.
  intros Hb Hn. rewrite glay_app. cbn [glay]. rewrite <- app_assoc.
  generalize (off + gtotal l1). intros o.
  assert (Hl : existsb (has_type ty) (glay off l1) = false) by (rewrite glay_has_type; exact Hn).
  revert Hl. generalize (glay off l1). intros L. induction L as [|x L IH]; cbn [existsb find app]; intros Hl.
  - unfold has_type at 1. cbn [e_type live_entry]. unfold gty in Hb. now rewrite Hb, Z.eqb_refl.
  - apply orb_false_iff in Hl. destruct Hl as [Hx HL]. rewrite Hx. now apply IH.
Qed.

Lemma gfind_none_type ty a : ty <> 0 -> existsb (Z.eqb ty) (g_types a) = false ->
  find (has_type ty) (gtable a) = None.
Proof.
  intros Hty Hn. rewrite <- gtable_has_type in Hn by exact Hty.
  revert Hn. generalize (gtable a). intros L. induction L as [|x L IH]; cbn [existsb find]; intros H; [reflexivity|].
  apply orb_false_iff in H. destruct H as [Hx HL]. rewrite Hx. now apply IH.
Qed.

Lemma gl_find_split ty l1 b l2 : gty b = ty -> existsb (Z.eqb ty) (map gty l1) = false ->
  find (fun g => l_type (g_blk g) =? ty) (l1 ++ b :: l2) = Some b.
Proof.
  intros Hb Hn. induction l1 as [|x l1 IH]; cbn [app find map existsb] in *.
  - unfold gty in Hb. now rewrite Hb, Z.eqb_refl.
  - apply orb_false_iff in Hn. destruct Hn as [Hx Hl]. unfold gty in Hx. rewrite Z.eqb_sym, Hx. now apply IH.
Qed.

Lemma gl_find_some_in ty l b : find (fun g => l_type (g_blk g) =? ty) l = Some b ->
  existsb (Z.eqb ty) (map gty l) = true /\ gty b = ty.
Proof.
  induction l as [|x l IH]; cbn [map existsb find]; [discriminate|]. unfold gty at 1.
  rewrite (Z.eqb_sym ty). destruct (Z.eqb_spec (l_type (g_blk x)) ty) as [E|N]; cbn [orb].
  - intros H. inversion H; subst. split; reflexivity.
  - exact IH.
Qed.

Lemma gl_find_none ty l : existsb (Z.eqb ty) (map gty l) = false ->
  find (fun g => l_type (g_blk g) =? ty) l = None.
Proof.
  induction l as [|x l IH]; cbn [map existsb find]; intros H; [reflexivity|].
  apply orb_false_iff in H. destruct H as [Hx Hl]. unfold gty in Hx. rewrite Z.eqb_sym, Hx. now apply IH.
Qed.

(* the types after a removal *)
Lemma gmerge_types p l : map gty (gmerge p l) = map gty l.
Proof. destruct l; reflexivity. Qed.

Lemma nodup_remove_mid (l1 : list Z) x l2 : NoDup (l1 ++ x :: l2) -> NoDup (l1 ++ l2) /\ ~ In x (l1 ++ l2).
Proof. intros H. split; [now apply NoDup_remove_1 in H|now apply NoDup_remove_2 in H]. Qed.

Lemma gtypes_ok_forall l : gtypes_ok l -> Forall (fun t => t <> 0) (map gty l).
Proof. induction 1; cbn [map]; constructor; assumption. Qed.

Lemma gtypes_ok_merge p l : gtypes_ok l -> gtypes_ok (gmerge p l).
Proof. intros H. destruct l as [|h r]; [constructor|]. inversion H; subst. constructor; assumption. Qed.

(* what g_remove leaves, in terms of the split *)
Lemma g_remove_shape a ty now l1 b l2 : gf_live a = l1 ++ b :: l2 -> gty b = ty ->
  existsb (Z.eqb ty) (map gty l1) = false ->
  gf_live (g_remove a ty now) = l1 ++ gmerge (g_pad b) l2 /\
  gf_n (g_remove a ty now) = gf_n a /\
  gf_free (g_remove a ty now) = gf_free a ++ [fresh_slot now].
Proof.
  intros El Hb Hn.
  assert (Hin : existsb (Z.eqb ty) (map gty (gf_live a)) = true).
  { rewrite El, map_app, existsb_app. cbn [map existsb]. rewrite <- Hb, Z.eqb_refl. now rewrite orb_true_r. }
  destruct (gsplit_first ty _ Hin) as [k1 [c [k2 [Ek [Hc [Hk Hrm]]]]]].
  assert (k1 = l1 /\ c = b /\ k2 = l2) as [-> [-> ->]].
  { rewrite El in Ek. clear - Ek Hb Hc Hn Hk. revert k1 Ek Hk. induction l1 as [|x l1 IH]; intros [|y k1] Ek Hk; cbn [app] in *.
    - inversion Ek. repeat split; reflexivity.
    - inversion Ek; subst y. cbn [map existsb] in Hk. rewrite Hb, Z.eqb_refl in Hk. discriminate.
    - inversion Ek; subst x. cbn [map existsb] in Hn. rewrite Hc, Z.eqb_refl in Hn. discriminate.
    - inversion Ek as [[Ex Er]]. subst y. cbn [map existsb] in Hn, Hk.
      apply orb_false_iff in Hn. apply orb_false_iff in Hk. destruct Hn as [_ Hn]. destruct Hk as [_ Hk].
      destruct (IH Hn k1 Er Hk) as [-> [-> ->]]. repeat split; reflexivity. }
  unfold g_remove. rewrite Hrm. destruct (gf_free a); cbn [gf_live gf_n gf_free app]; repeat split; reflexivity.
Qed.

Lemma g_remove_inv a ty now : g_inv a -> existsb (Z.eqb ty) (g_types a) = true ->
  g_inv (g_remove a ty now) /\ existsb (Z.eqb ty) (g_types (g_remove a ty now)) = false /\
  gf_free (g_remove a ty now) <> [].
Proof.
  intros [[Ht [Hn Hg]] Hnd] Hin. unfold g_types in Hin. fold gty in Hin.
  destruct (gsplit_first ty _ Hin) as [l1 [b [l2 [El [Hb [Hk _]]]]]].
  destruct (g_remove_shape a ty now l1 b l2 El Hb Hk) as [EL [EN EF]].
  assert (Hty : map gty (l1 ++ gmerge (g_pad b) l2) = map gty l1 ++ map gty l2) by now rewrite map_app, gmerge_types.
  unfold g_types in Hnd. fold gty in Hnd. rewrite El, map_app in Hnd. cbn [map] in Hnd.
  destruct (nodup_remove_mid _ _ _ Hnd) as [Hnd' Hnot].
  unfold g_inv, g_wf. repeat split.
  - rewrite EL. unfold gtypes_ok in *. fold (gtypes_ok (l1 ++ gmerge (g_pad b) l2)).
    rewrite El in Ht. apply Forall_app in Ht. destruct Ht as [H1 H2]. inversion H2; subst.
    apply Forall_app. split; [exact H1|]. now apply gtypes_ok_merge.
  - rewrite EL, EN, EF. rewrite El in Hn. rewrite !zlength_correct in *. rewrite !app_length in *.
    destruct l2; cbn [gmerge length] in *; lia.
  - rewrite EF. intros H. destruct (gf_free a); discriminate.
  - unfold g_types. fold gty. rewrite EL, Hty. exact Hnd'.
  - unfold g_types. fold gty. rewrite EL, Hty.
    destruct (existsb (Z.eqb ty) (map gty l1 ++ map gty l2)) eqn:Ex; [|reflexivity].
    apply existsb_exists in Ex. destruct Ex as [t [Hi Et]]. apply Z.eqb_eq in Et. subst t.
    rewrite <- Hb in Hi. contradiction.
  - rewrite EF. destruct (gf_free a); discriminate.
Qed.

Lemma g_add_inv a nb : g_inv a -> l_type nb <> 0 -> gf_free a <> [] ->
  existsb (Z.eqb (l_type nb)) (g_types a) = false -> g_inv (g_add a nb).
Proof.
  intros [[Ht [Hn Hg]] Hnd] Hty Hfree Hdup. unfold g_inv, g_wf, g_add, g_types. cbn [gf_live gf_free gf_n gf_gap].
  repeat split.
  - apply Forall_app. split; [exact Ht|constructor; [exact Hty|constructor]].
  - destruct (gf_free a) as [|f fr]; [congruence|]. cbn [tl].
    rewrite !zlength_correct in *. rewrite app_length. cbn [length] in *. lia.
  - rewrite map_app. cbn [map g_blk]. apply NoDup_app_snoc; [exact Hnd|].
    intros Hin. assert (existsb (Z.eqb (l_type nb)) (g_types a) = true); [|congruence].
    apply existsb_exists. exists (l_type nb). split; [exact Hin|apply Z.eqb_refl].
Qed.

(* ---------- replace_block on a file with holes ---------- *)
Theorem greplace_refines a b c n1 n2 old p x :
  g_inv a -> blk_ok b ->
  g_find a (b_type b) = Some old -> b_payload b = Some p ->
  str_write 256 (match c with Some c => c | None => l_comment old end) = Ok x ->
  c_replace (gconc a) b c n1 n2 =
  (Done, gconc (g_add (g_remove a (b_type b) n1)
                      (new_block b (match c with Some c => c | None => l_comment old end) p n2))).
Proof.
  intros Hinv Hb Hf Hp Hc. pose proof Hb as [Hty _]. pose proof Hinv as [[Ht [Hn Hg]] Hnd].
  unfold g_find in Hf.
  destruct (find (fun g => l_type (g_blk g) =? b_type b) (gf_live a)) as [og|] eqn:Hfg; [|discriminate].
  cbn [option_map] in Hf. inversion Hf; subst old. clear Hf.
  destruct (gl_find_some_in _ _ _ Hfg) as [Hin Hto].
  destruct (gsplit_first _ _ Hin) as [l1 [ob [l2 [El [Hob [Hk Hrm]]]]]].
  assert (og = ob).
  { rewrite El in Hfg. rewrite (gl_find_split _ l1 ob l2 Hob Hk) in Hfg. now inversion Hfg. }
  subst ob.
  unfold c_replace. cbn [mem gconc].
  assert (Efind : find (has_type (b_type b)) (gtable a) =
                  Some (live_entry (base (gf_n a) + gtotal l1 + zlength (g_pad og)) (g_blk og))).
  { unfold gtable. rewrite El. now apply gfind_has_type. }
  rewrite Efind. cbn [e_comment live_entry]. rewrite Hp, Hc.
  assert (Efp : find_pos (has_type (b_type b)) (gtable a) = Some (length l1)).
  { unfold gtable. rewrite El. now apply gfind_pos_first. }
  rewrite Efp.
  assert (Erem : map e_type (remove_nth (length l1) (gtable a)) ++ [0] =
                 map gty (l1 ++ l2) ++ map (fun _ => 0) (gf_free a) ++ [0]).
  { unfold gtable. rewrite El at 1. rewrite glay_app. cbn [glay]. rewrite <- app_assoc.
    rewrite <- (glay_length l1 (base (gf_n a))). cbn [app]. rewrite remove_nth_len_app.
    rewrite !map_app, !glay_types, free_types. now rewrite <- !app_assoc. }
  rewrite Erem.
  assert (Hts : Forall (fun t => t <> 0) (map gty (l1 ++ l2))).
  { apply gtypes_ok_forall. rewrite El in Ht. apply Forall_app in Ht. destruct Ht as [H1 H2].
    inversion H2; subst. apply Forall_app. split; assumption. }
  assert (Hzs : Forall (fun t => t = 0) (map (fun _ : fslot => 0) (gf_free a))) by apply zeros_forall.
  destruct (remaining_ok _ _ Hts Hzs) as [k [Hk1 Hk2]]. rewrite Hk1, Hk2.
  fold (gconc a).
  assert (Hin' : existsb (Z.eqb (b_type b)) (g_types a) = true) by exact Hin.
  rewrite (gremove_refines a (b_type b) n1 Ht Hty Hin').
  destruct (g_remove_inv a (b_type b) n1 Hinv Hin') as [[[Ht2 _] _] [Hgone Hfree2]].
  set (a2 := g_remove a (b_type b) n1) in *.
  destruct (gf_free a2) as [|f fr] eqn:Ef2; [congruence|].
  eapply gadd_refines; try eassumption.
Qed.

Lemma c_greplace_no_block a b c n1 n2 : b_type b <> 0 -> g_find a (b_type b) = None ->
  c_replace (gconc a) b c n1 n2 = (Raised EValue, gconc a).
Proof.
  intros Hty Hf. unfold c_replace. cbn [mem gconc].
  rewrite gfind_none_type; [reflexivity|exact Hty|].
  unfold g_find in Hf. destruct (existsb (Z.eqb (b_type b)) (g_types a)) eqn:E; [|reflexivity].
  unfold g_types in E. fold gty in E. destruct (gsplit_first _ _ E) as [l1 [ob [l2 [El [Hob [Hk _]]]]]].
  rewrite El, (gl_find_split _ l1 ob l2 Hob Hk) in Hf. discriminate.
Qed.

Lemma c_greplace_refused a b c n1 n2 old : gtypes_ok (gf_live a) -> b_type b <> 0 ->
  g_find a (b_type b) = Some old ->
  (b_payload b = None \/ comment_ok (match c with Some c => c | None => l_comment old end) = false) ->
  exists e, c_replace (gconc a) b c n1 n2 = (Raised e, gconc a).
Proof.
  intros Ht Hty Hf Hbad. unfold g_find in Hf.
  destruct (find (fun g => l_type (g_blk g) =? b_type b) (gf_live a)) as [og|] eqn:Hfg; [|discriminate].
  cbn [option_map] in Hf. inversion Hf; subst old. clear Hf.
  destruct (gl_find_some_in _ _ _ Hfg) as [Hin Hto].
  destruct (gsplit_first _ _ Hin) as [l1 [ob [l2 [El [Hob [Hk Hrm]]]]]].
  assert (og = ob).
  { rewrite El in Hfg. rewrite (gl_find_split _ l1 ob l2 Hob Hk) in Hfg. now inversion Hfg. }
  subst ob.
  unfold c_replace. cbn [mem gconc].
  assert (Efind : find (has_type (b_type b)) (gtable a) =
                  Some (live_entry (base (gf_n a) + gtotal l1 + zlength (g_pad og)) (g_blk og))).
  { unfold gtable. rewrite El. now apply gfind_has_type. }
  rewrite Efind. cbn [e_comment live_entry].
  destruct (b_payload b) as [p|]; [|eexists; reflexivity].
  destruct Hbad as [Hbad|Hbad]; [discriminate|]. unfold comment_ok in Hbad.
  destruct (str_write 256 (match c with Some c0 => c0 | None => l_comment (g_blk og) end)); [discriminate|].
  eexists; reflexivity.
Qed.

Lemma gtable_skip_no_live a f fr : gf_free a = f :: fr ->
  existsb is_live (skipn (S (length (gf_live a))) (gtable a)) = false.
Proof.
  intros Ef. unfold gtable. rewrite Ef. cbn [map]. rewrite <- (glay_length (gf_live a) (base (gf_n a))).
  rewrite skipn_S_len_app. apply free_no_live.
Qed.

Lemma g_find_none_types a ty : g_find a ty = None -> existsb (Z.eqb ty) (g_types a) = false.
Proof.
  unfold g_find. intros Hf. destruct (existsb (Z.eqb ty) (g_types a)) eqn:E; [|reflexivity].
  unfold g_types in E. fold gty in E. destruct (gsplit_first _ _ E) as [l1 [ob [l2 [El [Hob [Hk _]]]]]].
  rewrite El, (gl_find_split _ l1 ob l2 Hob Hk) in Hf. discriminate.
Qed.

Lemma g_find_some_types a ty old : g_find a ty = Some old -> existsb (Z.eqb ty) (g_types a) = true.
Proof.
  unfold g_find. destruct (find _ (gf_live a)) as [og|] eqn:Hfg; [|discriminate]. intros _.
  now destruct (gl_find_some_in _ _ _ Hfg).
Qed.

(* THE refinement theorem for files with holes *)
Theorem gstep_refines a o : g_inv a -> op_ok o ->
  match g_step a o with
  | Some a' => step (gconc a) o = (Done, gconc a') /\ g_inv a'
  | None => exists e, step (gconc a) o = (Raised e, gconc a)
  end.
Proof.
  intros Hinv Hok. pose proof Hinv as [[Ht [Hn Hg]] Hnd].
  destruct o as [b c now|ty now|b c n1 n2|b n1 n2|]; cbn [g_step step op_ok] in *.
  - (* add *)
    pose proof Hok as [Hty Hsz].
    destruct (b_payload b) as [p|] eqn:Hp.
    + destruct (gf_free a) as [|f fr] eqn:Ef.
      * exists EValue. unfold c_add. cbn [mem gconc].
        destruct (existsb (has_type (b_type b)) (gtable a)); [reflexivity|].
        rewrite gtable_no_unused by assumption. reflexivity.
      * destruct (existsb (Z.eqb (b_type b)) (g_types a)) eqn:Hdup; cbn [negb andb].
        { exists EValue. unfold c_add. cbn [mem gconc]. rewrite gtable_has_type, Hdup by exact Hty. reflexivity. }
        destruct (comment_ok c) eqn:Hc.
        { destruct (comment_ok_true _ Hc) as [x Hx]. split.
          - eapply gadd_refines; eassumption.
          - apply g_add_inv; [exact Hinv|exact Hty|rewrite Ef; discriminate|exact Hdup]. }
        { unfold comment_ok in Hc. destruct (str_write 256 c) as [|e] eqn:Hw; [discriminate|].
          exists e. unfold c_add. cbn [mem gconc]. rewrite gtable_has_type, Hdup by exact Hty.
          rewrite (gtable_find_unused a f fr Ht Ef), (gtable_skip_no_live a f fr Ef), Hw. reflexivity. }
    + exists (match gf_free a with
              | [] => EValue
              | _ :: _ => if existsb (Z.eqb (b_type b)) (g_types a) then EValue else
                          match str_write 256 c with Err e => e | Ok _ => b_err b end
              end).
      unfold c_add. cbn [mem gconc]. rewrite gtable_has_type by exact Hty.
      destruct (existsb (Z.eqb (b_type b)) (g_types a)) eqn:Hdup.
      { destruct (gf_free a); reflexivity. }
      destruct (gf_free a) as [|f fr] eqn:Ef.
      { rewrite gtable_no_unused by assumption. reflexivity. }
      rewrite (gtable_find_unused a f fr Ht Ef), (gtable_skip_no_live a f fr Ef).
      destruct (str_write 256 c); [rewrite Hp|]; reflexivity.
  - (* remove *)
    destruct (existsb (Z.eqb ty) (g_types a)) eqn:Hin.
    + split; [now apply gremove_refines|now apply g_remove_inv].
    + exists EValue. unfold c_remove. cbn [mem gconc].
      assert (Hfp : find_pos (has_type ty) (gtable a) = None).
      { rewrite <- gtable_has_type in Hin by exact Hok. revert Hin. generalize (gtable a).
        intros L. induction L as [|x L IH]; cbn [existsb find_pos]; intros H; [reflexivity|].
        apply orb_false_iff in H. destruct H as [Hx HL]. rewrite Hx, (IH HL). reflexivity. }
      rewrite Hfp. reflexivity.
  - (* replace *)
    pose proof Hok as [Hty Hsz].
    destruct (g_find a (b_type b)) as [old|] eqn:Hf.
    + destruct (b_payload b) as [p|] eqn:Hp.
      * destruct (comment_ok (match c with Some c0 => c0 | None => l_comment old end)) eqn:Hc.
        { destruct (comment_ok_true _ Hc) as [x Hx]. split.
          - eapply greplace_refines; eassumption.
          - pose proof (g_find_some_types _ _ _ Hf) as Hin.
            destruct (g_remove_inv a (b_type b) n1 Hinv Hin) as [Hi2 [Hgone Hfree2]].
            apply g_add_inv; [exact Hi2|exact Hty|exact Hfree2|exact Hgone]. }
        { eapply c_greplace_refused; try eassumption. right. exact Hc. }
      * eapply c_greplace_refused; try eassumption. left. exact Hp.
    + assert (Hr : c_replace (gconc a) b c n1 n2 = (Raised EValue, gconc a)) by now apply c_greplace_no_block.
      destruct (b_payload b); exists EValue; exact Hr.
  - (* setter *)
    pose proof Hok as [Hty Hsz]. unfold c_set. cbn [mem gconc]. rewrite gtable_has_type by exact Hty.
    destruct (g_find a (b_type b)) as [old|] eqn:Hf.
    + pose proof (g_find_some_types _ _ _ Hf) as Hin. rewrite Hin.
      fold (gconc a).
      destruct (b_payload b) as [p|] eqn:Hp.
      * destruct (comment_ok (l_comment old)) eqn:Hc.
        { destruct (comment_ok_true _ Hc) as [x Hx]. split.
          - eapply (greplace_refines a b None); eassumption.
          - destruct (g_remove_inv a (b_type b) n1 Hinv Hin) as [Hi2 [Hgone Hfree2]].
            apply g_add_inv; [exact Hi2|exact Hty|exact Hfree2|exact Hgone]. }
        { eapply (c_greplace_refused a b None); try eassumption. right. exact Hc. }
      * eapply (c_greplace_refused a b None); try eassumption. left. exact Hp.
    + pose proof (g_find_none_types _ _ Hf) as Hnin. rewrite Hnin. fold (gconc a).
      destruct (b_payload b) as [p|] eqn:Hp.
      * destruct (gf_free a) as [|f fr] eqn:Ef.
        { exists EValue. unfold c_add. cbn [mem gconc]. rewrite gtable_has_type, Hnin by exact Hty.
          rewrite gtable_no_unused by assumption. reflexivity. }
        split.
        { eapply gadd_refines; try eassumption. reflexivity. }
        { apply g_add_inv; [exact Hinv|exact Hty|rewrite Ef; discriminate|exact Hnin]. }
      * exists (match gf_free a with [] => EValue | _ :: _ => b_err b end).
        unfold c_add. cbn [mem gconc]. rewrite gtable_has_type, Hnin by exact Hty.
        destruct (gf_free a) as [|f fr] eqn:Ef.
        { rewrite gtable_no_unused by assumption. reflexivity. }
        rewrite (gtable_find_unused a f fr Ht Ef), (gtable_skip_no_live a f fr Ef).
        cbn. rewrite Hp. reflexivity.
  - (* reopen *)
    split; [reflexivity|exact Hinv].
Qed.

(* ---------- histories ---------- *)
Lemma gnext_refines a o : g_inv a -> op_ok o ->
  snd (step (gconc a) o) = gconc (g_next a o) /\ g_inv (g_next a o).
Proof.
  intros Hi Ho. pose proof (gstep_refines a o Hi Ho) as H. unfold g_next.
  destruct (g_step a o) as [a'|].
  - destruct H as [-> Hi']. split; [reflexivity|exact Hi'].
  - destruct H as [e ->]. split; [reflexivity|exact Hi].
Qed.

Theorem grun_refines ops : forall a, g_inv a -> Forall op_ok ops ->
  run_ops (gconc a) ops = gconc (g_run a ops) /\ g_inv (g_run a ops).
Proof.
  induction ops as [|o ops IH]; intros a Hi Ho; cbn [run_ops g_run fold_left].
  - split; [reflexivity|exact Hi].
  - inversion Ho as [|? ? Ho1 Ho2]; subst.
    destruct (gnext_refines a o Hi Ho1) as [E Hi']. rewrite E. now apply IH.
Qed.

Theorem run_ordered s ops : ordered s -> Forall op_ok ops -> ordered (run_ops s ops).
Proof.
  intros [a [Hi ->]] Ho. destruct (grun_refines ops a Hi Ho) as [E Hi'].
  exists (g_run a ops). split; assumption.
Qed.

Theorem gstep_atomic s o e s' : ordered s -> op_ok o -> step s o = (Raised e, s') -> s' = s.
Proof.
  intros [a [Hi ->]] Ho E. pose proof (gstep_refines a o Hi Ho) as H.
  destruct (g_step a o) as [a'|].
  - destruct H as [E2 _]. rewrite E in E2. discriminate.
  - destruct H as [e' E2]. rewrite E in E2. now inversion E2.
Qed.

(* ---------- an ordered file is structurally sound (C03's wf) ---------- *)
Lemma gtable_length a : g_wf a -> zlength (gtable a) = gf_n a.
Proof.
  intros [_ [Hn _]]. unfold gtable. rewrite zlength_app, !zlength_correct, glay_length, map_length in *.
  exact Hn.
Qed.

Lemma glay_in_range l : forall off,
  Forall (fun e => off <= e_off e /\ 0 <= e_size e /\ e_off e + e_size e <= off + gtotal l) (glay off l).
Proof.
  induction l as [|b l IH]; intros off; cbn [glay gtotal]; constructor.
  - cbn [e_off e_size live_entry]. pose proof (psize_nonneg (g_blk b)). pose proof (zlength_nonneg (g_pad b)).
    pose proof (gtotal_nonneg l). unfold gspan. lia.
  - eapply Forall_impl; [|apply IH]. cbn beta. intros e [H1 [H2 H3]].
    pose proof (gspan_nonneg b). lia.
Qed.

Lemma glay_ordered l : forall off,
  ForallOrdPairs (fun e1 e2 => e_off e1 + e_size e1 <= e_off e2) (glay off l).
Proof.
  induction l as [|b l IH]; intros off; cbn [glay]; constructor.
  - eapply Forall_impl; [|apply (glay_in_range l (off + gspan b))]. cbn beta.
    intros e [H1 _]. cbn [e_off e_size live_entry]. unfold gspan in H1. lia.
  - apply IH.
Qed.

Lemma gfilter_live_table a : gtypes_ok (gf_live a) ->
  filter is_live (gtable a) = glay (base (gf_n a)) (gf_live a).
Proof.
  intros Ht. unfold gtable. rewrite filter_app.
  assert (H1 : forall l, gtypes_ok l -> forall off, filter is_live (glay off l) = glay off l).
  { induction 1 as [|b l Hb Hl IH]; intros off; cbn [glay filter]; [reflexivity|].
    unfold is_live at 1, is_unused. cbn [e_type live_entry]. apply Z.eqb_neq in Hb. rewrite Hb. cbn [negb].
    f_equal. apply IH. }
  assert (H2 : forall off fr, filter is_live (map (free_entry off) fr) = []).
  { intros off fr. induction fr as [|f fr IH]; cbn [map filter]; [reflexivity|exact IH]. }
  rewrite H1 by exact Ht. rewrite H2. apply app_nil_r.
Qed.

Lemma file_len_gconc a : file_len (gconc a) = base (gf_n a) + gtotal (gf_live a) + zlength (gf_gap a) + zlength (gf_tail a).
Proof. unfold file_len, gconc, gdata. cbn [s_n data]. rewrite !zlength_app, gdata_length. lia. Qed.

Theorem ordered_wf s : ordered s -> wf s /\ mem s = tab s.
Proof.
  intros [a [[Hw Hnd] ->]]. pose proof Hw as [Ht [Hn Hg]]. split; [|reflexivity].
  unfold wf, in_file. cbn [tab gconc s_n]. repeat split.
  - now apply gtable_length.
  - unfold gtable. apply Forall_app. split.
    + eapply Forall_impl; [|apply glay_in_range]. cbn beta. intros e [H1 [H2 H3]] _.
      rewrite file_len_gconc. pose proof (zlength_nonneg (gf_gap a)). pose proof (zlength_nonneg (gf_tail a)). lia.
    + apply Forall_forall. intros e Hin. apply in_map_iff in Hin. destruct Hin as [f [<- _]]. discriminate.
  - unfold gtable. apply Forall_app. split.
    + apply Forall_forall. intros e Hin Hu. exfalso.
      pose proof (glay_no_unused _ Ht (base (gf_n a))) as Hno.
      assert (existsb is_unused (glay (base (gf_n a)) (gf_live a)) = true); [|congruence].
      apply existsb_exists. exists e. split; assumption.
    + apply Forall_forall. intros e Hin _. apply in_map_iff in Hin. destruct Hin as [f [<- _]]. reflexivity.
  - change (tab (gconc a)) with (gtable a). rewrite gfilter_live_table by exact Ht.
    pose proof (glay_ordered (gf_live a) (base (gf_n a))) as Ho.
    induction Ho as [|e l He Hl IH]; constructor; [|exact IH].
    eapply Forall_impl; [|exact He]. intros e2 H. left. exact H.
Qed.

(* ---------- what is stored is what comes back (C04 on files with holes) ---------- *)
(* the bytes an entry points at are the payload of its block *)
Lemma glay_slices n m t l : forall pre rest off,
  off = base n + zlength pre ->
  Forall2 (fun e g => slice (e_off e) (e_size e) (mkS n m t (pre ++ flat_map gbytes l ++ rest)) = l_payload (g_blk g) /\
                      e = live_entry (e_off e) (g_blk g))
          (glay off l) l.
Proof.
  induction l as [|g l IH]; intros pre rest off Hoff; cbn [glay flat_map]; constructor.
  - split; [|reflexivity].
    unfold slice. cbn [e_off e_size live_entry s_n data]. unfold gbytes at 1.
    replace (off + zlength (g_pad g) - base n) with (zlength (pre ++ g_pad g)) by (rewrite zlength_app; lia).
    rewrite zlength_correct, Nat2Z.id.
    rewrite <- !app_assoc. rewrite (app_assoc pre (g_pad g)).
    rewrite skipn_len_app. unfold psize. rewrite zlength_correct, Nat2Z.id. apply firstn_len_app.
  - replace (pre ++ (gbytes g ++ flat_map gbytes l) ++ rest) with ((pre ++ gbytes g) ++ flat_map gbytes l ++ rest)
      by now rewrite <- !app_assoc.
    apply IH. rewrite zlength_app, gbytes_length. lia.
Qed.

(* ---------- frame and storage on files with holes (C04) ---------- *)
Definition gfindb (ty : Z) (l : list gblock) : option lblock :=
  option_map g_blk (find (fun g => l_type (g_blk g) =? ty) l).

Lemma gfindb_merge ty p l : gfindb ty (gmerge p l) = gfindb ty l.
Proof. destruct l as [|h r]; [reflexivity|]. unfold gfindb. cbn [gmerge find g_blk]. destruct (l_type (g_blk h) =? ty); reflexivity. Qed.

Lemma gfindb_app ty l1 l2 : gfindb ty (l1 ++ l2) = match gfindb ty l1 with Some b => Some b | None => gfindb ty l2 end.
Proof.
  unfold gfindb. induction l1 as [|x l1 IH]; cbn [app find]; [reflexivity|].
  destruct (l_type (g_blk x) =? ty); [reflexivity|exact IH].
Qed.

Lemma gfindb_remove_other ty ty' l : ty' <> ty ->
  gfindb ty' (fst (gremove ty l)) = gfindb ty' l.
Proof.
  intros Hne. induction l as [|x l IH]; cbn [gremove]; [reflexivity|].
  destruct (Z.eqb_spec (l_type (g_blk x)) ty) as [E|N].
  - destruct l as [|h r]; cbn [fst].
    + unfold gfindb. cbn [find]. destruct (Z.eqb_spec (l_type (g_blk x)) ty'); [congruence|reflexivity].
    + change (mkG (g_pad x ++ g_pad h) (g_blk h) :: r) with (gmerge (g_pad x) (h :: r)). rewrite gfindb_merge.
      unfold gfindb. cbn [find]. destruct (Z.eqb_spec (l_type (g_blk x)) ty'); [congruence|reflexivity].
  - destruct (gremove ty l) as [r' x']. cbn [fst] in *. unfold gfindb in *. cbn [find].
    destruct (l_type (g_blk x) =? ty'); [reflexivity|exact IH].
Qed.

Lemma g_remove_live a ty now : gf_live (g_remove a ty now) = fst (gremove ty (gf_live a)).
Proof. unfold g_remove. destruct (gremove ty (gf_live a)) as [l' x]. destruct (gf_free a); reflexivity. Qed.

Lemma g_find_is a ty : g_find a ty = gfindb ty (gf_live a).
Proof. reflexivity. Qed.

Theorem gframe_other a o ty' : op_type o <> Some ty' -> g_find (g_next a o) ty' = g_find a ty'.
Proof.
  intros Hne. unfold g_next.
  destruct o as [b c now|ty now|b c n1 n2|b n1 n2|]; cbn [g_step op_type] in *.
  - destruct (b_payload b); [|reflexivity]. destruct (gf_free a); [reflexivity|].
    destruct (negb _ && _); [|reflexivity]. rewrite !g_find_is. unfold g_add. cbn [gf_live].
    rewrite gfindb_app. destruct (gfindb ty' (gf_live a)); [reflexivity|].
    unfold gfindb. cbn [find g_blk new_block l_type]. destruct (Z.eqb_spec (b_type b) ty'); [congruence|reflexivity].
  - destruct (existsb _ _); [|reflexivity]. rewrite !g_find_is, g_remove_live.
    apply gfindb_remove_other. congruence.
  - destruct (b_payload b); [|reflexivity]. destruct (g_find a (b_type b)); [|reflexivity].
    destruct (comment_ok _); [|reflexivity]. rewrite !g_find_is. unfold g_add. cbn [gf_live].
    rewrite gfindb_app, g_remove_live, gfindb_remove_other by congruence.
    destruct (gfindb ty' (gf_live a)); [reflexivity|].
    unfold gfindb. cbn [find g_blk new_block l_type]. destruct (Z.eqb_spec (b_type b) ty'); [congruence|reflexivity].
  - destruct (b_payload b); [|reflexivity]. destruct (g_find a (b_type b)).
    + destruct (comment_ok _); [|reflexivity]. rewrite !g_find_is. unfold g_add. cbn [gf_live].
      rewrite gfindb_app, g_remove_live, gfindb_remove_other by congruence.
      destruct (gfindb ty' (gf_live a)); [reflexivity|].
      unfold gfindb. cbn [find g_blk new_block l_type]. destruct (Z.eqb_spec (b_type b) ty'); [congruence|reflexivity].
    + destruct (gf_free a); [reflexivity|]. rewrite !g_find_is. unfold g_add. cbn [gf_live].
      rewrite gfindb_app. destruct (gfindb ty' (gf_live a)); [reflexivity|].
      unfold gfindb. cbn [find g_blk new_block l_type]. destruct (Z.eqb_spec (b_type b) ty'); [congruence|reflexivity].
  - reflexivity.
Qed.

(* a successful add stores exactly what it was given (at the offset the unused slots carried) *)
Theorem gstored_add a b c now a' : g_inv a -> g_step a (OAdd b c now) = Some a' ->
  exists p, b_payload b = Some p /\ g_find a' (b_type b) = Some (new_block b c p now).
Proof.
  intros Hi. cbn [g_step]. destruct (b_payload b) as [p|]; [|discriminate].
  destruct (gf_free a); [discriminate|].
  destruct (existsb (Z.eqb (b_type b)) (g_types a)) eqn:Hd; cbn [negb andb]; [discriminate|].
  destruct (comment_ok c); [|discriminate]. intros H. inversion H; subst a'.
  exists p. split; [reflexivity|]. rewrite g_find_is. unfold g_add. cbn [gf_live]. rewrite gfindb_app.
  unfold g_types in Hd. fold gty in Hd. unfold gfindb at 1. rewrite (gl_find_none _ _ Hd). cbn [option_map].
  unfold gfindb. cbn [find g_blk new_block l_type]. now rewrite Z.eqb_refl.
Qed.

(* removed types are absent *)
Theorem gremoved_absent a ty now a' : g_inv a -> g_step a (ORemove ty now) = Some a' -> g_find a' ty = None.
Proof.
  intros Hi. cbn [g_step]. destruct (existsb (Z.eqb ty) (g_types a)) eqn:Hin; [|discriminate].
  intros H. inversion H; subst a'. destruct (g_remove_inv a ty now Hi Hin) as [_ [Hgone _]].
  rewrite g_find_is. unfold g_types in Hgone. fold gty in Hgone. unfold gfindb. now rewrite (gl_find_none _ _ Hgone).
Qed.

(* every table entry of an ordered file points at exactly the payload of its block *)
Theorem gbytes_on_disk a : g_inv a ->
  Forall2 (fun e g => slice (e_off e) (e_size e) (gconc a) = l_payload (g_blk g) /\
                      e = live_entry (e_off e) (g_blk g))
          (filter is_live (tab (gconc a))) (gf_live a).
Proof.
  intros [[Ht _] _]. change (tab (gconc a)) with (gtable a). rewrite gfilter_live_table by exact Ht.
  pose proof (glay_slices (gf_n a) (gtable a) (gtable a) (gf_live a) [] (gf_gap a ++ gf_tail a) (base (gf_n a))) as H.
  cbn [app] in H. apply H. change (zlength (@nil Z)) with 0. lia.
Qed.

(* ---------- packed files are ordered files ---------- *)
Lemma glay_of_a l : forall off, glay off (map (mkG []) l) = lay off l.
Proof.
  induction l as [|b l IH]; intros off; cbn [map glay lay]; [reflexivity|].
  unfold gspan. cbn [g_pad g_blk]. change (zlength (@nil Z)) with 0. rewrite Z.add_0_r, Z.add_0_l. now rewrite IH.
Qed.

Lemma gtotal_of_a l : gtotal (map (mkG []) l) = total l.
Proof. induction l as [|b l IH]; cbn [map gtotal total]; [reflexivity|]. unfold gspan. cbn [g_pad g_blk]. change (zlength (@nil Z)) with 0. lia. Qed.

Lemma gdata_of_a l : flat_map gbytes (map (mkG []) l) = flat_map l_payload l.
Proof. induction l as [|b l IH]; cbn [map flat_map]; [reflexivity|]. unfold gbytes at 1. cbn [g_pad g_blk app]. now rewrite IH. Qed.

Theorem gconc_of_a a : gconc (g_of_a a) = conc a.
Proof.
  unfold gconc, conc, g_of_a, gtable, table_of, gdata, data_of, g_end. cbn [gf_n gf_live gf_free gf_gap gf_tail].
  rewrite glay_of_a, gtotal_of_a, gdata_of_a. change (zlength (@nil Z)) with 0. rewrite Z.add_0_r, !app_nil_r. reflexivity.
Qed.

Theorem compact_ordered s : compact s -> ordered s.
Proof.
  intros [a [[[Ht Hn] Hnd] ->]]. exists (g_of_a a). split; [|symmetry; apply gconc_of_a].
  unfold g_inv, g_wf, g_of_a, g_types. cbn [gf_n gf_live gf_free gf_gap]. repeat split.
  - apply Forall_forall. intros g Hin. apply in_map_iff in Hin. destruct Hin as [b [<- Hb]]. cbn [g_blk].
    rewrite Forall_forall in Ht. now apply Ht.
  - rewrite zlength_correct, map_length, <- zlength_correct. exact Hn.
  - rewrite map_map. cbn [g_blk]. exact Hnd.
Qed.

Lemma g_remove_n a ty now : gf_n (g_remove a ty now) = gf_n a.
Proof. unfold g_remove. destruct (gremove ty (gf_live a)). destruct (gf_free a); reflexivity. Qed.

Lemma g_next_n a o : gf_n (g_next a o) = gf_n a.
Proof.
  unfold g_next. destruct o as [b c now|ty now|b c n1 n2|b n1 n2|]; cbn [g_step].
  - destruct (b_payload b); [|reflexivity]. destruct (gf_free a); [reflexivity|].
    destruct (negb _ && _); reflexivity.
  - destruct (existsb _ _); [apply g_remove_n|reflexivity].
  - destruct (b_payload b); [|reflexivity]. destruct (g_find a (b_type b)); [|reflexivity].
    destruct (comment_ok _); [|reflexivity]. unfold g_add. cbn [gf_n]. apply g_remove_n.
  - destruct (b_payload b); [|reflexivity]. destruct (g_find a (b_type b)).
    + destruct (comment_ok _); [|reflexivity]. unfold g_add. cbn [gf_n]. apply g_remove_n.
    + destruct (gf_free a); reflexivity.
  - reflexivity.
Qed.

Lemma g_run_n ops : forall a, gf_n (g_run a ops) = gf_n a.
Proof.
  induction ops as [|o ops IH]; intros a; cbn [g_run fold_left]; [reflexivity|].
  fold (g_run (g_next a o) ops). now rewrite IH, g_next_n.
Qed.

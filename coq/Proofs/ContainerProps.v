(* ContainerProps.v — consequences of the refinement: histories, structural soundness, compactness,
   frame properties, accessors.  Everything here is about Container.step on compact states. *)
From Model Require Import Base Str Fmt Container AFile.
From Proofs Require Import BaseFacts ContainerFacts.
From Coq Require Import ZifyBool.
Open Scope Z_scope.

(* ---------- histories ---------- *)
Lemma next_refines a o : a_inv a -> op_ok o ->
  snd (step (conc a) o) = conc (a_next a o) /\ a_inv (a_next a o).
Proof.
  intros Hi Ho. pose proof (step_refines a o Hi Ho) as H. unfold a_next.
  destruct (a_step a o) as [a'|].
  - destruct H as [-> Hi']. split; [reflexivity|exact Hi'].
  - destruct H as [e ->]. split; [reflexivity|exact Hi].
Qed.

Theorem run_refines ops : forall a, a_inv a -> Forall op_ok ops ->
  run_ops (conc a) ops = conc (a_run a ops) /\ a_inv (a_run a ops).
Proof.
  induction ops as [|o ops IH]; intros a Hi Ho; cbn [run_ops a_run fold_left].
  - split; [reflexivity|exact Hi].
  - inversion Ho as [|? ? Ho1 Ho2]; subst.
    destruct (next_refines a o Hi Ho1) as [E Hi']. rewrite E. now apply IH.
Qed.

Theorem step_compact s o s' r : compact s -> op_ok o -> step s o = (r, s') -> compact s'.
Proof.
  intros [a [Hi ->]] Ho E. pose proof (next_refines a o Hi Ho) as [E2 Hi']. rewrite E in E2.
  cbn [snd] in E2. exists (a_next a o). split; assumption.
Qed.

Theorem run_compact s ops : compact s -> Forall op_ok ops -> compact (run_ops s ops).
Proof.
  intros [a [Hi ->]] Ho. destruct (run_refines ops a Hi Ho) as [E Hi'].
  exists (a_run a ops). split; assumption.
Qed.

Theorem step_atomic s o e s' : compact s -> op_ok o -> step s o = (Raised e, s') -> s' = s.
Proof.
  intros [a [Hi ->]] Ho E. pose proof (step_refines a o Hi Ho) as H.
  destruct (a_step a o) as [a'|].
  - destruct H as [E2 _]. rewrite E in E2. discriminate.
  - destruct H as [e' E2]. rewrite E in E2. now inversion E2.
Qed.

(* table length is N *)
Lemma table_length a : a_wf a -> zlength (table_of a) = a_n a.
Proof.
  intros [_ Hn]. unfold table_of. rewrite zlength_app, !zlength_correct, lay_length, map_length in *.
  exact Hn.
Qed.

Lemma a_next_n a o : a_n (a_next a o) = a_n a.
Proof.
  unfold a_next. destruct o as [b c now|ty now|b c n1 n2|b n1 n2|]; cbn [a_step].
  - destruct (b_payload b); [|reflexivity]. destruct (a_free a); [reflexivity|].
    destruct (negb _ && _); reflexivity.
  - destruct (existsb _ _); reflexivity.
  - destruct (b_payload b); [|reflexivity]. destruct (a_find a (b_type b)); [|reflexivity].
    destruct (comment_ok _); reflexivity.
  - destruct (b_payload b); [|reflexivity]. destruct (a_find a (b_type b)).
    + destruct (comment_ok _); reflexivity.
    + destruct (a_free a); reflexivity.
  - reflexivity.
Qed.

Lemma a_run_n ops : forall a, a_n (a_run a ops) = a_n a.
Proof.
  induction ops as [|o ops IH]; intros a; cbn [a_run fold_left]; [reflexivity|].
  fold (a_run (a_next a o) ops). now rewrite IH, a_next_n.
Qed.

(* ---------- compact implies structurally sound (C03) ---------- *)
Lemma lay_in_range l : forall off,
  Forall (fun e => off <= e_off e /\ 0 <= e_size e /\ e_off e + e_size e <= off + total l) (lay off l).
Proof.
  induction l as [|b l IH]; intros off; cbn [lay total]; constructor.
  - cbn [e_off e_size live_entry]. pose proof (psize_nonneg b). pose proof (total_nonneg l). lia.
  - eapply Forall_impl; [|apply IH]. cbn beta. intros e [H1 [H2 H3]].
    pose proof (psize_nonneg b). lia.
Qed.

Lemma lay_ordered l : forall off,
  ForallOrdPairs (fun e1 e2 => e_off e1 + e_size e1 <= e_off e2) (lay off l).
Proof.
  induction l as [|b l IH]; intros off; cbn [lay]; constructor.
  - eapply Forall_impl; [|apply (lay_in_range l (off + psize b))]. cbn beta.
    intros e [H1 _]. cbn [e_off e_size live_entry]. lia.
  - apply IH.
Qed.

Lemma filter_live_table a : types_ok (a_live a) ->
  filter is_live (table_of a) = lay (base (a_n a)) (a_live a).
Proof.
  intros Ht. unfold table_of. rewrite filter_app.
  assert (H1 : forall l, types_ok l -> forall off, filter is_live (lay off l) = lay off l).
  { induction 1 as [|b l Hb Hl IH]; intros off; cbn [lay filter]; [reflexivity|].
    unfold is_live at 1, is_unused. cbn [e_type live_entry]. apply Z.eqb_neq in Hb. rewrite Hb. cbn [negb].
    f_equal. apply IH. }
  assert (H2 : forall off fr, filter is_live (map (free_entry off) fr) = []).
  { intros off fr. induction fr as [|f fr IH]; cbn [map filter]; [reflexivity|exact IH]. }
  rewrite H1 by exact Ht. rewrite H2. apply app_nil_r.
Qed.

Lemma file_len_conc a : file_len (conc a) = base (a_n a) + total (a_live a).
Proof. unfold file_len, conc, data_of. cbn [s_n data]. now rewrite data_length. Qed.

Theorem compact_wf s : compact s -> wf s /\ mem s = tab s.
Proof.
  intros [a [[Hw Hnd] ->]]. pose proof Hw as [Ht Hn]. split; [|reflexivity].
  unfold wf, file_len, in_file. cbn [tab conc s_n data]. repeat split.
  - now apply table_length.
  - unfold table_of. apply Forall_app. split.
    + eapply Forall_impl; [|apply lay_in_range]. cbn beta. intros e [H1 [H2 H3]] _.
      rewrite file_len_conc. lia.
    + apply Forall_forall. intros e Hin. apply in_map_iff in Hin. destruct Hin as [f [<- _]]. discriminate.
  - unfold table_of. apply Forall_app. split.
    + apply Forall_forall. intros e Hin Hu. exfalso.
      pose proof (lay_no_unused _ Ht (base (a_n a))) as Hno.
      assert (existsb is_unused (lay (base (a_n a)) (a_live a)) = true); [|congruence].
      apply existsb_exists. now exists e.
    + apply Forall_forall. intros e Hin. apply in_map_iff in Hin. destruct Hin as [f [<- _]]. reflexivity.
  - rewrite filter_live_table by exact Ht.
    pose proof (lay_ordered (a_live a) (base (a_n a))) as Ho.
    induction Ho as [|e l He Hl IH]; constructor; [|exact IH].
    eapply Forall_impl; [|exact He]. intros e2 H. left. exact H.
Qed.

(* ---------- compact is the explicit layout statement of C09 ---------- *)
Lemma live_chain_lay l : types_ok l -> forall off rest,
  (match rest with e :: _ => is_live e = false | [] => True end) ->
  live_chain off (lay off l ++ rest) = (off + total l, rest).
Proof.
  induction 1 as [|b l Hb Hl IH]; intros off rest Hr; cbn [lay total app live_chain].
  - destruct rest as [|e r]; [now rewrite Z.add_0_r|]. cbn [live_chain]. rewrite Hr. cbn [andb].
    now rewrite Z.add_0_r.
  - unfold is_live at 1, is_unused. cbn [e_type e_off e_size live_entry]. apply Z.eqb_neq in Hb. rewrite Hb.
    rewrite Z.eqb_refl. pose proof (psize_nonneg b) as Hp. apply Z.leb_le in Hp. rewrite Hp. cbn [negb andb].
    rewrite IH by exact Hr. f_equal. lia.
Qed.

Theorem compact_compactb s : compact s -> compactb s = true.
Proof.
  intros [a [[Hw Hnd] ->]]. pose proof Hw as [Ht Hn]. unfold compactb, file_len. cbn [tab conc s_n data].
  unfold table_of at 1. rewrite live_chain_lay.
  - rewrite (table_length a Hw), Z.eqb_refl. unfold data_of. rewrite data_length, Z.eqb_refl.
    rewrite !andb_true_r. apply forallb_forall. intros e Hin. apply in_map_iff in Hin.
    destruct Hin as [f [<- _]]. cbn. now rewrite Z.eqb_refl.
  - exact Ht.
  - destruct (a_free a); cbn [map]; [exact I|reflexivity].
Qed.

(* sizes: removing shrinks the file by the block's size, adding grows it by the block's size *)
Lemma total_remove_first ty l b : find (fun x => l_type x =? ty) l = Some b ->
  total (remove_first ty l) = total l - psize b.
Proof.
  induction l as [|x l IH]; cbn [find remove_first total]; [discriminate|].
  destruct (l_type x =? ty); intros H.
  - inversion H; subst. lia.
  - cbn [total]. rewrite (IH H). lia.
Qed.

Theorem remove_shrinks a ty now b : a_inv a -> ty <> 0 -> a_find a ty = Some b ->
  exists s', step (conc a) (ORemove ty now) = (Done, s') /\ file_len s' = file_len (conc a) - psize b.
Proof.
  intros Hi Hty Hf. destruct (a_find_some_in _ _ _ Hf) as [Hin _].
  pose proof (step_refines a (ORemove ty now) Hi Hty) as H. cbn [a_step] in H.
  unfold a_types in H. rewrite Hin in H. destruct H as [E _].
  eexists. split; [exact E|]. rewrite !file_len_conc. cbn [a_n a_live a_remove].
  rewrite (total_remove_first _ _ _ Hf). lia.
Qed.

Theorem add_grows a b c now s' : a_inv a -> blk_ok b ->
  step (conc a) (OAdd b c now) = (Done, s') -> file_len s' = file_len (conc a) + b_size b.
Proof.
  intros Hi Hb E. pose proof (step_refines a (OAdd b c now) Hi Hb) as H. cbn [a_step] in H.
  destruct Hb as [_ Hsz].
  destruct (b_payload b) as [p|]; [|destruct H as [e H]; rewrite E in H; discriminate].
  destruct (a_free a) as [|f fr]; [destruct H as [e H]; rewrite E in H; discriminate|].
  destruct (negb _ && _); [|destruct H as [e H]; rewrite E in H; discriminate].
  destruct H as [E2 _]. rewrite E in E2. inversion E2; subst s'.
  rewrite !file_len_conc. cbn [a_n a_live a_add]. rewrite total_app. cbn [total]. unfold psize at 1. cbn [new_block l_payload].
  lia.
Qed.

(* ---------- frame properties on the abstract file (C04) ---------- *)
Definition op_type (o : cop) : option Z :=
  match o with
  | OAdd b _ _ | OReplace b _ _ _ | OSet b _ _ => Some (b_type b)
  | ORemove ty _ => Some ty
  | OReopen => None
  end.

Lemma find_remove_other ty ty' l : ty' <> ty ->
  find (fun x => l_type x =? ty') (remove_first ty l) = find (fun x => l_type x =? ty') l.
Proof.
  intros Hne. induction l as [|x l IH]; cbn [remove_first find]; [reflexivity|].
  destruct (Z.eqb_spec (l_type x) ty) as [E|N].
  - destruct (Z.eqb_spec (l_type x) ty'); [congruence|reflexivity].
  - cbn [find]. destruct (l_type x =? ty'); [reflexivity|exact IH].
Qed.

Lemma find_app_other ty' l nb : l_type nb <> ty' ->
  find (fun x => l_type x =? ty') (l ++ [nb]) = find (fun x => l_type x =? ty') l.
Proof.
  intros Hne. induction l as [|x l IH]; cbn [app find].
  - destruct (Z.eqb_spec (l_type nb) ty'); [congruence|reflexivity].
  - destruct (l_type x =? ty'); [reflexivity|exact IH].
Qed.

Lemma find_app_new l nb : existsb (Z.eqb (l_type nb)) (map l_type l) = false ->
  find (fun x => l_type x =? l_type nb) (l ++ [nb]) = Some nb.
Proof.
  induction l as [|x l IH]; cbn [app find map existsb]; intros H.
  - now rewrite Z.eqb_refl.
  - apply orb_false_iff in H. destruct H as [Hx Hl]. rewrite Z.eqb_sym, Hx. now apply IH.
Qed.

(* every other block keeps its bytes, format, comment and dates — whatever the call, successful or not *)
Theorem frame_other a o ty' : op_type o <> Some ty' -> a_find (a_next a o) ty' = a_find a ty'.
Proof.
  intros Hne. unfold a_next.
  destruct o as [b c now|ty now|b c n1 n2|b n1 n2|]; cbn [a_step op_type] in *.
  - destruct (b_payload b); [|reflexivity]. destruct (a_free a); [reflexivity|].
    destruct (negb _ && _); [|reflexivity]. unfold a_find, a_add. cbn [a_live].
    apply find_app_other. cbn. congruence.
  - destruct (existsb _ _); [|reflexivity]. unfold a_find, a_remove. cbn [a_live].
    apply find_remove_other. congruence.
  - destruct (b_payload b); [|reflexivity]. destruct (a_find a (b_type b)); [|reflexivity].
    destruct (comment_ok _); [|reflexivity]. unfold a_find, a_add, a_remove. cbn [a_live].
    rewrite find_app_other by (cbn; congruence). apply find_remove_other. congruence.
  - destruct (b_payload b); [|reflexivity]. destruct (a_find a (b_type b)).
    + destruct (comment_ok _); [|reflexivity]. unfold a_find, a_add, a_remove. cbn [a_live].
      rewrite find_app_other by (cbn; congruence). apply find_remove_other. congruence.
    + destruct (a_free a); [reflexivity|]. unfold a_find, a_add. cbn [a_live].
      apply find_app_other. cbn. congruence.
  - reflexivity.
Qed.

(* what a successful add / replace / setter stores is exactly what it was given *)
Theorem stored_add a b c now a' : a_inv a -> a_step a (OAdd b c now) = Some a' ->
  exists p, b_payload b = Some p /\ a_find a' (b_type b) = Some (new_block b c p now).
Proof.
  intros Hi. cbn [a_step]. destruct (b_payload b) as [p|]; [|discriminate].
  destruct (a_free a); [discriminate|].
  destruct (existsb (Z.eqb (b_type b)) (a_types a)) eqn:Hd; cbn [negb andb]; [discriminate|].
  destruct (comment_ok c); [|discriminate]. intros H. inversion H; subst a'.
  exists p. split; [reflexivity|]. unfold a_find, a_add. cbn [a_live].
  apply (find_app_new (a_live a) (new_block b c p now)). exact Hd.
Qed.

Theorem stored_replace a b c n1 n2 a' : a_inv a -> a_step a (OReplace b c n1 n2) = Some a' ->
  exists p old, b_payload b = Some p /\ a_find a (b_type b) = Some old /\
    a_find a' (b_type b) =
    Some (new_block b (match c with Some c => c | None => l_comment old end) p n2).
Proof.
  intros [Hw Hnd]. cbn [a_step]. destruct (b_payload b) as [p|]; [|discriminate].
  destruct (a_find a (b_type b)) as [old|] eqn:Hf; [|discriminate].
  destruct (comment_ok _); [|discriminate]. intros H. inversion H; subst a'.
  exists p, old. repeat split. unfold a_find, a_add, a_remove. cbn [a_live].
  apply (find_app_new (remove_first (b_type b) (a_live a))
                      (new_block b (match c with Some c0 => c0 | None => l_comment old end) p n2)).
  cbn [l_type new_block]. now apply remove_first_gone.
Qed.

Theorem removed_absent a ty now a' : a_inv a -> a_step a (ORemove ty now) = Some a' ->
  a_find a' ty = None.
Proof.
  intros [Hw Hnd]. cbn [a_step]. destruct (existsb _ _); [|discriminate]. intros H. inversion H; subst a'.
  unfold a_find, a_remove. cbn [a_live]. apply a_find_none. now apply remove_first_gone.
Qed.

(* ---------- from the abstract block to the bytes on disk and back (C04 read-back, C10, C11) ---------- *)
Lemma get_type_conc a ty lb : ty <> 0 -> a_find a ty = Some lb ->
  exists off rest, c_get_type (conc a) ty = Some (live_entry off lb, l_payload lb ++ rest) /\
                   slice off (psize lb) (conc a) = l_payload lb.
Proof.
  intros Hty Hf. destruct (a_find_some_in _ _ _ Hf) as [Hin Hto].
  destruct (split_first _ _ Hin) as [l1 [ob [l2 [El [Hob [Hn _]]]]]].
  assert (lb = ob).
  { unfold a_find in Hf. rewrite (a_find_split _ _ Hin l1 ob l2 El Hob Hn) in Hf. now inversion Hf. }
  subst ob.
  exists (base (a_n a) + total l1), (flat_map l_payload l2).
  unfold c_get_type, slice. cbn [mem conc s_n data e_off live_entry].
  assert (Efind : find (has_type ty) (table_of a) = Some (live_entry (base (a_n a) + total l1) lb)).
  { unfold table_of. rewrite El. now apply find_has_type. }
  rewrite Efind. cbn [e_off live_entry].
  replace (base (a_n a) + total l1 - base (a_n a)) with (total l1) by lia.
  unfold data_of. rewrite El, flat_map_app. cbn [flat_map].
  rewrite <- data_length_nat, skipn_len_app. split; [reflexivity|].
  unfold psize. rewrite zlength_correct, Nat2Z.id. apply firstn_len_app.
Qed.

Lemma get_type_none a ty : ty <> 0 -> a_find a ty = None -> c_get_type (conc a) ty = None.
Proof.
  intros Hty Hf. unfold c_get_type. cbn [mem conc].
  rewrite find_none_type; [reflexivity|exact Hty|].
  destruct (existsb (Z.eqb ty) (a_types a)) eqn:E; [|reflexivity].
  unfold a_types in E. destruct (split_first _ _ E) as [l1 [ob [l2 [El [Hob [Hn _]]]]]].
  unfold a_find in Hf. rewrite (a_find_split _ _ E l1 ob l2 El Hob Hn) in Hf. discriminate.
Qed.

Lemma has_conc a ty : ty <> 0 -> c_has (conc a) ty = existsb (Z.eqb ty) (a_types a).
Proof. intros H. unfold c_has. cbn [mem conc]. now apply table_has_type. Qed.

Lemma len_conc a : types_ok (a_live a) -> c_len (conc a) = zlength (a_live a).
Proof.
  intros Ht. unfold c_len. cbn [mem conc]. rewrite filter_live_table by exact Ht.
  now rewrite !zlength_correct, lay_length.
Qed.

Lemma live_types_conc a : types_ok (a_live a) -> live_types (conc a) = a_types a.
Proof.
  intros Ht. unfold live_types. cbn [tab conc]. rewrite filter_live_table by exact Ht. apply lay_types.
Qed.

Lemma nbytes_conc a : c_nbytes (conc a) = file_len (conc a).
Proof. reflexivity. Qed.

Lemma reopen_conc a : c_reopen (conc a) = conc a.
Proof. reflexivity. Qed.

(* ---------- the table on disk, as bytes, reads back as the table (C10, C06) ---------- *)
From Proofs Require Import FmtFacts.

Lemma dec_entries_enc l : forall bs rest,
  Forall (fun e => wfb entry_fmt (entry_v e) = true) l -> enc_entries l = Some bs ->
  dec_entries (length l) (bs ++ rest) = Some (map entry_v l, rest).
Proof.
  induction l as [|e l IH]; intros bs rest Hw He; cbn [enc_entries length dec_entries map] in *.
  - inversion He; subst. reflexivity.
  - inversion Hw as [|? ? Hwe Hwl]; subst.
    destruct (enc entry_fmt (entry_v e)) as [b1|] eqn:E1; [|discriminate].
    destruct (enc_entries l) as [b2|] eqn:E2; [|discriminate].
    inversion He; subst bs. rewrite <- app_assoc.
    rewrite (dec_enc entry_fmt (entry_v e) b1 (b2 ++ rest) Hwe E1).
    rewrite (IH b2 rest Hwl eq_refl). reflexivity.
Qed.

(* ---------- the whole file, as bytes, reads back as the state (C06 + C10 end to end) ---------- *)
Theorem parse_file_bytes version cd md ad s bs :
  wfb header_fmt (header_v version (s_n s) cd md ad) = true ->
  Forall (fun e => wfb entry_fmt (entry_v e) = true) (tab s) ->
  zlength (tab s) = s_n s ->
  file_bytes version cd md ad s = Some bs ->
  parse_file bs = Some (header_v version (s_n s) cd md ad, map entry_v (tab s), data s).
Proof.
  intros Hh He Hn Hf. unfold file_bytes in Hf.
  destruct (enc header_fmt (header_v version (s_n s) cd md ad)) as [h|] eqn:Eh; [|discriminate].
  destruct (enc_entries (tab s)) as [t|] eqn:Et; [|discriminate]. inversion Hf; subst bs.
  unfold parse_file. rewrite (dec_enc header_fmt _ h (t ++ data s) Hh Eh).
  replace (vint (vnth 2 (header_v version (s_n s) cd md ad))) with (s_n s) by reflexivity.
  replace (Z.to_nat (s_n s)) with (length (tab s)) by (rewrite <- Hn, zlength_correct; lia).
  now rewrite (dec_entries_enc (tab s) t (data s) He Et).
Qed.

From Model Require Import Base.
From Coq Require Import ZifyBool.
Open Scope Z_scope.

Lemma zlen_acc_correct {A} (l : list A) : forall acc, zlen_acc l acc = acc + Z.of_nat (length l).
Proof.
  induction l as [|x l IH]; intros acc; cbn [zlen_acc length].
  - lia.
  - rewrite IH. lia.
Qed.

Lemma zlength_correct {A} (l : list A) : zlength l = Z.of_nat (length l).
Proof. unfold zlength. rewrite zlen_acc_correct. lia. Qed.

Lemma zlength_app {A} (a b : list A) : zlength (a ++ b) = zlength a + zlength b.
Proof. rewrite !zlength_correct, app_length. lia. Qed.

Lemma zlength_nonneg {A} (l : list A) : 0 <= zlength l.
Proof. rewrite zlength_correct. lia. Qed.

Lemma take_app {A} (a r : list A) : take (length a) (a ++ r) = Some (a, r).
Proof.
  induction a as [|x a IH]; cbn [take length app].
  - reflexivity.
  - rewrite IH. reflexivity.
Qed.

Lemma take_spec {A} (n : nat) : forall (l a r : list A),
  take n l = Some (a, r) -> l = a ++ r /\ length a = n.
Proof.
  induction n as [|n IH]; intros l a r H; cbn [take] in H.
  - inversion H; subst. split; reflexivity.
  - destruct l as [|x l]; [discriminate|].
    destruct (take n l) as [[a' r']|] eqn:E; [|discriminate].
    inversion H; subst. apply IH in E. destruct E as [-> <-]. split; reflexivity.
Qed.

Lemma pow256_pos w : 0 < pow256 w.
Proof. unfold pow256. apply Z.pow_pos_nonneg; lia. Qed.

Lemma pow256_S w : pow256 (S w) = 256 * pow256 w.
Proof. unfold pow256. rewrite Nat2Z.inj_succ, Z.pow_succ_r; lia. Qed.

Lemma le_bytes_length w : forall z, length (le_bytes w z) = w.
Proof. induction w as [|w IH]; intros z; cbn [le_bytes length]; [reflexivity|]. now rewrite IH. Qed.

Lemma le_bytes_ok w : forall z, bytesb (le_bytes w z) = true.
Proof.
  induction w as [|w IH]; intros z; cbn [le_bytes bytesb forallb]; [reflexivity|].
  fold (bytesb (le_bytes w (z / 256))). rewrite IH.
  unfold byteb. pose proof (Z.mod_pos_bound z 256 ltac:(lia)). lia.
Qed.

Lemma le_val_le_bytes w : forall z, le_val (le_bytes w z) = z mod pow256 w.
Proof.
  induction w as [|w IH]; intros z; cbn [le_bytes le_val].
  - unfold pow256. cbn. now rewrite Z.mod_1_r.
  - rewrite IH, pow256_S.
    pose proof (pow256_pos w) as Hp.
    rewrite Z.rem_mul_r by lia. reflexivity.
Qed.

Lemma le_val_bound : forall bs, bytesb bs = true -> 0 <= le_val bs < pow256 (length bs).
Proof.
  induction bs as [|b bs IH]; intros H; cbn [le_val length].
  - unfold pow256; cbn; lia.
  - cbn [bytesb forallb] in H. apply andb_prop in H. destruct H as [Hb Hr].
    fold (bytesb bs) in Hr. specialize (IH Hr). rewrite pow256_S.
    unfold byteb in Hb. lia.
Qed.

Lemma le_bytes_le_val : forall bs, bytesb bs = true -> le_bytes (length bs) (le_val bs) = bs.
Proof.
  induction bs as [|b bs IH]; intros H; cbn [le_val length le_bytes]; [reflexivity|].
  cbn [bytesb forallb] in H. apply andb_prop in H. destruct H as [Hb Hr].
  fold (bytesb bs) in Hr. unfold byteb in Hb.
  replace ((b + 256 * le_val bs) mod 256) with b.
  2:{ rewrite (Z.mul_comm 256), Z.mod_add by lia. rewrite Z.mod_small; lia. }
  replace ((b + 256 * le_val bs) / 256) with (le_val bs).
  2:{ rewrite (Z.mul_comm 256), Z.div_add by lia. rewrite (Z.div_small b 256); lia. }
  now rewrite IH.
Qed.

Lemma int_of_unsigned_mod w lo hi z :
  lo <= z < hi -> hi - lo <= pow256 w -> - pow256 w <= lo -> hi <= pow256 w ->
  int_of_unsigned w lo hi (z mod pow256 w) = Some z.
Proof.
  intros Hz Hsz Hlo Hhi. pose proof (pow256_pos w) as Hp. unfold int_of_unsigned.
  destruct (Z_lt_le_dec z 0) as [Hneg|Hpos].
  - assert (z mod pow256 w = z + pow256 w) as ->.
    { symmetry. apply Z.mod_unique with (q := -1); lia. }
    destruct ((lo <=? z + pow256 w) && (z + pow256 w <? hi)) eqn:E1; [lia|].
    replace (z + pow256 w - pow256 w) with z by lia.
    destruct ((lo <=? z) && (z <? hi)) eqn:E2; [reflexivity|lia].
  - rewrite Z.mod_small by lia.
    destruct ((lo <=? z) && (z <? hi)) eqn:E1; [reflexivity|lia].
Qed.

(* converse: whatever int_of_unsigned returns re-encodes to the same unsigned value *)
Lemma int_of_unsigned_inv w lo hi u z :
  0 <= u < pow256 w -> int_of_unsigned w lo hi u = Some z -> lo <= z < hi /\ z mod pow256 w = u.
Proof.
  intros Hu H. unfold int_of_unsigned in H. pose proof (pow256_pos w) as Hp.
  destruct ((lo <=? u) && (u <? hi)) eqn:E1.
  - inversion H; subst. split; [lia|]. apply Z.mod_small; lia.
  - destruct ((lo <=? u - pow256 w) && (u - pow256 w <? hi)) eqn:E2; [|discriminate].
    inversion H; subst. split; [lia|].
    symmetry. apply Z.mod_unique with (q := -1); lia.
Qed.

Lemma junk_length jk n : forall off, length (junk jk off n) = n.
Proof. induction n as [|n IH]; intros off; cbn [junk length]; [reflexivity|]. now rewrite IH. Qed.

Definition junk_ok (jk : Z -> Z) : Prop := forall i, byteb (jk i) = true.

Lemma junk_bytes jk n : junk_ok jk -> forall off, bytesb (junk jk off n) = true.
Proof.
  intros Hj. induction n as [|n IH]; intros off; cbn [junk bytesb forallb]; [reflexivity|].
  fold (bytesb (junk jk (off + 1) n)). now rewrite Hj, IH.
Qed.

Lemma zero_junk_ok : junk_ok zero_junk.
Proof. intros i. reflexivity. Qed.

Lemma bytesb_app a b : bytesb (a ++ b) = bytesb a && bytesb b.
Proof. unfold bytesb. apply forallb_app. Qed.

(* V: induction principle that reaches inside the lists *)
Section VInd.
  Variable P : V -> Prop.
  Hypothesis HI : forall z, P (VI z).
  Hypothesis HL : forall l, Forall P l -> P (VL l).
  Fixpoint V_ind' (v : V) : P v :=
    match v with
    | VI z => HI z
    | VL l => HL l ((fix go (l : list V) : Forall P l :=
                       match l with
                       | [] => Forall_nil P
                       | x :: r => Forall_cons x (V_ind' x) (go r)
                       end) l)
    end.
End VInd.

Lemma veqb_eq : forall a b, veqb a b = true <-> a = b.
Proof.
  induction a as [x|xs IH] using V_ind'; intros b; destruct b as [y|ys]; cbn [veqb];
    try (split; [discriminate|intros H; inversion H]).
  - rewrite Z.eqb_eq. split; [intros ->; reflexivity|intros H; now inversion H].
  - revert ys. induction IH as [|x xs Hx Hxs IHxs]; intros ys; destruct ys as [|y ys];
      try (split; [discriminate|intros H; inversion H]).
    + split; reflexivity.
    + rewrite andb_true_iff, Hx, IHxs. split.
      * intros [-> H]. now inversion H.
      * intros H. inversion H; subst. split; reflexivity.
Qed.

Lemma veqb_refl a : veqb a a = true.
Proof. now apply veqb_eq. Qed.

Lemma unints_vints l : unints (map VI l) = Some l.
Proof. induction l as [|x l IH]; cbn [map unints]; [reflexivity|]. now rewrite IH. Qed.

Lemma unints_inv : forall l zs, unints l = Some zs -> l = map VI zs.
Proof.
  induction l as [|x l IH]; intros zs H; cbn [unints] in H.
  - inversion H. reflexivity.
  - destruct x as [z|]; [|discriminate].
    destruct (unints l) as [zs'|] eqn:E; [|discriminate].
    inversion H; subst. cbn [map]. f_equal. now apply IH.
Qed.

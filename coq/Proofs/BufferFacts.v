(* BufferFacts.v — separation of item buffers (Buffers.v). *)
From Model Require Import Base Heap Buffers.
From Coq Require Import ZifyBool.
Open Scope Z_scope.

(* every object id and buffer id in use lies below the allocator *)
Definition bbound (s : bstate) : Prop :=
  (forall it b, bs_item s it = Some b -> it < bs_next s /\ b < bs_next s) /\
  (forall sr k b, bs_src s sr = Some (k, b) -> sr < bs_next s /\ b < bs_next s).

Lemma fupd_same {A} k (v : A) f : fupd k v f k = Some v.
Proof. unfold fupd. now rewrite Z.eqb_refl. Qed.
Lemma fupd_other {A} k (v : A) f x : x <> k -> fupd k v f x = f x.
Proof. intros H. unfold fupd. destruct (Z.eqb_spec x k); [congruence|reflexivity]. Qed.

Lemma bbound_init : bbound bs_init.
Proof. split; intros; discriminate. Qed.

Lemma bump_ver b s x : x <> b -> bs_ver (bump b s) x = bs_ver s x.
Proof. intros H. unfold bump. destruct (bs_ver s b); [cbn [bs_ver]; now apply fupd_other|reflexivity]. Qed.
Lemma bump_keeps b s : bs_next (bump b s) = bs_next s /\ bs_src (bump b s) = bs_src s /\ bs_item (bump b s) = bs_item s.
Proof. unfold bump. destruct (bs_ver s b); repeat split. Qed.
Lemma bump_bound b s : bbound s -> bbound (bump b s).
Proof. intros [H1 H2]. destruct (bump_keeps b s) as [En [Es Ei]]. split; rewrite ?En, ?Es, ?Ei; assumption. Qed.

Ltac fu H :=
  match type of H with
  | fupd ?k _ _ ?x = Some _ =>
      destruct (Z.eq_dec x k) as [?|?]; [subst; rewrite fupd_same in H; inversion H; subst; clear H|rewrite fupd_other in H by assumption]
  end.

Lemma b_step_bound s o : bbound s -> bbound (b_step s o).
Proof.
  intros Hb. pose proof Hb as [H1 H2]. destruct o as [k|src|it|src]; cbn [b_step].
  - split; cbn [bs_item bs_src bs_next].
    + intros it b H. apply H1 in H. lia.
    + intros sr k0 b H. fu H; [lia|]. apply H2 in H. lia.
  - destruct (bs_src s src) as [[[|] b0]|] eqn:Es; [| |exact Hb].
    + pose proof (H2 _ _ _ Es) as Hs. split; cbn [bs_item bs_src bs_next].
      * intros it b H. fu H; [lia|]. apply H1 in H. lia.
      * intros sr k0 b H. apply H2 in H. lia.
    + split; cbn [bs_item bs_src bs_next].
      * intros it b H. fu H; [lia|]. apply H1 in H. lia.
      * intros sr k0 b H. apply H2 in H. lia.
  - destruct (bs_item s it); [now apply bump_bound|exact Hb].
  - destruct (bs_src s src) as [[k b]|]; [now apply bump_bound|exact Hb].
Qed.

Lemma b_run_bound os : forall s, bbound s -> bbound (b_run s os).
Proof. induction os as [|o os IH]; intros s H; cbn [b_run fold_left]; [exact H|]. apply IH. now apply b_step_bound. Qed.

(* an item built from a source that has to be converted gets a buffer nobody else has *)
Lemma converted_item_fresh s src b0 : bbound s -> bs_src s src = Some (SConvert, b0) ->
  let s' := b_step s (BItem src) in let it := bs_next s in
  bs_item s' it = Some (it + 1) /\
  (forall it', it' <> it -> bs_item s' it' <> Some (it + 1)) /\
  (forall sr k b, bs_src s' sr = Some (k, b) -> b <> it + 1).
Proof.
  intros [H1 H2] Es. cbn [b_step]. rewrite Es. cbn [bs_item bs_src]. repeat split.
  - apply fupd_same.
  - intros it' N E. rewrite fupd_other in E by exact N. apply H1 in E. lia.
  - intros sr k b E. apply H2 in E. lia.
Qed.

(* an in-place edit of one item shows in another item / in a source exactly through a shared buffer *)
Lemma edit_item_frame s it it' b b' : bs_item s it = Some b -> bs_item s it' = Some b' -> b <> b' ->
  item_ver (b_step s (BEditItem it)) it' = item_ver s it'.
Proof.
  intros E E' N. cbn [b_step]. rewrite E. unfold item_ver. destruct (bump_keeps b s) as [_ [_ Ei]]. rewrite Ei, E'.
  apply bump_ver. congruence.
Qed.

Lemma edit_item_frame_src s it sr k b b' : bs_item s it = Some b -> bs_src s sr = Some (k, b') -> b <> b' ->
  src_ver (b_step s (BEditItem it)) sr = src_ver s sr.
Proof.
  intros E E' N. cbn [b_step]. rewrite E. unfold src_ver. destruct (bump_keeps b s) as [_ [Es _]]. rewrite Es, E'.
  apply bump_ver. congruence.
Qed.

(* OrderedDec.v — a decision procedure for the premise of the ordered-file theorems: [orderedb s] reads an abstract
   file with holes off the concrete state (table order, padding = the bytes between consecutive blocks), lays it out
   again with [gconc] and COMPARES the result with s.  Soundness therefore needs nothing about the reading itself:
   orderedb s = true  ->  ordered s.  The harness evaluates it (extracted) on the initial files of its strata. *)
From Model Require Import Base Str Fmt Container AFile GFile.
From Proofs Require Import BaseFacts ContainerFacts GapFacts.
From Coq Require Import ZifyBool.
Open Scope Z_scope.

Lemma zlist_eqb_eq a : forall b, zlist_eqb a b = true -> a = b.
Proof.
  induction a as [|x a IH]; intros [|y b]; cbn [zlist_eqb]; try discriminate; [reflexivity|].
  intros H. apply andb_prop in H. destruct H as [H1 H2]. apply Z.eqb_eq in H1. subst. f_equal. now apply IH.
Qed.

Lemma entry_eqb_eq a b : entry_eqb a b = true -> a = b.
Proof.
  unfold entry_eqb. intros H. repeat (apply andb_prop in H; destruct H as [H ?]).
  destruct a, b. cbn in *. repeat match goal with E : (_ =? _) = true |- _ => apply Z.eqb_eq in E end.
  match goal with E : zlist_eqb _ _ = true |- _ => apply zlist_eqb_eq in E end. subst. reflexivity.
Qed.

Lemma table_eqb_eq a : forall b, table_eqb a b = true -> a = b.
Proof.
  induction a as [|x a IH]; intros [|y b]; cbn [table_eqb]; try discriminate; [reflexivity|].
  intros H. apply andb_prop in H. destruct H as [H1 H2]. apply entry_eqb_eq in H1. subst. f_equal. now apply IH.
Qed.

Lemma state_eqb_eq a b : state_eqb a b = true -> a = b.
Proof.
  unfold state_eqb. intros H. repeat (apply andb_prop in H; destruct H as [H ?]).
  destruct a, b. cbn in *. apply Z.eqb_eq in H.
  repeat match goal with E : table_eqb _ _ = true |- _ => apply table_eqb_eq in E end.
  match goal with E : zlist_eqb _ _ = true |- _ => apply zlist_eqb_eq in E end. subst. reflexivity.
Qed.

(* the side conditions of g_inv, as a boolean *)
Lemma nodupb_nodup l : nodupb l = true -> NoDup l.
Proof.
  induction l as [|x l IH]; cbn [nodupb]; intros H; constructor.
  - apply andb_prop in H. destruct H as [H _]. apply negb_true_iff in H. intros Hin.
    assert (existsb (Z.eqb x) l = true); [|congruence]. apply existsb_exists. exists x. split; [exact Hin|apply Z.eqb_refl].
  - apply andb_prop in H. destruct H as [_ H]. now apply IH.
Qed.

Lemma g_invb_inv a : g_invb a = true -> g_inv a.
Proof.
  unfold g_invb. intros H. repeat (apply andb_prop in H; destruct H as [H ?]).
  split; [split; [|split]|].
  - apply Forall_forall. intros g Hin. rewrite forallb_forall in H. specialize (H g Hin).
    apply negb_true_iff in H. now apply Z.eqb_neq in H.
  - now apply Z.eqb_eq.
  - intros Hf. rewrite Hf in *. destruct (gf_gap a); [reflexivity|discriminate].
  - now apply nodupb_nodup.
Qed.

Theorem orderedb_sound s : orderedb s = true -> ordered s.
Proof.
  unfold orderedb. intros H. apply andb_prop in H. destruct H as [H1 H2].
  exists (gfile_of s). split; [now apply g_invb_inv|now apply state_eqb_eq].
Qed.

(* it is not vacuous: the padded example of C03_example_holes passes, and a packed state does *)
Example orderedb_examples :
  orderedb (gconc (mkGF 4 [mkG [0; 0; 0] (mkL 16 0 1 2 3 [65] [9; 9; 9]); mkG [0; 0] (mkL 11 1 1 2 3 [] [7])] [] [255]
                        [mkF 0 5 5 5 []; mkF 0 5 5 5 []])) = true /\
  orderedb (conc (mkA 3 [mkL 16 0 1 2 3 [65] [9; 9; 9]; mkL 11 1 1 2 3 [] [7]] [mkF 0 5 5 5 []])) = true /\
  orderedb (gconc (mkGF 2 [mkG [1] (mkL 16 0 1 2 3 [] [9]); mkG [] (mkL 11 1 1 2 3 [] [7])] [] [8; 8] [])) = true /\
  (* unused slots that disagree, or point in front of a live block (F3b): not ordered *)
  orderedb (mkS 2 [mkE 5 1 640 1 0 0 0 []; mkE 0 0 0 0 0 0 0 []] [mkE 5 1 640 1 0 0 0 []; mkE 0 0 0 0 0 0 0 []] [7]) = false.
Proof. vm_compute. repeat split; reflexivity. Qed.

(* ---------- completeness: every ordered state passes ---------- *)
Lemma bytes_at_mid (pre mid post : list Z) :
  bytes_at (pre ++ mid ++ post) (zlength pre) (zlength mid) = mid.
Proof.
  unfold bytes_at. rewrite !zlength_correct, !Nat2Z.id. rewrite skipn_len_app. apply firstn_len_app.
Qed.

Lemma bytes_at_rest (pre post : list Z) :
  bytes_at (pre ++ post) (zlength pre) (zlength (pre ++ post) - zlength pre) = post.
Proof.
  unfold bytes_at. rewrite zlength_app. replace (zlength pre + zlength post - zlength pre) with (zlength post) by lia.
  rewrite !zlength_correct, !Nat2Z.id. rewrite skipn_len_app. apply firstn_all.
Qed.

Lemma lb_of_live_entry off b : lb_of_entry (live_entry off b) (l_payload b) = b.
Proof. destruct b. reflexivity. Qed.

Lemma slot_of_free_entry off f : slot_of_entry (free_entry off f) = f.
Proof. destruct f. reflexivity. Qed.

Lemma read_live_glay n l : gtypes_ok l -> forall pre post frees,
  (match frees with e :: _ => is_live e = false | [] => True end) ->
  read_live n (pre ++ flat_map gbytes l ++ post) (base n + zlength pre) (glay (base n + zlength pre) l ++ frees)
  = (l, base n + zlength pre + gtotal l, frees).
Proof.
  induction 1 as [|g l Hg Hl IH]; intros pre post frees Hf; cbn [glay flat_map app gtotal read_live].
  - destruct frees as [|e r]; cbn [read_live]; [now rewrite Z.add_0_r|]. rewrite Hf. now rewrite Z.add_0_r.
  - assert (Hlive : is_live (live_entry (base n + zlength pre + zlength (g_pad g)) (g_blk g)) = true).
    { unfold is_live, is_unused. cbn [e_type live_entry]. apply Z.eqb_neq in Hg. now rewrite Hg. }
    rewrite Hlive. cbn [e_off e_size live_entry].
    (* the padding and the payload read back from the data *)
    assert (Epad : bytes_at (pre ++ gbytes g ++ flat_map gbytes l ++ post) (base n + zlength pre - base n)
                            (base n + zlength pre + zlength (g_pad g) - (base n + zlength pre)) = g_pad g).
    { replace (base n + zlength pre - base n) with (zlength pre) by lia.
      replace (base n + zlength pre + zlength (g_pad g) - (base n + zlength pre)) with (zlength (g_pad g)) by lia.
      unfold gbytes at 1. rewrite <- !app_assoc. apply bytes_at_mid. }
    assert (Epay : bytes_at (pre ++ gbytes g ++ flat_map gbytes l ++ post) (base n + zlength pre + zlength (g_pad g) - base n)
                            (psize (g_blk g)) = l_payload (g_blk g)).
    { replace (base n + zlength pre + zlength (g_pad g) - base n) with (zlength (pre ++ g_pad g)) by (rewrite zlength_app; lia).
      unfold gbytes at 1, psize. rewrite <- !app_assoc. rewrite (app_assoc pre (g_pad g)). apply bytes_at_mid. }
    replace (pre ++ (gbytes g ++ flat_map gbytes l) ++ post) with (pre ++ gbytes g ++ flat_map gbytes l ++ post)
      by now rewrite <- !app_assoc.
    rewrite Epad, Epay, lb_of_live_entry.
    replace (base n + zlength pre + zlength (g_pad g) + psize (g_blk g)) with (base n + zlength (pre ++ gbytes g))
      by (rewrite zlength_app, gbytes_length; unfold gspan; lia).
    replace (base n + zlength pre + gspan g) with (base n + zlength (pre ++ gbytes g))
      by (rewrite zlength_app, gbytes_length; lia).
    replace (pre ++ gbytes g ++ flat_map gbytes l ++ post) with ((pre ++ gbytes g) ++ flat_map gbytes l ++ post)
      by now rewrite <- !app_assoc.
    rewrite (IH (pre ++ gbytes g) post frees Hf).
    assert (Eg : mkG (g_pad g) (g_blk g) = g) by (destruct g; reflexivity). rewrite Eg.
    f_equal. f_equal. rewrite zlength_app, gbytes_length. lia.
Qed.

Lemma gfile_of_gconc a : g_inv a -> gfile_of (gconc a) = a.
Proof.
  intros [[Ht [Hn Hg]] _]. unfold gfile_of. cbn [s_n tab data gconc].
  unfold gtable, gdata.
  pose proof (read_live_glay (gf_n a) (gf_live a) Ht [] (gf_gap a ++ gf_tail a) (map (free_entry (g_end a)) (gf_free a))) as H.
  cbn [app] in H. change (zlength (@nil Z)) with 0 in H. rewrite Z.add_0_r in H.
  rewrite H by (destruct (gf_free a); [exact I|reflexivity]). clear H.
  destruct a as [n live gap tail free]. cbn [gf_n gf_live gf_gap gf_tail gf_free] in *.
  destruct free as [|f fr]; cbn [map].
  - rewrite (Hg eq_refl). cbn [app]. f_equal.
    replace (base n + gtotal live - base n) with (zlength (flat_map gbytes live)) by (rewrite gdata_length; lia).
    apply bytes_at_rest.
  - cbn [e_off free_entry]. unfold g_end. cbn [gf_n gf_live gf_gap].
    f_equal.
    + replace (base n + gtotal live - base n) with (zlength (flat_map gbytes live)) by (rewrite gdata_length; lia).
      replace (base n + gtotal live + zlength gap - (base n + gtotal live)) with (zlength gap) by lia.
      apply bytes_at_mid.
    + replace (base n + gtotal live + zlength gap - base n) with (zlength (flat_map gbytes live ++ gap))
        by (rewrite zlength_app, gdata_length; lia).
      rewrite (app_assoc (flat_map gbytes live) gap tail). apply bytes_at_rest.
    + rewrite slot_of_free_entry. f_equal. rewrite map_map. rewrite <- (map_id fr) at 2. apply map_ext. intros x. apply slot_of_free_entry.
Qed.

Lemma zlist_eqb_refl l : zlist_eqb l l = true.
Proof. induction l as [|x l IH]; cbn [zlist_eqb]; [reflexivity|]. now rewrite Z.eqb_refl, IH. Qed.
Lemma entry_eqb_refl e : entry_eqb e e = true.
Proof. unfold entry_eqb. now rewrite !Z.eqb_refl, zlist_eqb_refl. Qed.
Lemma table_eqb_refl l : table_eqb l l = true.
Proof. induction l as [|x l IH]; cbn [table_eqb]; [reflexivity|]. now rewrite entry_eqb_refl, IH. Qed.
Lemma state_eqb_refl s : state_eqb s s = true.
Proof. unfold state_eqb. now rewrite Z.eqb_refl, !table_eqb_refl, zlist_eqb_refl. Qed.

Lemma nodup_nodupb l : NoDup l -> nodupb l = true.
Proof.
  induction 1 as [|x l Hx Hl IH]; cbn [nodupb]; [reflexivity|]. rewrite IH, andb_true_r. apply negb_true_iff.
  destruct (existsb (Z.eqb x) l) eqn:E; [|reflexivity]. apply existsb_exists in E. destruct E as [y [Hy Ey]].
  apply Z.eqb_eq in Ey. subst y. contradiction.
Qed.

Lemma g_inv_invb a : g_inv a -> g_invb a = true.
Proof.
  intros [[Ht [Hn Hg]] Hnd]. unfold g_invb. rewrite (nodup_nodupb _ Hnd), andb_true_r.
  apply andb_true_intro. split; [apply andb_true_intro; split|].
  - apply forallb_forall. intros g Hin. rewrite Forall_forall in Ht. apply negb_true_iff. apply Z.eqb_neq. now apply Ht.
  - now apply Z.eqb_eq.
  - destruct (gf_free a); [now rewrite (Hg eq_refl)|reflexivity].
Qed.

(* orderedb decides [ordered] *)
Theorem orderedb_complete s : ordered s -> orderedb s = true.
Proof.
  intros [a [Hi ->]]. unfold orderedb. rewrite (gfile_of_gconc a Hi). rewrite (g_inv_invb a Hi). apply state_eqb_refl.
Qed.

Theorem orderedb_iff s : orderedb s = true <-> ordered s.
Proof. split; [apply orderedb_sound|apply orderedb_complete]. Qed.

(* OrderedDec.v — a decision procedure for the premise of the ordered-file theorems: [orderedb s] reads an abstract
   file with holes off the concrete state (table order, padding = the bytes between consecutive blocks), lays it out
   again with [gconc] and COMPARES the result with s.  Soundness therefore needs nothing about the reading itself:
   orderedb s = true  ->  ordered s.  The harness evaluates it (extracted) on the initial files of its strata. *)
From Model Require Import Base Str Fmt Container AFile GFile.
From Proofs Require Import BaseFacts ContainerFacts GapFacts.
From Coq Require Import ZifyBool.
Open Scope Z_scope.

Lemma zlist_eqb_eq a : forall b, zlist_eqb a b = true -> a = b.
Proof.
  induction a as [|x a IH]; intros [|y b]; cbn [zlist_eqb]; try discriminate; [reflexivity|].
  intros H. apply andb_prop in H. destruct H as [H1 H2]. apply Z.eqb_eq in H1. subst. f_equal. now apply IH.
Qed.

Lemma entry_eqb_eq a b : entry_eqb a b = true -> a = b.
Proof.
  unfold entry_eqb. intros H. repeat (apply andb_prop in H; destruct H as [H ?]).
  destruct a, b. cbn in *. repeat match goal with E : (_ =? _) = true |- _ => apply Z.eqb_eq in E end.
  match goal with E : zlist_eqb _ _ = true |- _ => apply zlist_eqb_eq in E end. subst. reflexivity.
Qed.

Lemma table_eqb_eq a : forall b, table_eqb a b = true -> a = b.
Proof.
  induction a as [|x a IH]; intros [|y b]; cbn [table_eqb]; try discriminate; [reflexivity|].
  intros H. apply andb_prop in H. destruct H as [H1 H2]. apply entry_eqb_eq in H1. subst. f_equal. now apply IH.
Qed.

Lemma state_eqb_eq a b : state_eqb a b = true -> a = b.
Proof.
  unfold state_eqb. intros H. repeat (apply andb_prop in H; destruct H as [H ?]).
  destruct a, b. cbn in *. apply Z.eqb_eq in H.
  repeat match goal with E : table_eqb _ _ = true |- _ => apply table_eqb_eq in E end.
  match goal with E : zlist_eqb _ _ = true |- _ => apply zlist_eqb_eq in E end. subst. reflexivity.
Qed.

(* the side conditions of g_inv, as a boolean *)
Lemma nodupb_nodup l : nodupb l = true -> NoDup l.
Proof.
  induction l as [|x l IH]; cbn [nodupb]; intros H; constructor.
  - apply andb_prop in H. destruct H as [H _]. apply negb_true_iff in H. intros Hin.
    assert (existsb (Z.eqb x) l = true); [|congruence]. apply existsb_exists. exists x. split; [exact Hin|apply Z.eqb_refl].
  - apply andb_prop in H. destruct H as [_ H]. now apply IH.
Qed.

Lemma g_invb_inv a : g_invb a = true -> g_inv a.
Proof.
  unfold g_invb. intros H. repeat (apply andb_prop in H; destruct H as [H ?]).
  split; [split; [|split]|].
  - apply Forall_forall. intros g Hin. rewrite forallb_forall in H. specialize (H g Hin).
    apply negb_true_iff in H. now apply Z.eqb_neq in H.
  - now apply Z.eqb_eq.
  - intros Hf. rewrite Hf in *. destruct (gf_gap a); [reflexivity|discriminate].
  - now apply nodupb_nodup.
Qed.

Theorem orderedb_sound s : orderedb s = true -> ordered s.
Proof.
  unfold orderedb. intros H. apply andb_prop in H. destruct H as [H1 H2].
  exists (gfile_of s). split; [now apply g_invb_inv|now apply state_eqb_eq].
Qed.

(* it is not vacuous: the padded example of C03_example_holes passes, and a packed state does *)
Example orderedb_examples :
  orderedb (gconc (mkGF 4 [mkG [0; 0; 0] (mkL 16 0 1 2 3 [65] [9; 9; 9]); mkG [0; 0] (mkL 11 1 1 2 3 [] [7])] [] [255]
                        [mkF 0 5 5 5 []; mkF 0 5 5 5 []])) = true /\
  orderedb (conc (mkA 3 [mkL 16 0 1 2 3 [65] [9; 9; 9]; mkL 11 1 1 2 3 [] [7]] [mkF 0 5 5 5 []])) = true /\
  orderedb (gconc (mkGF 2 [mkG [1] (mkL 16 0 1 2 3 [] [9]); mkG [] (mkL 11 1 1 2 3 [] [7])] [] [8; 8] [])) = true /\
  (* unused slots that disagree, or point in front of a live block (F3b): not ordered *)
  orderedb (mkS 2 [mkE 5 1 640 1 0 0 0 []; mkE 0 0 0 0 0 0 0 []] [mkE 5 1 640 1 0 0 0 []; mkE 0 0 0 0 0 0 0 []] [7]) = false.
Proof. vm_compute. repeat split; reflexivity. Qed.

(* FmtFacts.v — the generic codec theorems, proved once for every layout:
     dec_encj    : decode (encode_free junk v ++ rest) = (v, rest)       (C01, C06, C12)
     encj_total  : every valid value encodes                                (C01)
     encj_size   : bytes written = size                                     (C02)
     encj_bytes  : output consists of bytes
   all by induction on the layout term; no bound on counts or nesting. *)
From Model Require Import Base Cp1252 Str Fmt.
From Proofs Require Import BaseFacts StrFacts.
From Coq Require Import ZifyBool.
Open Scope Z_scope.

Lemma take_app' {A} n (a r : list A) : length a = n -> take n (a ++ r) = Some (a, r).
Proof. intros <-. apply take_app. Qed.

Lemma encodableb_spec s : encodableb s = true -> encodable s.
Proof.
  unfold encodableb, encodable. rewrite forallb_forall, Forall_forall.
  intros H c Hc. specialize (H c Hc). destruct (cp_enc c); congruence.
Qed.

Lemma no_nulb_spec s : no_nulb s = true -> no_nul s.
Proof.
  unfold no_nulb, no_nul. rewrite forallb_forall. intros H Hin.
  specialize (H 0 Hin). discriminate.
Qed.

Lemma memb_spec z l : memb z l = true -> In z l.
Proof.
  unfold memb. rewrite existsb_exists. intros (x & Hx & E). apply Z.eqb_eq in E. now subst.
Qed.

(* ---------- the element-wise loops ---------- *)
Section Rep.
  Variable k : nat -> fmt.
  Variable jk : Z -> Z.

  Lemma rep_roundtrip :
    (forall i x off bs rest, wfb (k i) x = true -> encj (k i) jk off x = Some bs ->
                             dec (k i) (bs ++ rest) = Some (x, rest)) ->
    forall m i vs off bs rest,
      wfb_rep (fun i x => wfb (k i) x) i m vs = true ->
      enc_rep (fun i off x => encj (k i) jk off x) i m vs off = Some bs ->
      dec_rep (fun i bs => dec (k i) bs) i m (bs ++ rest) = Some (vs, rest).
  Proof.
    intros Hel. induction m as [|m IH]; intros i vs off bs rest Hw He;
      destruct vs as [|x xs]; cbn [wfb_rep enc_rep dec_rep] in *; try discriminate.
    - inversion He; subst. reflexivity.
    - apply andb_prop in Hw. destruct Hw as [Hx Hxs].
      destruct (encj (k i) jk off x) as [b1|] eqn:E1; [|discriminate].
      destruct (enc_rep _ (S i) m xs (off + zlength b1)) as [b2|] eqn:E2; [|discriminate].
      inversion He; subst. rewrite <- app_assoc.
      rewrite (Hel i x off b1 (b2 ++ rest) Hx E1).
      rewrite (IH (S i) xs _ b2 rest Hxs E2). reflexivity.
  Qed.

  Lemma rep_total :
    (forall i x off, wfb (k i) x = true -> exists bs, encj (k i) jk off x = Some bs) ->
    forall m i vs off,
      wfb_rep (fun i x => wfb (k i) x) i m vs = true ->
      exists bs, enc_rep (fun i off x => encj (k i) jk off x) i m vs off = Some bs.
  Proof.
    intros Hel. induction m as [|m IH]; intros i vs off Hw;
      destruct vs as [|x xs]; cbn [wfb_rep enc_rep] in *; try discriminate.
    - eauto.
    - apply andb_prop in Hw. destruct Hw as [Hx Hxs].
      destruct (Hel i x off Hx) as [b1 E1]. rewrite E1.
      destruct (IH (S i) xs (off + zlength b1) Hxs) as [b2 E2]. rewrite E2. eauto.
  Qed.

  Lemma rep_size :
    (forall i x off bs, encj (k i) jk off x = Some bs -> zlength bs = size (k i) x) ->
    forall m i vs off bs,
      enc_rep (fun i off x => encj (k i) jk off x) i m vs off = Some bs ->
      zlength bs = size_rep (fun i x => size (k i) x) i m vs.
  Proof.
    intros Hel. induction m as [|m IH]; intros i vs off bs He;
      destruct vs as [|x xs]; cbn [size_rep enc_rep] in *; try discriminate.
    - inversion He. reflexivity.
    - destruct (encj (k i) jk off x) as [b1|] eqn:E1; [|discriminate].
      destruct (enc_rep _ (S i) m xs (off + zlength b1)) as [b2|] eqn:E2; [|discriminate].
      inversion He; subst. rewrite zlength_app, (Hel _ _ _ _ E1), (IH _ _ _ _ E2). reflexivity.
  Qed.

  Lemma rep_bytes :
    (forall i x off bs, encj (k i) jk off x = Some bs -> bytesb bs = true) ->
    forall m i vs off bs,
      enc_rep (fun i off x => encj (k i) jk off x) i m vs off = Some bs -> bytesb bs = true.
  Proof.
    intros Hel. induction m as [|m IH]; intros i vs off bs He;
      destruct vs as [|x xs]; cbn [enc_rep] in *; try discriminate.
    - inversion He. reflexivity.
    - destruct (encj (k i) jk off x) as [b1|] eqn:E1; [|discriminate].
      destruct (enc_rep _ (S i) m xs (off + zlength b1)) as [b2|] eqn:E2; [|discriminate].
      inversion He; subst. rewrite bytesb_app, (Hel _ _ _ _ E1), (IH _ _ _ _ E2). reflexivity.
  Qed.
End Rep.

(* ---------- decode (encode_free v ++ rest) = (v, rest) ---------- *)
Theorem dec_encj : forall f jk, junk_ok jk -> forall off v bs rest,
  wfb f v = true -> encj f jk off v = Some bs -> dec f (bs ++ rest) = Some (v, rest).
Proof.
  induction f as [w lo hi|w codes|n|w| |a IHa k IHk|n k IHk|g IHg to from];
    intros jk Hj off v bs rest Hw He; cbn [wfb encj dec] in *.
  - (* FInt *)
    destruct v as [z|]; [|discriminate].
    destruct (in_rangeb lo hi z) eqn:R; [|discriminate]. inversion He; subst.
    rewrite (take_app' w) by apply le_bytes_length.
    rewrite le_val_le_bytes. unfold in_rangeb in *.
    rewrite int_of_unsigned_mod by lia. reflexivity.
  - (* FEnum *)
    destruct v as [z|]; [|discriminate].
    destruct (memb z codes && in_rangeb 0 (pow256 w) z) eqn:R; [|discriminate].
    inversion He; subst. rewrite (take_app' w) by apply le_bytes_length.
    rewrite le_val_le_bytes. apply andb_prop in R. destruct R as [Hm Hr].
    unfold in_rangeb in Hr. rewrite Z.mod_small by lia. now rewrite Hm.
  - (* FPad *)
    destruct v as [|[|]]; try discriminate. inversion He; subst.
    rewrite (take_app' n) by apply junk_length. reflexivity.
  - (* FStr *)
    destruct v as [|cs]; [discriminate|].
    destruct (unints cs) as [s|] eqn:U; [|discriminate].
    apply unints_inv in U. subst cs.
    destruct (str_writej w jk off s) as [out|] eqn:E; cbn [opt_of_result] in He; [|discriminate].
    inversion He; subst.
    rewrite (take_app' w) by (eapply str_writej_width; eassumption).
    apply andb_prop in Hw. destruct Hw as [Hw Hl]. apply andb_prop in Hw. destruct Hw as [Hen Hnn].
    rewrite zlength_correct in Hl.
    destruct (str_roundtrip w jk off s (encodableb_spec _ Hen) (no_nulb_spec _ Hnn) ltac:(lia))
      as (out' & E' & R').
    rewrite E in E'. inversion E'; subst. rewrite R'. reflexivity.
  - (* FNil *)
    destruct v as [|[|]]; try discriminate. inversion He; subst. reflexivity.
  - (* FBind *)
    destruct v as [|[|va vs]]; try discriminate.
    apply andb_prop in Hw. destruct Hw as [Hwa Hwk].
    destruct (encj a jk off va) as [b1|] eqn:E1; [|discriminate].
    destruct (encj (k va) jk (off + zlength b1) (VL vs)) as [b2|] eqn:E2; [|discriminate].
    inversion He; subst. rewrite <- app_assoc.
    rewrite (IHa jk Hj off va b1 (b2 ++ rest) Hwa E1).
    rewrite (IHk va jk Hj _ (VL vs) b2 rest Hwk E2). reflexivity.
  - (* FRepI *)
    destruct v as [|vs]; [discriminate|].
    rewrite (rep_roundtrip k jk) with (vs := vs) (off := off); [reflexivity| |exact Hw|exact He].
    intros i x off' bs' rest'. apply IHk. exact Hj.
  - (* FMap *)
    apply andb_prop in Hw. destruct Hw as [Hwg Hv]. apply veqb_eq in Hv.
    rewrite (IHg jk Hj off (to v) bs rest Hwg He). now rewrite Hv.
Qed.

Theorem encj_total : forall f jk off v, wfb f v = true -> exists bs, encj f jk off v = Some bs.
Proof.
  induction f as [w lo hi|w codes|n|w| |a IHa k IHk|n k IHk|g IHg to from];
    intros jk off v Hw; cbn [wfb encj] in *.
  - destruct v as [z|]; [|discriminate].
    destruct (in_rangeb lo hi z) eqn:R; [eauto|]. cbn in Hw. discriminate.
  - destruct v as [z|]; [|discriminate]. rewrite Hw. eauto.
  - destruct v as [|[|]]; try discriminate. eauto.
  - destruct v as [|cs]; [discriminate|].
    destruct (unints cs) as [s|] eqn:U; [|discriminate].
    apply andb_prop in Hw. destruct Hw as [Hw Hl]. apply andb_prop in Hw. destruct Hw as [Hen Hnn].
    rewrite zlength_correct in Hl.
    destruct (str_roundtrip w jk off s (encodableb_spec _ Hen) (no_nulb_spec _ Hnn) ltac:(lia))
      as (out & E & _).
    rewrite E. cbn. eauto.
  - destruct v as [|[|]]; try discriminate. eauto.
  - destruct v as [|[|va vs]]; try discriminate.
    apply andb_prop in Hw. destruct Hw as [Hwa Hwk].
    destruct (IHa jk off va Hwa) as [b1 E1]. rewrite E1.
    destruct (IHk va jk (off + zlength b1) (VL vs) Hwk) as [b2 E2]. rewrite E2. eauto.
  - destruct v as [|vs]; [discriminate|].
    apply (rep_total k jk); [|exact Hw]. intros i x off'. apply IHk.
  - apply andb_prop in Hw. destruct Hw as [Hwg _]. now apply IHg.
Qed.

Theorem encj_size : forall f jk off v bs, encj f jk off v = Some bs -> zlength bs = size f v.
Proof.
  induction f as [w lo hi|w codes|n|w| |a IHa k IHk|n k IHk|g IHg to from];
    intros jk off v bs He; cbn [size encj] in *.
  - destruct v as [z|]; [|discriminate]. destruct (in_rangeb lo hi z); [|discriminate].
    inversion He; subst. now rewrite zlength_correct, le_bytes_length.
  - destruct v as [z|]; [|discriminate]. destruct (_ && _); [|discriminate].
    inversion He; subst. now rewrite zlength_correct, le_bytes_length.
  - destruct v as [|[|]]; try discriminate. inversion He; subst.
    now rewrite zlength_correct, junk_length.
  - destruct v as [|cs]; [discriminate|]. destruct (unints cs) as [s|]; [|discriminate].
    destruct (str_writej w jk off s) as [out|] eqn:E; cbn [opt_of_result] in He; [|discriminate].
    inversion He; subst. rewrite zlength_correct. f_equal. eapply str_writej_width; eassumption.
  - destruct v as [|[|]]; try discriminate. inversion He; subst. reflexivity.
  - destruct v as [|[|va vs]]; try discriminate.
    destruct (encj a jk off va) as [b1|] eqn:E1; [|discriminate].
    destruct (encj (k va) jk (off + zlength b1) (VL vs)) as [b2|] eqn:E2; [|discriminate].
    inversion He; subst. rewrite zlength_app, (IHa _ _ _ _ E1), (IHk _ _ _ _ _ E2). reflexivity.
  - destruct v as [|vs]; [discriminate|].
    apply (rep_size k jk) with (off := off); [|exact He]. intros i x off' bs'. apply IHk.
  - now apply IHg in He.
Qed.

Theorem encj_bytes : forall f jk, junk_ok jk -> forall off v bs,
  encj f jk off v = Some bs -> bytesb bs = true.
Proof.
  induction f as [w lo hi|w codes|n|w| |a IHa k IHk|n k IHk|g IHg to from];
    intros jk Hj off v bs He; cbn [encj] in *.
  - destruct v as [z|]; [|discriminate]. destruct (in_rangeb lo hi z); [|discriminate].
    inversion He; subst. apply le_bytes_ok.
  - destruct v as [z|]; [|discriminate]. destruct (_ && _); [|discriminate].
    inversion He; subst. apply le_bytes_ok.
  - destruct v as [|[|]]; try discriminate. inversion He; subst. now apply junk_bytes.
  - destruct v as [|cs]; [discriminate|]. destruct (unints cs) as [s|]; [|discriminate].
    destruct (str_writej w jk off s) as [out|] eqn:E; cbn [opt_of_result] in He; [|discriminate].
    inversion He; subst. eapply str_writej_bytes; eassumption.
  - destruct v as [|[|]]; try discriminate. inversion He; subst. reflexivity.
  - destruct v as [|[|va vs]]; try discriminate.
    destruct (encj a jk off va) as [b1|] eqn:E1; [|discriminate].
    destruct (encj (k va) jk (off + zlength b1) (VL vs)) as [b2|] eqn:E2; [|discriminate].
    inversion He; subst. rewrite bytesb_app, (IHa _ Hj _ _ _ E1), (IHk _ _ Hj _ _ _ E2). reflexivity.
  - destruct v as [|vs]; [discriminate|].
    apply (rep_bytes k jk) with (m := n) (i := O) (vs := vs) (off := off); [|exact He].
    intros i x off' bs'. now apply IHk.
  - now apply IHg in He.
Qed.

(* ---------- corollaries in the shape the properties use ---------- *)

(* C12: what is decoded does not depend on the junk *)
Corollary dec_junk_indep f jk1 jk2 off1 off2 v b1 b2 rest :
  junk_ok jk1 -> junk_ok jk2 -> wfb f v = true ->
  encj f jk1 off1 v = Some b1 -> encj f jk2 off2 v = Some b2 ->
  dec f (b1 ++ rest) = dec f (b2 ++ rest).
Proof.
  intros H1 H2 Hw E1 E2.
  rewrite (dec_encj f jk1 H1 off1 v b1 rest Hw E1), (dec_encj f jk2 H2 off2 v b2 rest Hw E2).
  reflexivity.
Qed.

(* size does not depend on junk or position *)
Corollary encj_length_indep f jk1 jk2 off1 off2 v b1 b2 :
  encj f jk1 off1 v = Some b1 -> encj f jk2 off2 v = Some b2 -> length b1 = length b2.
Proof.
  intros E1 E2. apply encj_size in E1, E2. rewrite zlength_correct in E1, E2. lia.
Qed.

(* C01: library round trip *)
Corollary dec_enc f v bs rest :
  wfb f v = true -> enc f v = Some bs -> dec f (bs ++ rest) = Some (v, rest).
Proof. intros. eapply dec_encj; eauto using zero_junk_ok. Qed.

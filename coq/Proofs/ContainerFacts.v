(* ContainerFacts.v — the statement-by-statement container model (Container.v) refines the
   abstract file (AFile.v):  step (conc a) o = (Done, conc a')  with  a_step a o = Some a',
   and  step (conc a) o = (Raised _, conc a)  when  a_step a o = None. *)
From Model Require Import Base Str Fmt Container AFile.
From Proofs Require Import BaseFacts.
From Coq Require Import ZifyBool.
Open Scope Z_scope.

(* ---------- list helpers ---------- *)
Lemma firstn_len_app {A} (l r : list A) : firstn (length l) (l ++ r) = l.
Proof. induction l as [|x l IH]; cbn [length firstn app]; [now destruct r|now rewrite IH]. Qed.

Lemma skipn_len_app {A} (l r : list A) : skipn (length l) (l ++ r) = r.
Proof. induction l as [|x l IH]; cbn [length skipn app]; [reflexivity|exact IH]. Qed.

Lemma skipn_S_len_app {A} (l : list A) x r : skipn (S (length l)) (l ++ x :: r) = r.
Proof.
  replace (l ++ x :: r) with ((l ++ [x]) ++ r) by now rewrite <- app_assoc.
  replace (S (length l)) with (length (l ++ [x])) by (rewrite app_length; cbn; lia).
  apply skipn_len_app.
Qed.

Lemma firstn_S_len_app {A} (l : list A) x r : firstn (S (length l)) (l ++ x :: r) = l ++ [x].
Proof.
  replace (l ++ x :: r) with ((l ++ [x]) ++ r) by now rewrite <- app_assoc.
  replace (S (length l)) with (length (l ++ [x])) by (rewrite app_length; cbn; lia).
  apply firstn_len_app.
Qed.

Lemma set_nth_len_app {A} (l : list A) x y r : set_nth (length l) x (l ++ y :: r) = l ++ x :: r.
Proof. induction l as [|z l IH]; cbn [length set_nth app]; [reflexivity|now rewrite IH]. Qed.

Lemma remove_nth_len_app {A} (l : list A) y r : remove_nth (length l) (l ++ y :: r) = l ++ r.
Proof. induction l as [|z l IH]; cbn [length remove_nth app]; [reflexivity|now rewrite IH]. Qed.

Lemma nth_len_app {A} (l : list A) y r d : nth (length l) (l ++ y :: r) d = y.
Proof. induction l as [|z l IH]; cbn [length nth app]; [reflexivity|exact IH]. Qed.

Lemma find_pos_app_none {A} (p : A -> bool) (l r : list A) :
  existsb p l = false -> find_pos p (l ++ r) = option_map (fun k => (length l + k)%nat) (find_pos p r).
Proof.
  induction l as [|x l IH]; cbn [existsb find_pos app length]; intros H.
  - destruct (find_pos p r); reflexivity.
  - apply orb_false_iff in H. destruct H as [Hx Hl]. rewrite Hx, (IH Hl).
    destruct (find_pos p r); reflexivity.
Qed.

Lemma list_last_cases {A} (l : list A) : l = [] \/ exists l' x, l = l' ++ [x].
Proof.
  destruct l as [|y l]; [left; reflexivity|right].
  destruct (@exists_last A (y :: l)) as [l' [x E]]; [discriminate|]. now exists l', x.
Qed.

Lemma rev_snoc {A} (l : list A) x : rev (l ++ [x]) = x :: rev l.
Proof. now rewrite rev_app_distr. Qed.

(* ---------- layout facts ---------- *)
Lemma total_app l1 l2 : total (l1 ++ l2) = total l1 + total l2.
Proof. induction l1 as [|b l1 IH]; cbn [total app]; lia. Qed.

Lemma psize_nonneg b : 0 <= psize b.
Proof. apply zlength_nonneg. Qed.

Lemma total_nonneg l : 0 <= total l.
Proof. induction l as [|b l IH]; cbn [total]; [lia|pose proof (psize_nonneg b); lia]. Qed.

Lemma lay_app l1 : forall off l2, lay off (l1 ++ l2) = lay off l1 ++ lay (off + total l1) l2.
Proof.
  induction l1 as [|b l1 IH]; intros off l2; cbn [lay app total].
  - now rewrite Z.add_0_r.
  - rewrite IH. now rewrite Z.add_assoc.
Qed.

Lemma lay_length l : forall off, length (lay off l) = length l.
Proof. induction l as [|b l IH]; intros off; cbn [lay length]; [reflexivity|now rewrite IH]. Qed.

Lemma lay_shift d l : forall off, map (shift d) (lay off l) = lay (off + d) l.
Proof.
  induction l as [|b l IH]; intros off; cbn [lay map]; [reflexivity|].
  rewrite IH. replace (off + psize b + d) with (off + d + psize b) by lia. reflexivity.
Qed.

Lemma free_shift d off fr : map (shift d) (map (free_entry off) fr) = map (free_entry (off + d)) fr.
Proof. rewrite map_map. apply map_ext. intros f. reflexivity. Qed.

Lemma free_set_off o off fr : map (set_off o) (map (free_entry off) fr) = map (free_entry o) fr.
Proof. rewrite map_map. apply map_ext. intros f. reflexivity. Qed.

Lemma data_length l : zlength (flat_map l_payload l) = total l.
Proof.
  induction l as [|b l IH]; cbn [flat_map total]; [reflexivity|].
  rewrite zlength_app, IH. reflexivity.
Qed.

Lemma data_length_nat l : length (flat_map l_payload l) = Z.to_nat (total l).
Proof. rewrite <- data_length, zlength_correct. lia. Qed.

Definition types_ok (l : list lblock) : Prop := Forall (fun b => l_type b <> 0) l.

Lemma lay_no_unused l : types_ok l -> forall off, existsb is_unused (lay off l) = false.
Proof.
  induction 1 as [|b l Hb Hl IH]; intros off; cbn [lay existsb]; [reflexivity|].
  rewrite IH. unfold is_unused, live_entry; cbn [e_type]. apply Z.eqb_neq in Hb. now rewrite Hb.
Qed.

Lemma free_no_live off fr : existsb is_live (map (free_entry off) fr) = false.
Proof. induction fr as [|f fr IH]; cbn [map existsb]; [reflexivity|]. rewrite IH. reflexivity. Qed.

Lemma lay_has_type ty l : forall off,
  existsb (has_type ty) (lay off l) = existsb (Z.eqb ty) (map l_type l).
Proof.
  induction l as [|b l IH]; intros off; cbn [lay map existsb]; [reflexivity|].
  rewrite IH. unfold has_type, live_entry; cbn. now rewrite Z.eqb_sym.
Qed.

Lemma free_has_type ty off fr : ty <> 0 -> existsb (has_type ty) (map (free_entry off) fr) = false.
Proof.
  intros H. induction fr as [|f fr IH]; cbn [map existsb]; [reflexivity|].
  rewrite IH. unfold has_type, free_entry; cbn [e_type]. apply not_eq_sym, Z.eqb_neq in H. now rewrite H.
Qed.

Lemma table_has_type a ty : ty <> 0 ->
  existsb (has_type ty) (table_of a) = existsb (Z.eqb ty) (a_types a).
Proof.
  intros H. unfold table_of. rewrite existsb_app, lay_has_type, free_has_type by exact H.
  now rewrite orb_false_r.
Qed.

(* the end of the data region as seen from the last table entry *)
Lemma table_last_off a :
  match rev (table_of a) with
  | e :: _ => e_off e + e_size e
  | [] => base (a_n a)
  end = base (a_n a) + total (a_live a).
Proof.
  unfold table_of. destruct (list_last_cases (a_free a)) as [E|[fr [f E]]]; rewrite E.
  - cbn [map]. rewrite app_nil_r.
    destruct (list_last_cases (a_live a)) as [E2|[l' [b E2]]]; rewrite E2.
    + cbn. lia.
    + rewrite lay_app. cbn [lay]. rewrite rev_snoc. cbn. rewrite total_app. cbn [total]. lia.
  - rewrite map_app. cbn [map]. rewrite app_assoc, rev_snoc. cbn. lia.
Qed.

(* ---------- add_block refines a_add ---------- *)
Lemma table_find_unused a f fr : types_ok (a_live a) -> a_free a = f :: fr ->
  find_pos is_unused (table_of a) = Some (length (a_live a)).
Proof.
  intros Ht Ef. unfold table_of. rewrite Ef.
  rewrite find_pos_app_none by (apply lay_no_unused; exact Ht).
  cbn [map find_pos]. cbn. rewrite lay_length. f_equal. lia.
Qed.

Lemma table_no_unused a : types_ok (a_live a) -> a_free a = [] ->
  find_pos is_unused (table_of a) = None.
Proof.
  intros Ht Ef. unfold table_of. rewrite Ef. cbn [map]. rewrite app_nil_r.
  pose proof (lay_no_unused _ Ht (base (a_n a))) as H.
  revert H. generalize (lay (base (a_n a)) (a_live a)). intros l.
  induction l as [|x l IH]; cbn [existsb find_pos]; intros H; [reflexivity|].
  apply orb_false_iff in H. destruct H as [Hx Hl]. rewrite Hx, (IH Hl). reflexivity.
Qed.

Lemma write_data_append d bs : write_data (zlength d) bs d = d ++ bs.
Proof.
  unfold write_data. rewrite Z.ltb_irrefl.
  rewrite zlength_correct, Nat2Z.id.
  rewrite firstn_all. rewrite skipn_all2 by lia. now rewrite app_nil_r.
Qed.

Theorem add_refines a b c now p f fr x :
  types_ok (a_live a) -> blk_ok b ->
  existsb (Z.eqb (b_type b)) (a_types a) = false ->
  a_free a = f :: fr -> str_write 256 c = Ok x -> b_payload b = Some p ->
  c_add (conc a) b c now = (Done, conc (a_add a (new_block b c p now))).
Proof.
  intros Ht [Hty Hsz] Hdup Ef Hc Hp. rewrite Hp in Hsz.
  unfold c_add. cbn [mem conc tab data s_n].
  rewrite table_has_type, Hdup by exact Hty.
  rewrite (table_find_unused a f fr Ht Ef).
  assert (Etab : table_of a = lay (base (a_n a)) (a_live a) ++
                 free_entry (base (a_n a) + total (a_live a)) f ::
                 map (free_entry (base (a_n a) + total (a_live a))) fr).
  { unfold table_of. rewrite Ef. reflexivity. }
  set (L := lay (base (a_n a)) (a_live a)) in *.
  set (E := base (a_n a) + total (a_live a)) in *.
  assert (HL : length L = length (a_live a)) by (unfold L; apply lay_length).
  rewrite Etab. rewrite <- HL.
  rewrite skipn_S_len_app, free_no_live. rewrite Hc, Hp.
  unfold nth_entry. rewrite nth_len_app. cbn [e_off free_entry].
  rewrite set_nth_len_app, firstn_S_len_app, skipn_S_len_app, free_set_off.
  rewrite firstn_len_app.
  f_equal. unfold conc, a_add, table_of, data_of. cbn [a_n a_live a_free tl].
  rewrite Ef. cbn [tl].
  assert (Enew : lay (base (a_n a)) (a_live a ++ [new_block b c p now]) ++
                 map (free_entry (base (a_n a) + total (a_live a ++ [new_block b c p now]))) fr
               = (L ++ [mkE (b_type b) (b_format b) E (b_size b) (b_cdate b) (b_mdate b) now c]) ++
                 map (free_entry (E + b_size b)) fr).
  { rewrite lay_app, total_app. cbn [lay total]. fold L. fold E.
    unfold live_entry, new_block, psize. cbn [l_type l_format l_cdate l_mdate l_adate l_comment l_payload].
    rewrite <- Hsz.
    replace (base (a_n a) + (total (a_live a) + (b_size b + 0))) with (E + b_size b) by (unfold E; lia).
    reflexivity. }
  rewrite Enew.
  replace (skipn (length L) ((L ++ [mkE (b_type b) (b_format b) E (b_size b) (b_cdate b) (b_mdate b) now c]) ++
                             map (free_entry (E + b_size b)) fr))
    with ([mkE (b_type b) (b_format b) E (b_size b) (b_cdate b) (b_mdate b) now c] ++
          map (free_entry (E + b_size b)) fr)
    by (rewrite <- app_assoc; now rewrite skipn_len_app).
  rewrite app_assoc.
  f_equal.
  rewrite flat_map_app. cbn [flat_map]. rewrite app_nil_r.
  replace (E - base (a_n a)) with (zlength (flat_map l_payload (a_live a)))
    by (rewrite data_length; unfold E; lia).
  cbn [l_payload new_block]. apply write_data_append.
Qed.

(* ---------- remove_block refines a_remove ---------- *)
(* the first block of type ty splits the live list *)
Lemma split_first ty l : existsb (Z.eqb ty) (map l_type l) = true ->
  exists l1 b l2, l = l1 ++ b :: l2 /\ l_type b = ty /\
                  existsb (Z.eqb ty) (map l_type l1) = false /\
                  remove_first ty l = l1 ++ l2.
Proof.
  induction l as [|x l IH]; cbn [map existsb]; [discriminate|].
  destruct (Z.eqb_spec ty (l_type x)) as [E|N]; cbn [orb]; intros H.
  - exists [], x, l. cbn [remove_first]. subst ty. rewrite Z.eqb_refl. repeat split; reflexivity.
  - destruct (IH H) as [l1 [b [l2 [E1 [E2 [E3 E4]]]]]].
    exists (x :: l1), b, l2.
    split; [rewrite E1; reflexivity|]. split; [exact E2|]. split.
    + cbn [map existsb]. rewrite E3. destruct (Z.eqb_spec ty (l_type x)) as [E|_]; [congruence|reflexivity].
    + cbn [remove_first]. destruct (Z.eqb_spec (l_type x) ty) as [E|_]; [congruence|].
      rewrite E4. reflexivity.
Qed.

Lemma find_pos_first ty l1 b l2 off : l_type b = ty ->
  existsb (Z.eqb ty) (map l_type l1) = false ->
  forall rest, find_pos (has_type ty) (lay off (l1 ++ b :: l2) ++ rest) = Some (length l1).
Proof.
  intros Hb Hn rest. rewrite lay_app. cbn [lay]. rewrite <- app_assoc.
  rewrite find_pos_app_none by (rewrite lay_has_type; exact Hn).
  cbn [app find_pos]. unfold has_type at 1. cbn [e_type live_entry]. rewrite Hb, Z.eqb_refl.
  cbn [option_map]. rewrite lay_length. f_equal. lia.
Qed.

Theorem remove_refines a ty now :
  types_ok (a_live a) -> ty <> 0 ->
  existsb (Z.eqb ty) (a_types a) = true ->
  c_remove (conc a) ty now = (Done, conc (a_remove a ty now)).
Proof.
  intros Ht Hty Hin. unfold a_types in Hin.
  destruct (split_first ty (a_live a) Hin) as [l1 [b [l2 [El [Hb [Hn Hrm]]]]]].
  unfold c_remove. cbn [mem conc tab data s_n].
  set (B := base (a_n a)).
  set (FR := a_free a).
  assert (Etab : table_of a = lay B l1 ++ live_entry (B + total l1) b ::
                 (lay (B + total l1 + psize b) l2 ++ map (free_entry (B + total (a_live a))) FR)).
  { unfold table_of. fold B. fold FR. rewrite El at 1. rewrite lay_app. cbn [lay].
    now rewrite <- app_assoc. }
  assert (Etot : total (a_live a) = total l1 + psize b + total l2).
  { rewrite El, total_app. cbn [total]. lia. }
  assert (Hfp : find_pos (has_type ty) (table_of a) = Some (length l1)).
  { unfold table_of. rewrite El. now apply find_pos_first. }
  rewrite Hfp. rewrite Etab.
  assert (HL : length (lay B l1) = length l1) by apply lay_length.
  rewrite <- HL.
  unfold nth_entry. rewrite nth_len_app, remove_nth_len_app.
  rewrite firstn_len_app, skipn_len_app.
  cbn [e_size e_off live_entry].
  rewrite map_app, lay_shift, free_shift.
  (* the table after the shift is the table of the abstract file without the block *)
  set (a1 := mkA (a_n a) (l1 ++ l2) FR).
  assert (ET1 : lay B l1 ++ lay (B + total l1 + psize b + - psize b) l2 ++
                map (free_entry (B + total (a_live a) + - psize b)) FR = table_of a1).
  { unfold table_of, a1. cbn [a_n a_live a_free]. fold B. rewrite lay_app, total_app, <- app_assoc.
    replace (B + total l1 + psize b + - psize b) with (B + total l1) by lia.
    replace (B + total (a_live a) + - psize b) with (B + (total l1 + total l2)) by lia.
    reflexivity. }
  rewrite ET1.
  pose proof (table_last_off a1) as Hlast. cbn [a_n a_live a1] in Hlast. fold B in Hlast.
  unfold a1 in Hlast at 1. fold a1 in Hlast.
  rewrite Hlast.
  f_equal.
  assert (ET3 : table_of a1 ++ [unused_entry (B + total (l1 ++ l2)) now] = table_of (a_remove a ty now)).
  { unfold table_of, a_remove, a1. cbn [a_n a_live a_free]. fold B. rewrite Hrm.
    rewrite map_app. cbn [map]. now rewrite <- app_assoc. }
  unfold conc. cbn [a_n a_remove]. rewrite ET3.
  f_equal.
  - (* the table on disk *)
    rewrite <- ET3. rewrite firstn_len_app. unfold table_of, a1. cbn [a_n a_live a_free]. fold B.
    rewrite lay_app, <- !app_assoc. rewrite skipn_len_app. reflexivity.
  - (* the data: the removed payload is cut out *)
    unfold data_of. cbn [a_live a_remove]. rewrite Hrm, El.
    rewrite !flat_map_app. cbn [flat_map].
    replace (B + total l1 - B) with (total l1) by lia.
    rewrite <- data_length_nat.
    rewrite firstn_len_app.
    replace (length (flat_map l_payload l1) + Z.to_nat (psize b))%nat
      with (length (flat_map l_payload l1 ++ l_payload b)).
    2:{ rewrite app_length. unfold psize. rewrite zlength_correct. lia. }
    rewrite app_assoc, skipn_len_app. reflexivity.
Qed.

(* ---------- refused calls never change the state (add, remove) ---------- *)
Lemma c_add_raise_same s b c now e s' : c_add s b c now = (Raised e, s') -> s' = s.
Proof.
  unfold c_add.
  destruct (existsb (has_type (b_type b)) (mem s)); [intros H; now inversion H|].
  destruct (find_pos is_unused (mem s)) as [k|]; [|intros H; now inversion H].
  destruct (existsb is_live (skipn (S k) (mem s))); [intros H; now inversion H|].
  destruct (str_write 256 c); [|intros H; now inversion H].
  destruct (b_payload b); intros H; now inversion H.
Qed.

Lemma c_remove_raise_same s ty now e s' : c_remove s ty now = (Raised e, s') -> s' = s.
Proof.
  unfold c_remove. destruct (find_pos (has_type ty) (mem s)); intros H; now inversion H.
Qed.

(* ---------- types of the table ---------- *)
Lemma lay_types l : forall off, map e_type (lay off l) = map l_type l.
Proof. induction l as [|b l IH]; intros off; cbn [lay map]; [reflexivity|now rewrite IH]. Qed.

Lemma free_types off fr : map e_type (map (free_entry off) fr) = map (fun _ => 0) fr.
Proof. rewrite map_map. reflexivity. Qed.

Lemma find_pos_zero nz zs z : Forall (fun t => t <> 0) nz ->
  find_pos (Z.eqb 0) (nz ++ 0 :: zs ++ [z]) = Some (length nz).
Proof.
  intros H. rewrite find_pos_app_none.
  - cbn [find_pos]. cbn. f_equal. lia.
  - induction H as [|t nz Ht Hnz IH]; cbn [existsb]; [reflexivity|].
    rewrite IH. destruct (Z.eqb_spec 0 t); [congruence|reflexivity].
Qed.

Lemma all_zero_no_live (zs : list Z) : Forall (fun t => t = 0) zs ->
  existsb (fun t => negb (t =? 0)) zs = false.
Proof.
  induction 1 as [|t zs Ht Hzs IH]; cbn [existsb]; [reflexivity|]. rewrite IH, Ht. reflexivity.
Qed.

Lemma find_has_type ty l1 b l2 off rest : l_type b = ty ->
  existsb (Z.eqb ty) (map l_type l1) = false ->
  find (has_type ty) (lay off (l1 ++ b :: l2) ++ rest) = Some (live_entry (off + total l1) b).
Proof.
  intros Hb Hn. rewrite lay_app. cbn [lay]. rewrite <- app_assoc.
  generalize (off + total l1). intros o.
  assert (Hl : existsb (has_type ty) (lay off l1) = false) by (rewrite lay_has_type; exact Hn).
  revert Hl. generalize (lay off l1). intros L. induction L as [|x L IH]; cbn [existsb find app]; intros Hl.
  - unfold has_type at 1. cbn [e_type live_entry]. now rewrite Hb, Z.eqb_refl.
  - apply orb_false_iff in Hl. destruct Hl as [Hx HL]. rewrite Hx. now apply IH.
Qed.

Lemma find_none_type ty a : ty <> 0 -> existsb (Z.eqb ty) (a_types a) = false ->
  find (has_type ty) (table_of a) = None.
Proof.
  intros Hty Hn. rewrite <- table_has_type in Hn by exact Hty.
  revert Hn. generalize (table_of a). intros L. induction L as [|x L IH]; cbn [existsb find]; intros H; [reflexivity|].
  apply orb_false_iff in H. destruct H as [Hx HL]. rewrite Hx. now apply IH.
Qed.

Lemma a_find_split ty l : existsb (Z.eqb ty) (map l_type l) = true ->
  forall l1 b l2, l = l1 ++ b :: l2 -> l_type b = ty -> existsb (Z.eqb ty) (map l_type l1) = false ->
  find (fun x => l_type x =? ty) l = Some b.
Proof.
  intros _ l1 b l2 -> Hb Hn. induction l1 as [|x l1 IH]; cbn [app find map existsb] in *.
  - now rewrite Hb, Z.eqb_refl.
  - apply orb_false_iff in Hn. destruct Hn as [Hx Hl]. rewrite Z.eqb_sym, Hx. now apply IH.
Qed.

Lemma a_find_none ty l : existsb (Z.eqb ty) (map l_type l) = false ->
  find (fun x => l_type x =? ty) l = None.
Proof.
  induction l as [|x l IH]; cbn [map existsb find]; intros H; [reflexivity|].
  apply orb_false_iff in H. destruct H as [Hx Hl]. rewrite Z.eqb_sym, Hx. now apply IH.
Qed.

Lemma a_find_some_in ty l b : find (fun x => l_type x =? ty) l = Some b ->
  existsb (Z.eqb ty) (map l_type l) = true /\ l_type b = ty.
Proof.
  induction l as [|x l IH]; cbn [map existsb find]; [discriminate|].
  rewrite (Z.eqb_sym ty). destruct (Z.eqb_spec (l_type x) ty) as [E|N]; cbn [orb].
  - intros H. inversion H; subst. split; reflexivity.
  - exact IH.
Qed.

(* removing the only block of a type leaves none of that type *)
Lemma remove_first_gone ty l : NoDup (map l_type l) ->
  existsb (Z.eqb ty) (map l_type (remove_first ty l)) = false.
Proof.
  induction l as [|x l IH]; cbn [map remove_first]; intros H; [reflexivity|].
  inversion H as [|? ? Hx Hl]; subst.
  destruct (Z.eqb_spec (l_type x) ty) as [E|N].
  - subst ty. destruct (existsb (Z.eqb (l_type x)) (map l_type l)) eqn:Ex; [|reflexivity].
    apply existsb_exists in Ex. destruct Ex as [t [Hin Et]]. apply Z.eqb_eq in Et. subst t. contradiction.
  - cbn [map existsb]. rewrite (IH Hl). destruct (Z.eqb_spec ty (l_type x)); [congruence|reflexivity].
Qed.

Lemma remove_first_incl ty l t : In t (map l_type (remove_first ty l)) -> In t (map l_type l).
Proof.
  induction l as [|x l IH]; cbn [map remove_first]; [tauto|].
  destruct (l_type x =? ty); cbn [map In]; [tauto|]. intros [H|H]; [now left|right; now apply IH].
Qed.

Lemma remove_first_nodup ty l : NoDup (map l_type l) -> NoDup (map l_type (remove_first ty l)).
Proof.
  induction l as [|x l IH]; cbn [map remove_first]; intros H; [constructor|].
  inversion H as [|? ? Hx Hl]; subst.
  destruct (l_type x =? ty); [exact Hl|]. cbn [map]. constructor; [|now apply IH].
  intros Hin. apply Hx. now apply remove_first_incl in Hin.
Qed.

Lemma remove_first_types_ok ty l : types_ok l -> types_ok (remove_first ty l).
Proof.
  induction 1 as [|x l Hx Hl IH]; cbn [remove_first]; [constructor|].
  destruct (l_type x =? ty); [exact Hl|constructor; assumption].
Qed.

Lemma remove_first_length ty l : existsb (Z.eqb ty) (map l_type l) = true ->
  zlength (remove_first ty l) = zlength l - 1.
Proof.
  induction l as [|x l IH]; cbn [map existsb remove_first]; [discriminate|].
  rewrite (Z.eqb_sym ty). destruct (Z.eqb_spec (l_type x) ty) as [E|N]; cbn [orb]; intros H.
  - rewrite !zlength_correct. cbn [length]. lia.
  - specialize (IH H). rewrite !zlength_correct in *. cbn [length]. lia.
Qed.

(* ---------- replace_block = remove + add, with every check hoisted before the remove ---------- *)
Lemma remaining_ok ts zs : Forall (fun t => t <> 0) ts -> Forall (fun t => t = 0) zs ->
  exists k, find_pos (Z.eqb 0) (ts ++ zs ++ [0]) = Some k /\
            existsb (fun t => negb (t =? 0)) (skipn (S k) (ts ++ zs ++ [0])) = false.
Proof.
  intros Hts Hzs. exists (length ts).
  assert (Hn : existsb (Z.eqb 0) ts = false).
  { induction Hts as [|t ts Ht _ IH]; cbn [existsb]; [reflexivity|].
    rewrite IH. destruct (Z.eqb_spec 0 t); [congruence|reflexivity]. }
  destruct zs as [|z zs].
  - cbn [app]. split.
    + rewrite find_pos_app_none by exact Hn. cbn. f_equal. lia.
    + now rewrite skipn_S_len_app.
  - inversion Hzs as [|? ? Hz Hzs']; subst. cbn [app]. split.
    + rewrite find_pos_app_none by exact Hn. cbn. f_equal. lia.
    + rewrite skipn_S_len_app. apply all_zero_no_live.
      apply Forall_app. split; [exact Hzs'|constructor; [reflexivity|constructor]].
Qed.

Lemma zeros_forall {A} (l : list A) : Forall (fun t => t = 0) (map (fun _ => 0) l).
Proof. induction l; cbn [map]; constructor; [reflexivity|assumption]. Qed.

Lemma types_ok_forall l : types_ok l -> Forall (fun t => t <> 0) (map l_type l).
Proof. induction 1; cbn [map]; constructor; assumption. Qed.

Theorem replace_refines a b c n1 n2 old p x :
  types_ok (a_live a) -> NoDup (a_types a) -> blk_ok b ->
  a_find a (b_type b) = Some old -> b_payload b = Some p ->
  str_write 256 (match c with Some c => c | None => l_comment old end) = Ok x ->
  c_replace (conc a) b c n1 n2 =
  (Done, conc (a_add (a_remove a (b_type b) n1)
                     (new_block b (match c with Some c => c | None => l_comment old end) p n2))).
Proof.
  intros Ht Hnd Hb Hf Hp Hc. pose proof Hb as [Hty _].
  destruct (a_find_some_in _ _ _ Hf) as [Hin Hto].
  destruct (split_first _ _ Hin) as [l1 [ob [l2 [El [Hob [Hn Hrm]]]]]].
  assert (old = ob).
  { unfold a_find in Hf. rewrite (a_find_split _ _ Hin l1 ob l2 El Hob Hn) in Hf. now inversion Hf. }
  subst ob.
  unfold c_replace. cbn [mem conc].
  assert (Efind : find (has_type (b_type b)) (table_of a) =
                  Some (live_entry (base (a_n a) + total l1) old)).
  { unfold table_of. rewrite El. now apply find_has_type. }
  rewrite Efind. cbn [e_comment live_entry]. rewrite Hp, Hc.
  assert (Efp : find_pos (has_type (b_type b)) (table_of a) = Some (length l1)).
  { unfold table_of. rewrite El. now apply find_pos_first. }
  rewrite Efp.
  assert (Erem : map e_type (remove_nth (length l1) (table_of a)) ++ [0] =
                 map l_type (l1 ++ l2) ++ map (fun _ => 0) (a_free a) ++ [0]).
  { unfold table_of. rewrite El at 1. rewrite lay_app. cbn [lay]. rewrite <- app_assoc.
    rewrite <- (lay_length l1 (base (a_n a))). cbn [app]. rewrite remove_nth_len_app.
    rewrite !map_app, !lay_types, free_types. now rewrite <- !app_assoc. }
  rewrite Erem.
  assert (Hts : Forall (fun t => t <> 0) (map l_type (l1 ++ l2))).
  { rewrite <- Hrm. apply types_ok_forall, remove_first_types_ok, Ht. }
  assert (Hzs : Forall (fun t => t = 0) (map (fun _ : fslot => 0) (a_free a))).
  { apply zeros_forall. }
  destruct (remaining_ok _ _ Hts Hzs) as [k [Hk1 Hk2]]. rewrite Hk1, Hk2.
  fold (conc a). rewrite (remove_refines a (b_type b) n1 Ht Hty Hin).
  set (a2 := a_remove a (b_type b) n1).
  destruct (a_free a2) as [|f fr] eqn:Ef2.
  { unfold a2, a_remove in Ef2. cbn [a_free] in Ef2. destruct (a_free a); discriminate. }
  eapply add_refines; try eassumption.
  - unfold a2. cbn [a_live a_remove]. now apply remove_first_types_ok.
  - unfold a_types, a2. cbn [a_live a_remove]. now apply remove_first_gone.
Qed.

Lemma c_replace_no_block a b c n1 n2 : b_type b <> 0 -> a_find a (b_type b) = None ->
  c_replace (conc a) b c n1 n2 = (Raised EValue, conc a).
Proof.
  intros Hty Hf. unfold c_replace. cbn [mem conc].
  rewrite find_none_type; [reflexivity|exact Hty|].
  unfold a_find in Hf. destruct (existsb (Z.eqb (b_type b)) (a_types a)) eqn:E; [|reflexivity].
  unfold a_types in E. destruct (split_first _ _ E) as [l1 [ob [l2 [El [Hob [Hn _]]]]]].
  rewrite (a_find_split _ _ E l1 ob l2 El Hob Hn) in Hf. discriminate.
Qed.

Lemma c_replace_refused a b c n1 n2 old : types_ok (a_live a) -> b_type b <> 0 ->
  a_find a (b_type b) = Some old ->
  (b_payload b = None \/ comment_ok (match c with Some c => c | None => l_comment old end) = false) ->
  exists e, c_replace (conc a) b c n1 n2 = (Raised e, conc a).
Proof.
  intros Ht Hty Hf Hbad.
  destruct (a_find_some_in _ _ _ Hf) as [Hin Hto].
  destruct (split_first _ _ Hin) as [l1 [ob [l2 [El [Hob [Hn Hrm]]]]]].
  assert (old = ob).
  { unfold a_find in Hf. rewrite (a_find_split _ _ Hin l1 ob l2 El Hob Hn) in Hf. now inversion Hf. }
  subst ob.
  unfold c_replace. cbn [mem conc].
  assert (Efind : find (has_type (b_type b)) (table_of a) =
                  Some (live_entry (base (a_n a) + total l1) old)).
  { unfold table_of. rewrite El. now apply find_has_type. }
  rewrite Efind. cbn [e_comment live_entry].
  destruct (b_payload b) as [p|]; [|eexists; reflexivity].
  destruct Hbad as [Hbad|Hbad]; [discriminate|]. unfold comment_ok in Hbad.
  destruct (str_write 256 (match c with Some c0 => c0 | None => l_comment old end)); [discriminate|].
  eexists; reflexivity.
Qed.

Lemma NoDup_app_snoc {A} (l : list A) x : NoDup l -> ~ In x l -> NoDup (l ++ [x]).
Proof.
  induction 1 as [|y l Hy Hl IH]; cbn [app]; intros Hx.
  - constructor; [intros []|constructor].
  - constructor.
    + rewrite in_app_iff. cbn [In]. intros [H|[H|[]]]; [now apply Hy|subst; apply Hx; now left].
    + apply IH. intros H. apply Hx. now right.
Qed.

(* ---------- the whole step ---------- *)
Lemma a_add_inv a nb : a_inv a -> l_type nb <> 0 -> a_free a <> [] ->
  existsb (Z.eqb (l_type nb)) (a_types a) = false -> a_inv (a_add a nb).
Proof.
  intros [[Ht Hn] Hnd] Hty Hfree Hdup. unfold a_inv, a_wf, a_add, a_types. cbn [a_live a_free a_n].
  repeat split.
  - apply Forall_app. split; [exact Ht|constructor; [exact Hty|constructor]].
  - destruct (a_free a) as [|f fr]; [congruence|]. cbn [tl].
    rewrite !zlength_correct in *. rewrite app_length. cbn [length] in *. lia.
  - rewrite map_app. cbn [map]. apply NoDup_app_snoc; [exact Hnd|].
    intros Hin. assert (existsb (Z.eqb (l_type nb)) (a_types a) = true); [|congruence].
    apply existsb_exists. exists (l_type nb). split; [exact Hin|apply Z.eqb_refl].
Qed.

Lemma a_remove_inv a ty now : a_inv a -> existsb (Z.eqb ty) (a_types a) = true ->
  a_inv (a_remove a ty now).
Proof.
  intros [[Ht Hn] Hnd] Hin. unfold a_inv, a_wf, a_remove, a_types. cbn [a_live a_free a_n].
  repeat split.
  - now apply remove_first_types_ok.
  - rewrite remove_first_length by exact Hin. rewrite zlength_app.
    rewrite !zlength_correct in *. cbn [length]. lia.
  - now apply remove_first_nodup.
Qed.

Lemma a_remove_free_nonempty a ty now : a_free (a_remove a ty now) <> [].
Proof. unfold a_remove. cbn [a_free]. destruct (a_free a); discriminate. Qed.

Lemma comment_ok_true c : comment_ok c = true -> exists x, str_write 256 c = Ok x.
Proof. unfold comment_ok. destruct (str_write 256 c) as [x|]; [now exists x|discriminate]. Qed.

Lemma new_block_type b c p now : l_type (new_block b c p now) = b_type b.
Proof. reflexivity. Qed.

(* THE refinement theorem: on a compact state the code does exactly what the abstract file says,
   and a call the abstract file refuses raises and leaves everything as it was *)
Theorem step_refines a o : a_inv a -> op_ok o ->
  match a_step a o with
  | Some a' => step (conc a) o = (Done, conc a') /\ a_inv a'
  | None => exists e, step (conc a) o = (Raised e, conc a)
  end.
Proof.
  intros Hinv Hok. pose proof Hinv as [[Ht Hn] Hnd].
  destruct o as [b c now|ty now|b c n1 n2|b n1 n2|]; cbn [a_step step op_ok] in *.
  - (* add *)
    pose proof Hok as [Hty Hsz].
    destruct (b_payload b) as [p|] eqn:Hp.
    + destruct (a_free a) as [|f fr] eqn:Ef.
      * exists EValue. unfold c_add. cbn [mem conc].
        destruct (existsb (has_type (b_type b)) (table_of a)); [reflexivity|].
        rewrite table_no_unused by assumption. reflexivity.
      * destruct (existsb (Z.eqb (b_type b)) (a_types a)) eqn:Hdup; cbn [negb andb].
        { exists EValue. unfold c_add. cbn [mem conc]. rewrite table_has_type, Hdup by exact Hty. reflexivity. }
        destruct (comment_ok c) eqn:Hc.
        { destruct (comment_ok_true _ Hc) as [x Hx]. split.
          - eapply add_refines; eassumption.
          - apply a_add_inv; [exact Hinv|exact Hty|rewrite Ef; discriminate|exact Hdup]. }
        { unfold comment_ok in Hc. destruct (str_write 256 c) as [|e] eqn:Hw; [discriminate|].
          exists e. unfold c_add. cbn [mem conc]. rewrite table_has_type, Hdup by exact Hty.
          rewrite (table_find_unused a f fr Ht Ef).
          assert (Hnl : existsb is_live (skipn (S (length (a_live a))) (table_of a)) = false).
          { unfold table_of. rewrite Ef. cbn [map]. rewrite <- (lay_length (a_live a) (base (a_n a))).
            rewrite skipn_S_len_app. apply free_no_live. }
          rewrite Hnl, Hw. reflexivity. }
    + exists (match a_free a with
              | [] => EValue
              | _ :: _ => if existsb (Z.eqb (b_type b)) (a_types a) then EValue else
                          match str_write 256 c with Err e => e | Ok _ => b_err b end
              end).
      unfold c_add. cbn [mem conc]. rewrite table_has_type by exact Hty.
      destruct (existsb (Z.eqb (b_type b)) (a_types a)) eqn:Hdup.
      { destruct (a_free a); reflexivity. }
      destruct (a_free a) as [|f fr] eqn:Ef.
      { rewrite table_no_unused by assumption. reflexivity. }
      rewrite (table_find_unused a f fr Ht Ef).
      assert (Hnl : existsb is_live (skipn (S (length (a_live a))) (table_of a)) = false).
      { unfold table_of. rewrite Ef. cbn [map]. rewrite <- (lay_length (a_live a) (base (a_n a))).
        rewrite skipn_S_len_app. apply free_no_live. }
      rewrite Hnl. destruct (str_write 256 c); [rewrite Hp|]; reflexivity.
  - (* remove *)
    destruct (existsb (Z.eqb ty) (a_types a)) eqn:Hin.
    + split; [now apply remove_refines|now apply a_remove_inv].
    + exists EValue. unfold c_remove. cbn [mem conc].
      assert (Hfp : find_pos (has_type ty) (table_of a) = None).
      { rewrite <- table_has_type in Hin by exact Hok. revert Hin. generalize (table_of a).
        intros L. induction L as [|x L IH]; cbn [existsb find_pos]; intros H; [reflexivity|].
        apply orb_false_iff in H. destruct H as [Hx HL]. rewrite Hx, (IH HL). reflexivity. }
      rewrite Hfp. reflexivity.
  - (* replace *)
    pose proof Hok as [Hty Hsz].
    destruct (a_find a (b_type b)) as [old|] eqn:Hf.
    + destruct (b_payload b) as [p|] eqn:Hp.
      * destruct (comment_ok (match c with Some c0 => c0 | None => l_comment old end)) eqn:Hc.
        { destruct (comment_ok_true _ Hc) as [x Hx]. split.
          - eapply replace_refines; eassumption.
          - destruct (a_find_some_in _ _ _ Hf) as [Hin _].
            apply a_add_inv.
            + now apply a_remove_inv.
            + exact Hty.
            + apply a_remove_free_nonempty.
            + rewrite new_block_type. unfold a_types, a_remove. cbn [a_live]. now apply remove_first_gone. }
        { eapply c_replace_refused; try eassumption. right. exact Hc. }
      * eapply c_replace_refused; try eassumption. left. exact Hp.
    + assert (Hr : c_replace (conc a) b c n1 n2 = (Raised EValue, conc a)) by now apply c_replace_no_block.
      destruct (b_payload b); exists EValue; exact Hr.
  - (* setter *)
    pose proof Hok as [Hty Hsz]. unfold c_set. cbn [mem conc]. rewrite table_has_type by exact Hty.
    destruct (a_find a (b_type b)) as [old|] eqn:Hf.
    + destruct (a_find_some_in _ _ _ Hf) as [Hin _]. unfold a_types. rewrite Hin.
      fold (conc a).
      destruct (b_payload b) as [p|] eqn:Hp.
      * destruct (comment_ok (l_comment old)) eqn:Hc.
        { destruct (comment_ok_true _ Hc) as [x Hx]. split.
          - eapply (replace_refines a b None); eassumption.
          - apply a_add_inv.
            + now apply a_remove_inv.
            + exact Hty.
            + apply a_remove_free_nonempty.
            + rewrite new_block_type. unfold a_types, a_remove. cbn [a_live]. now apply remove_first_gone. }
        { eapply (c_replace_refused a b None); try eassumption. right. exact Hc. }
      * eapply (c_replace_refused a b None); try eassumption. left. exact Hp.
    + assert (Hnin : existsb (Z.eqb (b_type b)) (a_types a) = false).
      { destruct (existsb (Z.eqb (b_type b)) (a_types a)) eqn:E; [|reflexivity].
        unfold a_types in E. destruct (split_first _ _ E) as [l1 [ob [l2 [El [Hob [Hn0 _]]]]]].
        unfold a_find in Hf. rewrite (a_find_split _ _ E l1 ob l2 El Hob Hn0) in Hf. discriminate. }
      rewrite Hnin. fold (conc a).
      destruct (b_payload b) as [p|] eqn:Hp.
      * destruct (a_free a) as [|f fr] eqn:Ef.
        { exists EValue. unfold c_add. cbn [mem conc]. rewrite table_has_type, Hnin by exact Hty.
          rewrite table_no_unused by assumption. reflexivity. }
        split.
        { eapply add_refines; try eassumption. reflexivity. }
        { apply a_add_inv; [exact Hinv|exact Hty|rewrite Ef; discriminate|exact Hnin]. }
      * exists (match a_free a with [] => EValue | _ :: _ => b_err b end).
        unfold c_add. cbn [mem conc]. rewrite table_has_type, Hnin by exact Hty.
        destruct (a_free a) as [|f fr] eqn:Ef.
        { rewrite table_no_unused by assumption. reflexivity. }
        rewrite (table_find_unused a f fr Ht Ef).
        assert (Hnl : existsb is_live (skipn (S (length (a_live a))) (table_of a)) = false).
        { unfold table_of. rewrite Ef. cbn [map]. rewrite <- (lay_length (a_live a) (base (a_n a))).
          rewrite skipn_S_len_app. apply free_no_live. }
        rewrite Hnl. cbn. rewrite Hp. reflexivity.
  - (* reopen *)
    split; [reflexivity|exact Hinv].
Qed.

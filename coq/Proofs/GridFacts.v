(* GridFacts.v — the 2D-data block stores its point counts camera-major and its points frame-major.
   Transposition of a rectangular matrix is an involution, hence EVERY rectangular grid of cells
   satisfies the view conditions that [wfb] asks of a Data2D value (they are not an extra
   restriction on the blocks the theorems quantify over). *)
From Model Require Import Base Fmt Segments Blocks.
From Proofs Require Import BaseFacts.
From Coq Require Import ZifyBool.
Open Scope Z_scope.

Definition heads {A} (rows : list (list A)) : list A :=
  flat_map (fun r => match r with x :: _ => [x] | [] => [] end) rows.

Definition rect {A} (r c : nat) (M : list (list A)) : Prop :=
  length M = r /\ Forall (fun row => length row = c) M.

Lemma transpose_S {A} w (rows : list (list A)) :
  transpose (S w) rows = heads rows :: transpose w (map (@tl A) rows).
Proof. reflexivity. Qed.

(* putting a row on top of a matrix puts a column in front of its transpose *)
Lemma transpose_cons {A} : forall c (row : list A) (M : list (list A)),
  length row = c -> Forall (fun r => length r = c) M ->
  heads (transpose c (row :: M)) = row /\ map (@tl A) (transpose c (row :: M)) = transpose c M.
Proof.
  induction c as [|c IH]; intros row M Hr HM.
  - destruct row; [|discriminate]. split; reflexivity.
  - destruct row as [|x row]; [discriminate|]. cbn [length] in Hr.
    rewrite !transpose_S. cbn [map tl]. unfold heads at 2. cbn [flat_map app]. fold (heads M).
    assert (HM' : Forall (fun r => length r = c) (map (@tl A) M)).
    { apply Forall_forall. intros r Hin. apply in_map_iff in Hin. destruct Hin as [r0 [<- Hin0]].
      rewrite Forall_forall in HM. specialize (HM r0 Hin0). destruct r0; cbn in *; lia. }
    destruct (IH row (map (@tl A) M) ltac:(lia) HM') as [H1 H2].
    split.
    + unfold heads at 1. cbn [flat_map app]. fold (heads (transpose c (row :: map (@tl A) M))). now rewrite H1.
    + cbn [map tl]. now rewrite H2.
Qed.

Theorem transpose_involutive {A} : forall r c (M : list (list A)),
  rect r c M -> transpose r (transpose c M) = M.
Proof.
  induction r as [|r IH]; intros c M [Hl HM].
  - destruct M; [reflexivity|discriminate].
  - destruct M as [|row M]; [discriminate|]. inversion HM as [|? ? Hrow HM']; subst.
    rewrite transpose_S. destruct (transpose_cons (length row) row M eq_refl HM') as [H1 H2].
    rewrite H1, H2. f_equal. apply IH. split; [cbn in Hl; lia|exact HM'].
Qed.

Lemma heads_length {A} c (M : list (list A)) : Forall (fun row => length row = S c) M -> length (heads M) = length M.
Proof.
  induction 1 as [|row M0 Hrow _ IH]; [reflexivity|].
  destruct row; [discriminate|]. unfold heads. cbn [flat_map app length]. fold (heads M0). now rewrite IH.
Qed.

Lemma transpose_rect {A} : forall c r (M : list (list A)), rect r c M -> rect c r (transpose c M).
Proof.
  induction c as [|c IH]; intros r M [Hl HM]; [split; [reflexivity|constructor]|].
  rewrite transpose_S.
  assert (HM' : rect r c (map (@tl A) M)).
  { split; [now rewrite map_length|]. apply Forall_forall. intros x Hin. apply in_map_iff in Hin.
    destruct Hin as [r0 [<- Hin0]]. rewrite Forall_forall in HM. specialize (HM r0 Hin0). destruct r0; cbn in *; lia. }
  destruct (IH r _ HM') as [H1 H2]. split; [cbn; now rewrite H1|]. constructor; [|exact H2].
  rewrite (heads_length c M HM). exact Hl.
Qed.

Lemma chunk_concat {A} : forall k n (M : list (list A)), rect k n M -> chunk_n n k (concat M) = M.
Proof.
  induction k as [|k IH]; intros n M [Hl HM]; destruct M as [|row M]; try discriminate; [reflexivity|].
  inversion HM as [|? ? Hrow HM']; subst. cbn [chunk_n concat].
  rewrite firstn_app, Nat.sub_diag, firstn_all. cbn [firstn]. rewrite app_nil_r.
  rewrite skipn_app, Nat.sub_diag, skipn_all. cbn [skipn app].
  f_equal. apply IH. split; [cbn in Hl; lia|exact HM'].
Qed.

Lemma concat_rect_length {A} k n (M : list (list A)) : rect k n M -> length (concat M) = (k * n)%nat.
Proof.
  revert M. induction k as [|k IH]; intros M [Hl HM]; destruct M as [|row M]; try discriminate; [reflexivity|].
  inversion HM as [|? ? Hrow HM']; subst. cbn [concat]. rewrite app_length, (IH M); [lia|split; [cbn in Hl; lia|exact HM']].
Qed.

(* camera-major <-> frame-major are inverse on every F x C grid, whatever the entries *)
Theorem frame_camera_major_inverse {A} C F (M : list (list A)) : rect F C M ->
  to_frame_major C F (to_camera_major C F (concat M)) = concat M.
Proof.
  intros H. unfold to_frame_major, to_camera_major.
  rewrite (chunk_concat F C M H).
  pose proof (transpose_rect C F M H) as HT.
  rewrite (chunk_concat C F _ HT).
  now rewrite (transpose_involutive F C M H).
Qed.

(* the view between the grid and its wire form loses nothing *)
Theorem d2_view_roundtrip C F (frames : list (list V)) : rect F C frames ->
  d2_from C F (d2_to C F (VL (map (fun fr => VL fr) frames))) = VL (map (fun fr => VL fr) frames).
Proof.
  intros H. unfold d2_from, d2_to. cbn [vnth vlist nth]. f_equal. f_equal.
  rewrite map_map. cbn [vlist]. rewrite map_id. now apply chunk_concat.
Qed.

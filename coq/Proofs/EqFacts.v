(* EqFacts.v — facts about the schema-driven equality of Equality.v, for every schema at once. *)
From Model Require Import Base Fmt Segments Blocks Equality.
From Proofs Require Import BaseFacts FmtFacts.
From Coq Require Import ZifyBool.
Open Scope Z_scope.

(* induction on schemas that reaches inside QTup's list *)
Section EqsInd.
  Variable P : eqs -> Prop.
  Hypothesis HInt : P QInt.
  Hypothesis HF32 : P QF32.
  Hypothesis HF64 : P QF64.
  Hypothesis HClose : P QClose.
  Hypothesis HAny : P QAny.
  Hypothesis HList : forall e, P e -> P (QList e).
  Hypothesis HTup : forall es, Forall P es -> P (QTup es).
  Hypothesis HGap : forall e, P e -> P (QGapOr e).
  Fixpoint eqs_ind' (s : eqs) : P s :=
    match s with
    | QInt => HInt | QF32 => HF32 | QF64 => HF64 | QClose => HClose | QAny => HAny
    | QList e => HList e (eqs_ind' e)
    | QTup es => HTup es ((fix go (es : list eqs) : Forall P es :=
                             match es with
                             | [] => Forall_nil P
                             | e :: r => Forall_cons e (eqs_ind' e) (go r)
                             end) es)
    | QGapOr e => HGap e (eqs_ind' e)
    end.
End EqsInd.

(* the list / record loops of eqv, named *)
Section Loops.
  Variable close : Z -> Z -> bool.
  Fixpoint eq_list (e : eqs) (xs ys : list V) : bool :=
    match xs, ys with
    | [], [] => true
    | x :: xs', y :: ys' => eqv close e x y && eq_list e xs' ys'
    | _, _ => false
    end.
  Fixpoint eq_tup (es : list eqs) (xs ys : list V) : bool :=
    match es with
    | [] => true
    | e :: es' => match xs, ys with
                  | x :: xs', y :: ys' => eqv close e x y && eq_tup es' xs' ys'
                  | _, _ => false
                  end
    end.
  Lemma eqv_list e xs ys : eqv close (QList e) (VL xs) (VL ys) = eq_list e xs ys.
  Proof.
    cbn [eqv]. revert ys. induction xs as [|x xs IH]; intros [|y ys]; cbn [eq_list];
      [reflexivity|reflexivity|reflexivity|f_equal; apply IH].
  Qed.
  Lemma eqv_tup es xs ys : eqv close (QTup es) (VL xs) (VL ys) = eq_tup es xs ys.
  Proof.
    cbn [eqv]. revert xs ys. induction es as [|e es IH]; intros xs ys; cbn [eq_tup]; [reflexivity|].
    destruct xs as [|x xs], ys as [|y ys]; try reflexivity; try (f_equal; apply IH).
  Qed.
End Loops.

Fixpoint refl_tup (es : list eqs) (xs : list V) : bool :=
  match es with
  | [] => true
  | e :: es' => match xs with x :: xs' => reflb e x && refl_tup es' xs' | [] => false end
  end.
Lemma reflb_tup es xs : reflb (QTup es) (VL xs) = refl_tup es xs.
Proof.
  cbn [reflb]. revert xs. induction es as [|e es IH]; intros xs; cbn [refl_tup]; [reflexivity|].
  destruct xs as [|x xs]; try reflexivity; try (f_equal; apply IH).
Qed.

Lemma feq32_refl x : is_nan32 x = false -> feq32 x x = true.
Proof. intros H. unfold feq32. rewrite H, Z.eqb_refl. reflexivity. Qed.
Lemma feq64_refl x : is_nan64 x = false -> feq64 x x = true.
Proof. intros H. unfold feq64. rewrite H, Z.eqb_refl. reflexivity. Qed.

Section Facts.
Variable close : Z -> Z -> bool.
Hypothesis close_refl : forall x, is_nan32 x = false -> close x x = true.

Theorem eqv_refl : forall s v, reflb s v = true -> eqv close s v v = true.
Proof.
  induction s as [| | | | |e IH|es IH|e IH] using eqs_ind'; intros v H.
  - destruct v; [apply Z.eqb_refl|discriminate].
  - destruct v as [x|]; [|discriminate]. cbn in *. apply feq32_refl. now destruct (is_nan32 x).
  - destruct v as [x|]; [|discriminate]. cbn in *. apply feq64_refl. now destruct (is_nan64 x).
  - destruct v as [x|]; [|discriminate]. cbn in *. apply close_refl. now destruct (is_nan32 x).
  - reflexivity.
  - destruct v as [|xs]; [discriminate|]. rewrite eqv_list. cbn [reflb] in H.
    induction xs as [|x xs IHx]; cbn [eq_list forallb] in *; [reflexivity|].
    apply andb_prop in H. destruct H as [H1 H2]. rewrite (IH x H1), (IHx H2). reflexivity.
  - destruct v as [|xs]; [discriminate|]. rewrite eqv_tup. rewrite reflb_tup in H.
    revert xs H. induction IH as [|e es He Hes IHes]; intros xs H; cbn [eq_tup refl_tup] in *; [reflexivity|].
    destruct xs as [|x xs]; [discriminate|]. apply andb_prop in H. destruct H as [H1 H2].
    rewrite (He x H1), (IHes xs H2). reflexivity.
  - destruct v as [x|[|y ys]].
    + cbn [eqv reflb] in *. now apply IH.
    + reflexivity.
    + cbn [eqv reflb] in *. now apply IH.
Qed.

(* ---------- an observable difference, one constructor per clause of the property ---------- *)
Inductive differs : eqs -> V -> V -> Prop :=
| D_int x y : x <> y -> differs QInt (VI x) (VI y)                      (* a header integer, an enum code, a channel number, a code point *)
| D_f32 x y : feq32 x y = false -> differs QF32 (VI x) (VI y)           (* a float compared with == *)
| D_f64 x y : feq64 x y = false -> differs QF64 (VI x) (VI y)
| D_close x y : close x y = false -> differs QClose (VI x) (VI y)       (* a sample beyond float tolerance *)
| D_len e xs ys : length xs <> length ys -> differs (QList e) (VL xs) (VL ys)   (* one element appended or removed *)
| D_elem e p1 p2 x y r1 r2 : length p1 = length p2 -> differs e x y ->
    differs (QList e) (VL (p1 ++ x :: r1)) (VL (p2 ++ y :: r2))          (* one element changed *)
| D_field es p1 p2 x y r1 r2 e : length p1 = length p2 -> nth_error es (length p1) = Some e -> differs e x y ->
    differs (QTup es) (VL (p1 ++ x :: r1)) (VL (p2 ++ y :: r2))          (* one compared field changed *)
| D_gap_l e y : y <> VL [] -> differs (QGapOr e) (VL []) y               (* a gap on one side only *)
| D_gap_r e x : x <> VL [] -> differs (QGapOr e) x (VL [])
| D_gap_in e x y : x <> VL [] -> y <> VL [] -> differs e x y -> differs (QGapOr e) x y.

Lemma eq_list_length e xs : forall ys, eq_list close e xs ys = true -> length xs = length ys.
Proof.
  induction xs as [|x xs IH]; intros [|y ys] H; cbn [eq_list length] in *; try discriminate; [reflexivity|].
  apply andb_prop in H. destruct H as [_ H]. now rewrite (IH ys H).
Qed.

Theorem eqv_discriminates : forall s a b, differs s a b -> eqv close s a b = false.
Proof.
  intros s a b D. induction D as [x y H|x y H|x y H|x y H|e xs ys H|e p1 p2 x y r1 r2 Hl D IH
                                 |es p1 p2 x y r1 r2 e Hl Hn D IH|e y H|e x H|e x y Hx Hy D IH].
  - cbn. now apply Z.eqb_neq.
  - exact H.
  - exact H.
  - exact H.
  - rewrite eqv_list. destruct (eq_list close e xs ys) eqn:E; [|reflexivity].
    apply eq_list_length in E. contradiction.
  - rewrite eqv_list. revert p2 Hl. induction p1 as [|a p1 IHp]; intros [|b p2] Hl; cbn [length app eq_list] in *; try discriminate.
    + now rewrite IH.
    + rewrite IHp by lia. apply andb_false_r.
  - rewrite eqv_tup. revert es p2 Hl Hn. induction p1 as [|a p1 IHp]; intros es [|b p2] Hl Hn; cbn [length app] in *; try discriminate.
    + destruct es as [|e0 es]; cbn [nth_error] in Hn; [discriminate|]. inversion Hn; subst e0.
      cbn [eq_tup]. now rewrite IH.
    + destruct es as [|e0 es]; cbn [nth_error] in Hn; [discriminate|]. cbn [eq_tup].
      rewrite (IHp es p2) by (try lia; exact Hn). apply andb_false_r.
  - destruct y as [z|[|z zs]]; cbn [eqv]; try reflexivity. contradiction.
  - destruct x as [z|[|z zs]]; cbn [eqv]; try reflexivity. contradiction.
  - destruct x as [z|[|z zs]], y as [w|[|w ws]]; cbn [eqv]; try contradiction; exact IH.
Qed.
End Facts.

(* ---------- byte-level equality (3D markers, force/torque, optical setup) is exactly value equality ---------- *)
Lemma bytes_eqb_eq : forall x y,
  (fix go (x y : list Z) : bool :=
     match x, y with
     | [], [] => true
     | p :: x', q :: y' => (p =? q) && go x' y'
     | _, _ => false
     end) x y = true <-> x = y.
Proof.
  induction x as [|p x IH]; intros [|q y]; try (split; [discriminate|intros H; inversion H]).
  - split; reflexivity.
  - rewrite andb_true_iff, Z.eqb_eq, IH. split; [intros [-> ->]; reflexivity|intros H; now inversion H].
Qed.

Theorem eq_bytes_refl f v : wfb f v = true -> eq_bytes f v v = true.
Proof.
  intros H. unfold eq_bytes. destruct (encj_total f zero_junk 0 v H) as [bs E]. unfold enc. rewrite E.
  now apply bytes_eqb_eq.
Qed.

Theorem eq_bytes_iff f a b : wfb f a = true -> wfb f b = true -> (eq_bytes f a b = true <-> a = b).
Proof.
  intros Ha Hb. split; [|intros ->; now apply eq_bytes_refl].
  unfold eq_bytes. destruct (enc f a) as [x|] eqn:Ea; [|discriminate]. destruct (enc f b) as [y|] eqn:Eb; [|discriminate].
  intros H. apply bytes_eqb_eq in H. subst y.
  pose proof (dec_enc f a x [] Ha Ea) as D1. pose proof (dec_enc f b x [] Hb Eb) as D2.
  rewrite D1 in D2. now inversion D2.
Qed.

(* AddSafe.v — add_block on ANY sound file: the exact condition under which it keeps the file sound.
   add_block writes the block at the offset the first unused slot carries.  On ordered files that offset is the end
   of the data (GapFacts.v); on a file that is merely sound it may be anywhere — finding F3b is the case where it
   points into the header.  Here: whenever the region [off, off + size) the block will occupy lies behind the table
   and meets no live block, the call keeps the file sound, whatever else the file looks like (blocks in any order,
   free regions anywhere, unused slots carrying different offsets). *)
From Model Require Import Base Str Fmt Container AFile GFile.
From Proofs Require Import BaseFacts ContainerFacts.
From Coq Require Import ZifyBool.
Open Scope Z_scope.

Lemma find_pos_split {A} (p : A -> bool) : forall l k, find_pos p l = Some k ->
  exists l1 x l2, l = l1 ++ x :: l2 /\ length l1 = k /\ p x = true /\ existsb p l1 = false.
Proof.
  induction l as [|y l IH]; intros k H; cbn [find_pos] in H; [discriminate|].
  destruct (p y) eqn:Hy.
  - inversion H; subst. exists [], y, l. repeat split; assumption.
  - destruct (find_pos p l) as [k'|] eqn:Hk; [|discriminate]. cbn in H. inversion H; subst.
    destruct (IH k' eq_refl) as [l1 [x [l2 [-> [Hl [Hx Hn]]]]]].
    exists (y :: l1), x, l2. repeat split; cbn; try congruence. now rewrite Hy.
Qed.

Lemma write_data_length p bs d : 0 <= p -> zlength (write_data p bs d) = Z.max (zlength d) (p + zlength bs).
Proof.
  intros Hp. unfold write_data.
  destruct (Z.ltb_spec (zlength d) p) as [H|H]; rewrite !zlength_correct in *.
  - rewrite !app_length, repeat_length. lia.
  - rewrite !app_length, firstn_length, skipn_length. lia.
Qed.

Lemma existsb_false_forall {A} (p : A -> bool) l : existsb p l = false -> Forall (fun x => p x = false) l.
Proof.
  induction l as [|x l IH]; cbn; intros H; constructor.
  - now destruct (p x).
  - apply IH. now destruct (p x).
Qed.

Lemma filter_none {A} (p : A -> bool) l : Forall (fun x => p x = false) l -> filter p l = [].
Proof. induction 1 as [|x l Hx _ IH]; cbn; [reflexivity|now rewrite Hx]. Qed.

Lemma set_off_live o e : is_live (set_off o e) = is_live e.
Proof. reflexivity. Qed.

Lemma FOP_app_one {A} (R : A -> A -> Prop) l x :
  ForallOrdPairs R l -> Forall (fun y => R y x) l -> ForallOrdPairs R (l ++ [x]).
Proof.
  induction 1 as [|y l Hy _ IH]; intros Hx; cbn.
  - constructor; constructor.
  - inversion Hx; subst. constructor; [|now apply IH].
    apply Forall_app. split; [exact Hy|constructor; [assumption|constructor]].
Qed.

Lemma FOP_prefix {A} (R : A -> A -> Prop) l1 : forall l2, ForallOrdPairs R (l1 ++ l2) -> ForallOrdPairs R l1.
Proof.
  induction l1 as [|x l1 IH]; intros l2 H; [constructor|].
  cbn in H. inversion H; subst. constructor; [|now apply (IH l2)].
  match goal with Hf : Forall _ (l1 ++ l2) |- _ => apply Forall_app in Hf; tauto end.
Qed.

Theorem add_sound s b c now s' k :
  wf s -> mem s = tab s -> blk_ok b -> c_add s b c now = (Done, s') ->
  find_pos is_unused (tab s) = Some k ->
  base (s_n s) <= e_off (nth_entry k (tab s)) ->
  region_free s (e_off (nth_entry k (tab s))) (b_size b) ->
  wf s' /\ mem s' = tab s' /\ s_n s' = s_n s.
Proof.
  intros [Hn [Hin [Hun Hdis]]] Hm [Hty Hsz] Hadd Hk Hbase Hfree.
  unfold c_add in Hadd. rewrite Hm in Hadd. rewrite Hk in Hadd.
  destruct (existsb (has_type (b_type b)) (tab s)); [discriminate|].
  destruct (existsb is_live (skipn (S k) (tab s))) eqn:Hlater; [discriminate|].
  destruct (str_write 256 c) as [w|e]; [|discriminate].
  destruct (b_payload b) as [payload|] eqn:Hp; [|discriminate].
  destruct (find_pos_split is_unused (tab s) k Hk) as [l1 [u [l2 [Ht [Hl1 [Hu Hl1n]]]]]].
  set (off := e_off (nth_entry k (tab s))) in *.
  set (ne := mkE (b_type b) (b_format b) off (b_size b) (b_cdate b) (b_mdate b) now c) in *.
  assert (Hset : set_nth k ne (tab s) = l1 ++ ne :: l2) by (rewrite Ht, <- Hl1; apply set_nth_len_app).
  rewrite Hset in Hadd.
  assert (Hf : firstn (S k) (l1 ++ ne :: l2) = l1 ++ [ne]) by (rewrite <- Hl1; apply firstn_S_len_app).
  assert (Hs : skipn (S k) (l1 ++ ne :: l2) = l2) by (rewrite <- Hl1; apply skipn_S_len_app).
  rewrite Hf, Hs in Hadd.
  assert (Hl2 : skipn (S k) (tab s) = l2) by (rewrite Ht, <- Hl1; apply skipn_S_len_app).
  rewrite Hl2 in Hlater.
  assert (Hfk : firstn k (tab s) = l1) by (rewrite Ht, <- Hl1; apply firstn_len_app).
  rewrite Hfk in Hadd.
  assert (Hsk : skipn k ((l1 ++ [ne]) ++ map (set_off (off + b_size b)) l2) = ne :: map (set_off (off + b_size b)) l2).
  { rewrite <- app_assoc. rewrite <- Hl1. apply skipn_len_app. }
  rewrite Hsk in Hadd. inversion Hadd; subst s'; clear Hadd.
  set (l2' := map (set_off (off + b_size b)) l2) in *.
  assert (Hsize : 0 <= b_size b) by (rewrite Hsz; apply zlength_nonneg).
  assert (Hlen' : file_len (mkS (s_n s) ((l1 ++ [ne]) ++ l2') (l1 ++ ne :: l2') (write_data (off - base (s_n s)) payload (data s)))
                  = Z.max (file_len s) (off + b_size b)).
  { unfold file_len. cbn [s_n data]. rewrite write_data_length by lia. rewrite <- Hsz. lia. }
  assert (Hl2un : Forall (fun x => is_live x = false) l2) by now apply existsb_false_forall.
  assert (Hl2'un : Forall (fun x => is_live x = false) l2').
  { unfold l2'. rewrite Forall_map. eapply Forall_impl; [|exact Hl2un]. intros; now rewrite set_off_live. }
  split; [|split; [cbn [mem tab]; now rewrite <- app_assoc|reflexivity]].
  unfold region_free in Hfree. rewrite Ht in Hn, Hin, Hun, Hdis, Hfree.
  apply Forall_app in Hin. destruct Hin as [Hin1 _].
  apply Forall_app in Hun. destruct Hun as [Hun1 Hun2]. inversion Hun2 as [|? ? _ Hun3]; subst.
  apply Forall_app in Hfree. destruct Hfree as [Hfree1 _].
  split; [|split; [|split]]; cbn [tab s_n].
  - rewrite <- Hn. rewrite !zlength_correct, !app_length. cbn [length]. unfold l2'. now rewrite map_length.
  - apply Forall_app. split.
    + eapply Forall_impl; [|exact Hin1]. intros e He Hlive. specialize (He Hlive).
      unfold in_file in *. rewrite Hlen'. cbn [s_n]. lia.
    + constructor.
      * intros _. unfold in_file. rewrite Hlen'. cbn [s_n e_off e_size ne]. lia.
      * eapply Forall_impl; [|exact Hl2'un]. intros e He Hlive. congruence.
  - apply Forall_app. split; [exact Hun1|]. constructor.
    + intros H. unfold is_unused in H. cbn [e_type ne] in H. lia.
    + unfold l2'. rewrite Forall_map. eapply Forall_impl; [|exact Hun3]. intros e He H. exact (He H).
  - rewrite filter_app. cbn [filter]. assert (Hne : is_live ne = true) by (unfold is_live, is_unused; cbn [e_type ne]; lia).
    rewrite Hne. rewrite (filter_none is_live l2') by exact Hl2'un.
    apply FOP_app_one.
    + rewrite filter_app in Hdis. now apply FOP_prefix in Hdis.
    + rewrite Forall_forall. intros e He. apply filter_In in He. destruct He as [He Hlive].
      rewrite Forall_forall in Hfree1. specialize (Hfree1 e He Hlive). unfold disjoint. cbn [e_off e_size ne]. lia.
Qed.

Lemma region_freeb_sound s off size : region_freeb s off size = true -> region_free s off size.
Proof.
  unfold region_freeb, region_free. rewrite forallb_forall, Forall_forall. intros H e He Hl.
  specialize (H e He). rewrite Hl in H. cbn [negb orb] in H. lia.
Qed.

(* the decidable form: [add_safeb s (b_size b)] computed on the state before the call *)
Theorem add_sound_b s b c now s' :
  wf s -> mem s = tab s -> blk_ok b -> c_add s b c now = (Done, s') -> add_safeb s (b_size b) = true ->
  wf s' /\ mem s' = tab s' /\ s_n s' = s_n s.
Proof.
  intros Hw Hm Hb Ha Hs. unfold add_safeb in Hs. destruct (find_pos is_unused (tab s)) as [k|] eqn:Hk; [|discriminate].
  apply andb_prop in Hs. destruct Hs as [H1 H2].
  apply (add_sound s b c now s' k); try assumption; [lia|now apply region_freeb_sound].
Qed.

Lemma FOP_app_one_inv {A} (R : A -> A -> Prop) l x : ForallOrdPairs R (l ++ [x]) -> Forall (fun y => R y x) l.
Proof.
  induction l as [|y l IH]; intros H; [constructor|]. cbn in H. inversion H; subst. constructor; [|now apply IH].
  match goal with Hf : Forall _ (l ++ [x]) |- _ => apply Forall_app in Hf; destruct Hf as [_ Hf]; now inversion Hf end.
Qed.

(* ... and the condition is exact: when the call leaves a sound file, the region was behind the table and free *)
Theorem add_sound_only_if s b c now s' k :
  wf s -> mem s = tab s -> blk_ok b -> c_add s b c now = (Done, s') ->
  find_pos is_unused (tab s) = Some k -> wf s' ->
  base (s_n s) <= e_off (nth_entry k (tab s)) /\ region_free s (e_off (nth_entry k (tab s))) (b_size b).
Proof.
  intros [Hn [Hin [Hun Hdis]]] Hm [Hty Hsz] Hadd Hk Hw'.
  unfold c_add in Hadd. rewrite Hm in Hadd. rewrite Hk in Hadd.
  destruct (existsb (has_type (b_type b)) (tab s)); [discriminate|].
  destruct (existsb is_live (skipn (S k) (tab s))) eqn:Hlater; [discriminate|].
  destruct (str_write 256 c) as [w|e]; [|discriminate].
  destruct (b_payload b) as [payload|] eqn:Hp; [|discriminate].
  destruct (find_pos_split is_unused (tab s) k Hk) as [l1 [u [l2 [Ht [Hl1 [Hu Hl1n]]]]]].
  set (off := e_off (nth_entry k (tab s))) in *.
  set (ne := mkE (b_type b) (b_format b) off (b_size b) (b_cdate b) (b_mdate b) now c) in *.
  assert (Hset : set_nth k ne (tab s) = l1 ++ ne :: l2) by (rewrite Ht, <- Hl1; apply set_nth_len_app).
  rewrite Hset in Hadd.
  assert (Hf : firstn (S k) (l1 ++ ne :: l2) = l1 ++ [ne]) by (rewrite <- Hl1; apply firstn_S_len_app).
  assert (Hs : skipn (S k) (l1 ++ ne :: l2) = l2) by (rewrite <- Hl1; apply skipn_S_len_app).
  rewrite Hf, Hs in Hadd.
  assert (Hl2 : skipn (S k) (tab s) = l2) by (rewrite Ht, <- Hl1; apply skipn_S_len_app).
  rewrite Hl2 in Hlater.
  assert (Hfk : firstn k (tab s) = l1) by (rewrite Ht, <- Hl1; apply firstn_len_app).
  rewrite Hfk in Hadd.
  assert (Hsk : skipn k ((l1 ++ [ne]) ++ map (set_off (off + b_size b)) l2) = ne :: map (set_off (off + b_size b)) l2).
  { rewrite <- app_assoc. rewrite <- Hl1. apply skipn_len_app. }
  rewrite Hsk in Hadd. inversion Hadd; subst s'; clear Hadd.
  set (l2' := map (set_off (off + b_size b)) l2) in *.
  destruct Hw' as [_ [Hin' [_ Hdis']]]. cbn [tab s_n] in Hin', Hdis'.
  assert (Hne : is_live ne = true) by (unfold is_live, is_unused; cbn [e_type ne]; lia).
  assert (Hl2un : Forall (fun x => is_live x = false) l2) by now apply existsb_false_forall.
  assert (Hl2'un : Forall (fun x => is_live x = false) l2').
  { unfold l2'. rewrite Forall_map. eapply Forall_impl; [|exact Hl2un]. intros; now rewrite set_off_live. }
  split.
  - apply Forall_app in Hin'. destruct Hin' as [_ Hin']. inversion Hin' as [|? ? H1 _]; subst.
    specialize (H1 Hne). unfold in_file in H1. cbn [s_n e_off ne] in H1. lia.
  - rewrite filter_app in Hdis'. cbn [filter] in Hdis'. rewrite Hne in Hdis'.
    rewrite (filter_none is_live l2') in Hdis' by exact Hl2'un.
    apply FOP_app_one_inv in Hdis'. unfold region_free. rewrite Ht. apply Forall_app. split.
    + rewrite Forall_forall in *. intros e He Hlive. specialize (Hdis' e). 
      assert (Hf' : In e (filter is_live l1)) by (apply filter_In; tauto).
      specialize (Hdis' Hf'). unfold disjoint in Hdis'. cbn [e_off e_size ne] in Hdis'. lia.
    + constructor.
      * intros Hlive. unfold is_live in Hlive. rewrite Hu in Hlive. discriminate.
      * eapply Forall_impl; [|exact Hl2un]. intros e He Hlive. congruence.
Qed.

(* ---------- the bytes: what add_block writes, and what it leaves alone ---------- *)
Lemma nth_error_skipn {A} (l : list A) : forall q j, nth_error (skipn q l) j = nth_error l (q + j).
Proof.
  induction l as [|x l IH]; intros [|q] j; cbn [skipn plus]; try reflexivity.
  - now destruct j.
  - apply IH.
Qed.

Lemma nth_error_firstn_lt {A} : forall n (l : list A) j, (j < n)%nat -> nth_error (firstn n l) j = nth_error l j.
Proof.
  induction n as [|n IH]; intros l j H; [lia|]. destruct l as [|x l]; [reflexivity|]. destruct j as [|j]; [reflexivity|].
  cbn. apply IH. lia.
Qed.

Lemma nth_error_firstn_ge {A} : forall n (l : list A) j, (n <= j)%nat -> nth_error (firstn n l) j = None.
Proof. intros n l j H. apply nth_error_None. rewrite firstn_length. lia. Qed.

Lemma list_ext_nth_error {A} : forall (a b : list A), (forall j, nth_error a j = nth_error b j) -> a = b.
Proof.
  induction a as [|x a IH]; intros [|y b] H; try reflexivity; try (specialize (H O); discriminate).
  f_equal; [specialize (H O); cbn in H; congruence|]. apply IH. intros j. exact (H (S j)).
Qed.

Lemma write_data_outside p bs d i : 0 <= p -> (i < length d)%nat ->
  (i < Z.to_nat p \/ Z.to_nat p + length bs <= i)%nat ->
  nth_error (write_data p bs d) i = nth_error d i.
Proof.
  intros Hp Hi Hout. unfold write_data. destruct (Z.ltb_spec (zlength d) p) as [H|H]; rewrite zlength_correct in H.
  - now rewrite nth_error_app1.
  - assert (Hpn : (Z.to_nat p <= length d)%nat) by lia. destruct Hout as [Ho|Ho].
    + rewrite nth_error_app1 by (rewrite firstn_length; lia). now apply nth_error_firstn_lt.
    + rewrite nth_error_app2 by (rewrite firstn_length; lia). rewrite firstn_length.
      rewrite nth_error_app2 by lia. rewrite nth_error_skipn. f_equal. lia.
Qed.

Lemma write_data_inside p bs d j : 0 <= p -> (j < length bs)%nat ->
  nth_error (write_data p bs d) (Z.to_nat p + j) = nth_error bs j.
Proof.
  intros Hp Hj. unfold write_data. destruct (Z.ltb_spec (zlength d) p) as [H|H]; rewrite zlength_correct in H.
  - rewrite nth_error_app2 by lia. rewrite nth_error_app2 by (rewrite repeat_length; lia). rewrite repeat_length.
    f_equal. lia.
  - rewrite nth_error_app2 by (rewrite firstn_length; lia). rewrite firstn_length.
    rewrite nth_error_app1 by lia. f_equal. lia.
Qed.

Lemma slice_nth n q (l : list Z) j :
  nth_error (firstn n (skipn q l)) j = if (j <? n)%nat then nth_error l (q + j) else None.
Proof.
  destruct (Nat.ltb_spec j n).
  - rewrite nth_error_firstn_lt by assumption. apply nth_error_skipn.
  - now apply nth_error_firstn_ge.
Qed.

(* on any sound file: a successful add into a free region stores exactly the block's bytes at the offset the slot
   carried, and every other live block keeps its table entry and its bytes *)
Theorem add_frame s b c now s' k payload :
  wf s -> mem s = tab s -> blk_ok b -> b_payload b = Some payload -> c_add s b c now = (Done, s') ->
  find_pos is_unused (tab s) = Some k ->
  base (s_n s) <= e_off (nth_entry k (tab s)) ->
  region_free s (e_off (nth_entry k (tab s))) (b_size b) ->
  slice (e_off (nth_entry k (tab s))) (b_size b) s' = payload /\
  forall e, In e (tab s) -> is_live e = true ->
            In e (tab s') /\ slice (e_off e) (e_size e) s' = slice (e_off e) (e_size e) s.
Proof.
  intros [Hn [Hin [Hun Hdis]]] Hm [Hty Hsz] Hp Hadd Hk Hbase Hfree. rewrite Hp in Hsz.
  unfold c_add in Hadd. rewrite Hm in Hadd. rewrite Hk in Hadd.
  destruct (existsb (has_type (b_type b)) (tab s)); [discriminate|].
  destruct (existsb is_live (skipn (S k) (tab s))) eqn:Hlater; [discriminate|].
  destruct (str_write 256 c) as [w|e0]; [|discriminate]. rewrite Hp in Hadd.
  destruct (find_pos_split is_unused (tab s) k Hk) as [l1 [u [l2 [Ht [Hl1 [Hu Hl1n]]]]]].
  set (off := e_off (nth_entry k (tab s))) in *.
  set (ne := mkE (b_type b) (b_format b) off (b_size b) (b_cdate b) (b_mdate b) now c) in *.
  assert (Hset : set_nth k ne (tab s) = l1 ++ ne :: l2) by (rewrite Ht, <- Hl1; apply set_nth_len_app).
  rewrite Hset in Hadd.
  assert (Hfk : firstn k (tab s) = l1) by (rewrite Ht, <- Hl1; apply firstn_len_app).
  rewrite Hfk in Hadd.
  assert (Hf : firstn (S k) (l1 ++ ne :: l2) = l1 ++ [ne]) by (rewrite <- Hl1; apply firstn_S_len_app).
  assert (Hs : skipn (S k) (l1 ++ ne :: l2) = l2) by (rewrite <- Hl1; apply skipn_S_len_app).
  rewrite Hf, Hs in Hadd.
  assert (Hsk : skipn k ((l1 ++ [ne]) ++ map (set_off (off + b_size b)) l2) = ne :: map (set_off (off + b_size b)) l2).
  { rewrite <- app_assoc. rewrite <- Hl1. apply skipn_len_app. }
  rewrite Hsk in Hadd. inversion Hadd; subst s'; clear Hadd.
  assert (Hl2 : skipn (S k) (tab s) = l2) by (rewrite Ht, <- Hl1; apply skipn_S_len_app).
  rewrite Hl2 in Hlater.
  assert (Hl2un : Forall (fun x => is_live x = false) l2) by now apply existsb_false_forall.
  unfold slice. cbn [s_n data tab]. split.
  - apply list_ext_nth_error. intros j. rewrite slice_nth. destruct (Nat.ltb_spec j (Z.to_nat (b_size b))) as [Hj|Hj].
    + rewrite write_data_inside by (try lia; rewrite Hsz, zlength_correct in Hj; lia). reflexivity.
    + symmetry. apply nth_error_None. rewrite Hsz, zlength_correct in Hj. lia.
  - intros e He Hlive. split.
    + rewrite Ht in He. apply in_app_or in He. destruct He as [He|[He|He]].
      * apply in_or_app. now left.
      * subst e. unfold is_live in Hlive. rewrite Hu in Hlive. discriminate.
      * rewrite Forall_forall in Hl2un. rewrite (Hl2un e He) in Hlive. discriminate.
    + unfold region_free in Hfree. rewrite Forall_forall in Hin, Hfree. specialize (Hin e He Hlive). specialize (Hfree e He Hlive).
      unfold in_file, file_len in Hin. rewrite zlength_correct in Hin.
      apply list_ext_nth_error. intros j. rewrite !slice_nth.
      destruct (Nat.ltb_spec j (Z.to_nat (e_size e))) as [Hj|Hj]; [|reflexivity].
      apply write_data_outside; [lia|lia|]. rewrite Hsz, zlength_correct in Hfree. lia.
Qed.

(* ---------- [soundb] decides [wf] ---------- *)
Lemma pairsb_iff {A} (r : A -> A -> bool) (R : A -> A -> Prop) :
  (forall x y, r x y = true <-> R x y) -> forall l, pairsb r l = true <-> ForallOrdPairs R l.
Proof.
  intros H. induction l as [|x l IH]; cbn [pairsb]; [split; [constructor|reflexivity]|].
  rewrite andb_true_iff, IH, forallb_forall. split.
  - intros [H1 H2]. constructor; [|exact H2]. rewrite Forall_forall. intros y Hy. apply H. now apply H1.
  - intros H0. inversion H0 as [|? ? H1 H2]; subst. split; [|exact H2]. rewrite Forall_forall in H1. intros y Hy. apply H. now apply H1.
Qed.

Theorem soundb_iff s : soundb s = true <-> wf s.
Proof.
  unfold soundb, wf. rewrite !andb_true_iff, !forallb_forall, !Forall_forall.
  rewrite (pairsb_iff disjointb disjoint) by (intros x y; unfold disjointb, disjoint; lia).
  split.
  - intros [[[H1 H2] H3] H4]. split; [lia|split; [|split; [|exact H4]]].
    + intros e He Hl. specialize (H2 e He). rewrite Hl in H2. cbn [negb orb] in H2. unfold in_fileb in H2. unfold in_file. lia.
    + intros e He Hu. specialize (H3 e He). rewrite Hu in H3. cbn [negb orb] in H3. lia.
  - intros [H1 [H2 [H3 H4]]]. split; [split; [split; [lia|]|]|exact H4].
    + intros e He. destruct (is_live e) eqn:Hl; [|reflexivity]. specialize (H2 e He Hl). unfold in_file in H2. unfold in_fileb. cbn [negb orb]. lia.
    + intros e He. destruct (is_unused e) eqn:Hu; [|reflexivity]. specialize (H3 e He Hu). cbn [negb orb]. lia.
Qed.

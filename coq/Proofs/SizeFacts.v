(* SizeFacts.v — the library's hand-written nBytes arithmetic (a separate piece of code from _write)
   equals the layout's size, for every track and every number and length of segments. *)
From Model Require Import Base Fmt Segments Blocks.
From Proofs Require Import BaseFacts FmtFacts SegFacts.
From Coq Require Import ZifyBool.
Open Scope Z_scope.

(* MarkerTrack.nBytes / EMGTrack.nBytes / ForceTorqueTrack.nBytes:
     base = 256 + 4 + 4;  for segment in segments: base += 4 + 4 + (stop - start) * itemsize
   ForcePlatformData.nBytes:  base = 4 + 4 + (4 + 4) * nSegments;  base += itemsize * (stop - start) *)
Fixpoint seg_sum (w : Z) (cs : list (Z * list V)) : Z :=
  match cs with [] => 0 | sc :: r => 4 + 4 + zlength (snd sc) * w + seg_sum w r end.
Definition nbytes_track (w : Z) (fs : list V) : Z := 256 + 4 + 4 + seg_sum w (chunks fs 0).
Fixpoint len_sum (w : Z) (cs : list (Z * list V)) : Z :=
  match cs with [] => 0 | sc :: r => w * zlength (snd sc) + len_sum w r end.
Definition nbytes_ptrack (w : Z) (fs : list V) : Z :=
  4 + 4 + (4 + 4) * zlength (chunks fs 0) + len_sum w (chunks fs 0).

Lemma seg_sum_split w cs : seg_sum w cs = 8 * zlength cs + len_sum w cs.
Proof.
  induction cs as [|sc cs IH]; cbn [seg_sum len_sum]; [reflexivity|].
  rewrite IH, zlength_cons. lia.
Qed.

Lemma size_rep_const (f : fmt) (w : Z) : forall (c : list V) i,
  Forall (fun x => size f x = w) c ->
  size_rep (fun _ x => size f x) i (length c) c = w * zlength c.
Proof.
  induction c as [|x c IH]; intros i H; cbn [size_rep length]; [rewrite zlength_correct; cbn; lia|].
  inversion H as [|? ? Hx Hc]; subst. rewrite (IH (S i) Hc), zlength_cons. ring.
Qed.

Lemma size_entries cs : forall i,
  size_rep (fun _ x => size (FSeq [i32; i32]) x) i (length (map seg_entry cs)) (map seg_entry cs) = 8 * zlength cs.
Proof.
  induction cs as [|sc cs IH]; intros i; cbn [map length size_rep]; [reflexivity|].
  rewrite IH, zlength_cons.
  assert (E : size (FSeq [i32; i32]) (seg_entry sc) = 8) by reflexivity. rewrite E. lia.
Qed.

Lemma nth_seg_entry pre sc r :
  vnth 1 (vnth (length pre) (VL (map seg_entry (pre ++ sc :: r)))) = VI (zlength (snd sc)).
Proof.
  unfold vnth. cbn [vlist]. rewrite map_app. cbn [map].
  rewrite <- (map_length seg_entry pre). rewrite nth_middle. reflexivity.
Qed.

Lemma size_frep_exact sample w c : Forall (fun x => size sample x = w) c ->
  size (FRep (length c) sample) (VL c) = w * zlength c.
Proof. intros H. unfold FRep. cbn [size]. now apply size_rep_const. Qed.

Lemma size_chunks sample w : forall cs pre,
  Forall (fun sc => Forall (fun x => size sample x = w) (snd sc)) cs ->
  size_rep (fun i x => size (FRep (cnt (vnth 1 (vnth i (VL (map seg_entry (pre ++ cs)))))) sample) x)
           (length pre) (length cs) (map seg_chunk cs) = len_sum w cs.
Proof.
  induction cs as [|sc cs IH]; intros pre H; cbn [map length size_rep len_sum]; [reflexivity|].
  inversion H as [|? ? Hsc Hcs]; subst.
  rewrite nth_seg_entry.
  change (cnt (VI (zlength (snd sc)))) with (Z.to_nat (zlength (snd sc))).
  change (seg_chunk sc) with (VL (snd sc)).
  replace (Z.to_nat (zlength (snd sc))) with (length (snd sc)) by (rewrite zlength_correct; lia).
  rewrite (size_frep_exact sample w (snd sc) Hsc).
  replace (pre ++ sc :: cs) with ((pre ++ [sc]) ++ cs) by now rewrite <- app_assoc.
  replace (S (length pre)) with (length (pre ++ [sc])) by (rewrite app_length; cbn; lia).
  rewrite (IH (pre ++ [sc]) Hcs). reflexivity.
Qed.

Lemma size_segs_tail_unfold sample n segs chs :
  size (segs_tail sample) (VL [VI n; VL []; VL segs; VL chs]) =
  4 + (4 + (size_rep (fun _ x => size (FSeq [i32; i32]) x) 0 (Z.to_nat n) segs +
            (size_rep (fun i x => size (FRep (cnt (vnth 1 (vnth i (VL segs)))) sample) x) 0 (Z.to_nat n) chs + 0))).
Proof. reflexivity. Qed.

Lemma size_segs_tail sample w cs :
  Forall (fun sc => Forall (fun x => size sample x = w) (snd sc)) cs ->
  size (segs_tail sample) (VL [VI (zlength cs); VL []; VL (map seg_entry cs); VL (map seg_chunk cs)])
  = 4 + 4 + 8 * zlength cs + len_sum w cs.
Proof.
  intros H. rewrite size_segs_tail_unfold.
  replace (Z.to_nat (zlength cs)) with (length cs) by (rewrite zlength_correct; lia).
  pose proof (size_entries cs 0%nat) as He. rewrite map_length in He. rewrite He.
  pose proof (size_chunks sample w cs [] H) as Hc. cbn [app length] in Hc. rewrite Hc. lia.
Qed.

(* labelled tracks: 3D marker (w = 12), EMG signal (w = 4), force/torque track (w = 36) *)
Theorem nbytes_track_is_size n sample w label fs :
  Forall (fun sc => Forall (fun x => size sample x = w) (snd sc)) (chunks fs 0) ->
  size (track n sample) (VL [label; VL fs]) = nbytes_track w fs.
Proof.
  intros H. unfold track, track_wire. cbn [size track_to]. unfold frames_to_wire.
  rewrite (size_segs_tail sample w _ H). unfold nbytes_track. rewrite seg_sum_split. lia.
Qed.

(* unlabelled tracks: force-platform data (w = 24) *)
Theorem nbytes_ptrack_is_size n sample w fs :
  Forall (fun sc => Forall (fun x => size sample x = w) (snd sc)) (chunks fs 0) ->
  size (ptrack n sample) (VL fs) = nbytes_ptrack w fs.
Proof.
  intros H. unfold ptrack. cbn [size ptrack_to]. unfold frames_to_wire.
  rewrite (size_segs_tail sample w _ H). unfold nbytes_ptrack. lia.
Qed.

(* SegFacts.v — exactness of the run-length coding of missing frames (C05) for every frame list. *)
From Model Require Import Base Segments.
From Proofs Require Import BaseFacts.
From Coq Require Import ZifyBool.
Open Scope Z_scope.

Lemma firstn_exact {A} (a b : list A) : firstn (length a) (a ++ b) = a.
Proof. induction a as [|x a IH]; cbn; [now destruct b|now rewrite IH]. Qed.

Lemma skipn_exact {A} (a b : list A) k : skipn (length a + k) (a ++ b) = skipn k b.
Proof. induction a as [|x a IH]; cbn; [reflexivity|exact IH]. Qed.

Lemma place_exact pre c old tail :
  length old = length c ->
  place (Z.of_nat (length pre)) c (pre ++ old ++ tail) = pre ++ c ++ tail.
Proof.
  intros Hl. unfold place. rewrite Nat2Z.id, firstn_exact, skipn_exact, <- Hl.
  replace (length old) with (length old + 0)%nat by lia. rewrite skipn_exact. reflexivity.
Qed.

Lemma place_one pre f g tail :
  place (Z.of_nat (length pre)) [f] (pre ++ g :: tail) = pre ++ f :: tail.
Proof. exact (place_exact pre [f] [g] tail eq_refl). Qed.

(* ---------- shape of the runs ---------- *)
Definition run_ok (lo hi : Z) (sc : Z * list V) : Prop :=
  snd sc <> [] /\ lo <= fst sc /\ fst sc + zlength (snd sc) <= hi /\ forallb present (snd sc) = true.

Fixpoint separated (l : list (Z * list V)) : Prop :=
  match l with
  | sc1 :: ((sc2 :: _) as r) => fst sc1 + zlength (snd sc1) < fst sc2 /\ separated r
  | _ => True
  end.

Lemma zlength_cons {A} (x : A) l : zlength (x :: l) = zlength l + 1.
Proof. rewrite !zlength_correct. cbn [length]. lia. Qed.

Lemma chunks_shape : forall fs pos,
  Forall (run_ok pos (pos + zlength fs)) (chunks fs pos) /\ separated (chunks fs pos).
Proof.
  induction fs as [|f r IH]; intros pos; cbn [chunks].
  - split; constructor.
  - destruct (IH (pos + 1)) as [Hf Hs]. rewrite zlength_cons.
    assert (Forall (run_ok pos (pos + (zlength r + 1))) (chunks r (pos + 1))) as Hf'.
    { eapply Forall_impl; [|exact Hf]. unfold run_ok. intros [s c] (H1 & H2 & H3 & H4).
      cbn [fst snd] in *. repeat split; try assumption; lia. }
    destruct (present f) eqn:P; [|split; assumption].
    destruct (chunks r (pos + 1)) as [|[s c] rs] eqn:E.
    + split; [|exact I]. constructor; [|constructor].
      repeat split; cbn [fst snd]; try discriminate; try lia.
      * rewrite zlength_cons. pose proof (zlength_nonneg r).
        change (zlength (@nil V)) with 0. lia.
      * cbn. now rewrite P.
    + inversion Hf' as [|? ? (H1 & H2 & H3 & H4) Hrs]; subst. cbn [fst snd] in *.
      inversion Hf as [|? ? (_ & G2 & _) _]; subst. cbn [fst] in G2.
      destruct (Z.eqb_spec s (pos + 1)) as [->|Hne].
      * split.
        -- constructor; [|exact Hrs]. repeat split; cbn [fst snd]; try discriminate; try lia.
           ++ rewrite zlength_cons. lia.
           ++ cbn [forallb]. now rewrite P, H4.
        -- destruct rs as [|sc2 rs']; [exact I|]. cbn [separated] in Hs |- *. cbn [fst snd] in *.
           rewrite zlength_cons. split; [lia|tauto].
      * split.
        -- constructor; [|constructor; [repeat split; assumption|exact Hrs]].
           repeat split; cbn [fst snd]; try discriminate; try lia.
           ++ change (zlength [f]) with 1. pose proof (zlength_nonneg r). lia.
           ++ cbn. now rewrite P.
        -- cbn [separated fst snd]. change (zlength [f]) with 1. split; [lia|exact Hs].
Qed.

(* ---------- decoding the runs gives the frames back ---------- *)
Definition gaps_canonical (fs : list V) : Prop := forall f, In f fs -> present f = false -> f = gap.

Lemma place_all_chunks : forall fs pos pre,
  Z.of_nat (length pre) = pos -> gaps_canonical fs ->
  place_all (pre ++ repeat gap (length fs)) (chunks fs pos) = pre ++ fs.
Proof.
  induction fs as [|f r IH]; intros pos pre Hp Hg; cbn [chunks length repeat].
  - reflexivity.
  - assert (gaps_canonical r) as Hg' by (intros x Hx; apply Hg; now right).
    assert (Z.of_nat (length (pre ++ [f])) = pos + 1) as Hp'
        by (rewrite app_length; cbn [length]; lia).
    specialize (IH (pos + 1) (pre ++ [f]) Hp' Hg'). rewrite <- !app_assoc in IH. cbn [app] in IH.
    destruct (present f) eqn:P.
    + destruct (chunks r (pos + 1)) as [|[s c] rs] eqn:E.
      * cbn [place_all]. cbn [place_all] in IH. subst pos.
        rewrite place_one. exact IH.
      * destruct (Z.eqb_spec s (pos + 1)) as [->|Hne].
        -- cbn [place_all] in IH |- *. rewrite <- IH. f_equal. subst pos.
           unfold place. rewrite !Nat2Z.id.
           replace (Z.to_nat (Z.of_nat (length pre) + 1)) with (length (pre ++ [f]))
             by (rewrite app_length; cbn [length]; lia).
           rewrite firstn_exact.
           replace (pre ++ f :: repeat gap (length r)) with ((pre ++ [f]) ++ repeat gap (length r))
             by (now rewrite <- app_assoc).
           rewrite firstn_exact, !skipn_exact. cbn [length]. rewrite <- app_assoc.
           cbn [app skipn]. reflexivity.
        -- cbn [place_all]. subst pos.
           rewrite place_one. exact IH.
    + assert (f = gap) as -> by (apply Hg; [now left|exact P]). exact IH.
Qed.

Lemma zip_segs_map cs : zip_segs (map seg_entry cs) (map seg_chunk cs) = cs.
Proof.
  induction cs as [|[s c] cs IH]; cbn [map zip_segs seg_entry seg_chunk fst snd]; [reflexivity|].
  unfold vnth. cbn. now rewrite IH.
Qed.

Lemma nan_fill_repeat g : nan_fill g = repeat gap (length g).
Proof.
  unfold nan_fill. induction g as [|x g IH]; cbn [map length repeat]; [reflexivity|now rewrite IH].
Qed.

Lemma nan_fill_gap n : nan_fill (repeat gap n) = repeat gap n.
Proof. now rewrite nan_fill_repeat, repeat_length. Qed.

Theorem frames_roundtrip fs :
  gaps_canonical fs -> frames_of_wire (length fs) (frames_to_wire fs) = fs.
Proof.
  intros Hg. unfold frames_of_wire, frames_to_wire, decode_frames, decode_frames_g.
  rewrite zip_segs_map, nan_fill_gap.
  exact (place_all_chunks fs 0 [] eq_refl Hg).
Qed.

(* the decoder's result does not depend on what np.empty returned *)
Theorem decode_garbage_indep g1 g2 l :
  length g1 = length g2 -> decode_frames_g g1 l = decode_frames_g g2 l.
Proof. intros H. unfold decode_frames_g. now rewrite !nan_fill_repeat, H. Qed.

(* ---------- covering: a frame is present iff some run contains its index ---------- *)
Definition covers (cs : list (Z * list V)) (i : Z) : Prop :=
  exists sc, In sc cs /\ fst sc <= i < fst sc + zlength (snd sc).

Lemma chunks_cover : forall fs pos i,
  0 <= i < zlength fs ->
  (present (nth (Z.to_nat i) fs gap) = true <-> covers (chunks fs pos) (pos + i)).
Proof.
  induction fs as [|f r IH]; intros pos i Hi.
  - change (zlength (@nil V)) with 0 in Hi. lia.
  - rewrite zlength_cons in Hi. cbn [chunks].
    destruct (chunks_shape r (pos + 1)) as [Hshape _].
    destruct (Z.eq_dec i 0) as [->|Hnz].
    + cbn [Z.to_nat nth]. rewrite Z.add_0_r. split.
      * intros P. rewrite P. destruct (chunks r (pos + 1)) as [|[s c] rs] eqn:E.
        -- exists (pos, [f]). split; [now left|]. cbn [fst snd]. change (zlength [f]) with 1. lia.
        -- destruct (Z.eqb_spec s (pos + 1)).
           ++ exists (pos, f :: c). split; [now left|]. cbn [fst snd]. rewrite zlength_cons.
              pose proof (zlength_nonneg c). lia.
           ++ exists (pos, [f]). split; [now left|]. cbn [fst snd]. change (zlength [f]) with 1. lia.
      * intros (sc & Hin & Hr). destruct (present f) eqn:P; [reflexivity|]. exfalso.
        rewrite Forall_forall in Hshape. destruct (Hshape sc Hin) as (_ & H2 & _). lia.
    + assert (0 <= i - 1 < zlength r) as Hi' by lia.
      specialize (IH (pos + 1) (i - 1) Hi').
      replace (pos + 1 + (i - 1)) with (pos + i) in IH by lia.
      replace (Z.to_nat i) with (S (Z.to_nat (i - 1))) by lia. cbn [nth]. rewrite IH.
      destruct (present f) eqn:P; [|reflexivity].
      destruct (chunks r (pos + 1)) as [|[s c] rs] eqn:E.
      * split; intros (sc & Hin & Hr); [destruct Hin|].
        destruct Hin as [<-|[]]. cbn [fst snd] in Hr. change (zlength [f]) with 1 in Hr. lia.
      * destruct (Z.eqb_spec s (pos + 1)) as [->|Hne].
        -- split; intros (sc & Hin & Hr).
           ++ destruct Hin as [<-|Hin].
              ** exists (pos, f :: c). split; [now left|]. cbn [fst snd] in *.
                 rewrite zlength_cons. lia.
              ** exists sc. split; [now right|exact Hr].
           ++ destruct Hin as [<-|Hin].
              ** exists (pos + 1, c). split; [now left|]. cbn [fst snd] in *.
                 rewrite zlength_cons in Hr. lia.
              ** exists sc. split; [now right|exact Hr].
        -- split; intros (sc & Hin & Hr).
           ++ exists sc. split; [now right|exact Hr].
           ++ destruct Hin as [<-|Hin].
              ** cbn [fst snd] in Hr. change (zlength [f]) with 1 in Hr. lia.
              ** exists sc. split; [exact Hin|exact Hr].
Qed.

(* every run carries exactly the frames of its index range *)
Lemma chunks_content : forall fs pos sc,
  In sc (chunks fs pos) ->
  snd sc = firstn (length (snd sc)) (skipn (Z.to_nat (fst sc - pos)) fs).
Proof.
  induction fs as [|f r IH]; intros pos sc Hin; cbn [chunks] in Hin; [destruct Hin|].
  destruct (chunks_shape r (pos + 1)) as [Hshape _]. rewrite Forall_forall in Hshape.
  assert (forall sc', In sc' (chunks r (pos + 1)) ->
            snd sc' = firstn (length (snd sc')) (skipn (Z.to_nat (fst sc' - pos)) (f :: r))) as Hrest.
  { intros sc' Hin'. destruct (Hshape sc' Hin') as (_ & H2 & _).
    replace (Z.to_nat (fst sc' - pos)) with (S (Z.to_nat (fst sc' - (pos + 1)))) by lia.
    cbn [skipn]. now apply IH. }
  destruct (present f) eqn:P; [|now apply Hrest].
  destruct (chunks r (pos + 1)) as [|[s c] rs] eqn:E.
  - destruct Hin as [<-|[]]. cbn [fst snd length]. now rewrite Z.sub_diag.
  - destruct (Z.eqb_spec s (pos + 1)) as [->|Hne].
    + destruct Hin as [<-|Hin]; [|apply Hrest; now right].
      cbn [fst snd length]. rewrite Z.sub_diag. cbn [Z.to_nat skipn firstn]. f_equal.
      specialize (IH (pos + 1) (pos + 1, c)). rewrite E in IH. specialize (IH (or_introl eq_refl)).
      cbn [fst snd] in IH. rewrite Z.sub_diag in IH. exact IH.
    + destruct Hin as [<-|Hin]; [|now apply Hrest].
      cbn [fst snd length]. now rewrite Z.sub_diag.
Qed.

From Model Require Import Base Cp1252 Str.
From Proofs Require Import BaseFacts.
From Coq Require Import ZifyBool.
Open Scope Z_scope.

(* ---------- finite sweeps over the 256 bytes, lifted to a quantified statement ---------- *)
Definition all_bytes : list Z := map Z.of_nat (seq 0 256).

Lemma byte_sweep (P : Z -> bool) :
  forallb P all_bytes = true -> forall b, 0 <= b < 256 -> P b = true.
Proof.
  intros H b Hb. rewrite forallb_forall in H. apply H.
  unfold all_bytes. apply in_map_iff. exists (Z.to_nat b). split; [lia|].
  apply in_seq. lia.
Qed.

Definition opt_eqb (a b : option Z) : bool :=
  match a, b with
  | Some x, Some y => x =? y
  | None, None => true
  | _, _ => false
  end.

Lemma opt_eqb_eq a b : opt_eqb a b = true -> a = b.
Proof. destruct a, b; cbn; try discriminate; try reflexivity. intros H. f_equal. lia. Qed.

(* cp_dec b = Some c  ->  cp_enc c = Some b   (all 256 bytes) *)
Lemma cp_dec_enc_sweep :
  forallb (fun b => match cp_dec b with Some c => opt_eqb (cp_enc c) (Some b) | None => true end)
          all_bytes = true.
Proof. vm_compute. reflexivity. Qed.

Lemma cp_dec_range b c : cp_dec b = Some c -> 0 <= b < 256.
Proof.
  unfold cp_dec.
  repeat match goal with
         | |- context [if ?x =? ?k then _ else _] =>
             destruct (Z.eqb_spec x k) as [->|_]; [intros _; lia|]
         end.
  destruct ((0 <=? b) && (b <? 256)) eqn:E; [intros _; lia|discriminate].
Qed.

Lemma cp_dec_enc b c : cp_dec b = Some c -> cp_enc c = Some b.
Proof.
  intros H. pose proof (cp_dec_range _ _ H) as Hb.
  pose proof (byte_sweep _ cp_dec_enc_sweep b Hb) as S. cbv beta in S.
  rewrite H in S. now apply opt_eqb_eq.
Qed.

Lemma cp_dec_id_sweep :
  forallb (fun b => if (b <? 128) || (160 <=? b) then opt_eqb (cp_dec b) (Some b) else true)
          all_bytes = true.
Proof. vm_compute. reflexivity. Qed.

Lemma cp_enc_dec c b : cp_enc c = Some b -> cp_dec b = Some c /\ 0 <= b < 256.
Proof.
  unfold cp_enc.
  repeat match goal with
         | |- context [if ?x =? ?k then _ else _] =>
             destruct (Z.eqb_spec x k) as [->|_];
             [intros H; inversion H; subst; split; [vm_compute; reflexivity|lia]|]
         end.
  destruct ((0 <=? c) && (c <? 128)) eqn:E1.
  - intros H; inversion H; subst. split; [|lia].
    pose proof (byte_sweep _ cp_dec_id_sweep b ltac:(lia)) as S. cbv beta in S.
    replace ((b <? 128) || (160 <=? b)) with true in S by lia. now apply opt_eqb_eq.
  - destruct ((160 <=? c) && (c <? 256)) eqn:E2; [|discriminate].
    intros H; inversion H; subst. split; [|lia].
    pose proof (byte_sweep _ cp_dec_id_sweep b ltac:(lia)) as S. cbv beta in S.
    replace ((b <? 128) || (160 <=? b)) with true in S by lia. now apply opt_eqb_eq.
Qed.

Lemma cp_enc_zero c : cp_enc c = Some 0 -> c = 0.
Proof.
  intros H. apply cp_enc_dec in H. destruct H as [H _]. vm_compute in H. now inversion H.
Qed.

(* ---------- strings ---------- *)
Lemma cp_encode_length : forall s bs, cp_encode s = Some bs -> length bs = length s.
Proof.
  induction s as [|c s IH]; intros bs H; cbn [cp_encode] in H.
  - inversion H. reflexivity.
  - destruct (cp_enc c); [|discriminate]. destruct (cp_encode s) as [bs'|]; [|discriminate].
    inversion H; subst. cbn [length]. f_equal. now apply IH.
Qed.

Lemma cp_encode_bytes : forall s bs, cp_encode s = Some bs -> bytesb bs = true.
Proof.
  induction s as [|c s IH]; intros bs H; cbn [cp_encode] in H.
  - inversion H. reflexivity.
  - destruct (cp_enc c) as [b|] eqn:Ec; [|discriminate].
    destruct (cp_encode s) as [bs'|]; [|discriminate].
    inversion H; subst. cbn [bytesb forallb]. fold (bytesb bs'). rewrite (IH _ eq_refl).
    apply cp_enc_dec in Ec. unfold byteb. lia.
Qed.

Definition encodable (s : list Z) : Prop := Forall (fun c => cp_enc c <> None) s.
Definition no_nul (s : list Z) : Prop := ~ In 0 s.

Lemma cp_encode_some : forall s, encodable s -> exists bs, cp_encode s = Some bs.
Proof.
  induction s as [|c s IH]; intros H.
  - exists []. reflexivity.
  - inversion H as [|? ? Hc Hs]; subst. destruct (IH Hs) as [bs Hbs].
    destruct (cp_enc c) as [b|] eqn:Ec; [|congruence].
    exists (b :: bs). cbn [cp_encode]. now rewrite Ec, Hbs.
Qed.

Lemma cp_encode_none : forall s, ~ encodable s -> cp_encode s = None.
Proof.
  induction s as [|c s IH]; intros H.
  - exfalso. apply H. constructor.
  - cbn [cp_encode]. destruct (cp_enc c) as [b|] eqn:Ec; [|reflexivity].
    rewrite IH; [reflexivity|]. intros Hs. apply H. constructor; [congruence|exact Hs].
Qed.

(* decoding what was encoded, when nothing in it is NUL: upto_nul stops exactly at the terminator *)
Lemma read_back : forall s bs tail,
  cp_encode s = Some bs -> no_nul s ->
  cp_decode (upto_nul (bs ++ 0 :: tail)) = Some s.
Proof.
  induction s as [|c s IH]; intros bs tail H Hn; cbn [cp_encode] in H.
  - inversion H; subst. cbn. reflexivity.
  - destruct (cp_enc c) as [b|] eqn:Ec; [|discriminate].
    destruct (cp_encode s) as [bs'|] eqn:Es; [|discriminate].
    inversion H; subst. cbn [app upto_nul].
    assert (b <> 0) as Hb.
    { intros ->. apply cp_enc_zero in Ec. apply Hn. left. now symmetry. }
    destruct (Z.eqb_spec b 0) as [?|_]; [contradiction|].
    cbn [cp_decode]. apply cp_enc_dec in Ec. destruct Ec as [-> _].
    rewrite (IH bs' tail eq_refl); [reflexivity|].
    intros Hin. apply Hn. now right.
Qed.

Lemma str_writej_inv w jk off s out :
  str_writej w jk off s = Ok out ->
  exists bs, cp_encode s = Some bs /\ (length bs < w)%nat /\
             out = bs ++ 0 :: junk jk (off + zlength (bs ++ [0])) (w - length (bs ++ [0])).
Proof.
  unfold str_writej. destruct (cp_encode s) as [bs|] eqn:E; [|discriminate].
  destruct (Z.of_nat w <? zlength (bs ++ [0])) eqn:L; [discriminate|].
  intros H. inversion H; subst. exists bs. split; [reflexivity|].
  rewrite zlength_correct, app_length in L. cbn [length] in L. split; [lia|].
  now rewrite <- app_assoc.
Qed.

(* ----- C13: width ----- *)
Lemma str_writej_width w jk off s out :
  str_writej w jk off s = Ok out -> length out = w.
Proof.
  intros H. apply str_writej_inv in H. destruct H as (bs & _ & Hl & ->).
  rewrite app_length. cbn [length]. rewrite junk_length, app_length. cbn [length]. lia.
Qed.

Lemma str_writej_bytes w jk off s out :
  junk_ok jk -> str_writej w jk off s = Ok out -> bytesb out = true.
Proof.
  intros Hj H. apply str_writej_inv in H. destruct H as (bs & He & _ & ->).
  rewrite bytesb_app. rewrite (cp_encode_bytes _ _ He). cbn [bytesb forallb andb].
  fold (bytesb (junk jk (off + zlength (bs ++ [0])) (w - length (bs ++ [0])))).
  now rewrite junk_bytes.
Qed.

(* ----- C13: terminated and zero padded (library writer) ----- *)
Lemma junk_zero n : forall off, junk zero_junk off n = repeat 0 n.
Proof. induction n as [|n IH]; intros off; cbn [junk repeat]; [reflexivity|]. now rewrite IH. Qed.

Lemma str_write_shape w s out :
  str_write w s = Ok out ->
  exists bs, cp_encode s = Some bs /\ out = bs ++ 0 :: repeat 0 (w - length bs - 1).
Proof.
  intros H. apply str_writej_inv in H. destruct H as (bs & He & Hl & ->).
  exists bs. split; [exact He|]. rewrite junk_zero, app_length. cbn [length].
  replace (w - (length bs + 1))%nat with (w - length bs - 1)%nat by lia. reflexivity.
Qed.

(* ----- C13: lossless for valid text ----- *)
Lemma str_roundtrip w jk off s :
  encodable s -> no_nul s -> (length s < w)%nat ->
  exists out, str_writej w jk off s = Ok out /\ str_read w out = Some s.
Proof.
  intros He Hn Hl. destruct (cp_encode_some s He) as [bs Hbs].
  pose proof (cp_encode_length _ _ Hbs) as Hlen.
  unfold str_writej. rewrite Hbs.
  destruct (Z.of_nat w <? zlength (bs ++ [0])) eqn:L.
  { rewrite zlength_correct, app_length in L. cbn [length] in L. lia. }
  eexists. split; [reflexivity|].
  unfold str_read. rewrite app_length, junk_length, app_length. cbn [length].
  replace (length bs + 1 + (w - (length bs + 1)))%nat with w by lia. rewrite Nat.eqb_refl.
  rewrite <- app_assoc. cbn [app]. now apply read_back.
Qed.

(* ----- C13: refused, never truncated ----- *)
Lemma str_write_refuse_unencodable w jk off s :
  ~ encodable s -> str_writej w jk off s = Err EValue.
Proof. intros H. unfold str_writej. now rewrite (cp_encode_none s H). Qed.

Lemma str_write_refuse_long w jk off s :
  (w <= length s)%nat -> str_writej w jk off s = Err EValue.
Proof.
  intros H. unfold str_writej. destruct (cp_encode s) as [bs|] eqn:E; [|reflexivity].
  pose proof (cp_encode_length _ _ E) as Hl.
  destruct (Z.of_nat w <? zlength (bs ++ [0])) eqn:L; [reflexivity|].
  rewrite zlength_correct, app_length in L. cbn [length] in L. lia.
Qed.

Lemma str_write_total w jk off s :
  (exists out, str_writej w jk off s = Ok out) \/ str_writej w jk off s = Err EValue.
Proof.
  unfold str_writej. destruct (cp_encode s); [|now right].
  destruct (_ <? _); [now right|left; eauto].
Qed.

(* the whole encoded text and its terminator are in the field: nothing is cut off *)
Lemma str_write_never_truncates w jk off s out :
  str_writej w jk off s = Ok out ->
  exists bs t, cp_encode s = Some bs /\ length bs = length s /\ out = bs ++ 0 :: t.
Proof.
  intros H. apply str_writej_inv in H. destruct H as (bs & He & _ & ->).
  exists bs. eexists. split; [exact He|]. split; [now apply cp_encode_length in He|reflexivity].
Qed.

(* ----- C13 / C12: reading depends only on the bytes up to the first NUL ----- *)
Lemma upto_nul_prefix : forall p t1 t2,
  upto_nul (p ++ 0 :: t1) = upto_nul (p ++ 0 :: t2).
Proof.
  induction p as [|b p IH]; intros t1 t2; cbn [app upto_nul].
  - reflexivity.
  - destruct (b =? 0); [reflexivity|]. now rewrite (IH t1 t2).
Qed.

Lemma str_read_prefix w p t1 t2 :
  length t1 = length t2 ->
  str_read w (p ++ 0 :: t1) = str_read w (p ++ 0 :: t2).
Proof.
  intros Hl. unfold str_read. rewrite !app_length. cbn [length]. rewrite Hl.
  now rewrite (upto_nul_prefix p t1 t2).
Qed.

(* junk independence of the written field's reading *)
Lemma str_read_junk_indep w jk1 jk2 off1 off2 s o1 o2 :
  str_writej w jk1 off1 s = Ok o1 -> str_writej w jk2 off2 s = Ok o2 ->
  str_read w o1 = str_read w o2.
Proof.
  intros H1 H2. apply str_writej_inv in H1, H2.
  destruct H1 as (b1 & E1 & _ & ->). destruct H2 as (b2 & E2 & _ & ->).
  rewrite E1 in E2. inversion E2; subst. apply str_read_prefix.
  now rewrite !junk_length.
Qed.

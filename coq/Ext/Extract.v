(* Extract.v — extraction of the executable model to OCaml.
   Only ExtrOcamlBasic's directives are used (bool, option, unit, list, prod, sumbool, sumor
   mapped to their OCaml counterparts; andb/orb/negb inlined); Z, positive, nat stay the
   Coq inductives.  No hand-written Extract Constant. *)
From Coq Require Import ExtrOcamlBasic.
From Model Require Import Main.
Extraction Language OCaml.
Extraction "extracted/model.ml" run Z.add Z.mul Z.div_eucl Z.opp.

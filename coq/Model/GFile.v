(* GFile.v — the abstract file WITH HOLES: what a sound TDF container is when its writer did not pack
   the blocks.  As AFile.v, but every live block carries the padding bytes that sit in front of it,
   and behind the last block there may be more bytes: [gf_gap] up to the offset the unused slots carry, [gf_tail] after it.  Blocks are still stored in table order and the
   unused slots still carry the end of the data — the two assumptions of the code that finding F3b is
   about — but nothing is back to back any more: this is what a foreign writer that aligns its blocks
   (or that dropped a block and kept the hole) leaves behind.  A file of AFile.v is the special case
   without padding ([g_of_a]).  Proofs/GapFacts.v shows that add_block / remove_block /
   replace_block / the setters refine the operations below on such files too. *)
From Model Require Export AFile.
Open Scope Z_scope.

Record gblock := mkG { g_pad : list Z; g_blk : lblock }.
Record gfile := mkGF { gf_n : Z; gf_live : list gblock; gf_gap : list Z; gf_tail : list Z; gf_free : list fslot }.

Definition gspan (g : gblock) : Z := zlength (g_pad g) + psize (g_blk g).
Fixpoint gtotal (l : list gblock) : Z :=
  match l with [] => 0 | g :: r => gspan g + gtotal r end.

Fixpoint glay (off : Z) (l : list gblock) : list entry :=
  match l with
  | [] => []
  | g :: r => live_entry (off + zlength (g_pad g)) (g_blk g) :: glay (off + gspan g) r
  end.

(* the offset every unused slot carries: where add_block will put the next block *)
Definition g_end (a : gfile) : Z := base (gf_n a) + gtotal (gf_live a) + zlength (gf_gap a).

Definition gtable (a : gfile) : list entry :=
  glay (base (gf_n a)) (gf_live a) ++ map (free_entry (g_end a)) (gf_free a).
Definition gbytes (g : gblock) : list Z := g_pad g ++ l_payload (g_blk g).
Definition gdata (a : gfile) : list Z := flat_map gbytes (gf_live a) ++ gf_gap a ++ gf_tail a.

Definition gconc (a : gfile) : cstate := mkS (gf_n a) (gtable a) (gtable a) (gdata a).

Definition g_types (a : gfile) : list Z := map (fun g => l_type (g_blk g)) (gf_live a).

(* side conditions: live types are real types, the slots add up to N; with no unused slot there is no
   offset that could split the bytes behind the last block: they all count as tail *)
Definition g_wf (a : gfile) : Prop :=
  Forall (fun g => l_type (g_blk g) <> 0) (gf_live a) /\
  zlength (gf_live a) + zlength (gf_free a) = gf_n a /\
  (gf_free a = [] -> gf_gap a = []).
Definition g_inv (a : gfile) : Prop := g_wf a /\ NoDup (g_types a).

(* a concrete state is ORDERED when it is the layout of such a file *)
Definition ordered (s : cstate) : Prop := exists a, g_inv a /\ s = gconc a.

(* ---------- the abstract operations ---------- *)
(* add: the block goes to the offset the unused slots carry; the bytes between the last block and that offset are
   now the padding in front of it, and it overwrites as many of the bytes behind that offset as it is long *)
Definition g_add (a : gfile) (nb : lblock) : gfile :=
  mkGF (gf_n a) (gf_live a ++ [mkG (gf_gap a) nb]) [] (skipn (length (l_payload nb)) (gf_tail a)) (tl (gf_free a)).

(* remove: the payload is cut out and everything behind moves up by its length; the padding that was in front of the
   block stays where it is: it joins the padding of the next block — [gremove] returns it when there is no next *)
Fixpoint gremove (ty : Z) (l : list gblock) : list gblock * list Z :=
  match l with
  | [] => ([], [])
  | g :: r =>
      if l_type (g_blk g) =? ty then
        match r with
        | [] => ([], g_pad g)
        | h :: r' => (mkG (g_pad g ++ g_pad h) (g_blk h) :: r', [])
        end
      else let '(r', x) := gremove ty r in (g :: r', x)
  end.

(* the freed slot takes the offset of the end of the last entry: the (shifted) offset of the other unused slots when
   there are any, otherwise the end of the last live block *)
Definition g_remove (a : gfile) (ty now : Z) : gfile :=
  let '(l', x) := gremove ty (gf_live a) in
  match gf_free a with
  | [] => mkGF (gf_n a) l' [] (x ++ gf_gap a ++ gf_tail a) [fresh_slot now]
  | _ :: _ => mkGF (gf_n a) l' (x ++ gf_gap a) (gf_tail a) (gf_free a ++ [fresh_slot now])
  end.

Definition g_find (a : gfile) (ty : Z) : option lblock :=
  option_map g_blk (find (fun g => l_type (g_blk g) =? ty) (gf_live a)).

Definition g_step (a : gfile) (o : cop) : option gfile :=
  match o with
  | OAdd b c now =>
      match b_payload b, gf_free a with
      | Some p, _ :: _ =>
          if negb (existsb (Z.eqb (b_type b)) (g_types a)) && comment_ok c
          then Some (g_add a (new_block b c p now)) else None
      | _, _ => None
      end
  | ORemove ty now =>
      if existsb (Z.eqb ty) (g_types a) then Some (g_remove a ty now) else None
  | OReplace b c n1 n2 =>
      match b_payload b, g_find a (b_type b) with
      | Some p, Some old =>
          let c' := match c with Some c => c | None => l_comment old end in
          if comment_ok c'
          then Some (g_add (g_remove a (b_type b) n1) (new_block b c' p n2)) else None
      | _, _ => None
      end
  | OSet b n1 n2 =>
      match b_payload b, g_find a (b_type b) with
      | Some p, Some old =>
          if comment_ok (l_comment old)
          then Some (g_add (g_remove a (b_type b) n1) (new_block b (l_comment old) p n2)) else None
      | Some p, None =>
          match gf_free a with
          | _ :: _ => Some (g_add a (new_block b default_comment p n2))
          | [] => None
          end
      | None, _ => None
      end
  | OReopen => Some a
  end.

Definition g_next (a : gfile) (o : cop) : gfile :=
  match g_step a o with Some a' => a' | None => a end.
Definition g_run (a : gfile) (ops : list cop) : gfile := fold_left g_next ops a.

(* the blocks of a file, without the padding: what C04 speaks about *)
Definition g_blocks (a : gfile) : list lblock := map g_blk (gf_live a).

(* a packed file of AFile.v seen as a file with (no) holes *)
Definition g_of_a (a : afile) : gfile :=
  mkGF (a_n a) (map (mkG []) (a_live a)) [] [] (a_free a).

(* ---------- deciding [ordered] (the lemmas are in Proofs/OrderedDec.v) ----------
   [orderedb s] reads an abstract file with holes off the concrete state, lays it out again and COMPARES the result
   with s: it certifies its own answer, so soundness needs nothing about the reading. *)
Fixpoint zlist_eqb (a b : list Z) : bool :=
  match a, b with
  | [], [] => true
  | x :: a', y :: b' => (x =? y) && zlist_eqb a' b'
  | _, _ => false
  end.
Definition entry_eqb (a b : entry) : bool :=
  (e_type a =? e_type b) && (e_format a =? e_format b) && (e_off a =? e_off b) && (e_size a =? e_size b) &&
  (e_cdate a =? e_cdate b) && (e_mdate a =? e_mdate b) && (e_adate a =? e_adate b) && zlist_eqb (e_comment a) (e_comment b).
Fixpoint table_eqb (a b : list entry) : bool :=
  match a, b with
  | [], [] => true
  | x :: a', y :: b' => entry_eqb x y && table_eqb a' b'
  | _, _ => false
  end.
Definition state_eqb (a b : cstate) : bool :=
  (s_n a =? s_n b) && table_eqb (mem a) (mem b) && table_eqb (tab a) (tab b) && zlist_eqb (data a) (data b).
(* ---------- reading the abstract file off a state ---------- *)
Definition bytes_at (d : list Z) (start len : Z) : list Z :=
  firstn (Z.to_nat len) (skipn (Z.to_nat start) d).

Definition lb_of_entry (e : entry) (payload : list Z) : lblock :=
  mkL (e_type e) (e_format e) (e_cdate e) (e_mdate e) (e_adate e) (e_comment e) payload.

(* live entries in table order; [pos] = offset where the previous block ended *)
Fixpoint read_live (n : Z) (d : list Z) (pos : Z) (l : list entry) : list gblock * Z * list entry :=
  match l with
  | e :: r =>
      if is_live e then
        let g := mkG (bytes_at d (pos - base n) (e_off e - pos))
                     (lb_of_entry e (bytes_at d (e_off e - base n) (e_size e))) in
        let '(gs, endp, rest) := read_live n d (e_off e + e_size e) r in
        (g :: gs, endp, rest)
      else ([], pos, l)
  | [] => ([], pos, [])
  end.

Definition slot_of_entry (e : entry) : fslot := mkF (e_format e) (e_cdate e) (e_mdate e) (e_adate e) (e_comment e).

Definition gfile_of (s : cstate) : gfile :=
  let n := s_n s in
  let '(gs, endp, rest) := read_live n (data s) (base n) (tab s) in
  let E := match rest with f :: _ => e_off f | [] => endp end in
  let total_len := zlength (data s) in
  match rest with
  | [] => mkGF n gs [] (bytes_at (data s) (endp - base n) (total_len - (endp - base n))) []
  | _ :: _ => mkGF n gs (bytes_at (data s) (endp - base n) (E - endp))
                   (bytes_at (data s) (E - base n) (total_len - (E - base n))) (map slot_of_entry rest)
  end.

(* the side conditions of g_inv, as a boolean *)
Fixpoint nodupb (l : list Z) : bool :=
  match l with [] => true | x :: r => negb (existsb (Z.eqb x) r) && nodupb r end.
Definition g_invb (a : gfile) : bool :=
  forallb (fun g => negb (l_type (g_blk g) =? 0)) (gf_live a) &&
  (zlength (gf_live a) + zlength (gf_free a) =? gf_n a) &&
  (match gf_free a with [] => match gf_gap a with [] => true | _ => false end | _ => true end) &&
  nodupb (g_types a).

Definition orderedb (s : cstate) : bool :=
  let a := gfile_of s in g_invb a && state_eqb s (gconc a).


(* ---------- add_block on a file that is merely sound (the theorem is Proofs/AddSafe.v) ----------
   the region the next block will occupy: it starts at the offset the first unused slot carries *)
Definition region_free (s : cstate) (off size : Z) : Prop :=
  Forall (fun e => is_live e = true -> e_off e + e_size e <= off \/ off + size <= e_off e) (tab s).
Definition region_freeb (s : cstate) (off size : Z) : bool :=
  forallb (fun e => negb (is_live e) || (e_off e + e_size e <=? off) || (off + size <=? e_off e)) (tab s).
Definition add_safeb (s : cstate) (size : Z) : bool :=
  match find_pos is_unused (tab s) with
  | Some k => let off := e_off (nth_entry k (tab s)) in (base (s_n s) <=? off) && region_freeb s off size
  | None => false
  end.

(* ---------- deciding [wf], the property's own soundness conditions (C03), on a parsed file ---------- *)
Definition in_fileb (s : cstate) (e : entry) : bool :=
  (base (s_n s) <=? e_off e) && (0 <=? e_size e) && (e_off e + e_size e <=? file_len s).
Definition disjointb (e1 e2 : entry) : bool :=
  (e_off e1 + e_size e1 <=? e_off e2) || (e_off e2 + e_size e2 <=? e_off e1).
Fixpoint pairsb {A} (r : A -> A -> bool) (l : list A) : bool :=
  match l with [] => true | x :: t => forallb (r x) t && pairsb r t end.
Definition soundb (s : cstate) : bool :=
  (zlength (tab s) =? s_n s) &&
  forallb (fun e => negb (is_live e) || in_fileb s e) (tab s) &&
  forallb (fun e => negb (is_unused e) || (e_size e =? 0)) (tab s) &&
  pairsb disjointb (filter is_live (tab s)).

(* Run.v — the single extracted entry point: run opcode argument = observation.
   Results: VL [VI 0; payload] on success, VL [VI err_code] when the Python call raises. *)
From Model Require Export Base Cp1252 Str Fmt.
Open Scope Z_scope.

Definition ok (v : V) : V := VL [VI 0; v].
Definition fail (e : err) : V := VL [VI (err_code e)].
Definition of_result {A} (f : A -> V) (r : result A) : V :=
  match r with Ok a => ok (f a) | Err e => fail e end.
Definition of_option {A} (f : A -> V) (e : err) (r : option A) : V :=
  match r with Some a => ok (f a) | None => fail e end.
Definition vbool (b : bool) : V := VI (if b then 1 else 0).

Definition zs_of (v : V) : list Z :=
  match unints (vlist v) with Some l => l | None => [] end.

(* --- C13 --- *)
Definition run_str_write (arg : V) : V :=
  let w := Z.to_nat (vint (vnth 0 arg)) in
  of_result vints (str_write w (zs_of (vnth 1 arg))).
Definition run_str_read (arg : V) : V :=
  let w := Z.to_nat (vint (vnth 0 arg)) in
  of_option vints EValue (str_read w (zs_of (vnth 1 arg))).
Definition run_cp_enc (arg : V) : V := of_option VI EValue (cp_enc (vint arg)).
Definition run_cp_dec (arg : V) : V := of_option VI EValue (cp_dec (vint arg)).

(* --- block codecs (C01, C02, C05, C06, C12) --- *)
From Model Require Export Segments Blocks.

Definition lin_junk (a b : Z) : Z -> Z := fun off => (a * off + b) mod 256.

(* [ty; format; v] *)
Definition run_enc (arg : V) : V :=
  match block_fmt (vint (vnth 0 arg)) (vint (vnth 1 arg)) with
  | None => fail ENotImpl
  | Some f => of_option vints EValue (enc f (vnth 2 arg))
  end.
(* [ty; format; v; a; b] : the free encoder with junk oracle (a*off+b) mod 256 *)
Definition run_encj (arg : V) : V :=
  match block_fmt (vint (vnth 0 arg)) (vint (vnth 1 arg)) with
  | None => fail ENotImpl
  | Some f => of_option vints EValue
                (encj f (lin_junk (vint (vnth 3 arg)) (vint (vnth 4 arg))) 0 (vnth 2 arg))
  end.
(* [ty; format; bytes] -> [v; consumed] *)
Definition run_dec (arg : V) : V :=
  match block_fmt (vint (vnth 0 arg)) (vint (vnth 1 arg)) with
  | None => fail ENotImpl
  | Some f =>
      let bs := zs_of (vnth 2 arg) in
      match dec f bs with
      | Some (v, rest) => ok (VL [v; VI (zlength bs - zlength rest)])
      | None => fail EValue
      end
  end.
Definition run_wfb (arg : V) : V :=
  match block_fmt (vint (vnth 0 arg)) (vint (vnth 1 arg)) with
  | None => fail ENotImpl
  | Some f => ok (vbool (wfb f (vnth 2 arg)))
  end.
Definition run_size (arg : V) : V :=
  match block_fmt (vint (vnth 0 arg)) (vint (vnth 1 arg)) with
  | None => fail ENotImpl
  | Some f => ok (VI (size f (vnth 2 arg)))
  end.
(* frames -> segment table [[start; count]; ...] *)
Definition run_chunks (arg : V) : V :=
  ok (VL (map seg_entry (chunks (vlist arg) 0))).

(* the code's own nBytes arithmetic for run-length coded tracks (Proofs/SizeFacts.v proves it equal to [size]):
   [labelled (1) / unlabelled (0); item size; frames] *)
Fixpoint seg_sum_m (w : Z) (cs : list (Z * list V)) : Z :=
  match cs with [] => 0 | sc :: r => 4 + 4 + zlength (snd sc) * w + seg_sum_m w r end.
Definition run_nbytes_track (arg : V) : V :=
  let cs := chunks (vlist (vnth 2 arg)) 0 in
  ok (VI ((if vint (vnth 0 arg) =? 1 then 256 else 0) + 4 + 4 + seg_sum_m (vint (vnth 1 arg)) cs)).

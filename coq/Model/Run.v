(* Run.v — the single extracted entry point: run opcode argument = observation.
   Results: VL [VI 0; payload] on success, VL [VI err_code] when the Python call raises. *)
From Model Require Export Base Cp1252 Str Fmt.
Open Scope Z_scope.

Definition ok (v : V) : V := VL [VI 0; v].
Definition fail (e : err) : V := VL [VI (err_code e)].
Definition of_result {A} (f : A -> V) (r : result A) : V :=
  match r with Ok a => ok (f a) | Err e => fail e end.
Definition of_option {A} (f : A -> V) (e : err) (r : option A) : V :=
  match r with Some a => ok (f a) | None => fail e end.
Definition vbool (b : bool) : V := VI (if b then 1 else 0).

Definition zs_of (v : V) : list Z :=
  match unints (vlist v) with Some l => l | None => [] end.

(* --- C13 --- *)
Definition run_str_write (arg : V) : V :=
  let w := Z.to_nat (vint (vnth 0 arg)) in
  of_result vints (str_write w (zs_of (vnth 1 arg))).
Definition run_str_read (arg : V) : V :=
  let w := Z.to_nat (vint (vnth 0 arg)) in
  of_option vints EValue (str_read w (zs_of (vnth 1 arg))).
Definition run_cp_enc (arg : V) : V := of_option VI EValue (cp_enc (vint arg)).
Definition run_cp_dec (arg : V) : V := of_option VI EValue (cp_dec (vint arg)).

(* Main.v — dispatcher for the extracted model. *)
From Model Require Export Run RunContainer RunAPI.
Open Scope Z_scope.

Definition run (op : Z) (arg : V) : V :=
  if op =? 1 then run_str_write arg else
  if op =? 2 then run_str_read arg else
  if op =? 3 then run_cp_enc arg else
  if op =? 4 then run_cp_dec arg else
  if op =? 10 then run_enc arg else
  if op =? 11 then run_dec arg else
  if op =? 12 then run_wfb arg else
  if op =? 13 then run_size arg else
  if op =? 14 then run_encj arg else
  if op =? 20 then run_chunks arg else
  if op =? 30 then run_container arg else
  if op =? 31 then run_new arg else
  if op =? 32 then run_file_bytes arg else
  if op =? 33 then run_accessors arg else
  if op =? 34 then run_he_encj arg else
  if op =? 35 then run_he_dec arg else
  if op =? 36 then run_container_acc arg else
  if op =? 37 then run_compactb arg else
  if op =? 38 then run_fs arg else
  if op =? 39 then run_access arg else
  if op =? 40 then run_lookup arg else
  if op =? 41 then run_tracks arg else
  if op =? 42 then run_ctor arg else
  if op =? 43 then run_channels arg else
  if op =? 44 then run_heap arg else
  if op =? 45 then run_eq arg else
  if op =? 46 then run_parse_file arg else
  if op =? 47 then run_nbytes_track arg else
  if op =? 48 then run_orderedb arg else
  if op =? 49 then run_buffers arg else
  if op =? 50 then run_add_safeb arg else
  if op =? 51 then run_soundb arg else
  fail EOther.

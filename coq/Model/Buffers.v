(* Buffers.v — where an item's numbers live (C20, "event values copied into a fresh array").
   A caller-side SOURCE of numbers is either an array the constructor keeps as it is (numpy convention: an ndarray of
   the stored type — tdfEvents.py:33-34 for events; MarkerTrack / EMGTrack keep any ndarray) or anything else (a list,
   a tuple, an array of another dtype, array.array, a memoryview, an object offering __array__), which the constructor
   converts into an array of its own.  Items built by separate constructor calls from one source then share a buffer
   exactly in the first case — where the caller himself has placed one object in two items. *)
From Model Require Export Heap.
Open Scope Z_scope.

Inductive skind := SKeep | SConvert.

Record bstate := mkBS {
  bs_next : Z;                         (* allocator of object ids *)
  bs_src : fmap (skind * Z);           (* source object |-> its kind and the buffer holding its numbers *)
  bs_item : fmap Z;                    (* item object |-> the buffer it reads and encodes *)
  bs_ver : fmap Z }.                   (* buffer |-> version (bumped by an in-place edit) *)

Definition bs_init : bstate := mkBS 0 fempty fempty fempty.

Inductive bop :=
| BSource (k : skind)                  (* the caller creates a source of numbers *)
| BItem (src : Z)                      (* an item is constructed from that source *)
| BEditItem (it : Z)                   (* item.values[...] = ... *)
| BEditSource (src : Z).               (* the caller changes his source in place *)

Definition bump (b : Z) (s : bstate) : bstate :=
  match bs_ver s b with
  | Some v => mkBS (bs_next s) (bs_src s) (bs_item s) (fupd b (v + 1) (bs_ver s))
  | None => s
  end.

Definition b_step (s : bstate) (o : bop) : bstate :=
  match o with
  | BSource k =>
      let sid := bs_next s in let b := sid + 1 in
      mkBS (sid + 2) (fupd sid (k, b) (bs_src s)) (bs_item s) (fupd b 0 (bs_ver s))
  | BItem src =>
      match bs_src s src with
      | Some (SKeep, b) => mkBS (bs_next s + 1) (bs_src s) (fupd (bs_next s) b (bs_item s)) (bs_ver s)
      | Some (SConvert, _) =>
          let it := bs_next s in let b := it + 1 in
          mkBS (it + 2) (bs_src s) (fupd it b (bs_item s)) (fupd b 0 (bs_ver s))
      | None => s
      end
  | BEditItem it => match bs_item s it with Some b => bump b s | None => s end
  | BEditSource src => match bs_src s src with Some (_, b) => bump b s | None => s end
  end.

Definition b_run (s : bstate) (os : list bop) : bstate := fold_left b_step os s.

(* what an item / a source currently holds: the version of its buffer *)
Definition item_ver (s : bstate) (it : Z) : option Z :=
  match bs_item s it with Some b => bs_ver s b | None => None end.
Definition src_ver (s : bstate) (src : Z) : option Z :=
  match bs_src s src with Some (_, b) => bs_ver s b | None => None end.

(* TwoObjects.v — two Tdf objects on ONE file.  Each object keeps its own copy of the jump table (what [mem] is in
   Container.v); the table on disk and the data are shared.  A call is issued through one of the objects: entering a
   context re-reads the table from the file into that object, a mutation is Container.step on (that object's table, the
   file), leaving a context touches nothing.  Nothing here is new behaviour: it is Container.step seen from two sides. *)
From Model Require Export Container.
Open Scope Z_scope.

Inductive who := ObjA | ObjB.

Record two := mkT { t_n : Z; t_mem_a : list entry; t_mem_b : list entry; t_tab : list entry; t_data : list Z }.

Inductive tcall :=
| TEnter (w : who)              (* __enter__: the object reads the header and the table from the file *)
| TOp (w : who) (o : cop)       (* a mutation request issued through that object (inside its context) *)
| TExit (w : who).              (* __exit__: the handle is closed; nothing is written *)

Definition view (t : two) (w : who) : cstate :=
  mkS (t_n t) (match w with ObjA => t_mem_a t | ObjB => t_mem_b t end) (t_tab t) (t_data t).

Definition put (t : two) (w : who) (s : cstate) : two :=
  match w with
  | ObjA => mkT (s_n s) (mem s) (t_mem_b t) (tab s) (data s)
  | ObjB => mkT (s_n s) (t_mem_a t) (mem s) (tab s) (data s)
  end.

Definition t_step (t : two) (c : tcall) : two :=
  match c with
  | TEnter w => put t w (mkS (t_n t) (t_tab t) (t_tab t) (t_data t))
  | TOp w o => put t w (snd (step (view t w) o))
  | TExit _ => t
  end.

Definition t_run (t : two) (cs : list tcall) : two := fold_left t_step cs t.

(* the file as a one-object state whose table copy is up to date *)
Definition file_of (t : two) : cstate := mkS (t_n t) (t_tab t) (t_tab t) (t_data t).
Definition start (s : cstate) : two := mkT (s_n s) (tab s) (tab s) (tab s) (data s).

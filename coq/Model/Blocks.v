(* Blocks.v — the layout of every writable block as a [fmt] term.
   Read off _write/_build of tdfData3D.py, tdfEMG.py, tdfForce3D.py, tdfForcePlatformsData.py,
   tdfForcePlatformsCalibration.py, tdfData2D.py, tdfCalibrationData.py, tdfOpticalSystem.py,
   tdfEvents.py; constants (256, 32, 49, 70) appear here and nowhere else.

   A block's value is the flat list of its fields in file order (counts included; a count must
   equal the length of the list it announces — that is part of validity, see Fmt.wfb). *)
From Model Require Export Base Fmt Segments.
Open Scope Z_scope.

(* ---------- field types ---------- *)
Definition i32 : fmt := FInt 4 (-2147483648) 2147483648.
Definition u32 : fmt := FInt 4 0 4294967296.
(* written with one signedness and read with the other: both agree on [0, 2^31) *)
Definition n31 : fmt := FInt 4 0 2147483648.
Definition i16 : fmt := FInt 2 (-32768) 32768.
Definition u16 : fmt := FInt 2 0 65536.
Definition n15 : fmt := FInt 2 0 32768.
(* floats are carried as their bit patterns *)
Definition f32 : fmt := FInt 4 0 4294967296.
Definition f64 : fmt := FInt 8 0 18446744073709551616.

Definition cnt (v : V) : nat := Z.to_nat (vint v).

Definition vec (n : nat) (f : fmt) : fmt := FRep n f.
Definition viewport : fmt := FSeq [vec 2 i32; vec 2 i32].          (* origin, size : 16 bytes *)

(* ---------- run-length coded tracks ---------- *)
(* [nSeg; reserved; (start,count) x nSeg; count_i samples for each segment] *)
Definition segs_tail (sample : fmt) : fmt :=
  FBind i32 (fun nseg =>
  FBind (FPad 4) (fun _ =>
  FBind (FRep (cnt nseg) (FSeq [i32; i32])) (fun segs =>
  FBind (FRepI (cnt nseg) (fun i => FRep (cnt (vnth 1 (vnth i segs))) sample)) (fun _ =>
  FNil)))).

Definition track_wire (sample : fmt) : fmt := FBind (FStr 256) (fun _ => segs_tail sample).

(* abstract labelled track [label; frames] over n frames *)
Definition track (n : nat) (sample : fmt) : fmt :=
  FMap (track_wire sample) track_to (track_from n).
(* abstract unlabelled track (force-platform data) *)
Definition ptrack (n : nat) (sample : fmt) : fmt :=
  FMap (segs_tail sample) ptrack_to (ptrack_from n).

(* ---------- 3D markers (tdfData3D.py), format 1 = byTrack (links), 2 = byTrackWithoutLinks ---------- *)
Definition links : fmt :=
  FBind i32 (fun nl => FBind (FPad 4) (fun _ => FBind (FRep (cnt nl) (FSeq [u32; u32])) (fun _ => FNil))).

Definition d3 (format : Z) : fmt :=
  FBind i32 (fun nFrames =>
  FBind i32 (fun _frequency =>
  FBind f32 (fun _startTime =>
  FBind u32 (fun nTracks =>
  FBind (vec 3 f32) (fun _volume =>
  FBind (vec 9 f32) (fun _rotation =>
  FBind (vec 3 f32) (fun _translation =>
  FBind (FEnum 4 [0; 1]) (fun _flags =>
  FBind (if format =? 1 then links else FNil) (fun _links =>
  FBind (FRep (cnt nTracks) (track (cnt nFrames) (vec 3 f32))) (fun _ =>
  FNil)))))))))).

(* ---------- EMG (tdfEMG.py): nSamples is stored minus 49 ---------- *)
Definition biased (b : Z) (f : fmt) : fmt :=
  FMap f (fun v => VI (vint v - b)) (fun v => VI (vint v + b)).

Definition em : fmt :=
  FBind n31 (fun nSignals =>
  FBind i32 (fun _frequency =>
  FBind f32 (fun _startTime =>
  FBind (biased 49 i32) (fun nSamples =>
  FBind (FRep (cnt nSignals) i16) (fun _map =>
  FBind (FRep (cnt nSignals) (track (cnt nSamples) f32)) (fun _ =>
  FNil)))))).

(* ---------- force / torque (tdfForce3D.py) ---------- *)
Definition ft : fmt :=
  FBind n31 (fun nTracks =>
  FBind i32 (fun _frequency =>
  FBind f32 (fun _startTime =>
  FBind n31 (fun nFrames =>
  FBind (vec 3 f32) (fun _volume =>
  FBind (vec 9 f32) (fun _rotation =>
  FBind (vec 3 f32) (fun _translation =>
  FBind (FPad 4) (fun _ =>
  FBind (FRep (cnt nTracks) (track (cnt nFrames) (vec 9 f32))) (fun _ =>
  FNil))))))))).

(* ---------- force-platform data (tdfForcePlatformsData.py) ---------- *)
Definition pd : fmt :=
  FBind i32 (fun nPlats =>
  FBind i32 (fun _frequency =>
  FBind f32 (fun _startTime =>
  FBind i32 (fun nFrames =>
  FBind (FRep (cnt nPlats) u16) (fun _map =>
  FBind (FRep (cnt nPlats) (ptrack (cnt nFrames) (vec 6 f32))) (fun _ =>
  FNil)))))).

(* ---------- force-platform calibration (tdfForcePlatformsCalibration.py) ---------- *)
Definition pc_platform : fmt := FSeq [FStr 256; vec 2 f32; vec 12 f32; FPad 256].

Definition pc : fmt :=
  FBind i32 (fun nPlats =>
  FBind (FPad 4) (fun _ =>
  FBind (FRep (cnt nPlats) i16) (fun _map =>
  FBind (FRep (cnt nPlats) pc_platform) (fun _ =>
  FNil)))).

(* ---------- 2D data, PCK format (tdfData2D.py) ---------- *)
(* abstract data: VL frames, each VL cameras, each VL points, each VL [x; y]  (empty list = no points)
   wire: counts u16 camera-major, then the points frame-major camera-minor *)
Fixpoint chunk_n {A} (n k : nat) (l : list A) : list (list A) :=
  match k with
  | O => []
  | S k' => firstn n l :: chunk_n n k' (skipn n l)
  end.

Fixpoint transpose {A} (w : nat) (rows : list (list A)) : list (list A) :=
  match w with
  | O => []
  | S w' => flat_map (fun r => match r with x :: _ => [x] | [] => [] end) rows
            :: transpose w' (map (@tl A) rows)
  end.

(* camera-major (index c*F + f) <-> frame-major (index f*C + c) *)
Definition to_frame_major {A} (C F : nat) (l : list A) : list A :=
  concat (transpose F (chunk_n F C l)).
Definition to_camera_major {A} (C F : nat) (l : list A) : list A :=
  concat (transpose C (chunk_n C F l)).

Definition d2_to (C F : nat) (v : V) : V :=
  let cells := concat (map vlist (vlist v)) in                         (* frame-major *)
  let counts_fm := map (fun c => VI (zlength (vlist c))) cells in
  VL [VL (to_camera_major C F counts_fm); VL cells].
Definition d2_from (C F : nat) (w : V) : V :=
  VL (map (fun fr => VL fr) (chunk_n C F (vlist (vnth 1 w)))).

Definition d2_data (C F : nat) : fmt :=
  FMap (FBind (FRep (C * F) u16) (fun counts =>
        let fm := to_frame_major C F (vlist counts) in
        FBind (FRepI (F * C) (fun i => FRep (cnt (nth i fm (VI 0))) (vec 2 f32))) (fun _ => FNil)))
       (d2_to C F) (d2_from C F).

Definition d2 : fmt :=
  FBind i32 (fun nCams =>
  FBind i32 (fun nFrames =>
  FBind i32 (fun _frequency =>
  FBind f32 (fun _startTime =>
  FBind (FEnum 4 [0; 1]) (fun _flags =>
  FBind (FRep (cnt nCams) n15) (fun _camMap =>
  FBind (d2_data (cnt nCams) (cnt nFrames)) (fun _ =>
  FNil))))))).

(* ---------- camera calibration (tdfCalibrationData.py), format 1 = Seelab1, 2 = BTS ---------- *)
Definition cam_seelab : fmt :=
  FSeq [vec 9 f64; vec 3 f64; vec 2 f64; vec 2 f64; vec 2 f64; vec 2 f64; vec 2 f64; viewport].
Definition cam_bts : fmt :=
  FSeq [vec 9 f64; vec 3 f64; vec 2 f64; vec 2 f64; vec 70 f64; vec 70 f64; viewport].

Definition ca (format : Z) : fmt :=
  FBind i32 (fun nCams =>
  FBind (FEnum 4 [0; 1; 2; 3]) (fun _model =>
  FBind (vec 3 f32) (fun _volume =>
  FBind (vec 9 f32) (fun _rotation =>
  FBind (vec 3 f32) (fun _translation =>
  FBind (FRep (cnt nCams) i16) (fun _map =>
  FBind (FRep (cnt nCams) (if format =? 1 then cam_seelab else cam_bts)) (fun _ =>
  FNil))))))).

(* ---------- optical setup (tdfOpticalSystem.py) ---------- *)
Definition os_channel : fmt := FSeq [i32; FPad 4; FStr 32; FStr 32; FStr 32; viewport].
Definition os : fmt :=
  FBind i32 (fun nChannels =>
  FBind (FPad 4) (fun _ =>
  FBind (FRep (cnt nChannels) os_channel) (fun _ => FNil))).

(* ---------- events (tdfEvents.py): kind 0 = single (at most one value), 1 = sequence ---------- *)
Definition ev_event : fmt :=
  FBind (FStr 256) (fun _ =>
  FBind (FEnum 4 [0; 1]) (fun kind =>
  FBind (FInt 4 0 (if vint kind =? 0 then 2 else 2147483648)) (fun nItems =>
  FBind (FRep (cnt nItems) f32) (fun _ => FNil)))).
Definition ev : fmt :=
  FBind i32 (fun nEvents =>
  FBind f32 (fun _startTime =>
  FBind (FRep (cnt nEvents) ev_event) (fun _ => FNil))).

(* ---------- dispatch on (block type code, format code); None = not implemented / invalid ---------- *)
Definition block_fmt (ty format : Z) : option fmt :=
  if ty =? 5 then (if (format =? 1) || (format =? 2) then Some (d3 format) else None) else
  if ty =? 11 then (if format =? 1 then Some em else None) else
  if ty =? 12 then (if format =? 1 then Some ft else None) else
  if ty =? 9 then (if format =? 1 then Some pd else None) else
  if ty =? 7 then (if format =? 2 then Some pc else None) else
  if ty =? 4 then (if format =? 2 then Some d2 else None) else
  if ty =? 2 then (if (format =? 1) || (format =? 2) then Some (ca format) else None) else
  if ty =? 6 then (if (format =? 0) || (format =? 1) then Some os else None) else
  if ty =? 16 then (if (format =? 0) || (format =? 1) then Some ev else None) else
  None.

(* Shapes.v — constructor argument validation (C19).
   What a caller can pass is abstracted to its kind and shape; the checks below are the boolean
   structure of the constructors in tdfData3D.py, tdfForce3D.py, tdfCalibrationData.py, tdfTypes.py
   (CameraViewPort), tdfOpticalSystem.py and tdfEvents.py, in the order the code evaluates them. *)
From Model Require Export Base.
Open Scope Z_scope.

Inductive pyval :=
| PNone | PStr (n : nat)              (* None; a str of n characters *)
| PScalar                             (* an int or a float *)
| PList (n : nat) | PTuple (n : nat)  (* a flat list / tuple of n numbers *)
| PArr (shape : list nat)             (* a numpy array of that shape (any rank, any extents, any dtype) *)
| PViewPort                           (* a CameraViewPort instance *)
| POther.                             (* any other object *)

Fixpoint shape_eqb (a b : list nat) : bool :=
  match a, b with
  | [], [] => true
  | x :: a', y :: b' => Nat.eqb x y && shape_eqb a' b'
  | _, _ => false
  end.

Definition is_arr (v : pyval) (sh : list nat) : bool :=     (* isinstance(v, ndarray) and v.shape == sh *)
  match v with PArr s => shape_eqb s sh | _ => false end.
Definition has_shape_attr (v : pyval) : bool := match v with PArr _ => true | _ => false end.

Fixpoint numel (sh : list nat) : Z := match sh with [] => 1 | d :: r => Z.of_nat d * numel r end.

(* bytes TdfType.write emits for the value with an item size: np.array(v).astype(base).tobytes() *)
Definition written (v : pyval) (itemsize : Z) : option Z :=
  match v with
  | PArr sh => Some (numel sh * itemsize)
  | PList n | PTuple n => Some (Z.of_nat n * itemsize)
  | PScalar => Some itemsize
  | _ => None
  end.

(* Data3D / ForceTorque3D (rotationMatrix, translationVector, volume): ValueError *)
Definition ctor_geometry (rot tr vol : pyval) : result unit :=
  if negb (is_arr rot [3; 3]%nat) then Err EValue else
  if negb (is_arr tr [3]%nat) then Err EValue else
  if negb (is_arr vol [3]%nat) then Err EValue else Ok tt.

(* CalibrationDataBlock (volume size, rotation, translation, camera map): isinstance + shape tests, ValueError;
   the map must be a rank-1 array *)
Definition ctor_calibration (vol rot tr map : pyval) : result unit :=
  if negb (is_arr vol [3]%nat) then Err EValue else
  if negb (is_arr rot [3; 3]%nat) then Err EValue else
  if negb (is_arr tr [3]%nat) then Err EValue else
  match map with
  | PArr [_] => Ok tt
  | _ => Err EValue
  end.

(* CameraViewPort(origin, size): a (2,) array, or a list / tuple of length 2; TypeError otherwise *)
Definition vp_arg_ok (v : pyval) : bool :=
  match v with
  | PArr s => shape_eqb s [2]%nat
  | PList n | PTuple n => Nat.eqb n 2
  | _ => false
  end.
Definition ctor_viewport (origin size : pyval) : result unit :=
  if negb (vp_arg_ok origin) then Err EType else
  if negb (vp_arg_ok size) then Err EType else Ok tt.

(* a viewport argument of a camera / channel record: a CameraViewPort, or a (2,2) array that is split
   into two (2,) rows *)
Definition vp_field_ok (v : pyval) : bool :=
  match v with PViewPort => true | PArr s => shape_eqb s [2; 2]%nat | _ => false end.

(* SeelabCameraData: TypeError *)
Definition ctor_seelab (rot tr focus center radial decent prism vp : pyval) : result unit :=
  if negb (is_arr rot [3; 3]%nat) then Err EType else
  if negb (is_arr tr [3]%nat) then Err EType else
  if negb (is_arr focus [2]%nat) then Err EType else
  if negb (is_arr center [2]%nat) then Err EType else
  if negb (is_arr radial [2]%nat) then Err EType else
  if negb (is_arr decent [2]%nat) then Err EType else
  if negb (is_arr prism [2]%nat) then Err EType else
  if negb (vp_field_ok vp) then Err EType else Ok tt.

Definition ctor_optical_channel (vp : pyval) : result unit :=
  if vp_field_ok vp then Ok tt else Err EType.

(* ForceTorqueTrack(label, application_point, force, torque): .shape of each is read (AttributeError
   for non-arrays), the three shapes must be equal and be (n, 3) *)
Definition ctor_ft_track (ap force torque : pyval) : result unit :=
  match ap with
  | PArr s1 =>
      match force with
      | PArr s2 =>
          if negb (shape_eqb s1 s2) then Err EValue else         (* `or` short-circuits: torque not looked at *)
          match torque with
          | PArr s3 =>
              if negb (shape_eqb s1 s3) then Err EValue else
              match s1 with
              | [_; 3%nat] => Ok tt
              | _ => Err EValue
              end
          | _ => Err EAttr
          end
      | _ => Err EAttr
      end
  | _ => Err EAttr
  end.

(* Event(label, values, type): values must be iterable, one-dimensional, and a single event carries
   at most one value.  [single] = (type == singleEvent) *)
Definition event_len (v : pyval) : option nat :=      (* number of values of a one-dimensional iterable *)
  match v with
  | PList n | PTuple n => Some n
  | PArr [n] => Some n
  | _ => None
  end.
Definition ctor_event (values : pyval) (single : bool) : result nat :=
  match values with
  | PNone | PScalar | PViewPort | POther | PArr [] => Err EType        (* not iterable *)
  | PStr _ => Err EValue                                              (* iterable, but not numbers *)
  | _ =>
      match event_len values with
      | Some n => if single && Nat.ltb 1 n then Err EType else Ok n
      | None => Err EType                                             (* more than one dimension *)
      end
  end.

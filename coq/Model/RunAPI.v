(* RunAPI.v — marshalling for the object-layer models (BlockAPI.v ...). *)
From Model Require Export Run BlockAPI.
Open Scope Z_scope.

(* obj: [0; id; label; n] item | [1; z] int | [2; s] str | [3] None | [4; k] other *)
Definition obj_of_v (v : V) : obj :=
  let k := vint (vnth 0 v) in
  if k =? 0 then OItem (vint (vnth 1 v)) (zs_of (vnth 2 v)) (vint (vnth 3 v)) else
  if k =? 1 then OInt (vint (vnth 1 v)) else
  if k =? 2 then OStr (zs_of (vnth 1 v)) else
  if k =? 3 then ONone else OOther (vint (vnth 1 v)).
Definition v_of_obj (x : obj) : V :=
  match x with
  | OItem i l n => VL [VI 0; VI i; vints l; VI n]
  | OInt z => VL [VI 1; VI z]
  | OStr s => VL [VI 2; vints s]
  | ONone => VL [VI 3]
  | OOther k => VL [VI 4; VI k]
  end.

(* item equality of the item classes: same content id (the harness gives equal content equal ids) *)
Definition ieq_id (a b : obj) : bool := is_item a && is_item b && (o_id a =? o_id b).

(* [items; keys] -> [len; [[getitem k; contains k] ...]] *)
Definition run_lookup (arg : V) : V :=
  let l := map obj_of_v (vlist (vnth 0 arg)) in
  ok (VL [VI (b_len l);
          VL (map (fun kv => let k := obj_of_v kv in
                             VL [of_result v_of_obj (getitem l k);
                                 of_result vbool (contains ieq_id l k)])
                  (vlist (vnth 1 arg)))]).

(* [frames; tracks; calls] with call = [1; obj] add | [2; [objs]] assign | [3] assign a non-iterable
   -> [[err code | 0; [track objs after]] ...] *)
Definition tcall_of_v (v : V) : tcall :=
  let k := vint (vnth 0 v) in
  if k =? 1 then TAdd (obj_of_v (vnth 1 v)) else
  if k =? 2 then TAssign (Some (map obj_of_v (vlist (vnth 1 v)))) else TAssign None.
Fixpoint t_trace (b : tblock) (cs : list V) : list V :=
  match cs with
  | [] => []
  | c :: r => let '(e, b') := t_step b (tcall_of_v c) in
              VL [VI (match e with Some e => err_code e | None => 0 end); VL (map v_of_obj (tb_tracks b'))]
              :: t_trace b' r
  end.
Definition run_tracks (arg : V) : V :=
  ok (VL (t_trace (mkTB (vint (vnth 0 arg)) (map obj_of_v (vlist (vnth 1 arg)))) (vlist (vnth 2 arg)))).

(* ---------- constructor checks (C19) ---------- *)
From Model Require Export Shapes.
(* pyval: [0] None | [1; n] str | [2] scalar | [3; n] list | [4; n] tuple | [5; shape] array | [6] viewport | [7] other *)
Definition pyval_of_v (v : V) : pyval :=
  let k := vint (vnth 0 v) in
  if k =? 0 then PNone else if k =? 1 then PStr (Z.to_nat (vint (vnth 1 v))) else
  if k =? 2 then PScalar else if k =? 3 then PList (Z.to_nat (vint (vnth 1 v))) else
  if k =? 4 then PTuple (Z.to_nat (vint (vnth 1 v))) else
  if k =? 5 then PArr (map Z.to_nat (zs_of (vnth 1 v))) else
  if k =? 6 then PViewPort else POther.
Definition res_unit (r : result unit) : V := of_result (fun _ => VL []) r.
(* [ctor; args]: 1 geometry (rot tr vol) | 2 calibration (vol rot tr map) | 3 viewport (origin size)
   | 4 seelab (8 args) | 5 optical channel (vp) | 6 force/torque track (ap force torque) | 7 event (values single) *)
Definition run_ctor (arg : V) : V :=
  let k := vint (vnth 0 arg) in
  let a := map pyval_of_v (vlist (vnth 1 arg)) in
  let g (i : nat) := nth i a POther in
  if k =? 1 then res_unit (ctor_geometry (g 0%nat) (g 1%nat) (g 2%nat)) else
  if k =? 2 then res_unit (ctor_calibration (g 0%nat) (g 1%nat) (g 2%nat) (g 3%nat)) else
  if k =? 3 then res_unit (ctor_viewport (g 0%nat) (g 1%nat)) else
  if k =? 4 then res_unit (ctor_seelab (g 0%nat) (g 1%nat) (g 2%nat) (g 3%nat) (g 4%nat) (g 5%nat) (g 6%nat) (g 7%nat)) else
  if k =? 5 then res_unit (ctor_optical_channel (g 0%nat)) else
  if k =? 6 then res_unit (ctor_ft_track (g 0%nat) (g 1%nat) (g 2%nat)) else
  if k =? 7 then of_result (fun n => VI (Z.of_nat n)) (ctor_event (g 0%nat) (vint (vnth 2 arg) =? 1)) else
  fail EOther.

(* ---------- channel-mapped blocks (C15) ---------- *)
Definition och (v : V) : option Z := match v with VL [VI c] => Some c | _ => None end.
Definition pair_of_v (v : V) : obj * option Z := (obj_of_v (vnth 0 v), och (vnth 1 v)).
Definition ccall_of_v (v : V) : ccall :=
  let k := vint (vnth 0 v) in
  if k =? 1 then CAdd (obj_of_v (vnth 1 v)) (och (vnth 2 v)) else
  if k =? 2 then CRemoveLabel (zs_of (vnth 1 v)) else
  if k =? 3 then CRemoveIndex (vint (vnth 1 v)) else
  if k =? 4 then CRemoveItem (obj_of_v (vnth 1 v)) else
  if k =? 5 then CAddMany (map pair_of_v (vlist (vnth 1 v))) else
  if k =? 7 then CRemoveMany (map (fun e => if vint (vnth 0 e) =? 0 then RKIndex (vint (vnth 1 e)) else RKItem (obj_of_v (vnth 1 e)))
                                  (vlist (vnth 1 v))) else
  CAssign (map pair_of_v (vlist (vnth 1 v))).
Definition ckind_of (z : Z) : ckind := if z =? 0 then KEmg else if z =? 1 then KCal else KDat.
Fixpoint c_trace (k : ckind) (b : cblock) (cs : list V) : list V :=
  match cs with
  | [] => []
  | c :: r => let '(e, b') := c_step k ieq_id b (ccall_of_v c) in
              VL [VI (match e with Some e => err_code e | None => 0 end); vints (c_map b');
                  VL (map v_of_obj (c_items b'))] :: c_trace k b' r
  end.
(* [kind; map; items; calls] *)
Definition run_channels (arg : V) : V :=
  ok (VL (c_trace (ckind_of (vint (vnth 0 arg)))
                  (mkCB (zs_of (vnth 1 arg)) (map obj_of_v (vlist (vnth 2 arg)))) (vlist (vnth 3 arg)))).

(* ---------- object heap (C20) ---------- *)
From Model Require Export Heap.
Definition hop_of_v (v : V) : hop :=
  let k := vint (vnth 0 v) in
  if k =? 1 then HMkList (Z.to_nat (vint (vnth 1 v))) else
  if k =? 2 then HNew (vint (vnth 1 v)) (och (vnth 2 v)) else
  if k =? 3 then HDecode (vint (vnth 1 v)) (Z.to_nat (vint (vnth 2 v))) else
  if k =? 4 then HAdd (vint (vnth 1 v)) else
  if k =? 5 then HRemove (vint (vnth 1 v)) (Z.to_nat (vint (vnth 2 v))) else
  if k =? 6 then HEdit (vint (vnth 1 v)) (Z.to_nat (vint (vnth 2 v))) else
  if k =? 7 then HAssign (vint (vnth 1 v)) (vint (vnth 2 v)) else HEncode (vint (vnth 1 v)).
Definition v_of_content (c : option (list (Z * option Z))) : V :=
  match c with
  | None => VL []
  | Some l => VL [VL (map (fun p => VL [VI (fst p); VI (match snd p with Some v => v | None => -1 end)]) l)]
  end.
Fixpoint h_trace (s : hstate) (os : list V) (hs : list Z) : list V :=
  match os with
  | [] => []
  | o :: r => let s' := h_step s (hop_of_v o) in
              VL [VI (h_next s); VL (map (fun h => v_of_content (content s' h)) hs)] :: h_trace s' r hs
  end.
(* [ops; handles] -> per op [allocator before the op; [content of each handle]] *)
Definition run_heap (arg : V) : V := ok (VL (h_trace h_init (vlist (vnth 0 arg)) (zs_of (vnth 1 arg)))).

(* ---------- equality (C14): [ty; format; a; b] -> [eq a b; eq b a; reflb a] with close x y := the harness's
   verdict is not available inside the model: np.allclose is abstract.  The harness only generates pairs whose
   compared samples are identical or differ by a factor of two, for which every admissible [close] answers the
   same: close := (bit equality, or +-0) ---------- *)
From Model Require Export Equality.
Definition close_exact (a b : Z) : bool := feq32 a b.
Definition schema_of (ty format : Z) : option eqs :=
  if ty =? 11 then Some q_em else if ty =? 9 then Some q_pd else if ty =? 7 then Some q_pc else
  if ty =? 16 then Some q_ev else if ty =? 2 then Some (if format =? 1 then q_ca else q_ca_bts) else
  if ty =? 4 then Some q_d2 else None.
Definition run_eq (arg : V) : V :=
  let ty := vint (vnth 0 arg) in
  let format := vint (vnth 1 arg) in
  let a := vnth 2 arg in
  let b := vnth 3 arg in
  match block_eq close_exact ty format a b, block_eq close_exact ty format b a with
  | Some x, Some y =>
      ok (VL [vbool x; vbool y;
              match schema_of ty format with Some s => vbool (reflb s a) | None => VI 1 end])
  | _, _ => fail ENotImpl
  end.

(* ---------- where an item's numbers live (C20, Buffers.v) ----------
   [ops; queries]   ops: [1; k] source (k = 0 kept as it is, 1 converted) | [2; src] item from source | [3; it] edit item in place
   | [4; src] edit source in place; ids are allocated in order (see Buffers.b_step)
   queries: [0; it] version of the item's buffer | [1; src] version of the source's buffer   ->   [[v] | []] per query *)
From Model Require Export Buffers.
Definition bop_of_v (v : V) : bop :=
  let k := vint (vnth 0 v) in
  if k =? 1 then BSource (if vint (vnth 1 v) =? 0 then SKeep else SConvert) else
  if k =? 2 then BItem (vint (vnth 1 v)) else
  if k =? 3 then BEditItem (vint (vnth 1 v)) else BEditSource (vint (vnth 1 v)).
Definition run_buffers (arg : V) : V :=
  let s := b_run bs_init (map bop_of_v (vlist (vnth 0 arg))) in
  ok (VL (map (fun q => match (if vint (vnth 0 q) =? 0 then item_ver s (vint (vnth 1 q)) else src_ver s (vint (vnth 1 q))) with
                        | Some v => VL [VI v] | None => VL [] end) (vlist (vnth 1 arg)))).

(* RunAPI.v — marshalling for the object-layer models (BlockAPI.v ...). *)
From Model Require Export Run BlockAPI.
Open Scope Z_scope.

(* obj: [0; id; label; n] item | [1; z] int | [2; s] str | [3] None | [4; k] other *)
Definition obj_of_v (v : V) : obj :=
  let k := vint (vnth 0 v) in
  if k =? 0 then OItem (vint (vnth 1 v)) (zs_of (vnth 2 v)) (vint (vnth 3 v)) else
  if k =? 1 then OInt (vint (vnth 1 v)) else
  if k =? 2 then OStr (zs_of (vnth 1 v)) else
  if k =? 3 then ONone else OOther (vint (vnth 1 v)).
Definition v_of_obj (x : obj) : V :=
  match x with
  | OItem i l n => VL [VI 0; VI i; vints l; VI n]
  | OInt z => VL [VI 1; VI z]
  | OStr s => VL [VI 2; vints s]
  | ONone => VL [VI 3]
  | OOther k => VL [VI 4; VI k]
  end.

(* item equality of the item classes: same content id (the harness gives equal content equal ids) *)
Definition ieq_id (a b : obj) : bool := is_item a && is_item b && (o_id a =? o_id b).

(* [items; keys] -> [len; [[getitem k; contains k] ...]] *)
Definition run_lookup (arg : V) : V :=
  let l := map obj_of_v (vlist (vnth 0 arg)) in
  ok (VL [VI (b_len l);
          VL (map (fun kv => let k := obj_of_v kv in
                             VL [of_result v_of_obj (getitem l k);
                                 of_result vbool (contains ieq_id l k)])
                  (vlist (vnth 1 arg)))]).

(* [frames; tracks; calls] with call = [1; obj] add | [2; [objs]] assign | [3] assign a non-iterable
   -> [[err code | 0; [track objs after]] ...] *)
Definition tcall_of_v (v : V) : tcall :=
  let k := vint (vnth 0 v) in
  if k =? 1 then TAdd (obj_of_v (vnth 1 v)) else
  if k =? 2 then TAssign (Some (map obj_of_v (vlist (vnth 1 v)))) else TAssign None.
Fixpoint t_trace (b : tblock) (cs : list V) : list V :=
  match cs with
  | [] => []
  | c :: r => let '(e, b') := t_step b (tcall_of_v c) in
              VL [VI (match e with Some e => err_code e | None => 0 end); VL (map v_of_obj (tb_tracks b'))]
              :: t_trace b' r
  end.
Definition run_tracks (arg : V) : V :=
  ok (VL (t_trace (mkTB (vint (vnth 0 arg)) (map obj_of_v (vlist (vnth 1 arg)))) (vlist (vnth 2 arg)))).

(* ---------- constructor checks (C19) ---------- *)
From Model Require Export Shapes.
(* pyval: [0] None | [1; n] str | [2] scalar | [3; n] list | [4; n] tuple | [5; shape] array | [6] viewport | [7] other *)
Definition pyval_of_v (v : V) : pyval :=
  let k := vint (vnth 0 v) in
  if k =? 0 then PNone else if k =? 1 then PStr (Z.to_nat (vint (vnth 1 v))) else
  if k =? 2 then PScalar else if k =? 3 then PList (Z.to_nat (vint (vnth 1 v))) else
  if k =? 4 then PTuple (Z.to_nat (vint (vnth 1 v))) else
  if k =? 5 then PArr (map Z.to_nat (zs_of (vnth 1 v))) else
  if k =? 6 then PViewPort else POther.
Definition res_unit (r : result unit) : V := of_result (fun _ => VL []) r.
(* [ctor; args]: 1 geometry (rot tr vol) | 2 calibration (vol rot tr map) | 3 viewport (origin size)
   | 4 seelab (8 args) | 5 optical channel (vp) | 6 force/torque track (ap force torque) | 7 event (values single) *)
Definition run_ctor (arg : V) : V :=
  let k := vint (vnth 0 arg) in
  let a := map pyval_of_v (vlist (vnth 1 arg)) in
  let g (i : nat) := nth i a POther in
  if k =? 1 then res_unit (ctor_geometry (g 0%nat) (g 1%nat) (g 2%nat)) else
  if k =? 2 then res_unit (ctor_calibration (g 0%nat) (g 1%nat) (g 2%nat) (g 3%nat)) else
  if k =? 3 then res_unit (ctor_viewport (g 0%nat) (g 1%nat)) else
  if k =? 4 then res_unit (ctor_seelab (g 0%nat) (g 1%nat) (g 2%nat) (g 3%nat) (g 4%nat) (g 5%nat) (g 6%nat) (g 7%nat)) else
  if k =? 5 then res_unit (ctor_optical_channel (g 0%nat)) else
  if k =? 6 then res_unit (ctor_ft_track (g 0%nat) (g 1%nat) (g 2%nat)) else
  if k =? 7 then of_result (fun n => VI (Z.of_nat n)) (ctor_event (g 0%nat) (vint (vnth 2 arg) =? 1)) else
  fail EOther.

(* RunAPI.v — marshalling for the object-layer models (BlockAPI.v ...). *)
From Model Require Export Run BlockAPI.
Open Scope Z_scope.

(* obj: [0; id; label; n] item | [1; z] int | [2; s] str | [3] None | [4; k] other *)
Definition obj_of_v (v : V) : obj :=
  let k := vint (vnth 0 v) in
  if k =? 0 then OItem (vint (vnth 1 v)) (zs_of (vnth 2 v)) (vint (vnth 3 v)) else
  if k =? 1 then OInt (vint (vnth 1 v)) else
  if k =? 2 then OStr (zs_of (vnth 1 v)) else
  if k =? 3 then ONone else OOther (vint (vnth 1 v)).
Definition v_of_obj (x : obj) : V :=
  match x with
  | OItem i l n => VL [VI 0; VI i; vints l; VI n]
  | OInt z => VL [VI 1; VI z]
  | OStr s => VL [VI 2; vints s]
  | ONone => VL [VI 3]
  | OOther k => VL [VI 4; VI k]
  end.

(* item equality of the item classes: same content id (the harness gives equal content equal ids) *)
Definition ieq_id (a b : obj) : bool := is_item a && is_item b && (o_id a =? o_id b).

(* [items; keys] -> [len; [[getitem k; contains k] ...]] *)
Definition run_lookup (arg : V) : V :=
  let l := map obj_of_v (vlist (vnth 0 arg)) in
  ok (VL [VI (b_len l);
          VL (map (fun kv => let k := obj_of_v kv in
                             VL [of_result v_of_obj (getitem l k);
                                 of_result vbool (contains ieq_id l k)])
                  (vlist (vnth 1 arg)))]).

(* [frames; tracks; calls] with call = [1; obj] add | [2; [objs]] assign | [3] assign a non-iterable
   -> [[err code | 0; [track objs after]] ...] *)
Definition tcall_of_v (v : V) : tcall :=
  let k := vint (vnth 0 v) in
  if k =? 1 then TAdd (obj_of_v (vnth 1 v)) else
  if k =? 2 then TAssign (Some (map obj_of_v (vlist (vnth 1 v)))) else TAssign None.
Fixpoint t_trace (b : tblock) (cs : list V) : list V :=
  match cs with
  | [] => []
  | c :: r => let '(e, b') := t_step b (tcall_of_v c) in
              VL [VI (match e with Some e => err_code e | None => 0 end); VL (map v_of_obj (tb_tracks b'))]
              :: t_trace b' r
  end.
Definition run_tracks (arg : V) : V :=
  ok (VL (t_trace (mkTB (vint (vnth 0 arg)) (map obj_of_v (vlist (vnth 1 arg)))) (vlist (vnth 2 arg)))).

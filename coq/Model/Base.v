(* Base.v — the universal value type V, byte strings, little-endian integers.
   Executable definitions only; proofs live in Proofs/. *)
From Coq Require Export ZArith List Bool Lia.
Export ListNotations.
Open Scope Z_scope.

(* ---------- marshalled values: the model's blocks are V trees ---------- *)
Inductive V : Type :=
| VI (z : Z)
| VL (l : list V).

Fixpoint veqb (a b : V) {struct a} : bool :=
  match a, b with
  | VI x, VI y => Z.eqb x y
  | VL xs, VL ys =>
      (fix go (xs ys : list V) {struct xs} : bool :=
         match xs, ys with
         | [], [] => true
         | x :: xs', y :: ys' => veqb x y && go xs' ys'
         | _, _ => false
         end) xs ys
  | _, _ => false
  end.

Definition vints (l : list Z) : V := VL (map VI l).

(* all elements must be VI *)
Fixpoint unints (l : list V) : option (list Z) :=
  match l with
  | [] => Some []
  | VI z :: r => match unints r with Some zs => Some (z :: zs) | None => None end
  | VL _ :: _ => None
  end.

Definition vlist (v : V) : list V := match v with VL l => l | VI _ => [] end.
Definition vint (v : V) : Z := match v with VI z => z | VL _ => 0 end.
Definition vnth (i : nat) (v : V) : V := nth i (vlist v) (VL []).

(* ---------- lists with Z lengths (nat is unary after extraction) ---------- *)
Fixpoint zlen_acc {A} (l : list A) (acc : Z) : Z :=
  match l with [] => acc | _ :: r => zlen_acc r (acc + 1) end.
Definition zlength {A} (l : list A) : Z := zlen_acc l 0.

Fixpoint take {A} (n : nat) (l : list A) : option (list A * list A) :=
  match n with
  | O => Some ([], l)
  | S n' => match l with
            | [] => None
            | x :: r => match take n' r with
                        | Some (a, b) => Some (x :: a, b)
                        | None => None
                        end
            end
  end.

(* ---------- bytes ---------- *)
Definition byteb (b : Z) : bool := (0 <=? b) && (b <? 256).
Definition bytesb (bs : list Z) : bool := forallb byteb bs.

(* w-byte little-endian encoding of z mod 256^w *)
Fixpoint le_bytes (w : nat) (z : Z) : list Z :=
  match w with
  | O => []
  | S w' => (z mod 256) :: le_bytes w' (z / 256)
  end.

(* unsigned little-endian value of a byte list *)
Fixpoint le_val (bs : list Z) : Z :=
  match bs with
  | [] => 0
  | b :: r => b + 256 * le_val r
  end.

Definition pow256 (w : nat) : Z := 256 ^ Z.of_nat w.

(* the unique representative of u modulo 256^w that lies in [lo,hi), if any *)
Definition int_of_unsigned (w : nat) (lo hi u : Z) : option Z :=
  if (lo <=? u) && (u <? hi) then Some u
  else let s := u - pow256 w in
       if (lo <=? s) && (s <? hi) then Some s else None.

(* ---------- junk oracle: what an independent writer leaves in don't-care bytes ---------- *)
Fixpoint junk (jk : Z -> Z) (off : Z) (n : nat) : list Z :=
  match n with
  | O => []
  | S n' => jk off :: junk jk (off + 1) n'
  end.

Definition zero_junk : Z -> Z := fun _ => 0.

(* result type shared by all models: Python exceptions as a small enum *)
Inductive err := EValue | EType | EKey | EIndex | ENotImpl | EPerm | EOutside
               | EFileExists | ENotFound | EIO | EAttr | EOther.
Inductive result (A : Type) := Ok (a : A) | Err (e : err).
Arguments Ok {A} a.
Arguments Err {A} e.

Definition err_code (e : err) : Z :=
  match e with
  | EValue => 1 | EType => 2 | EKey => 3 | EIndex => 4 | ENotImpl => 5 | EPerm => 6
  | EOutside => 7 | EFileExists => 8 | ENotFound => 9 | EIO => 10 | EAttr => 11 | EOther => 12
  end.

(* AFile.v — the abstract file: what a TDF container IS, without offsets.
   A file is its table length, the list of live blocks in file order (each with its metadata and
   its payload bytes) and the list of unused slots (each with the metadata an unused entry carries).
   No offsets exist here, so blocks cannot overlap, the file cannot have holes, and editing one
   block cannot touch another by construction.  [conc] lays an abstract file out as the concrete
   state of Container.v (offsets by prefix sums, payloads back to back); a concrete state is
   *compact* when it is the layout of some abstract file.  Proofs/ContainerFacts.v shows that the
   statement-by-statement model of add_block / remove_block / replace_block refines the three
   one-line operations below. *)
From Model Require Export Container.
Open Scope Z_scope.

Record lblock := mkL {
  l_type : Z; l_format : Z; l_cdate : Z; l_mdate : Z; l_adate : Z;
  l_comment : list Z; l_payload : list Z }.
Record fslot := mkF { f_format : Z; f_cdate : Z; f_mdate : Z; f_adate : Z; f_comment : list Z }.
Record afile := mkA { a_n : Z; a_live : list lblock; a_free : list fslot }.

Definition psize (b : lblock) : Z := zlength (l_payload b).
Fixpoint total (l : list lblock) : Z :=
  match l with [] => 0 | b :: r => psize b + total r end.

Definition live_entry (off : Z) (b : lblock) : entry :=
  mkE (l_type b) (l_format b) off (psize b) (l_cdate b) (l_mdate b) (l_adate b) (l_comment b).
Fixpoint lay (off : Z) (l : list lblock) : list entry :=
  match l with
  | [] => []
  | b :: r => live_entry off b :: lay (off + psize b) r
  end.
Definition free_entry (off : Z) (f : fslot) : entry :=
  mkE 0 (f_format f) off 0 (f_cdate f) (f_mdate f) (f_adate f) (f_comment f).

Definition table_of (a : afile) : list entry :=
  lay (base (a_n a)) (a_live a) ++
  map (free_entry (base (a_n a) + total (a_live a))) (a_free a).
Definition data_of (a : afile) : list Z := flat_map l_payload (a_live a).

Definition conc (a : afile) : cstate :=
  mkS (a_n a) (table_of a) (table_of a) (data_of a).

(* side conditions of an abstract file: live types are real types, the slots add up to N *)
Definition a_wf (a : afile) : Prop :=
  Forall (fun b => l_type b <> 0) (a_live a) /\
  zlength (a_live a) + zlength (a_free a) = a_n a.

Definition a_types (a : afile) : list Z := map l_type (a_live a).

(* ... and at most one block per type (C11; true of every BTS file and of Tdf.new) *)
Definition a_inv (a : afile) : Prop := a_wf a /\ NoDup (a_types a).

Definition compact (s : cstate) : Prop := exists a, a_inv a /\ s = conc a.

(* ---------- the abstract operations ---------- *)

Definition new_block (b : blk) (comment payload : list Z) (now : Z) : lblock :=
  mkL (b_type b) (b_format b) (b_cdate b) (b_mdate b) now comment payload.

Definition a_add (a : afile) (nb : lblock) : afile :=
  mkA (a_n a) (a_live a ++ [nb]) (tl (a_free a)).

Fixpoint remove_first (ty : Z) (l : list lblock) : list lblock :=
  match l with
  | [] => []
  | b :: r => if l_type b =? ty then r else b :: remove_first ty r
  end.

Definition fresh_slot (now : Z) : fslot := mkF 0 now now now default_comment.

Definition a_remove (a : afile) (ty now : Z) : afile :=
  mkA (a_n a) (remove_first ty (a_live a)) (a_free a ++ [fresh_slot now]).

Definition a_find (a : afile) (ty : Z) : option lblock :=
  find (fun b => l_type b =? ty) (a_live a).

(* the abstract meaning of one public call: [None] = the call is refused and nothing changes *)
Definition comment_ok (c : list Z) : bool :=
  match str_write 256 c with Ok _ => true | Err _ => false end.

Definition a_step (a : afile) (o : cop) : option afile :=
  match o with
  | OAdd b c now =>
      match b_payload b, a_free a with
      | Some p, _ :: _ =>
          if negb (existsb (Z.eqb (b_type b)) (a_types a)) && comment_ok c
          then Some (a_add a (new_block b c p now)) else None
      | _, _ => None
      end
  | ORemove ty now =>
      if existsb (Z.eqb ty) (a_types a) then Some (a_remove a ty now) else None
  | OReplace b c n1 n2 =>
      match b_payload b, a_find a (b_type b) with
      | Some p, Some old =>
          let c' := match c with Some c => c | None => l_comment old end in
          if comment_ok c'
          then Some (a_add (a_remove a (b_type b) n1) (new_block b c' p n2)) else None
      | _, _ => None
      end
  | OSet b n1 n2 =>
      match b_payload b, a_find a (b_type b) with
      | Some p, Some old =>
          if comment_ok (l_comment old)
          then Some (a_add (a_remove a (b_type b) n1) (new_block b (l_comment old) p n2)) else None
      | Some p, None =>
          match a_free a with
          | _ :: _ => Some (a_add a (new_block b default_comment p n2))
          | [] => None
          end
      | None, _ => None
      end
  | OReopen => Some a
  end.

(* what the caller must guarantee about a block handed to the container: its declared size is the
   number of bytes it writes (that is C02), and its type is a real block type *)
Definition blk_ok (b : blk) : Prop :=
  b_type b <> 0 /\ match b_payload b with Some p => b_size b = zlength p | None => True end.
Definition op_ok (o : cop) : Prop :=
  match o with
  | OAdd b _ _ | OReplace b _ _ _ | OSet b _ _ => blk_ok b
  | ORemove ty _ => ty <> 0
  | OReopen => True
  end.

(* a history on the abstract file: refused calls change nothing *)
Definition a_next (a : afile) (o : cop) : afile :=
  match a_step a o with Some a' => a' | None => a end.
Definition a_run (a : afile) (ops : list cop) : afile := fold_left a_next ops a.

(* ---------- structural soundness (C03) and compactness (C09) as checks on a concrete state ---------- *)
Definition file_len (s : cstate) : Z := base (s_n s) + zlength (data s).

Definition in_file (s : cstate) (e : entry) : Prop :=
  base (s_n s) <= e_off e /\ 0 <= e_size e /\ e_off e + e_size e <= file_len s.
Definition disjoint (e1 e2 : entry) : Prop :=
  e_off e1 + e_size e1 <= e_off e2 \/ e_off e2 + e_size e2 <= e_off e1.

Definition wf (s : cstate) : Prop :=
  zlength (tab s) = s_n s /\
  Forall (fun e => is_live e = true -> in_file s e) (tab s) /\
  Forall (fun e => is_unused e = true -> e_size e = 0) (tab s) /\
  ForallOrdPairs disjoint (filter is_live (tab s)).

(* live entries back to back from [off]; returns the end offset and the entries not consumed *)
Fixpoint live_chain (off : Z) (l : list entry) : Z * list entry :=
  match l with
  | e :: r => if is_live e && (e_off e =? off) && (0 <=? e_size e)
              then live_chain (off + e_size e) r else (off, l)
  | [] => (off, [])
  end.

Definition compactb (s : cstate) : bool :=
  let '(e, rest) := live_chain (base (s_n s)) (tab s) in
  forallb (fun x => is_unused x && (e_off x =? e) && (e_size x =? 0)) rest &&
  (e =? file_len s) && (zlength (tab s) =? s_n s).

Definition live_types (s : cstate) : list Z := map e_type (filter is_live (tab s)).

(* Segments.v — run-length coding of tracks with missing frames
   (MarkerTrack / EMGTrack / ForceTorqueTrack / ForcePlatformData: _segments, _write, _build).

   Abstract track: a list of frames; a missing frame is [gap] = VL [], a present frame is its
   sample (VI bits, or VL [VI bits; ...]).  The library decides presence by the first component
   only (np.isnan of column 0), so [present] looks at the first component.

   Wire form: the list of maximal runs of present frames, each with its start index. *)
From Model Require Export Base.
Open Scope Z_scope.

(* binary32 NaN test on the bit pattern *)
Definition is_nan32 (b : Z) : bool :=
  ((b / 8388608) mod 256 =? 255) && negb (b mod 8388608 =? 0).

Definition gap : V := VL [].
Definition is_gap (f : V) : bool := match f with VL [] => true | _ => false end.

Definition present (f : V) : bool :=
  match f with
  | VI x => negb (is_nan32 x)
  | VL (VI x :: _) => negb (is_nan32 x)
  | _ => false
  end.

(* np.ma.clump_unmasked: maximal runs of present frames, as (start, frames of the run) *)
Fixpoint chunks (fs : list V) (pos : Z) : list (Z * list V) :=
  match fs with
  | [] => []
  | f :: r =>
      let rest := chunks r (pos + 1) in
      if present f then
        match rest with
        | (s, c) :: rs => if s =? pos + 1 then (pos, f :: c) :: rs else (pos, [f]) :: rest
        | [] => [(pos, [f])]
        end
      else rest
  end.

(* trackData[start : start + n] = dat *)
Definition place (s : Z) (c buf : list V) : list V :=
  firstn (Z.to_nat s) buf ++ c ++ skipn (Z.to_nat s + length c) buf.

Fixpoint place_all (buf : list V) (l : list (Z * list V)) : list V :=
  match l with
  | [] => buf
  | (s, c) :: r => place_all (place s c buf) r
  end.

(* np.empty(n) — arbitrary content g — followed by  arr[:] = nan *)
Definition nan_fill (g : list V) : list V := map (fun _ => gap) g.

Definition decode_frames_g (g : list V) (l : list (Z * list V)) : list V :=
  place_all (nan_fill g) l.
Definition decode_frames (n : nat) (l : list (Z * list V)) : list V :=
  decode_frames_g (repeat gap n) l.

(* ---------- the view between abstract tracks and their wire value ---------- *)
Definition seg_entry (sc : Z * list V) : V := VL [VI (fst sc); VI (zlength (snd sc))].
Definition seg_chunk (sc : Z * list V) : V := VL (snd sc).

(* wire tail  [nseg; pad; segs; chunks]  of a frame list *)
Definition frames_to_wire (fs : list V) : list V :=
  let cs := chunks fs 0 in
  [VI (zlength cs); VL []; VL (map seg_entry cs); VL (map seg_chunk cs)].

Fixpoint zip_segs (segs chs : list V) : list (Z * list V) :=
  match segs, chs with
  | sg :: r1, VL c :: r2 => (vint (vnth 0 sg), c) :: zip_segs r1 r2
  | _, _ => []
  end.

Definition frames_of_wire (n : nat) (w : list V) : list V :=
  match w with
  | [_; _; VL segs; VL chs] => decode_frames n (zip_segs segs chs)
  | _ => []
  end.

(* labelled track (3D marker, EMG signal, force/torque track): [label; VL frames] *)
Definition track_to (v : V) : V :=
  match v with
  | VL [label; VL fs] => VL (label :: frames_to_wire fs)
  | _ => VL []
  end.
Definition track_from (n : nat) (w : V) : V :=
  match w with
  | VL (label :: rest) => VL [label; VL (frames_of_wire n rest)]
  | _ => VL []
  end.

(* unlabelled track (force-platform data): VL frames *)
Definition ptrack_to (v : V) : V :=
  match v with VL fs => VL (frames_to_wire fs) | _ => VL [] end.
Definition ptrack_from (n : nat) (w : V) : V :=
  match w with VL rest => VL (frames_of_wire n rest) | _ => VL [] end.

(* Str.v — BTSString.write / BTSString.read (tdfTypes.py) over code-point lists. *)
From Model Require Export Base Cp1252.

(* data.encode("windows-1252"): every code point or UnicodeEncodeError *)
Fixpoint cp_encode (s : list Z) : option (list Z) :=
  match s with
  | [] => Some []
  | c :: r => match cp_enc c, cp_encode r with
              | Some b, Some bs => Some (b :: bs)
              | _, _ => None
              end
  end.

Fixpoint cp_decode (bs : list Z) : option (list Z) :=
  match bs with
  | [] => Some []
  | b :: r => match cp_dec b, cp_decode r with
              | Some c, Some cs => Some (c :: cs)
              | _, _ => None
              end
  end.

(* BTSString.write(size, data) with the padding bytes taken from a junk oracle
   (the library itself uses zero_junk):
     dat = data.encode(cp1252) + b"\0";  if len(dat) > size: raise ValueError;  dat + padding *)
Definition str_writej (w : nat) (jk : Z -> Z) (off : Z) (s : list Z) : result (list Z) :=
  match cp_encode s with
  | None => Err EValue
  | Some bs =>
      let dat := bs ++ [0] in
      if (Z.of_nat w <? zlength dat) then Err EValue
      else Ok (dat ++ junk jk (off + zlength dat) (w - length dat))
  end.

Definition str_write (w : nat) (s : list Z) : result (list Z) := str_writej w zero_junk 0 s.

(* la[:la.index(0)] or the whole field when there is no NUL *)
Fixpoint upto_nul (bs : list Z) : list Z :=
  match bs with
  | [] => []
  | b :: r => if b =? 0 then [] else b :: upto_nul r
  end.

(* BTSString.read(size, data): data must be exactly `size` bytes (struct.unpack) *)
Definition str_read (w : nat) (field : list Z) : option (list Z) :=
  if Nat.eqb (length field) w then cp_decode (upto_nul field) else None.

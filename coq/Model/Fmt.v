(* Fmt.v — binary layouts as data (a deep embedding) and their four interpreters:
     encj  : layout-driven encoder with a junk oracle for the don't-care bytes
             (the library's own writer is the instance jk = zero_junk)
     dec   : layout-driven decoder, returns the unconsumed rest
     wfb   : which values the layout can carry (validity, executable)
     size  : number of bytes the layout occupies for a value
   Every block, the table entry and the file header are [fmt] terms (Blocks.v, Entry.v). *)
From Model Require Export Base Cp1252 Str.

Inductive fmt : Type :=
| FInt (w : nat) (lo hi : Z)          (* w-byte little-endian integer, lo <= z < hi; value VI z *)
| FEnum (w : nat) (codes : list Z)     (* w-byte unsigned, must be one of codes (Python Enum(value)) *)
| FPad (n : nat)                       (* n don't-care bytes; value VL [] *)
| FStr (w : nat)                       (* BTSString of width w; value VL [VI cp; ...] *)
| FNil                                 (* nothing; value VL [] *)
| FBind (a : fmt) (k : V -> fmt)       (* a, then (k va); value VL (va :: vs) with VL vs the value of k va *)
| FRepI (n : nat) (k : nat -> fmt)     (* k 0, k 1, ... k (n-1); value VL [v0; ...] *)
| FMap (g : fmt) (to from : V -> V).   (* a view: abstract value v is stored as g-value (to v) *)

Definition FCons (a b : fmt) : fmt := FBind a (fun _ => b).
Fixpoint FSeq (l : list fmt) : fmt :=
  match l with [] => FNil | a :: r => FCons a (FSeq r) end.
Definition FRep (n : nat) (f : fmt) : fmt := FRepI n (fun _ => f).

Definition in_rangeb (lo hi z : Z) : bool := (lo <=? z) && (z <? hi).
Definition memb (z : Z) (l : list Z) : bool := existsb (Z.eqb z) l.

Definition opt_of_result {A} (r : result A) : option A :=
  match r with Ok a => Some a | Err _ => None end.


(* repetition loops, parameterised by the element interpreter *)
Fixpoint enc_rep (e : nat -> Z -> V -> option (list Z)) (i m : nat) (vs : list V) (off : Z)
  {struct m} : option (list Z) :=
  match m, vs with
  | O, [] => Some []
  | S m', x :: xs =>
      match e i off x with
      | Some b1 =>
          match enc_rep e (S i) m' xs (off + zlength b1) with
          | Some b2 => Some (b1 ++ b2)
          | None => None
          end
      | None => None
      end
  | _, _ => None
  end.

Fixpoint dec_rep (d : nat -> list Z -> option (V * list Z)) (i m : nat) (bs : list Z)
  {struct m} : option (list V * list Z) :=
  match m with
  | O => Some ([], bs)
  | S m' =>
      match d i bs with
      | Some (x, r1) =>
          match dec_rep d (S i) m' r1 with
          | Some (xs, r2) => Some (x :: xs, r2)
          | None => None
          end
      | None => None
      end
  end.

Fixpoint wfb_rep (p : nat -> V -> bool) (i m : nat) (vs : list V) {struct m} : bool :=
  match m, vs with
  | O, [] => true
  | S m', x :: xs => p i x && wfb_rep p (S i) m' xs
  | _, _ => false
  end.

Fixpoint size_rep (p : nat -> V -> Z) (i m : nat) (vs : list V) {struct m} : Z :=
  match m, vs with
  | S m', x :: xs => p i x + size_rep p (S i) m' xs
  | _, _ => 0
  end.

Fixpoint encj (f : fmt) (jk : Z -> Z) (off : Z) (v : V) {struct f} : option (list Z) :=
  match f with
  | FInt w lo hi =>
      match v with
      | VI z => if in_rangeb lo hi z then Some (le_bytes w z) else None
      | VL _ => None
      end
  | FEnum w codes =>
      match v with
      | VI z => if memb z codes && in_rangeb 0 (pow256 w) z then Some (le_bytes w z) else None
      | VL _ => None
      end
  | FPad n => match v with VL [] => Some (junk jk off n) | _ => None end
  | FStr w =>
      match v with
      | VL cs => match unints cs with
                 | Some s => opt_of_result (str_writej w jk off s)
                 | None => None
                 end
      | VI _ => None
      end
  | FNil => match v with VL [] => Some [] | _ => None end
  | FBind a k =>
      match v with
      | VL (va :: vs) =>
          match encj a jk off va with
          | Some b1 =>
              match encj (k va) jk (off + zlength b1) (VL vs) with
              | Some b2 => Some (b1 ++ b2)
              | None => None
              end
          | None => None
          end
      | _ => None
      end
  | FRepI n k =>
      match v with
      | VL vs =>
          enc_rep (fun i off x => encj (k i) jk off x) O n vs off
      | VI _ => None
      end
  | FMap g to _ => encj g jk off (to v)
  end.

(* the library's writer: zeros in every don't-care position *)
Definition enc (f : fmt) (v : V) : option (list Z) := encj f zero_junk 0 v.

Fixpoint dec (f : fmt) (bs : list Z) {struct f} : option (V * list Z) :=
  match f with
  | FInt w lo hi =>
      match take w bs with
      | Some (a, r) => match int_of_unsigned w lo hi (le_val a) with
                       | Some z => Some (VI z, r)
                       | None => None
                       end
      | None => None
      end
  | FEnum w codes =>
      match take w bs with
      | Some (a, r) => let z := le_val a in
                       if memb z codes then Some (VI z, r) else None
      | None => None
      end
  | FPad n => match take n bs with Some (_, r) => Some (VL [], r) | None => None end
  | FStr w =>
      match take w bs with
      | Some (a, r) => match str_read w a with
                       | Some s => Some (vints s, r)
                       | None => None
                       end
      | None => None
      end
  | FNil => Some (VL [], bs)
  | FBind a k =>
      match dec a bs with
      | Some (va, r1) =>
          match dec (k va) r1 with
          | Some (VL vs, r2) => Some (VL (va :: vs), r2)
          | _ => None
          end
      | None => None
      end
  | FRepI n k =>
      match dec_rep (fun i bs => dec (k i) bs) O n bs with
      | Some (xs, r) => Some (VL xs, r)
      | None => None
      end
  | FMap g _ from =>
      match dec g bs with
      | Some (w, r) => Some (from w, r)
      | None => None
      end
  end.

Definition no_nulb (s : list Z) : bool := forallb (fun c => negb (c =? 0)) s.
Definition encodableb (s : list Z) : bool :=
  forallb (fun c => match cp_enc c with Some _ => true | None => false end) s.

Fixpoint wfb (f : fmt) (v : V) {struct f} : bool :=
  match f with
  | FInt w lo hi =>
      match v with
      | VI z => in_rangeb lo hi z && (hi - lo <=? pow256 w) && (- pow256 w <=? lo) && (hi <=? pow256 w)
      | VL _ => false
      end
  | FEnum w codes =>
      match v with VI z => memb z codes && in_rangeb 0 (pow256 w) z | VL _ => false end
  | FPad n => match v with VL [] => true | _ => false end
  | FStr w =>
      match v with
      | VL cs => match unints cs with
                 | Some s => encodableb s && no_nulb s && (zlength s <? Z.of_nat w)
                 | None => false
                 end
      | VI _ => false
      end
  | FNil => match v with VL [] => true | _ => false end
  | FBind a k =>
      match v with
      | VL (va :: vs) => wfb a va && wfb (k va) (VL vs)
      | _ => false
      end
  | FRepI n k =>
      match v with
      | VL vs =>
          wfb_rep (fun i x => wfb (k i) x) O n vs
      | VI _ => false
      end
  | FMap g to from => wfb g (to v) && veqb (from (to v)) v
  end.

Fixpoint size (f : fmt) (v : V) {struct f} : Z :=
  match f with
  | FInt w _ _ => Z.of_nat w
  | FEnum w _ => Z.of_nat w
  | FPad n => Z.of_nat n
  | FStr w => Z.of_nat w
  | FNil => 0
  | FBind a k =>
      match v with
      | VL (va :: vs) => size a va + size (k va) (VL vs)
      | _ => 0
      end
  | FRepI n k =>
      match v with
      | VL vs =>
          size_rep (fun i x => size (k i) x) O n vs
      | VI _ => 0
      end
  | FMap g to _ => size g (to v)
  end.

(* Heap.v — object identity, for C20: blocks hold REFERENCES to Python list objects, and lists hold
   references to item objects (tracks, signals, events, platforms, channels) that own a mutable
   numpy buffer.  A tiny explicit heap makes aliasing expressible: two blocks share state exactly
   when they reference the same list object, two items exactly when they are the same object.

   Every constructor and decoder of the seven block classes allocates its own container
   (tdfData3D.py: self._tracks = []; tdfForce3D.py, tdfEMG.py, tdfEvents.py, tdfForcePlatforms*.py
   likewise; tdfOpticalSystem.py since the fix: channels if channels is not None else []), and
   every decoded item its own buffer (np.empty / frombuffer copies per _build call). *)
From Model Require Export Base.
Open Scope Z_scope.

Definition fmap (A : Type) := Z -> option A.
Definition fupd {A} (k : Z) (v : A) (f : fmap A) : fmap A := fun x => if x =? k then Some v else f x.
Definition fempty {A} : fmap A := fun _ => None.

Record hstate := mkH {
  h_next : Z;                     (* the allocator: every id below is in use, none above *)
  h_lists : fmap (list Z);        (* list object |-> the item objects it holds, in order *)
  h_vers : fmap Z;                (* item object |-> version of its buffer (bumped by an in-place edit) *)
  h_blocks : fmap Z }.            (* block handle |-> the list object it uses as its container *)

Definition h_init : hstate := mkH 0 fempty fempty fempty.

Fixpoint zseq (start : Z) (n : nat) : list Z :=
  match n with O => [] | S n' => start :: zseq (start + 1) n' end.

Fixpoint fupd_all {A} (ks : list Z) (v : A) (f : fmap A) : fmap A :=
  match ks with [] => f | k :: r => fupd k v (fupd_all r v f) end.

Fixpoint remove_at {A} (n : nat) (l : list A) : list A :=
  match n, l with
  | _, [] => []
  | O, _ :: r => r
  | S n', x :: r => x :: remove_at n' r
  end.

Inductive hop :=
| HMkList (k : nat)                 (* the CALLER builds a list of k new items (to pass to a constructor) *)
| HNew (h : Z) (given : option Z)   (* constructor call; given = the caller's list object, if any *)
| HDecode (h : Z) (k : nat)         (* _build: a block with k items read from bytes *)
| HAdd (h : Z)                      (* add a new item to block h *)
| HRemove (h : Z) (i : nat)         (* remove the i-th item of block h *)
| HEdit (h : Z) (i : nat)           (* edit the i-th item of block h in place *)
| HAssign (h h' : Z)                (* h.tracks = h'.tracks : copied element by element into a fresh list *)
| HEncode (h : Z).                  (* _write: reads only *)

Definition h_step (s : hstate) (o : hop) : hstate :=
  match o with
  | HMkList k =>
      let lid := h_next s in
      let its := zseq (lid + 1) k in
      mkH (lid + 1 + Z.of_nat k) (fupd lid its (h_lists s)) (fupd_all its 0 (h_vers s)) (h_blocks s)
  | HNew h None =>
      let lid := h_next s in
      mkH (lid + 1) (fupd lid [] (h_lists s)) (h_vers s) (fupd h lid (h_blocks s))
  | HNew h (Some lid) =>
      (* the items of the caller's list are taken over into a list of the block's own (the same item objects) *)
      match h_lists s lid with
      | Some its => let nl := h_next s in
                    mkH (nl + 1) (fupd nl its (h_lists s)) (h_vers s) (fupd h nl (h_blocks s))
      | None => s
      end
  | HDecode h k =>
      let lid := h_next s in
      let its := zseq (lid + 1) k in
      mkH (lid + 1 + Z.of_nat k) (fupd lid its (h_lists s)) (fupd_all its 0 (h_vers s)) (fupd h lid (h_blocks s))
  | HAdd h =>
      match h_blocks s h with
      | Some lid =>
          match h_lists s lid with
          | Some its => let it := h_next s in
                        mkH (it + 1) (fupd lid (its ++ [it]) (h_lists s)) (fupd it 0 (h_vers s)) (h_blocks s)
          | None => s
          end
      | None => s
      end
  | HRemove h i =>
      match h_blocks s h with
      | Some lid =>
          match h_lists s lid with
          | Some its => mkH (h_next s) (fupd lid (remove_at i its) (h_lists s)) (h_vers s) (h_blocks s)
          | None => s
          end
      | None => s
      end
  | HEdit h i =>
      match h_blocks s h with
      | Some lid =>
          match h_lists s lid with
          | Some its =>
              match nth_error its i with
              | Some it => match h_vers s it with
                           | Some v => mkH (h_next s) (h_lists s) (fupd it (v + 1) (h_vers s)) (h_blocks s)
                           | None => s
                           end
              | None => s
              end
          | None => s
          end
      | None => s
      end
  | HAssign h h' =>
      match h_blocks s h, h_blocks s h' with
      | Some _, Some lid' =>
          match h_lists s lid' with
          | Some its => let lid := h_next s in
                        mkH (lid + 1) (fupd lid its (h_lists s)) (h_vers s) (fupd h lid (h_blocks s))
          | None => s
          end
      | _, _ => s
      end
  | HEncode _ => s
  end.

Definition h_run (s : hstate) (os : list hop) : hstate := fold_left h_step os s.

(* what block h contains and encodes: its items in order, each with the state of its buffer *)
Definition content (s : hstate) (h : Z) : option (list (Z * option Z)) :=
  match h_blocks s h with
  | Some lid => match h_lists s lid with
                | Some its => Some (map (fun it => (it, h_vers s it)) its)
                | None => None
                end
  | None => None
  end.

Definition items_of (s : hstate) (h : Z) : list Z :=
  match h_blocks s h with
  | Some lid => match h_lists s lid with Some its => its | None => [] end
  | None => []
  end.

(* which block an operation edits *)
Definition target (o : hop) : option Z :=
  match o with
  | HMkList _ => None
  | HNew h _ | HDecode h _ | HAdd h | HRemove h _ | HEdit h _ | HAssign h _ | HEncode h => Some h
  end.

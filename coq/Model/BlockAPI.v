(* BlockAPI.v — the in-memory editing interface of the block classes as list programs.
   Part 1: lookup (tdfData3D.py / tdfForce3D.py / tdfEMG.py / tdfEvents.py: __len__, __iter__,
           __getitem__, __contains__)                                                     — C18
   Part 2: track lists (Data3D.add_track / tracks setter, ForceTorque3D the same, EMG.addSignal) — C16
   Part 3: channel-mapped blocks (EMG, platform calibration, platform data)               — C15 *)
From Model Require Export Base.
Open Scope Z_scope.

(* ---------- objects a caller can hand to the interface ---------- *)
Inductive obj :=
| OItem (id : Z) (label : list Z) (n : Z)   (* an item of the block's own item class: object identity,
                                               label (code points), number of frames / samples *)
| OInt (z : Z) | OStr (s : list Z) | ONone | OOther (k : Z).   (* anything else *)

Definition o_label (x : obj) : list Z := match x with OItem _ l _ => l | _ => [] end.
Definition o_id (x : obj) : Z := match x with OItem i _ _ => i | _ => -1 end.
Definition o_frames (x : obj) : Z := match x with OItem _ _ n => n | _ => -1 end.
Definition is_item (x : obj) : bool := match x with OItem _ _ _ => true | _ => false end.

Fixpoint zs_eqb (a b : list Z) : bool :=
  match a, b with
  | [], [] => true
  | x :: a', y :: b' => (x =? y) && zs_eqb a' b'
  | _, _ => false
  end.

(* ---------- Part 1: lookup ---------- *)
Definition b_len (l : list obj) : Z := zlength l.
Definition b_iter (l : list obj) : list obj := l.

(* Python list indexing: negative indices count from the end, IndexError outside *)
Definition getitem_int (l : list obj) (i : Z) : result obj :=
  let n := zlength l in
  if (- n <=? i) && (i <? n)
  then Ok (nth (Z.to_nat (if i <? 0 then i + n else i)) l ONone)
  else Err EIndex.

Definition getitem_str (l : list obj) (s : list Z) : result obj :=
  match find (fun t => zs_eqb (o_label t) s) l with
  | Some t => Ok t
  | None => Err EKey
  end.

Definition contains_str (l : list obj) (s : list Z) : bool :=
  existsb (fun t => zs_eqb (o_label t) s) l.

(* block[key] and key in block, for any key; [ieq] is the item class's == (numpy, abstract) *)
Definition getitem (l : list obj) (k : obj) : result obj :=
  match k with
  | OInt i => getitem_int l i
  | OStr s => getitem_str l s
  | _ => Err EType
  end.

Definition contains (ieq : obj -> obj -> bool) (l : list obj) (k : obj) : result bool :=
  match k with
  | OStr s => Ok (contains_str l s)
  | OItem _ _ _ => Ok (existsb (ieq k) l)
  | _ => Err EType
  end.

(* ---------- Part 2: track lists ---------- *)
Record tblock := mkTB { tb_frames : Z; tb_tracks : list obj }.

(* add_track / addSignal: type check, frame-count check, append *)
Definition add_track (b : tblock) (x : obj) : option err * tblock :=
  match x with
  | OItem _ _ n =>
      if n =? tb_frames b then (None, mkTB (tb_frames b) (tb_tracks b ++ [x]))
      else (Some EValue, b)
  | _ => (Some EType, b)
  end.

(* block.tracks = values   (values = None models a non-iterable right-hand side) *)
Fixpoint add_all (b : tblock) (xs : list obj) : option err * tblock :=
  match xs with
  | [] => (None, b)
  | x :: r => match add_track b x with
              | (None, b') => add_all b' r
              | (Some e, _) => (Some e, b)
              end
  end.

Definition set_tracks (b : tblock) (values : option (list obj)) : option err * tblock :=
  match values with
  | None => (Some EType, b)
  | Some xs =>
      match add_all (mkTB (tb_frames b) []) xs with
      | (None, b') => (None, b')
      | (Some e, _) => (Some e, b)          (* the old list is put back *)
      end
  end.

Inductive tcall := TAdd (x : obj) | TAssign (values : option (list obj)).
Definition t_step (b : tblock) (c : tcall) : option err * tblock :=
  match c with TAdd x => add_track b x | TAssign v => set_tracks b v end.
Definition t_run (b : tblock) (cs : list tcall) : tblock :=
  fold_left (fun b c => snd (t_step b c)) cs b.

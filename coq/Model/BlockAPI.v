(* BlockAPI.v — the in-memory editing interface of the block classes as list programs.
   Part 1: lookup (tdfData3D.py / tdfForce3D.py / tdfEMG.py / tdfEvents.py: __len__, __iter__,
           __getitem__, __contains__)                                                     — C18
   Part 2: track lists (Data3D.add_track / tracks setter, ForceTorque3D the same, EMG.addSignal) — C16
   Part 3: channel-mapped blocks (EMG, platform calibration, platform data)               — C15 *)
From Model Require Export Base.
Open Scope Z_scope.

(* ---------- objects a caller can hand to the interface ---------- *)
Inductive obj :=
| OItem (id : Z) (label : list Z) (n : Z)   (* an item of the block's own item class: object identity,
                                               label (code points), number of frames / samples *)
| OInt (z : Z) | OStr (s : list Z) | ONone | OOther (k : Z).   (* anything else *)

Definition o_label (x : obj) : list Z := match x with OItem _ l _ => l | _ => [] end.
Definition o_id (x : obj) : Z := match x with OItem i _ _ => i | _ => -1 end.
Definition o_frames (x : obj) : Z := match x with OItem _ _ n => n | _ => -1 end.
Definition is_item (x : obj) : bool := match x with OItem _ _ _ => true | _ => false end.

Fixpoint zs_eqb (a b : list Z) : bool :=
  match a, b with
  | [], [] => true
  | x :: a', y :: b' => (x =? y) && zs_eqb a' b'
  | _, _ => false
  end.

(* ---------- Part 1: lookup ---------- *)
Definition b_len (l : list obj) : Z := zlength l.
Definition b_iter (l : list obj) : list obj := l.

(* Python list indexing: negative indices count from the end, IndexError outside *)
Definition getitem_int (l : list obj) (i : Z) : result obj :=
  let n := zlength l in
  if (- n <=? i) && (i <? n)
  then Ok (nth (Z.to_nat (if i <? 0 then i + n else i)) l ONone)
  else Err EIndex.

Definition getitem_str (l : list obj) (s : list Z) : result obj :=
  match find (fun t => zs_eqb (o_label t) s) l with
  | Some t => Ok t
  | None => Err EKey
  end.

Definition contains_str (l : list obj) (s : list Z) : bool :=
  existsb (fun t => zs_eqb (o_label t) s) l.

(* block[key] and key in block, for any key; [ieq] is the item class's == (numpy, abstract) *)
Definition getitem (l : list obj) (k : obj) : result obj :=
  match k with
  | OInt i => getitem_int l i
  | OStr s => getitem_str l s
  | _ => Err EType
  end.

Definition contains (ieq : obj -> obj -> bool) (l : list obj) (k : obj) : result bool :=
  match k with
  | OStr s => Ok (contains_str l s)
  | OItem _ _ _ => Ok (existsb (ieq k) l)
  | _ => Err EType
  end.

(* ---------- Part 2: track lists ---------- *)
Record tblock := mkTB { tb_frames : Z; tb_tracks : list obj }.

(* add_track / addSignal: type check, frame-count check, append *)
Definition add_track (b : tblock) (x : obj) : option err * tblock :=
  match x with
  | OItem _ _ n =>
      if n =? tb_frames b then (None, mkTB (tb_frames b) (tb_tracks b ++ [x]))
      else (Some EValue, b)
  | _ => (Some EType, b)
  end.

(* block.tracks = values   (values = None models a non-iterable right-hand side) *)
Fixpoint add_all (b : tblock) (xs : list obj) : option err * tblock :=
  match xs with
  | [] => (None, b)
  | x :: r => match add_track b x with
              | (None, b') => add_all b' r
              | (Some e, _) => (Some e, b)
              end
  end.

Definition set_tracks (b : tblock) (values : option (list obj)) : option err * tblock :=
  match values with
  | None => (Some EType, b)
  | Some xs =>
      match add_all (mkTB (tb_frames b) []) xs with
      | (None, b') => (None, b')
      | (Some e, _) => (Some e, b)          (* the old list is put back *)
      end
  end.

Inductive tcall := TAdd (x : obj) | TAssign (values : option (list obj)).
Definition t_step (b : tblock) (c : tcall) : option err * tblock :=
  match c with TAdd x => add_track b x | TAssign v => set_tracks b v end.
Definition t_run (b : tblock) (cs : list tcall) : tblock :=
  fold_left (fun b c => snd (t_step b c)) cs b.

(* ---------- Part 3: channel-mapped blocks (C15) ----------
   EMG (tdfEMG.py: _emgMap / _signals), platform calibration (tdfForcePlatformsCalibration.py:
   _platformMap / _platforms) and platform data (tdfForcePlatformsData.py: _plat_map / _platforms)
   keep TWO parallel Python lists; the model keeps two lists as well, so that their alignment is a
   theorem and not an artefact of the representation. *)
Record cblock := mkCB { c_map : list Z; c_items : list obj }.

Inductive ckind := KEmg | KCal | KDat.

(* Python's max(): the largest element (0 only stands in for the empty list, which next_channel never asks about) *)
Fixpoint zmax (l : list Z) : Z :=
  match l with [] => 0 | x :: r => match r with [] => x | _ => Z.max x (zmax r) end end.
Definition next_channel (m : list Z) : Z := match m with [] => 0 | _ => zmax m + 1 end.
Definition zmem (z : Z) (l : list Z) : bool := existsb (Z.eqb z) l.

Definition wrong_kind_err (k : ckind) : err := match k with KDat => EValue | _ => EType end.

(* the channel map is stored as 16-bit integers: signed for EMG and platform calibration, unsigned for platform data *)
Definition ch_lo (k : ckind) : Z := match k with KDat => 0 | _ => -32768 end.
Definition ch_hi (k : ckind) : Z := match k with KDat => 65535 | _ => 32767 end.
Definition ch_ok (k : ckind) (c : Z) : bool := (ch_lo k <=? c) && (c <=? ch_hi k).

(* automatic channel: one above the highest in use; when that no longer fits the 16-bit map, the lowest free one *)
Definition first_free (k : ckind) (m : list Z) : option Z :=
  find (fun c => negb (zmem c m) && ch_ok k c) (map Z.of_nat (seq 0 (S (length m)))).
Definition auto_channel (k : ckind) (m : list Z) : option Z :=
  let c := next_channel m in if c <=? ch_hi k then Some c else first_free k m.

(* add one item, with an explicit channel or an automatic one *)
Definition c_add1 (k : ckind) (b : cblock) (x : obj) (ch : option Z) : option err * cblock :=
  if negb (is_item x) then (Some (wrong_kind_err k), b) else
  match ch with
  | None => match auto_channel k (c_map b) with
            | Some c => (None, mkCB (c_map b ++ [c]) (c_items b ++ [x]))
            | None => (Some EValue, b)
            end
  | Some c => if negb (ch_ok k c) then (Some EValue, b)
              else if zmem c (c_map b) then (Some EValue, b)
              else (None, mkCB (c_map b ++ [c]) (c_items b ++ [x]))
  end.

Fixpoint remove_nth_l {A} (n : nat) (l : list A) : list A :=
  match n, l with
  | _, [] => []
  | O, _ :: r => r
  | S n', x :: r => x :: remove_nth_l n' r
  end.

Definition c_del (b : cblock) (pos : nat) : cblock :=
  mkCB (remove_nth_l pos (c_map b)) (remove_nth_l pos (c_items b)).

Fixpoint find_index {A} (p : A -> bool) (l : list A) : option nat :=
  match l with
  | [] => None
  | x :: r => if p x then Some O else option_map S (find_index p r)
  end.

(* EMG.removeSignal(label): the first signal carrying the label *)
Definition c_remove_label (b : cblock) (s : list Z) : option err * cblock :=
  match find_index (fun t => zs_eqb (o_label t) s) (c_items b) with
  | Some pos => (None, c_del b pos)
  | None => (Some EKey, b)
  end.

(* remove_platform(index): `if plat >= len: ValueError`, then `del list[index]` (Python semantics:
   negative indices count from the end, IndexError below -len) *)
Definition c_remove_index (b : cblock) (i : Z) : option err * cblock :=
  let n := zlength (c_items b) in
  if n <=? i then (Some EValue, b) else
  if i <? - n then (Some EIndex, b) else
  (None, c_del b (Z.to_nat (if i <? 0 then i + n else i))).

(* remove_platform(platform object): the first platform equal to it *)
Definition c_remove_item (ieq : obj -> obj -> bool) (b : cblock) (x : obj) : option err * cblock :=
  match find_index (ieq x) (c_items b) with
  | Some pos => (None, c_del b pos)
  | None => (Some EValue, b)
  end.

(* bulk add: one add per element, stopping at the first refusal (what was added stays) *)
Fixpoint c_add_many (k : ckind) (b : cblock) (xs : list (obj * option Z)) : option err * cblock :=
  match xs with
  | [] => (None, b)
  | (x, ch) :: r => match c_add1 k b x ch with
                    | (None, b') => c_add_many k b' r
                    | (Some e, b') => (Some e, b')
                    end
  end.

(* remove_platforms(list): one remove_platform per element — a platform object or an index —, stopping at the first
   refusal (what was removed stays removed) *)
Inductive rkey := RKItem (x : obj) | RKIndex (i : Z).
Definition c_remove1 (ieq : obj -> obj -> bool) (b : cblock) (k : rkey) : option err * cblock :=
  match k with RKItem x => c_remove_item ieq b x | RKIndex i => c_remove_index b i end.
Fixpoint c_remove_many (ieq : obj -> obj -> bool) (b : cblock) (ks : list rkey) : option err * cblock :=
  match ks with
  | [] => (None, b)
  | k :: r => match c_remove1 ieq b k with
              | (None, b') => c_remove_many ieq b' r
              | (Some e, b') => (Some e, b')
              end
  end.

Inductive ccall :=
| CAdd (x : obj) (ch : option Z)
| CRemoveLabel (s : list Z)                 (* EMG *)
| CRemoveIndex (i : Z) | CRemoveItem (x : obj)   (* platform calibration *)
| CAddMany (xs : list (obj * option Z))     (* add_platforms; the platform-data `platforms = [...]` setter (appends) *)
| CRemoveMany (ks : list rkey)              (* platform calibration: remove_platforms *)
| CAssign (xs : list (obj * option Z)).     (* the platform-calibration `platforms = [(channel, platform) ...]` setter:
                                               both lists are emptied first *)

Definition c_step (k : ckind) (ieq : obj -> obj -> bool) (b : cblock) (c : ccall) : option err * cblock :=
  match c with
  | CAdd x ch => c_add1 k b x ch
  | CRemoveLabel s => c_remove_label b s
  | CRemoveIndex i => c_remove_index b i
  | CRemoveItem x => c_remove_item ieq b x
  | CAddMany xs => c_add_many k b xs
  | CRemoveMany ks => c_remove_many ieq b ks
  | CAssign xs => c_add_many k (mkCB [] []) xs
  end.

Definition c_run (k : ckind) (ieq : obj -> obj -> bool) (b : cblock) (cs : list ccall) : cblock :=
  fold_left (fun b c => snd (c_step k ieq b c)) cs b.

(* the (channel, item) pairs iteration yields / encoding emits, in order *)
Definition c_pairs (b : cblock) : list (Z * obj) := combine (c_map b) (c_items b).

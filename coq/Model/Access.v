(* Access.v — the access-mode state machine of a Tdf object (basictdf.py: allow_write, __enter__,
   __exit__; tdfUtils.py: the three decorators; the explicit read-only checks in add_block /
   remove_block).  The file is abstracted to a write counter: [disk] changes exactly when some
   call writes bytes. *)
From Model Require Export Base.
Open Scope Z_scope.

Inductive amode := RB | RWB.                       (* Tdf._mode: "rb" | "r+b" *)
Inductive handle := HNone | HOpen (m : amode) | HClosed.

Record astate := mkAS {
  x_mode : amode;            (* Tdf._mode *)
  x_inside : bool;           (* Tdf._inside_context *)
  x_handle : handle;         (* Tdf.handler: never opened | open with a mode | closed *)
  x_disk : Z;                (* number of calls that have written to the file so far *)
  (* ghosts, for stating the property: *)
  g_allowed : bool;          (* allow_write() has been called since the last context exit *)
  g_wctx : bool;             (* the current context was entered after such an allow_write() *)
  (* the environment: *)
  x_valid : bool }.          (* the file at the object's path currently starts with the TDF signature and a readable
                                header (somebody else may replace it between two contexts) *)

Definition a_init : astate := mkAS RB false HNone 0 false false true.

(* the three ways a mutator is guarded *)
Inductive mkind :=
| MWrite      (* add_block, remove_block, replace_block: raise_if_outside_write_context, then the explicit
                 read-only check, then I/O *)
| MSet        (* the force_and_torque / force_platforms_data / events / emg setters: the same guard, then the
                 has_* predicate (a reader that provides its own context when outside one), then
                 replace_block / add_block *)
| MSetD3.     (* the data3D setter: raise_if_outside_context, then has_data3D, then replace / add *)

Inductive rkind :=
| RAuto       (* decorated with provide_context_if_needed: blocks, get_block, [], the getters, has_*, repr, == *)
| RPlain      (* no decorator: len, nBytes, copy *)
| REq         (* ==: evaluates .blocks of both operands (each providing its own context when outside one), then compares *)
| REqBad.     (* == with a right operand whose file cannot be opened: this object's .blocks first (its own implicit context
                 when outside one, opened and closed again), then the other operand's raises — the comparison raises *)

Inductive acall :=
| AllowWrite
| Enter                              (* with t: ...   (only issued when not inside) *)
| ExitNormal | ExitExn               (* leaving the with block, normally or by an exception *)
| Mutator (k : mkind) (valid : bool) (* valid: the request itself is acceptable (C07 covers the rest) *)
| Reader (r : rkind)
| Clobber | Restore                  (* not calls on the object: while no context is open somebody replaces the file by
                                        bytes that are not a TDF file / puts the TDF file back *)
| CopySwitch.                        (* t = t.copy(path): the client goes on with the object copy() returned, a fresh
                                        Tdf for the new file (the file's content is the same, byte for byte) *)

Definition amode_eqb (a b : amode) : bool :=
  match a, b with RB, RB | RWB, RWB => true | _, _ => false end.

Definition do_enter (s : astate) : astate :=
  mkAS (x_mode s) true (HOpen (x_mode s)) (x_disk s) (g_allowed s) (g_allowed s) (x_valid s).
Definition do_exit (s : astate) : astate :=
  mkAS RB false HClosed (x_disk s) false false (x_valid s).
(* __enter__: the file is opened, the header is read; when that fails the context is left again (handle closed,
   mode reset) before the exception is passed on *)
Definition try_enter (s : astate) : bool * astate :=
  if x_valid s then (false, do_enter s) else (true, do_exit (do_enter s)).
(* provide_context_if_needed outside a context: with self: ... *)
Definition implicit (s : astate) : bool * astate := (negb (x_valid s), do_exit (do_enter s)).

(* outcome: true = the call raised *)
Definition a_step (s : astate) (c : acall) : bool * astate :=
  match c with
  | AllowWrite => (false, mkAS RWB (x_inside s) (x_handle s) (x_disk s) true (g_wctx s) (x_valid s))
  | Enter => try_enter s
  | ExitNormal | ExitExn => (false, do_exit s)
  | Mutator k valid =>
      let wguard (s : astate) := negb (x_inside s) && negb (amode_eqb (x_mode s) RWB) in
      (* body: the explicit permission check, then I/O on the current handle *)
      let body (s : astate) :=
        match x_mode s, x_handle s with
        | RWB, HOpen RWB => if valid then (false, mkAS (x_mode s) (x_inside s) (x_handle s) (x_disk s + 1)
                                                        (g_allowed s) (g_wctx s) (x_valid s))
                            else (true, s)
        | _, _ => (true, s)      (* PermissionError | write on a read-only / closed / missing handle *)
        end in
      match k with
      | MWrite => if wguard s then (true, s) else body s
      | MSet => if wguard s then (true, s) else
                let s1 := if x_inside s then s else do_exit (do_enter s) in
                if wguard s1 then (true, s1) else body s1
      | MSetD3 => if negb (x_inside s) then (true, s) else body s
      end
  | Reader RAuto =>
      if x_inside s then (false, s)
      else implicit s                          (* with self: ... — opened, used, closed; refused if not a TDF file *)
  | Reader RPlain => (false, s)
  | Reader REq =>                                (* ==: both operands' .blocks first — an implicit context when outside *)
      if x_inside s then (false, s) else implicit s
  | Reader REqBad => (true, snd (if x_inside s then (false, s) else implicit s))
  | Clobber => (false, mkAS (x_mode s) (x_inside s) (x_handle s) (x_disk s) (g_allowed s) (g_wctx s) false)
  | Restore => (false, mkAS (x_mode s) (x_inside s) (x_handle s) (x_disk s) (g_allowed s) (g_wctx s) true)
  | CopySwitch => (false, mkAS RB false HNone (x_disk s) false false (x_valid s))
  end.

Definition a_run (s : astate) (cs : list acall) : astate :=
  fold_left (fun s c => snd (a_step s c)) cs s.

(* the calls a client can issue in state s.  with-blocks on one object may be nested: __enter__ inside a context simply
   opens the file again (the object then holds the new handle), __exit__ closes whatever handle the object holds — so
   every call is always possible; only the environment's moves are restricted (the file is not swapped under an open
   handle) *)
Definition a_enabled (s : astate) (c : acall) : bool :=
  match c with
  | Clobber | Restore => negb (x_inside s)
  | _ => true
  end.

Fixpoint a_trace_ok (s : astate) (cs : list acall) : bool :=
  match cs with
  | [] => true
  | c :: r => a_enabled s c && a_trace_ok (snd (a_step s c)) r
  end.

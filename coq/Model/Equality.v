(* Equality.v — the __eq__ methods of the block classes (C14), over the block values of Blocks.v.
   Each class's __eq__ is a comparison SCHEMA: which fields it looks at and with which notion of
   equality (Python ==, float ==, np.array_equal, np.allclose, list ==, or the encoded bytes).
   One interpreter [eqv] gives all of them a meaning; the theorems about [eqv] (reflexive,
   discriminating) are proved once for every schema (Proofs/EqFacts.v).

   Floats are bit patterns.  [feq32 a b] is IEEE == on binary32 patterns: false if either is NaN,
   +0 == -0, otherwise identity of the bits (feq64 likewise).  np.allclose's tolerance arithmetic
   is not modelled: it is the Section variable [close], about which only three facts are assumed
   (Proofs/EqFacts.v): it holds of identical non-NaN patterns, it is symmetric in NaN-ness with
   equal_nan, and it fails when exactly one side is NaN. *)
From Model Require Export Base Fmt Segments Blocks.
Open Scope Z_scope.

Definition is_nan64 (b : Z) : bool :=
  ((b / 4503599627370496) mod 2048 =? 2047) && negb (b mod 4503599627370496 =? 0).

Definition feq32 (a b : Z) : bool :=
  negb (is_nan32 a) && negb (is_nan32 b) &&
  ((a =? b) || ((a mod 2147483648 =? 0) && (b mod 2147483648 =? 0))).
Definition feq64 (a b : Z) : bool :=
  negb (is_nan64 a) && negb (is_nan64 b) &&
  ((a =? b) || ((a mod 9223372036854775808 =? 0) && (b mod 9223372036854775808 =? 0))).

Inductive eqs :=
| QInt                       (* int / enum code / channel number: == *)
| QF32 | QF64                (* one float compared with ==, or an element of np.array_equal *)
| QClose                     (* an element of np.allclose(..., equal_nan=True) on binary32 *)
| QAny                       (* not looked at *)
| QList (e : eqs)            (* Python list == / zip + len: same length and element-wise *)
| QTup (es : list eqs)       (* a fixed record: field-wise; extra fields are not looked at *)
| QGapOr (e : eqs).          (* a sample that may be missing: missing == missing (equal_nan),
                                missing <> present, present compared with e *)

Section Eqv.
Variable close : Z -> Z -> bool.

Fixpoint eqv (s : eqs) (a b : V) {struct s} : bool :=
  match s with
  | QInt => match a, b with VI x, VI y => x =? y | _, _ => false end
  | QF32 => match a, b with VI x, VI y => feq32 x y | _, _ => false end
  | QF64 => match a, b with VI x, VI y => feq64 x y | _, _ => false end
  | QClose => match a, b with VI x, VI y => close x y | _, _ => false end
  | QAny => true
  | QList e =>
      match a, b with
      | VL xs, VL ys =>
          (fix go (xs ys : list V) {struct xs} : bool :=
             match xs, ys with
             | [], [] => true
             | x :: xs', y :: ys' => eqv e x y && go xs' ys'
             | _, _ => false
             end) xs ys
      | _, _ => false
      end
  | QTup es =>
      match a, b with
      | VL xs, VL ys =>
          (fix go (es : list eqs) (xs ys : list V) {struct es} : bool :=
             match es with
             | [] => true
             | e :: es' => match xs, ys with
                           | x :: xs', y :: ys' => eqv e x y && go es' xs' ys'
                           | _, _ => false
                           end
             end) es xs ys
      | _, _ => false
      end
  | QGapOr e =>
      match a, b with
      | VL [], VL [] => true
      | VL [], _ | _, VL [] => false
      | _, _ => eqv e a b
      end
  end.
End Eqv.

(* ---------- which values a schema can compare reflexively: no NaN where == is used ---------- *)
Fixpoint reflb (s : eqs) (v : V) {struct s} : bool :=
  match s with
  | QInt => match v with VI _ => true | _ => false end
  | QF32 => match v with VI x => negb (is_nan32 x) | _ => false end
  | QF64 => match v with VI x => negb (is_nan64 x) | _ => false end
  | QClose => match v with VI x => negb (is_nan32 x) | _ => false end
  | QAny => true
  | QList e => match v with VL xs => forallb (reflb e) xs | _ => false end
  | QTup es =>
      match v with
      | VL xs => (fix go (es : list eqs) (xs : list V) {struct es} : bool :=
                    match es with
                    | [] => true
                    | e :: es' => match xs with x :: xs' => reflb e x && go es' xs' | [] => false end
                    end) es xs
      | _ => false
      end
  | QGapOr e => match v with VL [] => true | _ => reflb e v end
  end.

(* ---------- the schemas, one per block class that compares structurally ---------- *)
Definition q_label : eqs := QList QInt.                          (* str == str *)
Definition q_vec (e : eqs) : eqs := QList e.

(* EMG: format (outside the value), frequency, startTime, nSamples, list(_emgMap), len + zip(_signals);
   EMGTrack: label, np.array_equal(data, equal_nan=True) *)
Definition q_em : eqs :=
  QTup [QAny; QInt; QF32; QInt; QList QInt; QList (QTup [q_label; QList (QGapOr QF32)])].

(* platform data: start_time, frequency, n_frames, np.array_equal(_plat_map), zip(_platforms);
   ForcePlatformData: three np.allclose(equal_nan=True) *)
Definition q_pd : eqs :=
  QTup [QAny; QInt; QF32; QInt; QList QInt; QList (QList (QGapOr (QList QClose)))].

(* platform calibration: format, _platformMap ==, _platforms ==; ForcePlatformInfo: label, allclose size, position *)
Definition q_pc : eqs :=
  QTup [QAny; QAny; QList QInt; QList (QTup [q_label; QList QClose; QList QClose; QAny])].

(* events: format, start_time, len + zip(events); Event: label, type, np.array_equal(values) *)
Definition q_ev : eqs :=
  QTup [QAny; QF32; QList (QTup [q_label; QInt; QAny; QList QF32])].

(* camera calibration: distorsion_model, three np.array_equal (f32), np.array_equal(map), zip(cam_data), format;
   camera records: np.array_equal on f64 fields, viewport np.array_equal *)
Definition q_viewport : eqs := QTup [QList QInt; QList QInt].
Definition q_ca : eqs :=
  QTup [QAny; QInt; QList QF32; QList QF32; QList QF32; QList QInt;
        QList (QTup [QList QF64; QList QF64; QList QF64; QList QF64; QList QF64; QList QF64; QList QF64; q_viewport])].
(* (a BTS record has seven fields: the schema's 7th entry then meets the viewport — see q_ca_bts) *)
Definition q_ca_bts : eqs :=
  QTup [QAny; QInt; QList QF32; QList QF32; QList QF32; QList QInt;
        QList (QTup [QList QF64; QList QF64; QList QF64; QList QF64; QList QF64; QList QF64; q_viewport])].

(* 2D data: nCams, nFrames, frequency, startTime, flags, np.array_equal(_camMap), per cell
   np.array_equal (empty == None: both are the empty list here), format, nBytes *)
Definition q_d2 : eqs :=
  QTup [QInt; QInt; QInt; QF32; QInt; QList QInt; QList (QList (QList (QList QF32)))].

(* 3D markers, force/torque, optical setup: the two encodings are compared byte for byte *)
Definition eq_bytes (f : fmt) (a b : V) : bool :=
  match enc f a, enc f b with
  | Some x, Some y => (fix go (x y : list Z) : bool :=
                         match x, y with
                         | [], [] => true
                         | p :: x', q :: y' => (p =? q) && go x' y'
                         | _, _ => false
                         end) x y
  | _, _ => false
  end.

(* dispatch, as Blocks.block_fmt: (type, format) |-> how == works; two blocks of different format
   codes are unequal for every class that compares format or bytes *)
Definition block_eq (close : Z -> Z -> bool) (ty format : Z) (a b : V) : option bool :=
  if ty =? 5 then option_map (fun f => eq_bytes f a b) (block_fmt ty format) else
  if ty =? 12 then option_map (fun f => eq_bytes f a b) (block_fmt ty format) else
  if ty =? 6 then option_map (fun f => eq_bytes f a b) (block_fmt ty format) else
  if ty =? 11 then Some (eqv close q_em a b) else
  if ty =? 9 then Some (eqv close q_pd a b) else
  if ty =? 7 then Some (eqv close q_pc a b) else
  if ty =? 16 then Some (eqv close q_ev a b) else
  if ty =? 2 then Some (eqv close (if format =? 1 then q_ca else q_ca_bts) a b) else
  if ty =? 4 then Some (eqv close q_d2 a b) else
  None.

(* RunContainer.v — marshalling of container states and operations for the extracted model. *)
From Model Require Export Run Container AFile GFile Fs Access.
Open Scope Z_scope.

Definition entry_of_v (v : V) : entry :=
  mkE (vint (vnth 0 v)) (vint (vnth 1 v)) (vint (vnth 2 v)) (vint (vnth 3 v))
      (vint (vnth 4 v)) (vint (vnth 5 v)) (vint (vnth 6 v)) (zs_of (vnth 7 v)).
Definition v_of_entry (e : entry) : V :=
  VL [VI (e_type e); VI (e_format e); VI (e_off e); VI (e_size e); VI (e_cdate e); VI (e_mdate e);
      VI (e_adate e); vints (e_comment e)].

Definition err_of_code (c : Z) : err :=
  if c =? 1 then EValue else if c =? 2 then EType else if c =? 3 then EKey else
  if c =? 4 then EIndex else if c =? 5 then ENotImpl else if c =? 6 then EPerm else
  if c =? 7 then EOutside else if c =? 8 then EFileExists else if c =? 9 then ENotFound else
  if c =? 10 then EIO else if c =? 11 then EAttr else EOther.

(* [n; mem; tab; data] *)
Definition state_of_v (v : V) : cstate :=
  mkS (vint (vnth 0 v)) (map entry_of_v (vlist (vnth 1 v))) (map entry_of_v (vlist (vnth 2 v)))
      (zs_of (vnth 3 v)).
Definition v_of_state (s : cstate) : V :=
  VL [VI (s_n s); VL (map v_of_entry (mem s)); VL (map v_of_entry (tab s)); vints (data s)].

(* for states whose data region is larger than [limit] bytes only its length and its Adler-32 sums are printed (marker
   -1 first): the driver's text protocol is the bottleneck for files of many MiB, not the model *)
Definition adler (l : list Z) : Z * Z :=
  fold_left (fun '(a, b) x => let a' := (a + x) mod 65521 in (a', (b + a') mod 65521)) l (1, 0).
Definition v_of_state_lim (limit : Z) (s : cstate) : V :=
  if zlength (data s) <=? limit then v_of_state s else
  let '(a, b) := adler (data s) in
  VL [VI (s_n s); VL (map v_of_entry (mem s)); VL (map v_of_entry (tab s)); VL [VI (-1); VI (zlength (data s)); VI a; VI b]].

(* block: [ty; fmt; size; payload option (VL [] | VL [VL bytes]); errcode; cdate; mdate]
   a date is  VI d  (handed to the block)  or  VL [VI clock]  (never given: the clock at construction) *)
Definition date_given (v : V) : option Z := match v with VI d => Some d | VL _ => None end.
Definition date_clock (v : V) : Z := match v with VL [c] => vint c | _ => 0 end.
Definition blk_of_v (v : V) : blk :=
  let b := mkB (vint (vnth 0 v)) (vint (vnth 1 v)) (vint (vnth 2 v))
               (match vnth 3 v with VL [p] => Some (zs_of p) | _ => None end)
               (err_of_code (vint (vnth 4 v))) 0 0 in
  mkB (b_type b) (b_format b) (b_size b) (b_payload b) (b_err b)
      (init_date (date_given (vnth 5 v)) (date_clock (vnth 5 v)))
      (init_date (date_given (vnth 6 v)) (date_clock (vnth 6 v))).

Definition opt_comment (v : V) : option (list Z) :=
  match v with VL [c] => Some (zs_of c) | _ => None end.

(* ops:  [1; blk; comment; now]  add     [2; ty; now]  remove
         [3; blk; comment option; now]  replace     [4; blk; now]  setter     [5]  context re-entry *)
Definition op_of_v (op : V) : option cop :=
  let k := vint (vnth 0 op) in
  if k =? 1 then Some (OAdd (blk_of_v (vnth 1 op)) (zs_of (vnth 2 op)) (vint (vnth 3 op))) else
  if k =? 2 then Some (ORemove (vint (vnth 1 op)) (vint (vnth 2 op))) else
  if k =? 3 then Some (OReplace (blk_of_v (vnth 1 op)) (opt_comment (vnth 2 op))
                                (vint (vnth 3 op)) (vint (vnth 3 op))) else
  if k =? 4 then Some (OSet (blk_of_v (vnth 1 op)) (vint (vnth 2 op)) (vint (vnth 2 op))) else
  if k =? 5 then Some OReopen else
  None.

Definition c_step (s : cstate) (op : V) : outcome * cstate :=
  match op_of_v op with
  | Some o => step s o
  | None => (Raised EOther, s)
  end.

Definition outcome_code (o : outcome) : Z := match o with Done => 0 | Raised e => err_code e end.

Fixpoint c_run (s : cstate) (ops : list V) : list V :=
  match ops with
  | [] => []
  | op :: r => let '(o, s') := c_step s op in
               VL [VI (outcome_code o); v_of_state s'] :: c_run s' r
  end.

(* [state; ops] -> [[outcome; state] ...] *)
Definition run_container (arg : V) : V :=
  ok (VL (c_run (state_of_v (vnth 0 arg)) (vlist (vnth 1 arg)))).

(* Tdf.new: now -> state *)
Definition run_new (arg : V) : V := ok (v_of_state (new_file (vint arg))).

(* whole file bytes: [version; cd; md; ad; state] *)
Definition run_file_bytes (arg : V) : V :=
  of_option vints EValue
    (file_bytes (vint (vnth 0 arg)) (vint (vnth 1 arg)) (vint (vnth 2 arg)) (vint (vnth 3 arg))
                (state_of_v (vnth 4 arg))).

(* accessors on a state: [state; ty] -> [len; has ty; nbytes; get_type: (0|[entry]) ] *)
Definition run_accessors (arg : V) : V :=
  let s := state_of_v (vnth 0 arg) in
  let ty := vint (vnth 1 arg) in
  ok (VL [VI (c_len s); vbool (c_has s ty); VI (c_nbytes s);
          match c_get_type s ty with Some (e, _) => VL [v_of_entry e] | None => VL [] end]).

(* header / entry codec for C06, C12: [kind(0=header,1=entry); value; a; b] free encoder; [kind; bytes] decoder *)
Definition hdr_or_entry (k : Z) : fmt := if k =? 0 then header_fmt else entry_fmt.
Definition run_he_encj (arg : V) : V :=
  of_option vints EValue
    (encj (hdr_or_entry (vint (vnth 0 arg))) (lin_junk (vint (vnth 2 arg)) (vint (vnth 3 arg))) 0 (vnth 1 arg)).
Definition run_he_dec (arg : V) : V :=
  match dec (hdr_or_entry (vint (vnth 0 arg))) (zs_of (vnth 1 arg)) with
  | Some (v, rest) => ok (VL [v; VI (zlength rest)])
  | None => fail EValue
  end.

(* histories with the accessors evaluated after every step (C09, C10, C11):
   [state; ops; types] -> [[outcome; state; [len; nbytes; compactb; [[has ty; get_type ty] ...]; [get_index i ...]]] ...] *)
Definition acc_of (s : cstate) (tys : list Z) : V :=
  VL [VI (c_len s); VI (c_nbytes s); vbool (compactb s);
      VL (map (fun ty => VL [vbool (c_has s ty);
                             match c_get_type s ty with Some (e, _) => VL [v_of_entry e] | None => VL [] end]) tys);
      VL (map (fun i => match c_get_index s i with Some e => VL [v_of_entry e] | None => VL [] end)
              [-1; 0; 1; s_n s - 1; s_n s])].

Fixpoint c_run_acc (lim : Z) (s : cstate) (ops : list V) (tys : list Z) : list V :=
  match ops with
  | [] => []
  | op :: r => let '(o, s') := c_step s op in
               VL [VI (outcome_code o); v_of_state_lim lim s'; acc_of s' tys] :: c_run_acc lim s' r tys
  end.

(* [state; ops; types; (optional) data limit] *)
Definition run_container_acc (arg : V) : V :=
  let lim := match vnth 3 arg with VI z => z | _ => 1000000000000 end in
  ok (VL (c_run_acc lim (state_of_v (vnth 0 arg)) (vlist (vnth 1 arg)) (zs_of (vnth 2 arg)))).

(* compactb of a parsed file (the C09 statement evaluated on the implementation's own output) *)
Definition run_compactb (arg : V) : V := ok (vbool (compactb (state_of_v arg))).
(* orderedb of a parsed file: is the file in the class the ordered-file theorems (GFile.v) speak about? *)
Definition run_orderedb (arg : V) : V := ok (vbool (orderedb (state_of_v arg))).
(* [state; size]: may a block of that size be added to this (sound) file — is the region it will occupy behind the table
   and free of live blocks (Proofs/AddSafe.v: exactly then the add keeps the file sound) *)
(* the property's soundness conditions themselves (C03), decided on a parsed file *)
Definition run_soundb (arg : V) : V := ok (vbool (soundb (state_of_v arg))).
Definition run_add_safeb (arg : V) : V := ok (vbool (add_safeb (state_of_v (vnth 0 arg)) (vint (vnth 1 arg)))).

(* file-system operations (C17): fs = [[path; bytes] ...]
   [fs; 1; path; now] new    [fs; 2; src; dst] copy    [fs; 3; path] open *)
Definition fs_of_v (v : V) : fs := map (fun e => (vint (vnth 0 e), zs_of (vnth 1 e))) (vlist v).
Definition v_of_fs (f : fs) : V := VL (map (fun pb => VL [VI (fst pb); vints (snd pb)]) f).
Definition run_fs (arg : V) : V :=
  let f := fs_of_v (vnth 0 arg) in
  let k := vint (vnth 1 arg) in
  if k =? 1 then let '(o, f') := fs_new f (vint (vnth 2 arg)) (vint (vnth 3 arg)) in
                 ok (VL [VI (outcome_code o); v_of_fs f']) else
  if k =? 2 then let '(o, f') := fs_copy f (vint (vnth 2 arg)) (vint (vnth 3 arg)) in
                 ok (VL [VI (outcome_code o); v_of_fs f']) else
  if k =? 3 then of_result vints (fs_open f (vint (vnth 2 arg))) else
  fail EOther.

(* access-mode call sequences (C08): [[1] | [2] | [3] | [4] | [5; kind(0 MWrite,1 MSetD3,2 MSet); valid] | [6; rkind(0 RAuto,1 RPlain,2 REq,3 REqBad)] | [7] copy-switch | [8] clobber | [9] restore ...]
   -> per call [raised; disk writes so far; handle (0 none, 1 open rb, 2 open r+b, 3 closed); inside] *)
Definition acall_of_v (v : V) : acall :=
  let k := vint (vnth 0 v) in
  if k =? 1 then AllowWrite else if k =? 2 then Enter else if k =? 3 then ExitNormal else
  if k =? 4 then ExitExn else
  if k =? 5 then Mutator (if vint (vnth 1 v) =? 0 then MWrite else if vint (vnth 1 v) =? 1 then MSetD3 else MSet) (vint (vnth 2 v) =? 1) else
  if k =? 7 then CopySwitch else if k =? 8 then Clobber else if k =? 9 then Restore else
  Reader (if vint (vnth 1 v) =? 0 then RAuto else if vint (vnth 1 v) =? 1 then RPlain else if vint (vnth 1 v) =? 2 then REq else REqBad).
Definition handle_code (h : handle) : Z :=
  match h with HNone => 0 | HOpen RB => 1 | HOpen RWB => 2 | HClosed => 3 end.
Fixpoint acc_run (s : astate) (cs : list V) : list V :=
  match cs with
  | [] => []
  | c :: r => let '(raised, s') := a_step s (acall_of_v c) in
              VL [vbool raised; VI (x_disk s'); VI (handle_code (x_handle s')); vbool (x_inside s')] :: acc_run s' r
  end.
Definition run_access (arg : V) : V := ok (VL (acc_run a_init (vlist arg))).

(* the whole file read back by the layout-driven decoders: bytes -> [header value; [entry values]; |data|] *)
Definition run_parse_file (arg : V) : V :=
  match parse_file (zs_of arg) with
  | Some (hv, es, d) => ok (VL [hv; VL es; VI (zlength d)])
  | None => fail EValue
  end.

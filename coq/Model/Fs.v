(* Fs.v — the file system as far as Tdf.new / Tdf.copy / Tdf.__init__ / __enter__ are concerned:
   a finite map from paths to byte strings. *)
From Model Require Export Container.
Open Scope Z_scope.

Definition fs := list (Z * list Z).        (* path |-> content; the first binding of a path counts *)

Fixpoint fs_get (f : fs) (p : Z) : option (list Z) :=
  match f with
  | [] => None
  | (q, bs) :: r => if q =? p then Some bs else fs_get r p
  end.
Definition fs_set (f : fs) (p : Z) (bs : list Z) : fs := (p, bs) :: f.

(* Tdf.new(path): refuse an existing path, else write header + 14 unused entries *)
Definition new_bytes (now : Z) : option (list Z) := file_bytes 1 now now now (new_file now).

Definition fs_new (f : fs) (p now : Z) : outcome * fs :=
  match fs_get f p with
  | Some _ => (Raised EFileExists, f)
  | None => match new_bytes now with
            | Some bs => (Done, fs_set f p bs)
            | None => (Raised EValue, f)
            end
  end.

(* Tdf(src).copy(dst): refuse an existing target, else shutil.copyfile *)
Definition fs_copy (f : fs) (src dst : Z) : outcome * fs :=
  match fs_get f dst with
  | Some _ => (Raised EFileExists, f)
  | None => match fs_get f src with
            | Some bs => (Done, fs_set f dst bs)
            | None => (Raised ENotFound, f)
            end
  end.

(* Tdf(path) followed by entering a context: what is handed to the caller *)
Fixpoint is_prefix (a b : list Z) : bool :=
  match a, b with
  | [], _ => true
  | x :: a', y :: b' => (x =? y) && is_prefix a' b'
  | _ :: _, [] => false
  end.

Definition fs_open (f : fs) (p : Z) : result (list Z) :=
  match fs_get f p with
  | None => Err ENotFound
  | Some bs => if is_prefix signature bs then Ok bs else Err EOther
  end.

(* any later mutation of the file at path p (a write context on it) *)
Definition fs_mutate (f : fs) (p : Z) (g : list Z -> list Z) : fs :=
  match fs_get f p with Some bs => fs_set f p (g bs) | None => f end.

(* Session.v — the access-mode state machine (Access.v) driving the container (Container.v):
   one Tdf object, its file, and any interleaving of allow_write / with-blocks / readers / mutation
   requests.  The disk counter of Access.v is replaced by the real file state: a request reaches
   Container.step exactly when the access layer lets it through. *)
From Model Require Export Access Container AFile.
Open Scope Z_scope.

Record sstate := mkSS { ss_acc : astate; ss_file : cstate }.

Inductive scall :=
| SAllow | SEnter | SExit (by_exception : bool)
| SMutate (k : mkind) (o : cop)           (* add / remove / replace / a setter, with its arguments *)
| SRead (r : rkind).

Definition request_ok (f : cstate) (o : cop) : bool :=
  match fst (step f o) with Done => true | Raised _ => false end.

Definition s_step (s : sstate) (c : scall) : bool * sstate :=
  match c with
  | SAllow => (false, mkSS (snd (Access.a_step (ss_acc s) AllowWrite)) (ss_file s))
  | SEnter => (false, mkSS (snd (Access.a_step (ss_acc s) Enter)) (c_reopen (ss_file s)))   (* the table is re-read *)
  | SExit e => (false, mkSS (snd (Access.a_step (ss_acc s) (if e then ExitExn else ExitNormal))) (ss_file s))
  | SRead r => (false, mkSS (snd (Access.a_step (ss_acc s) (Reader r))) (ss_file s))
  | SMutate k o =>
      let '(raised, a') := Access.a_step (ss_acc s) (Mutator k (request_ok (ss_file s) o)) in
      if raised then (true, mkSS a' (ss_file s))
      else (false, mkSS a' (snd (step (ss_file s) o)))
  end.

Definition s_run (s : sstate) (cs : list scall) : sstate := fold_left (fun s c => snd (s_step s c)) cs s.

Definition s_enabled (s : sstate) (c : scall) : bool :=
  match c with
  | SEnter => negb (x_inside (ss_acc s))
  | SExit _ => x_inside (ss_acc s)
  | _ => true
  end.
Fixpoint s_trace_ok (s : sstate) (cs : list scall) : bool :=
  match cs with [] => true | c :: r => s_enabled s c && s_trace_ok (snd (s_step s c)) r end.

Definition s_call_ok (c : scall) : Prop := match c with SMutate _ o => op_ok o | _ => True end.

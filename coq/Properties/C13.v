(* C13 — fixed-width text fields: exact width, lossless for valid text, else refused.
   Model: Str.v (BTSString.write / BTSString.read of tdfTypes.py), Cp1252.v.
   Every statement is for ALL widths w, ALL strings (lists of code points), ALL junk oracles. *)
From Model Require Import Base Cp1252 Str.
From Proofs Require Import BaseFacts StrFacts.
Open Scope Z_scope.

(* the field is exactly w bytes, whatever is written *)
Theorem C13_width : forall w jk off s out, str_writej w jk off s = Ok out -> length out = w.
Proof. exact str_writej_width. Qed.
Print Assumptions C13_width.

Theorem C13_bytes : forall w jk off s out,
  junk_ok jk -> str_writej w jk off s = Ok out -> bytesb out = true.
Proof. exact str_writej_bytes. Qed.
Print Assumptions C13_bytes.

(* the library's writer: encoded text, NUL terminator, zero padding *)
Theorem C13_terminated_zero_padded : forall w s out,
  str_write w s = Ok out ->
  exists bs, cp_encode s = Some bs /\ out = bs ++ 0 :: repeat 0 (w - length bs - 1).
Proof. exact str_write_shape. Qed.
Print Assumptions C13_terminated_zero_padded.

(* lossless for every encodable, NUL-free string shorter than the field — with any padding *)
Theorem C13_roundtrip : forall w jk off s,
  encodable s -> no_nul s -> (length s < w)%nat ->
  exists out, str_writej w jk off s = Ok out /\ str_read w out = Some s.
Proof. exact str_roundtrip. Qed.
Print Assumptions C13_roundtrip.

(* refused with ValueError: not encodable, or too long *)
Theorem C13_refuse_unencodable : forall w jk off s,
  ~ encodable s -> str_writej w jk off s = Err EValue.
Proof. exact str_write_refuse_unencodable. Qed.
Print Assumptions C13_refuse_unencodable.

Theorem C13_refuse_long : forall w jk off s,
  (w <= length s)%nat -> str_writej w jk off s = Err EValue.
Proof. exact str_write_refuse_long. Qed.
Print Assumptions C13_refuse_long.

(* nothing else can happen: a full field or ValueError *)
Theorem C13_total : forall w jk off s,
  (exists out, str_writej w jk off s = Ok out) \/ str_writej w jk off s = Err EValue.
Proof. exact str_write_total. Qed.
Print Assumptions C13_total.

(* never truncated, never without terminator: the whole encoded text and a NUL are inside the field *)
Theorem C13_never_truncates : forall w jk off s out,
  str_writej w jk off s = Ok out ->
  exists bs t, cp_encode s = Some bs /\ length bs = length s /\ out = bs ++ 0 :: t.
Proof. exact str_write_never_truncates. Qed.
Print Assumptions C13_never_truncates.

(* read side, all byte strings: only the bytes up to the first NUL matter *)
Theorem C13_read_prefix : forall w p t1 t2,
  length t1 = length t2 -> str_read w (p ++ 0 :: t1) = str_read w (p ++ 0 :: t2).
Proof. exact str_read_prefix. Qed.
Print Assumptions C13_read_prefix.

(* the code page is a bijection between its 251 defined bytes and their code points *)
Theorem C13_cp1252_enc_dec : forall c b, cp_enc c = Some b -> cp_dec b = Some c /\ 0 <= b < 256.
Proof. exact cp_enc_dec. Qed.
Print Assumptions C13_cp1252_enc_dec.

Theorem C13_cp1252_dec_enc : forall b c, cp_dec b = Some c -> cp_enc c = Some b.
Proof. exact cp_dec_enc. Qed.
Print Assumptions C13_cp1252_dec_enc.

(* non-vacuity: "€uro" (0x20AC is a cp1252 special) in a field of 8 *)
Example C13_example :
  encodable [8364; 117; 114; 111] /\ no_nul [8364; 117; 114; 111] /\
  str_write 8 [8364; 117; 114; 111] = Ok [128; 117; 114; 111; 0; 0; 0; 0] /\
  str_read 8 [128; 117; 114; 111; 0; 7; 7; 7] = Some [8364; 117; 114; 111] /\
  str_write 4 [8364; 117; 114; 111] = Err EValue.
Proof.
  repeat split; try reflexivity.
  - repeat constructor; vm_compute; discriminate.
  - unfold no_nul. cbn. intuition discriminate.
Qed.

(* C08 — files are only modified inside an explicitly write-enabled context.
   Model: Access.v.  [x_disk] counts the calls that wrote to the file; the ghosts [g_allowed] /
   [g_wctx] record whether allow_write() was called since the last exit and whether the current
   context was entered after it.  All statements are over arbitrary well-bracketed call sequences. *)
From Model Require Import Base Access.
From Coq Require Import ZifyBool.
Open Scope Z_scope.

(* the flags the code keeps agree with the history (ghosts) in every reachable state *)
Definition acc_inv (s : astate) : Prop :=
  (x_mode s = RWB <-> g_allowed s = true) /\
  (x_handle s = HOpen RWB -> g_wctx s = true /\ x_inside s = true) /\
  (x_inside s = true -> exists m, x_handle s = HOpen m) /\
  (x_inside s = false -> g_wctx s = false /\ forall m, x_handle s <> HOpen m).

Lemma a_inv_init : acc_inv a_init.
Proof. repeat split; cbn; try discriminate; intros; discriminate. Qed.

(* the two states every refusal / implicit context ends in *)
Lemma inv_closed d vl : acc_inv (mkAS RB false HClosed d false false vl).
Proof. repeat split; cbn; intros; try discriminate. Qed.
Lemma inv_fresh d vl : acc_inv (mkAS RB false HNone d false false vl).
Proof. repeat split; cbn; intros; try discriminate. Qed.

Lemma a_inv_step s c : acc_inv s -> a_enabled s c = true -> acc_inv (snd (a_step s c)).
Proof.
  intros [H1 [H2 [H3 H4]]] He. destruct s as [m i h d ga gw vl]. cbn in *.
  destruct c as [| | | |k v|r| | |]; cbn in *.
  - (* allow_write *) repeat split; try tauto; intros; try discriminate; try (now apply H2); try (now apply H3); now apply H4.
  - (* enter *) subst. unfold try_enter. cbn. destruct vl; cbn; [|apply inv_closed].
    repeat split; cbn; intros; try discriminate; try tauto.
    + inversion H. subst. tauto.
    + now exists m.
  - apply inv_closed.
  - apply inv_closed.
  - (* mutators *) destruct k; destruct i, m; cbn; try destruct h as [|[]|]; try destruct v; cbn;
      repeat split; intros; try discriminate; try tauto;
      try (exfalso; destruct (H4 eq_refl) as [_ Hx]; now eapply Hx).
  - (* readers *) destruct r; [|repeat split; tauto| |].
    + destruct i; cbn; [repeat split; tauto|]. apply inv_closed.
    + destruct h as [|hm|]; cbn; try (repeat split; tauto);
        destruct i; cbn; try (repeat split; tauto); apply inv_closed.
    + destruct i; cbn; [repeat split; tauto|]. apply inv_closed.
  - (* clobber *) subst. repeat split; cbn; intros; try discriminate; try tauto; now apply H4.
  - (* restore *) subst. repeat split; cbn; intros; try discriminate; try tauto; now apply H4.
  - apply inv_fresh.
Qed.

Lemma a_inv_run cs : forall s, acc_inv s -> a_trace_ok s cs = true -> acc_inv (a_run s cs).
Proof.
  induction cs as [|c cs IH]; intros s Hi Ht; cbn [a_run fold_left a_trace_ok] in *; [exact Hi|].
  apply andb_prop in Ht. destruct Ht as [He Hr]. apply IH; [now apply a_inv_step|exact Hr].
Qed.

(* the file changes only through a valid mutator issued inside a context that was entered after
   allow_write() *)
Theorem C08_only_in_write_context : forall cs c s,
  a_trace_ok a_init cs = true -> s = a_run a_init cs -> a_enabled s c = true ->
  x_disk (snd (a_step s c)) <> x_disk s ->
  (exists k, c = Mutator k true) /\ x_inside s = true /\ x_handle s = HOpen RWB /\ g_wctx s = true.
Proof.
  intros cs c s Ht -> He Hd.
  pose proof (a_inv_run cs a_init a_inv_init Ht) as [H1 [H2 [H3 H4]]].
  set (s := a_run a_init cs) in *. destruct s as [m i h d ga gw vl]. cbn in *.
  destruct c as [| | | |k v|r| | |]; cbn in Hd; try congruence.
  - unfold try_enter in Hd. destruct vl; cbn in Hd; congruence.
  - destruct k; destruct i, m; cbn in Hd; try congruence;
      destruct h as [|[]|]; cbn in Hd; try congruence; destruct v; cbn in Hd; try congruence;
      (split; [eexists; reflexivity|]); repeat split; tauto.
  - destruct r; cbn in Hd; [|congruence| |].
    + destruct i; cbn in Hd; congruence.
    + destruct h; cbn in Hd; try congruence; destruct i; cbn in Hd; congruence.
    + destruct i; cbn in Hd; congruence.
Qed.
Print Assumptions C08_only_in_write_context.

(* the same mutation outside such a context raises and leaves the file untouched: with no context,
   with allow_write but no context, inside a read-only context, inside a later context entered
   without a new allow_write *)
Theorem C08_refused_elsewhere : forall cs s k v,
  a_trace_ok a_init cs = true -> s = a_run a_init cs ->
  ~ (x_inside s = true /\ g_wctx s = true) ->
  fst (a_step s (Mutator k v)) = true /\ x_disk (snd (a_step s (Mutator k v))) = x_disk s.
Proof.
  intros cs s k v Ht -> Hn.
  pose proof (a_inv_run cs a_init a_inv_init Ht) as [H1 [H2 [H3 H4]]].
  set (s := a_run a_init cs) in *. destruct s as [m i h d ga gw vl]. cbn in *.
  destruct k; destruct i, m; cbn; try (split; reflexivity);
    destruct h as [|[]|]; cbn; try (split; reflexivity);
    exfalso; apply Hn; split; try reflexivity; now apply H2.
Qed.
Print Assumptions C08_refused_elsewhere.

(* inside a write context a valid mutation succeeds (the guard is not over-eager) *)
Theorem C08_allowed_in_write_context : forall s k,
  x_inside s = true -> x_mode s = RWB -> x_handle s = HOpen RWB ->
  fst (a_step s (Mutator k true)) = false /\ x_disk (snd (a_step s (Mutator k true))) = x_disk s + 1.
Proof.
  intros [m i h d ga gw vl] k Hi Hm Hh. cbn in *. subst. destruct k; cbn; split; reflexivity.
Qed.
Print Assumptions C08_allowed_in_write_context.

(* no reader ever changes the file, in any mode; allow_write / enter / exit do not either *)
Theorem C08_readers_pure : forall s c,
  (forall k v, c <> Mutator k v) -> x_disk (snd (a_step s c)) = x_disk s.
Proof.
  intros [m i h d ga gw vl] c Hc. destruct c as [| | | |k v|r| | |]; cbn; try reflexivity.
  - unfold try_enter. cbn. destruct vl; reflexivity.
  - exfalso. now apply (Hc k v).
  - destruct r; [destruct i| |destruct h; try destruct i|destruct i]; reflexivity.
Qed.
Print Assumptions C08_readers_pure.

(* leaving a context — normally or by an exception — always drops the write permission *)
Theorem C08_mode_reset : forall s c, c = ExitNormal \/ c = ExitExn ->
  x_mode (snd (a_step s c)) = RB /\ x_handle (snd (a_step s c)) = HClosed /\
  g_allowed (snd (a_step s c)) = false.
Proof. intros s c [-> | ->]; cbn; repeat split. Qed.
Print Assumptions C08_mode_reset.

(* a later context entered without a new allow_write() is read-only *)
Theorem C08_reentry_is_read_only : forall s c k v, c = ExitNormal \/ c = ExitExn ->
  let s' := snd (a_step (snd (a_step s c)) Enter) in
  fst (a_step s' (Mutator k v)) = true /\ x_disk (snd (a_step s' (Mutator k v))) = x_disk s'.
Proof. intros [m i h d ga gw vl] c k v [-> | ->]; destruct k, vl; cbn; split; reflexivity. Qed.
Print Assumptions C08_reentry_is_read_only.

(* the object copy() returns carries no write permission, whatever the state of the object it was taken from: a
   mutation through it raises — with no context and inside a plain context — until its own allow_write() *)
Theorem C08_copy_is_read_only : forall s k v,
  let c0 := snd (a_step s CopySwitch) in
  let c1 := snd (a_step c0 Enter) in
  (fst (a_step c0 (Mutator k v)) = true /\ x_disk (snd (a_step c0 (Mutator k v))) = x_disk s) /\
  (fst (a_step c1 (Mutator k v)) = true /\ x_disk (snd (a_step c1 (Mutator k v))) = x_disk s).
Proof. intros [m i h d ga gw vl] k v. destruct k, vl; cbn; repeat split; reflexivity. Qed.
Print Assumptions C08_copy_is_read_only.

(* every handle opened implicitly is closed again *)
Theorem C08_implicit_closed : forall cs s r,
  a_trace_ok a_init cs = true -> s = a_run a_init cs -> x_inside s = false ->
  forall m, x_handle (snd (a_step s (Reader r))) <> HOpen m.
Proof.
  intros cs s r Ht -> Hi m.
  pose proof (a_inv_run cs a_init a_inv_init Ht) as [H1 [H2 [H3 H4]]].
  set (s := a_run a_init cs) in *. destruct s as [md i h d ga gw vl]. cbn in *. subst i.
  destruct r; cbn; [discriminate|now apply H4| |discriminate].
  destruct h as [|hm|]; cbn; discriminate.
Qed.
Print Assumptions C08_implicit_closed.

(* a comparison t == other that fails because the OTHER file cannot be opened raises, and leaves t as any reader
   leaves it: outside every context, no handle open, the write permission it may have had pending used up — whatever
   was done to t before.  In particular no later mutation gets through without a new allow_write() + with. *)
Theorem C08_failed_comparison_leaves_no_context : forall s,
  x_inside s = false ->
  let s' := snd (a_step s (Reader REqBad)) in
  fst (a_step s (Reader REqBad)) = true /\ x_inside s' = false /\ x_handle s' = HClosed /\ x_mode s' = RB /\
  x_disk s' = x_disk s /\
  forall k v, fst (a_step s' (Mutator k v)) = true /\ x_disk (snd (a_step s' (Mutator k v))) = x_disk s.
Proof.
  intros [m i h d ga gw vl] Hi. cbn in Hi. subst i. cbn. repeat split; destruct k, vl; reflexivity.
Qed.
Print Assumptions C08_failed_comparison_leaves_no_context.

(* ... and inside a context of t the failed comparison changes nothing at all *)
Theorem C08_failed_comparison_inside : forall s, x_inside s = true ->
  a_step s (Reader REqBad) = (true, s).
Proof. intros [m i h d ga gw vl] Hi. cbn in Hi. subst i. reflexivity. Qed.
Print Assumptions C08_failed_comparison_inside.

(* non-vacuity: the canonical session, and the four refused modes *)
Example C08_example :
  a_trace_ok a_init [AllowWrite; Enter; Mutator MWrite true; ExitNormal; Enter; Mutator MWrite true; ExitExn] = true /\
  x_disk (a_run a_init [AllowWrite; Enter; Mutator MWrite true; ExitNormal; Enter; Mutator MWrite true; ExitExn]) = 1 /\
  x_disk (a_run a_init [Mutator MWrite true; AllowWrite; Mutator MWrite true; Mutator MSetD3 true;
                        Reader RAuto; Enter; Mutator MWrite true; AllowWrite; Mutator MWrite true]) = 0.
Proof. vm_compute. repeat split; reflexivity. Qed.

(* ---------- the same, with the real file instead of a write counter (Session.v) ---------- *)
From Model Require Import Container AFile Session.
From Proofs Require Import BaseFacts ContainerFacts ContainerProps.

Definition s_inv (s : sstate) : Prop := acc_inv (ss_acc s) /\ compact (ss_file s).

Lemma s_inv_step s c : s_inv s -> s_enabled s c = true -> s_call_ok c -> s_inv (snd (s_step s c)).
Proof.
  intros [Ha Hc] He Hok. destruct c as [| |e|k o|r]; cbn [s_step snd ss_acc ss_file].
  - split; [now apply (a_inv_step (ss_acc s) AllowWrite)|exact Hc].
  - split; [now apply (a_inv_step (ss_acc s) Enter)|]. destruct Hc as [a [Hi ->]]. exists a. now split.
  - split; [|exact Hc]. destruct e; [now apply (a_inv_step (ss_acc s) ExitExn)|now apply (a_inv_step (ss_acc s) ExitNormal)].
  - pose proof (a_inv_step (ss_acc s) (Mutator k (request_ok (ss_file s) o)) Ha eq_refl) as Ha'.
    destruct (Access.a_step (ss_acc s) (Mutator k (request_ok (ss_file s) o))) as [raised a'] eqn:E. cbn [snd] in Ha'.
    destruct raised; cbn [snd ss_acc ss_file]; (split; [exact Ha'|]); [exact Hc|].
    destruct (step (ss_file s) o) as [r s'] eqn:E2. cbn [snd]. eapply step_compact; [exact Hc|exact Hok|exact E2].
  - split; [now apply (a_inv_step (ss_acc s) (Reader r))|exact Hc].
Qed.

Lemma s_inv_run cs : forall s, s_inv s -> s_trace_ok s cs = true -> Forall s_call_ok cs -> s_inv (s_run s cs).
Proof.
  induction cs as [|c cs IH]; intros s Hi Ht Hok; cbn [s_run fold_left s_trace_ok] in *; [exact Hi|].
  apply andb_prop in Ht. destruct Ht as [He Hr]. inversion Hok as [|? ? H1 H2]; subst.
  apply IH; [now apply s_inv_step|exact Hr|exact H2].
Qed.

(* over any interleaving, starting from a freshly constructed object on a compact file: the FILE — table on
   disk, data, and what the open object holds of it — changes only through a mutation request issued inside a
   context entered after allow_write(); everything else, accepted or refused, leaves it exactly as it was *)
Theorem C08_file_changes_only_in_write_context : forall f cs c s,
  compact f -> s_trace_ok (mkSS Access.a_init f) cs = true -> Forall s_call_ok cs ->
  s = s_run (mkSS Access.a_init f) cs -> s_enabled s c = true -> s_call_ok c ->
  ss_file (snd (s_step s c)) <> ss_file s ->
  (exists k o, c = SMutate k o) /\ x_inside (ss_acc s) = true /\ x_handle (ss_acc s) = HOpen RWB /\
  g_wctx (ss_acc s) = true.
Proof.
  intros f cs c s Hf Ht Hok -> He Hc Hd.
  pose proof (s_inv_run cs (mkSS Access.a_init f) (conj a_inv_init Hf) Ht Hok) as [Ha Hcomp].
  set (s := s_run (mkSS Access.a_init f) cs) in *.
  destruct c as [| |e|k o|r]; cbn [s_step snd ss_file] in Hd; try congruence.
  - exfalso. apply Hd. destruct Hcomp as [a [_ ->]]. reflexivity.
  - destruct (Access.a_step (ss_acc s) (Mutator k (request_ok (ss_file s) o))) as [raised a'] eqn:E.
    destruct raised; cbn [snd ss_file] in Hd; [congruence|].
    split; [now exists k, o|].
    destruct Ha as [H1 [H2 [H3 H4]]]. destruct (ss_acc s) as [m i h d ga gw vl]. cbn in *.
    destruct k; destruct i, m; cbn in E; try (inversion E; fail);
      destruct h as [|[]|]; cbn in E; try (inversion E; fail);
      try (destruct (request_ok (ss_file s) o); inversion E; fail);
      repeat split; tauto.
Qed.
Print Assumptions C08_file_changes_only_in_write_context.

(* ... and whatever was let through kept the file compact (C03 / C09 hold along every interleaving) *)
Theorem C08_session_keeps_file_compact : forall f cs,
  compact f -> s_trace_ok (mkSS Access.a_init f) cs = true -> Forall s_call_ok cs ->
  compact (ss_file (s_run (mkSS Access.a_init f) cs)).
Proof. intros f cs Hf Ht Hok. apply (s_inv_run cs (mkSS Access.a_init f) (conj a_inv_init Hf) Ht Hok). Qed.
Print Assumptions C08_session_keeps_file_compact.

(* C16 — no track of the wrong length enters a block; list assignment is all-or-nothing.
   Model: BlockAPI.v part 2 (Data3D.add_track / tracks setter, ForceTorque3D.add_track / tracks
   setter, EMG.addSignal's type and length checks). *)
From Model Require Import Base BlockAPI.
From Proofs Require Import BaseFacts.
From Coq Require Import ZifyBool.
Open Scope Z_scope.

Definition good (b : tblock) (x : obj) : Prop := exists id lb, x = OItem id lb (tb_frames b).
Definition tb_ok (b : tblock) : Prop := Forall (good b) (tb_tracks b).

(* adding a track of another length, or an object of the wrong kind, is refused and changes nothing *)
Theorem C16_add_refuses : forall b x, ~ good b x ->
  exists e, add_track b x = (Some e, b).
Proof.
  intros b x Hn. destruct x as [id lb n| | | |]; cbn [add_track]; try (eexists; reflexivity).
  destruct (Z.eqb_spec n (tb_frames b)) as [E|N]; [|eexists; reflexivity].
  exfalso. apply Hn. subst n. now exists id, lb.
Qed.
Print Assumptions C16_add_refuses.

Theorem C16_add_accepts : forall b x, good b x ->
  add_track b x = (None, mkTB (tb_frames b) (tb_tracks b ++ [x])).
Proof. intros b x [id [lb ->]]. cbn [add_track]. now rewrite Z.eqb_refl. Qed.
Print Assumptions C16_add_accepts.

Lemma add_track_frames b x : tb_frames (snd (add_track b x)) = tb_frames b.
Proof. destruct x; cbn [add_track]; try reflexivity. destruct (_ =? _); reflexivity. Qed.

Lemma add_track_ok b x : tb_ok b -> tb_ok (snd (add_track b x)).
Proof.
  intros H. destruct x as [id lb n| | | |]; cbn [add_track snd]; try exact H.
  destruct (Z.eqb_spec n (tb_frames b)) as [E|N]; [|exact H]. cbn [snd]. unfold tb_ok. cbn [tb_tracks tb_frames].
  apply Forall_app. split; [exact H|]. constructor; [|constructor]. subst n. now exists id, lb.
Qed.

(* whole-list assignment: either installs exactly that list or raises and keeps the previous tracks *)
Lemma add_all_spec xs : forall b,
  (Forall (good b) xs -> add_all b xs = (None, mkTB (tb_frames b) (tb_tracks b ++ xs))) /\
  (~ Forall (good b) xs -> exists e b', add_all b xs = (Some e, b')).
Proof.
  induction xs as [|x xs IH]; intros b; cbn [add_all].
  - split; [intros _; rewrite app_nil_r; destruct b; reflexivity|intros H; exfalso; apply H; constructor].
  - split.
    + intros H. inversion H as [|? ? Hx Hxs]; subst. rewrite (C16_add_accepts b x Hx).
      destruct (IH (mkTB (tb_frames b) (tb_tracks b ++ [x]))) as [IH1 _]. rewrite IH1 by exact Hxs.
      cbn [tb_frames tb_tracks]. now rewrite <- app_assoc.
    + intros H. destruct (add_track b x) as [[e|] b'] eqn:E; [now exists e, b|].
      assert (Hx : good b x).
      { destruct x as [id lb n| | | |]; cbn [add_track] in E; try discriminate.
        destruct (Z.eqb_spec n (tb_frames b)); [subst; now exists id, lb|discriminate]. }
      rewrite (C16_add_accepts b x Hx) in E. inversion E; subst b'.
      destruct (IH (mkTB (tb_frames b) (tb_tracks b ++ [x]))) as [_ IH2].
      destruct IH2 as [e [b2 He]].
      { intros Hxs. apply H. constructor; [exact Hx|exact Hxs]. }
      rewrite He. now exists e, b2.
Qed.

Theorem C16_assign_all_or_nothing : forall b xs,
  (Forall (good b) xs -> set_tracks b (Some xs) = (None, mkTB (tb_frames b) xs)) /\
  (~ Forall (good b) xs -> exists e, set_tracks b (Some xs) = (Some e, b)).
Proof.
  intros b xs. unfold set_tracks.
  destruct (add_all_spec xs (mkTB (tb_frames b) [])) as [H1 H2]. split; intros H.
  - rewrite H1 by exact H. reflexivity.
  - destruct (H2 H) as [e [b2 ->]]. now exists e.
Qed.
Print Assumptions C16_assign_all_or_nothing.

Theorem C16_assign_non_iterable : forall b, set_tracks b None = (Some EType, b).
Proof. reflexivity. Qed.
Print Assumptions C16_assign_non_iterable.

(* through the public interface a block never comes to hold a track of another length *)
Lemma good_dec b x : {good b x} + {~ good b x}.
Proof.
  destruct x as [id lb n| | | |]; try (right; intros [i [l H]]; discriminate).
  destruct (Z.eq_dec n (tb_frames b)) as [E|N]; [left; subst; now exists id, lb|].
  right. intros [i [l H]]. inversion H. contradiction.
Qed.

Lemma forall_good_dec b xs : {Forall (good b) xs} + {~ Forall (good b) xs}.
Proof. apply Forall_dec. apply good_dec. Qed.

Lemma t_step_ok b c : tb_ok b -> tb_ok (snd (t_step b c)) /\ tb_frames (snd (t_step b c)) = tb_frames b.
Proof.
  intros H. destruct c as [x|[xs|]]; cbn [t_step].
  - split; [now apply add_track_ok|apply add_track_frames].
  - destruct (forall_good_dec b xs) as [Hg|Hg].
    + destruct (C16_assign_all_or_nothing b xs) as [H1 _]. rewrite (H1 Hg). cbn [snd]. split; [exact Hg|reflexivity].
    + destruct (C16_assign_all_or_nothing b xs) as [_ H2]. destruct (H2 Hg) as [e ->]. split; [exact H|reflexivity].
  - split; [exact H|reflexivity].
Qed.

Theorem C16_invariant : forall cs b, tb_ok b -> tb_ok (t_run b cs) /\ tb_frames (t_run b cs) = tb_frames b.
Proof.
  induction cs as [|c cs IH]; intros b H; cbn [t_run fold_left]; [split; [exact H|reflexivity]|].
  destruct (t_step_ok b c H) as [H1 H2]. destruct (IH _ H1) as [H3 H4]. split; [exact H3|].
  unfold t_run in H4. rewrite H4. exact H2.
Qed.
Print Assumptions C16_invariant.

Example C16_example :
  let b := mkTB 3 [OItem 1 [65] 3] in
  tb_ok b /\
  t_step b (TAdd (OItem 2 [66] 4)) = (Some EValue, b) /\ t_step b (TAdd (OInt 7)) = (Some EType, b) /\
  t_step b (TAssign (Some [OItem 3 [] 3; ONone; OItem 4 [] 3])) = (Some EType, b) /\
  t_step b (TAssign (Some [OItem 3 [] 3; OItem 4 [] 3])) = (None, mkTB 3 [OItem 3 [] 3; OItem 4 [] 3]).
Proof.
  cbn zeta. split; [|vm_compute; repeat split; reflexivity].
  constructor; [now exists 1, [65]|constructor].
Qed.

(* C02 — a block's declared size equals the bytes written and the bytes consumed.
   [size f v] is the layout's own byte count (Fmt.size), defined separately from the encoder. *)
From Model Require Import Base Fmt Segments Blocks.
From Proofs Require Import BaseFacts FmtFacts SegFacts SizeFacts.
Open Scope Z_scope.

(* bytes written = declared size — for every layout, every value that encodes, every junk *)
Theorem C02_size_written : forall ty format f jk off v bs,
  block_fmt ty format = Some f -> encj f jk off v = Some bs -> zlength bs = size f v.
Proof. intros ty format f jk off v bs _. apply encj_size. Qed.
Print Assumptions C02_size_written.

(* decoding consumes exactly those bytes and stops at the first byte after the block *)
Theorem C02_consumed : forall ty format f v bs rest,
  block_fmt ty format = Some f -> wfb f v = true -> enc f v = Some bs ->
  exists v', dec f (bs ++ rest) = Some (v', rest).
Proof. intros ty format f v bs rest _ Hw He. exists v. now apply dec_enc. Qed.
Print Assumptions C02_consumed.

(* the same two facts for any nested item layout (tracks, signals, platforms, cameras, channels,
   events are all [fmt] terms; the statement is for every layout) *)
Theorem C02_item_size : forall f jk off v bs, encj f jk off v = Some bs -> zlength bs = size f v.
Proof. exact encj_size. Qed.
Print Assumptions C02_item_size.

Theorem C02_item_consumed : forall f v bs rest,
  wfb f v = true -> enc f v = Some bs -> dec f (bs ++ rest) = Some (v, rest).
Proof. exact dec_enc. Qed.
Print Assumptions C02_item_consumed.

(* the size does not depend on what is in the don't-care bytes, nor on where the block is placed *)
Theorem C02_size_junk_indep : forall f jk1 jk2 off1 off2 v b1 b2,
  encj f jk1 off1 v = Some b1 -> encj f jk2 off2 v = Some b2 -> length b1 = length b2.
Proof. exact encj_length_indep. Qed.
Print Assumptions C02_size_junk_indep.

(* the library's hand-written nBytes arithmetic — a separate piece of code from _write — IS the layout's
   size, for every number and length of segments:
     MarkerTrack / EMGTrack / ForceTorqueTrack:  256 + 4 + 4 + sum over segments (4 + 4 + length * itemsize)
     ForcePlatformData:                          4 + 4 + (4 + 4) * nSegments + sum (itemsize * length)      *)
Theorem C02_track_nbytes_formula : forall n sample w label fs,
  Forall (fun sc => Forall (fun x => size sample x = w) (snd sc)) (chunks fs 0) ->
  size (track n sample) (VL [label; VL fs]) = nbytes_track w fs.
Proof. exact nbytes_track_is_size. Qed.
Print Assumptions C02_track_nbytes_formula.

Theorem C02_platform_track_nbytes_formula : forall n sample w fs,
  Forall (fun sc => Forall (fun x => size sample x = w) (snd sc)) (chunks fs 0) ->
  size (ptrack n sample) (VL fs) = nbytes_ptrack w fs.
Proof. exact nbytes_ptrack_is_size. Qed.
Print Assumptions C02_platform_track_nbytes_formula.

(* for EMG signals (one float per sample) without any side condition *)
Corollary C02_emg_signal_nbytes : forall n label fs,
  size (track n f32) (VL [label; VL fs]) = nbytes_track 4 fs.
Proof.
  intros n label fs. apply nbytes_track_is_size.
  apply Forall_forall. intros sc _. apply Forall_forall. intros x _. reflexivity.
Qed.
Print Assumptions C02_emg_signal_nbytes.

(* fixed records have the sizes the container and the block headers rely on *)
Example C02_fixed_sizes :
  size pc_platform (VL [vints []; VL [VI 0; VI 0]; VL (repeat (VI 0) 12); VL []]) = 568 /\
  size viewport (VL [VL [VI 0; VI 0]; VL [VI 0; VI 0]]) = 16.
Proof. vm_compute. split; reflexivity. Qed.

(* C15 — channel numbers stay attached to their items through edits.
   Model: BlockAPI.v part 3.  [aligned]: the channel list and the item list have the same length and
   the channels are pairwise distinct.  Scope: channel numbers given by the caller; the starting
   block is empty, constructor-filled, or decoded from a valid encoding (distinct channels). *)
From Model Require Import Base BlockAPI.
From Proofs Require Import BaseFacts.
From Coq Require Import ZifyBool FinFun.
Open Scope Z_scope.

Definition aligned (b : cblock) : Prop := length (c_map b) = length (c_items b) /\ NoDup (c_map b).

Lemma zmem_in z l : zmem z l = true <-> In z l.
Proof.
  unfold zmem. rewrite existsb_exists. split.
  - intros [x [Hx E]]. apply Z.eqb_eq in E. now subst.
  - intros H. exists z. split; [exact H|apply Z.eqb_refl].
Qed.

Lemma zmax_ge l : forall x, In x l -> x <= zmax l.
Proof.
  induction l as [|y l IH]; cbn [In]; [tauto|]. intros x Hx. destruct l as [|z l].
  - cbn [zmax]. destruct Hx as [->|[]]. lia.
  - change (zmax (y :: z :: l)) with (Z.max y (zmax (z :: l))).
    destruct Hx as [->|H]; [lia|specialize (IH x H); lia].
Qed.

Lemma next_channel_fresh m : ~ In (next_channel m) m.
Proof.
  destruct m as [|y m]; cbn [next_channel]; [tauto|]. intros H. apply zmax_ge in H. lia.
Qed.

Lemma NoDup_snoc (l : list Z) x : NoDup l -> ~ In x l -> NoDup (l ++ [x]).
Proof.
  induction 1 as [|y l Hy Hl IH]; cbn [app]; intros Hx; [constructor; [tauto|constructor]|].
  constructor.
  - rewrite in_app_iff. cbn [In]. intros [H|[H|[]]]; [now apply Hy|subst; apply Hx; now left].
  - apply IH. intros H. apply Hx. now right.
Qed.

Lemma combine_snoc {A B} (l1 : list A) (l2 : list B) x y : length l1 = length l2 ->
  combine (l1 ++ [x]) (l2 ++ [y]) = combine l1 l2 ++ [(x, y)].
Proof.
  revert l2. induction l1 as [|a l1 IH]; intros [|b l2] H; cbn in *; try discriminate; [reflexivity|].
  f_equal. apply IH. lia.
Qed.

(* every channel of the map fits the 16-bit field it is stored in *)
Definition ranged (k : ckind) (b : cblock) : Prop := Forall (fun c => ch_ok k c = true) (c_map b).

Lemma zmax_in l : l <> [] -> In (zmax l) l.
Proof.
  induction l as [|y l IH]; [congruence|]. intros _. destruct l as [|z l].
  - cbn [zmax In]. now left.
  - assert (IH' : In (zmax (z :: l)) (z :: l)) by (apply IH; discriminate).
    change (zmax (y :: z :: l)) with (Z.max y (zmax (z :: l))).
    destruct (Z.max_spec y (zmax (z :: l))) as [[_ E]|[_ E]]; rewrite E; [now right|now left].
Qed.

Lemma next_channel_lo k m : Forall (fun c => ch_ok k c = true) m -> ch_lo k <= next_channel m.
Proof.
  intros H. destruct m as [|y m]; [destruct k; cbn; lia|]. cbn [next_channel].
  assert (Hi : In (zmax (y :: m)) (y :: m)) by (apply zmax_in; discriminate).
  rewrite Forall_forall in H. specialize (H _ Hi). unfold ch_ok in H. lia.
Qed.

Lemma auto_channel_spec k m c : Forall (fun c => ch_ok k c = true) m -> auto_channel k m = Some c ->
  ~ In c m /\ ch_ok k c = true.
Proof.
  intros Hr. unfold auto_channel. destruct (next_channel m <=? ch_hi k) eqn:E.
  - intros H. inversion H; subst. split; [apply next_channel_fresh|].
    pose proof (next_channel_lo k m Hr). unfold ch_ok. lia.
  - unfold first_free. intros H. apply find_some in H. destruct H as [_ H].
    apply andb_prop in H. destruct H as [H1 H2]. split; [|exact H2].
    intros Hi. apply zmem_in in Hi. now rewrite Hi in H1.
Qed.

(* below capacity an automatic channel always exists (pigeonhole over 0 .. length m) *)
Lemma auto_channel_exists k m : (Z.of_nat (length m) <= ch_hi k) -> auto_channel k m <> None.
Proof.
  intros Hc. unfold auto_channel. destruct (next_channel m <=? ch_hi k); [discriminate|].
  unfold first_free. intros Hn.
  assert (Hall : forall c, In c (map Z.of_nat (seq 0 (S (length m)))) -> In c m).
  { intros c Hin. pose proof (find_none _ _ Hn c Hin) as Hf. cbn beta in Hf.
    apply in_map_iff in Hin. destruct Hin as [i [<- Hi]]. apply in_seq in Hi.
    assert (ch_ok k (Z.of_nat i) = true) by (unfold ch_ok; destruct k; cbn [ch_lo ch_hi] in *; lia).
    rewrite H, andb_true_r in Hf. apply negb_false_iff in Hf. now apply zmem_in. }
  assert (Hnd : NoDup (map Z.of_nat (seq 0 (S (length m))))).
  { apply FinFun.Injective_map_NoDup; [intros x y; lia|apply seq_NoDup]. }
  pose proof (NoDup_incl_length Hnd Hall) as Hl. rewrite map_length, seq_length in Hl. lia.
Qed.

(* ---- one add ---- *)
Theorem C15_add_auto : forall k b x, aligned b -> ranged k b -> is_item x = true ->
  match auto_channel k (c_map b) with
  | Some c => ~ In c (c_map b) /\ ch_ok k c = true /\
      c_add1 k b x None = (None, mkCB (c_map b ++ [c]) (c_items b ++ [x])) /\
      aligned (snd (c_add1 k b x None)) /\ c_pairs (snd (c_add1 k b x None)) = c_pairs b ++ [(c, x)]
  | None => c_add1 k b x None = (Some EValue, b) /\ ch_hi k < Z.of_nat (length (c_map b))
  end.
Proof.
  intros k b x [Hl Hn] Hr Hx. unfold c_add1. rewrite Hx. cbn [negb].
  destruct (auto_channel k (c_map b)) as [c|] eqn:E.
  - destruct (auto_channel_spec k _ c Hr E) as [Hf Hok]. cbn [snd]. repeat split; try assumption.
    + cbn [c_map c_items]. rewrite !app_length. cbn. lia.
    + cbn [c_map]. now apply NoDup_snoc.
    + unfold c_pairs. cbn [c_map c_items]. now apply combine_snoc.
  - split; [reflexivity|]. destruct (Z_lt_le_dec (ch_hi k) (Z.of_nat (length (c_map b)))) as [H|H]; [exact H|].
    now apply (auto_channel_exists k) in H.
Qed.
Print Assumptions C15_add_auto.

Theorem C15_add_explicit : forall k b x c, aligned b -> is_item x = true ->
  (In c (c_map b) \/ ch_ok k c = false -> c_add1 k b x (Some c) = (Some EValue, b)) /\
  (~ In c (c_map b) -> ch_ok k c = true ->
       c_add1 k b x (Some c) = (None, mkCB (c_map b ++ [c]) (c_items b ++ [x])) /\
       aligned (snd (c_add1 k b x (Some c))) /\ c_pairs (snd (c_add1 k b x (Some c))) = c_pairs b ++ [(c, x)]).
Proof.
  intros k b x c [Hl Hn] Hx. unfold c_add1. rewrite Hx. cbn [negb]. split.
  - intros [Hc|Hc].
    + apply zmem_in in Hc. rewrite Hc. now destruct (ch_ok k c).
    + now rewrite Hc.
  - intros Hc Hok. rewrite Hok. cbn [negb].
    destruct (zmem c (c_map b)) eqn:E; [apply zmem_in in E; contradiction|]. cbn [snd]. repeat split.
    + cbn [c_map c_items]. rewrite !app_length. cbn. lia.
    + cbn [c_map]. now apply NoDup_snoc.
    + unfold c_pairs. cbn [c_map c_items]. now apply combine_snoc.
Qed.
Print Assumptions C15_add_explicit.

Theorem C15_add_wrong_kind : forall k b x ch, is_item x = false ->
  c_add1 k b x ch = (Some (wrong_kind_err k), b).
Proof. intros k b x ch H. unfold c_add1. now rewrite H. Qed.
Print Assumptions C15_add_wrong_kind.

(* ---- deletion at a position removes exactly that pair ---- *)
Lemma remove_nth_l_length {A} (l : list A) : forall n, (n < length l)%nat ->
  length (remove_nth_l n l) = (length l - 1)%nat.
Proof.
  induction l as [|x l IH]; intros [|n] H; cbn [remove_nth_l length] in *; try lia.
  rewrite IH by lia. lia.
Qed.

Lemma remove_nth_l_incl {A} (l : list A) : forall n x, In x (remove_nth_l n l) -> In x l.
Proof.
  induction l as [|y l IH]; intros [|n] x; cbn [remove_nth_l In]; try tauto.
  intros [H|H]; [now left|right; now apply (IH n)].
Qed.

Lemma remove_nth_l_nodup (l : list Z) : forall n, NoDup l -> NoDup (remove_nth_l n l).
Proof.
  induction l as [|y l IH]; intros [|n] H; cbn [remove_nth_l]; try assumption.
  - now inversion H.
  - inversion H as [|? ? Hy Hl]; subst. constructor; [|now apply IH].
    intros Hin. apply Hy. now apply (remove_nth_l_incl l n).
Qed.

Lemma remove_nth_l_combine {A B} (l1 : list A) : forall (l2 : list B) n,
  combine (remove_nth_l n l1) (remove_nth_l n l2) = remove_nth_l n (combine l1 l2).
Proof.
  induction l1 as [|a l1 IH]; intros [|b l2] [|n]; cbn [remove_nth_l combine]; try reflexivity;
    try (now destruct l1); try (now destruct (remove_nth_l n l1)).
  f_equal. apply IH.
Qed.

Theorem C15_delete : forall b pos, aligned b -> (pos < length (c_items b))%nat ->
  aligned (c_del b pos) /\ c_pairs (c_del b pos) = remove_nth_l pos (c_pairs b).
Proof.
  intros b pos [Hl Hn] Hp. unfold aligned, c_del, c_pairs. cbn [c_map c_items]. repeat split.
  - rewrite !remove_nth_l_length by lia. lia.
  - now apply remove_nth_l_nodup.
  - apply remove_nth_l_combine.
Qed.
Print Assumptions C15_delete.

Lemma find_index_lt {A} (p : A -> bool) l : forall pos, find_index p l = Some pos -> (pos < length l)%nat.
Proof.
  induction l as [|x l IH]; cbn [find_index length]; [discriminate|]. destruct (p x); intros pos H.
  - inversion H. lia.
  - destruct (find_index p l) as [q|]; [|discriminate]. inversion H. specialize (IH q eq_refl). lia.
Qed.

(* ---- every call keeps the block aligned, and never re-binds a surviving item ---- *)
Definition sticky (b b' : cblock) : Prop :=
  forall c x, In (c, x) (c_pairs b') -> In (c, x) (c_pairs b) \/ ~ In c (c_map b).

Lemma ranged_snoc k b c x : ranged k b -> ch_ok k c = true -> ranged k (mkCB (c_map b ++ [c]) (c_items b ++ [x])).
Proof. intros Hr Hc. unfold ranged in *. cbn [c_map]. apply Forall_app. split; [exact Hr|now constructor]. Qed.

Lemma add1_inv k b x ch : aligned b -> ranged k b ->
  aligned (snd (c_add1 k b x ch)) /\ ranged k (snd (c_add1 k b x ch)) /\ sticky b (snd (c_add1 k b x ch)).
Proof.
  intros Ha Hr. destruct (is_item x) eqn:Hx.
  - destruct ch as [c|].
    + destruct (C15_add_explicit k b x c Ha Hx) as [H1 H2].
      destruct (in_dec Z.eq_dec c (c_map b)) as [Hi|Hi]; [|destruct (ch_ok k c) eqn:Hok].
      * rewrite (H1 (or_introl Hi)). repeat split; try assumption; try apply Ha. intros c0 x0 H. now left.
      * destruct (H2 Hi eq_refl) as [E [A P]]. split; [exact A|]. split; [rewrite E; now apply ranged_snoc|].
        intros c0 x0 H. rewrite P in H.
        apply in_app_iff in H. destruct H as [H|[H|[]]]; [now left|right]. now inversion H; subst.
      * rewrite (H1 (or_intror eq_refl)). repeat split; try assumption; try apply Ha. intros c0 x0 H. now left.
    + pose proof (C15_add_auto k b x Ha Hr Hx) as H. destruct (auto_channel k (c_map b)) as [c|].
      * destruct H as [Hf [Hok [E [A P]]]]. split; [exact A|]. split; [rewrite E; now apply ranged_snoc|].
        intros c0 x0 H. rewrite P in H. apply in_app_iff in H.
        destruct H as [H|[H|[]]]; [now left|right]. now inversion H; subst.
      * destruct H as [E _]. rewrite E. repeat split; try assumption; try apply Ha. intros c0 x0 H. now left.
  - rewrite (C15_add_wrong_kind k b x ch Hx). repeat split; try assumption; try apply Ha. intros c0 x0 H. now left.
Qed.

Lemma remove_nth_l_forall {A} (P : A -> Prop) (l : list A) n : Forall P l -> Forall P (remove_nth_l n l).
Proof. rewrite !Forall_forall. intros H x Hx. apply H. now apply (remove_nth_l_incl l n). Qed.

Lemma del_inv b pos : aligned b -> (pos < length (c_items b))%nat ->
  aligned (c_del b pos) /\ sticky b (c_del b pos).
Proof.
  intros Ha Hp. destruct (C15_delete b pos Ha Hp) as [A P]. split; [exact A|].
  intros c x H. left. rewrite P in H. now apply (remove_nth_l_incl _ pos).
Qed.

Definition inv (k : ckind) (b : cblock) : Prop := aligned b /\ ranged k b.

Lemma del_inv_r k b pos : inv k b -> (pos < length (c_items b))%nat -> inv k (c_del b pos).
Proof.
  intros [Ha Hr] Hp. split; [now apply del_inv|]. unfold ranged, c_del. cbn [c_map]. now apply remove_nth_l_forall.
Qed.

Lemma add_many_inv k : forall xs b, inv k b -> inv k (snd (c_add_many k b xs)).
Proof.
  induction xs as [|[x ch] xs IH]; intros b [Ha Hr]; cbn [c_add_many]; [now split|].
  pose proof (add1_inv k b x ch Ha Hr) as [A [R _]].
  destruct (c_add1 k b x ch) as [[e|] b'] eqn:E; cbn [snd] in *; [now split|]. apply IH. now split.
Qed.

Lemma remove1_inv k ieq b key : inv k b -> inv k (snd (c_remove1 ieq b key)).
Proof.
  intros Hi. destruct key as [x|i]; cbn [c_remove1].
  - unfold c_remove_item. destruct (find_index _ _) as [pos|] eqn:E; [|exact Hi].
    apply del_inv_r; [exact Hi|now apply find_index_lt in E].
  - unfold c_remove_index. pose proof (zlength_correct (c_items b)) as Hz.
    destruct (zlength (c_items b) <=? i) eqn:E1; [exact Hi|].
    destruct (i <? - zlength (c_items b)) eqn:E2; [exact Hi|].
    apply del_inv_r; [exact Hi|]. destruct (i <? 0) eqn:E3; lia.
Qed.

Lemma remove_many_inv k ieq : forall ks b, inv k b -> inv k (snd (c_remove_many ieq b ks)).
Proof.
  induction ks as [|key ks IH]; intros b Hi; cbn [c_remove_many]; [exact Hi|].
  pose proof (remove1_inv k ieq b key Hi) as H1.
  destruct (c_remove1 ieq b key) as [[e|] b'] eqn:E; cbn [snd] in *; [exact H1|]. now apply IH.
Qed.

Theorem C15_step_aligned : forall k ieq b c, inv k b -> inv k (snd (c_step k ieq b c)).
Proof.
  intros k ieq b c Hi. pose proof Hi as [Ha Hr]. destruct c as [x ch|s|i|x|xs|ks|xs]; cbn [c_step].
  - pose proof (add1_inv k b x ch Ha Hr) as [A [R _]]. now split.
  - unfold c_remove_label. destruct (find_index _ _) as [pos|] eqn:E; [|exact Hi].
    apply del_inv_r; [exact Hi|now apply find_index_lt in E].
  - unfold c_remove_index. pose proof (zlength_correct (c_items b)) as Hz.
    destruct (zlength (c_items b) <=? i) eqn:E1; [exact Hi|].
    destruct (i <? - zlength (c_items b)) eqn:E2; [exact Hi|].
    apply del_inv_r; [exact Hi|]. destruct (i <? 0) eqn:E3; lia.
  - unfold c_remove_item. destruct (find_index _ _) as [pos|] eqn:E; [|exact Hi].
    apply del_inv_r; [exact Hi|now apply find_index_lt in E].
  - now apply add_many_inv.
  - now apply remove_many_inv.
  - apply add_many_inv. split; [split; [reflexivity|constructor]|constructor].
Qed.
Print Assumptions C15_step_aligned.

(* any sequence of calls, from any aligned start (empty, constructor-filled, decoded): the two lists stay
   index-aligned, the channels unique, and every channel fits the 16-bit field it is encoded in *)
Theorem C15_invariant : forall k ieq cs b, inv k b -> inv k (c_run k ieq b cs).
Proof.
  intros k ieq cs. induction cs as [|c cs IH]; intros b Ha; cbn [c_run fold_left]; [exact Ha|].
  apply IH. now apply C15_step_aligned.
Qed.
Print Assumptions C15_invariant.

(* the three origins satisfy the invariant *)
Theorem C15_origins : forall k,
  inv k (mkCB [] []) /\
  (forall xs, Forall (fun x => is_item x = true) xs -> (Z.of_nat (length xs) <= ch_hi k) ->
     inv k (snd (c_add_many k (mkCB [] []) (map (fun x => (x, None)) xs))) /\
     length (c_items (snd (c_add_many k (mkCB [] []) (map (fun x => (x, None)) xs)))) = length xs) /\
  (forall m its, length m = length its -> NoDup m -> Forall (fun c => ch_ok k c = true) m -> inv k (mkCB m its)).
Proof.
  intros k. assert (I0 : inv k (mkCB [] [])) by (split; [split; [reflexivity|constructor]|constructor]).
  split; [exact I0|]. split.
  - intros xs Hx.
    assert (G : forall b, inv k b -> (Z.of_nat (length (c_map b) + length xs) <= ch_hi k) ->
              inv k (snd (c_add_many k b (map (fun x => (x, None)) xs))) /\
              length (c_items (snd (c_add_many k b (map (fun x => (x, None)) xs)))) = (length (c_items b) + length xs)%nat).
    { induction Hx as [|x xs Hx1 _ IH]; intros b [Ha Hr] Hc; cbn [map c_add_many snd length]; [split; [now split|lia]|].
      pose proof (C15_add_auto k b x Ha Hr Hx1) as H. destruct (auto_channel k (c_map b)) as [c|].
      - destruct H as [_ [Hok [E [A _]]]]. rewrite E in *. cbn [snd] in A.
        assert (I2 : inv k (mkCB (c_map b ++ [c]) (c_items b ++ [x]))) by (split; [exact A|now apply ranged_snoc]).
        destruct (IH _ I2) as [A2 L2]; [cbn [c_map length] in *; rewrite app_length; cbn [length] in *; lia|].
        split; [exact A2|]. rewrite L2. cbn [c_items]. rewrite app_length. cbn. lia.
      - destruct H as [_ H]. cbn [length] in Hc. lia. }
    intros Hc. destruct (G (mkCB [] []) I0) as [A L]; [cbn [c_map length]; lia|]. split; [exact A|exact L].
  - intros m its Hl Hn Hr. split; [split; assumption|exact Hr].
Qed.
Print Assumptions C15_origins.

(* "encoding emits the pairs": the 16-bit field of the channel map (Blocks.i16 / Blocks.u16) holds exactly the
   channels the invariant admits — each comes back unchanged, and no channel outside the range could *)
Theorem C15_channel_field_exact : forall k c,
  (ch_ok k c = true -> int_of_unsigned 2 (ch_lo k) (ch_hi k + 1) (le_val (le_bytes 2 c)) = Some c) /\
  (ch_ok k c = false -> int_of_unsigned 2 (ch_lo k) (ch_hi k + 1) (le_val (le_bytes 2 c)) <> Some c).
Proof.
  intros k c. assert (P : pow256 2 = 65536) by reflexivity. split; intros H.
  - rewrite le_val_le_bytes. apply int_of_unsigned_mod; rewrite ?P; unfold ch_ok in H; destruct k; cbn [ch_lo ch_hi] in *; lia.
  - intros E. apply int_of_unsigned_inv in E.
    + unfold ch_ok in H. lia.
    + rewrite le_val_le_bytes. apply Z.mod_pos_bound. rewrite P. lia.
Qed.
Print Assumptions C15_channel_field_exact.

Theorem C15_map_field_exact : forall k ieq cs b, inv k b ->
  map (fun c => int_of_unsigned 2 (ch_lo k) (ch_hi k + 1) (le_val (le_bytes 2 c))) (c_map (c_run k ieq b cs))
  = map Some (c_map (c_run k ieq b cs)).
Proof.
  intros k ieq cs b Hi. destruct (C15_invariant k ieq cs b Hi) as [_ Hr]. unfold ranged in Hr.
  induction Hr as [|c m Hc _ IH]; [reflexivity|]. cbn [map]. rewrite IH. f_equal. now apply C15_channel_field_exact.
Qed.
Print Assumptions C15_map_field_exact.

(* removal by position / label / item deletes exactly one pair and re-binds nothing *)
Theorem C15_remove_exact : forall b s pos, aligned b ->
  find_index (fun t => zs_eqb (o_label t) s) (c_items b) = Some pos ->
  c_remove_label b s = (None, c_del b pos) /\ c_pairs (c_del b pos) = remove_nth_l pos (c_pairs b).
Proof.
  intros b s pos Ha E. unfold c_remove_label. rewrite E. split; [reflexivity|].
  apply C15_delete; [exact Ha|now apply find_index_lt in E].
Qed.
Print Assumptions C15_remove_exact.

Example C15_example :
  let i1 := OItem 1 [65] 3 in let i2 := OItem 2 [66] 3 in let i3 := OItem 3 [67] 3 in
  let b := c_run KEmg (fun _ _ => false) (mkCB [] [])
             [CAdd i1 (Some 7); CAdd i2 None; CAdd i3 (Some 7); CAdd i3 (Some 2); CRemoveLabel [66]; CAdd i2 None] in
  c_pairs b = [(7, i1); (2, i3); (8, i2)] /\ aligned b.
Proof.
  cbn zeta. split; [vm_compute; reflexivity|]. vm_compute. split; [reflexivity|].
  repeat constructor; cbn; intuition discriminate.
Qed.

(* C15 — channel numbers stay attached to their items through edits.
   Model: BlockAPI.v part 3.  [aligned]: the channel list and the item list have the same length and
   the channels are pairwise distinct.  Scope: channel numbers given by the caller; the starting
   block is empty, constructor-filled, or decoded from a valid encoding (distinct channels). *)
From Model Require Import Base BlockAPI.
From Proofs Require Import BaseFacts.
From Coq Require Import ZifyBool.
Open Scope Z_scope.

Definition aligned (b : cblock) : Prop := length (c_map b) = length (c_items b) /\ NoDup (c_map b).

Lemma zmem_in z l : zmem z l = true <-> In z l.
Proof.
  unfold zmem. rewrite existsb_exists. split.
  - intros [x [Hx E]]. apply Z.eqb_eq in E. now subst.
  - intros H. exists z. split; [exact H|apply Z.eqb_refl].
Qed.

Lemma zmax_ge l : forall x, In x l -> x <= zmax l.
Proof. induction l as [|y l IH]; cbn [In zmax]; [tauto|]. intros x [->|H]; [lia|specialize (IH x H); lia]. Qed.

Lemma next_channel_fresh m : ~ In (next_channel m) m.
Proof.
  destruct m as [|y m]; cbn [next_channel]; [tauto|]. intros H. apply zmax_ge in H. lia.
Qed.

Lemma NoDup_snoc (l : list Z) x : NoDup l -> ~ In x l -> NoDup (l ++ [x]).
Proof.
  induction 1 as [|y l Hy Hl IH]; cbn [app]; intros Hx; [constructor; [tauto|constructor]|].
  constructor.
  - rewrite in_app_iff. cbn [In]. intros [H|[H|[]]]; [now apply Hy|subst; apply Hx; now left].
  - apply IH. intros H. apply Hx. now right.
Qed.

Lemma combine_snoc {A B} (l1 : list A) (l2 : list B) x y : length l1 = length l2 ->
  combine (l1 ++ [x]) (l2 ++ [y]) = combine l1 l2 ++ [(x, y)].
Proof.
  revert l2. induction l1 as [|a l1 IH]; intros [|b l2] H; cbn in *; try discriminate; [reflexivity|].
  f_equal. apply IH. lia.
Qed.

(* ---- one add ---- *)
Theorem C15_add_auto : forall k b x, aligned b -> is_item x = true ->
  exists c, ~ In c (c_map b) /\
    c_add1 k b x None = (None, mkCB (c_map b ++ [c]) (c_items b ++ [x])) /\
    aligned (snd (c_add1 k b x None)) /\ c_pairs (snd (c_add1 k b x None)) = c_pairs b ++ [(c, x)].
Proof.
  intros k b x [Hl Hn] Hx. exists (next_channel (c_map b)). unfold c_add1. rewrite Hx. cbn [negb snd].
  pose proof (next_channel_fresh (c_map b)) as Hf. repeat split.
  - exact Hf.
  - cbn [c_map c_items]. rewrite !app_length. cbn. lia.
  - cbn [c_map]. now apply NoDup_snoc.
  - unfold c_pairs. cbn [c_map c_items]. now apply combine_snoc.
Qed.
Print Assumptions C15_add_auto.

Theorem C15_add_explicit : forall k b x c, aligned b -> is_item x = true ->
  (In c (c_map b) -> c_add1 k b x (Some c) = (Some EValue, b)) /\
  (~ In c (c_map b) -> c_add1 k b x (Some c) = (None, mkCB (c_map b ++ [c]) (c_items b ++ [x])) /\
       aligned (snd (c_add1 k b x (Some c))) /\ c_pairs (snd (c_add1 k b x (Some c))) = c_pairs b ++ [(c, x)]).
Proof.
  intros k b x c [Hl Hn] Hx. unfold c_add1. rewrite Hx. cbn [negb]. split; intros Hc.
  - apply zmem_in in Hc. now rewrite Hc.
  - destruct (zmem c (c_map b)) eqn:E; [apply zmem_in in E; contradiction|]. cbn [snd]. repeat split.
    + cbn [c_map c_items]. rewrite !app_length. cbn. lia.
    + cbn [c_map]. now apply NoDup_snoc.
    + unfold c_pairs. cbn [c_map c_items]. now apply combine_snoc.
Qed.
Print Assumptions C15_add_explicit.

Theorem C15_add_wrong_kind : forall k b x ch, is_item x = false ->
  c_add1 k b x ch = (Some (wrong_kind_err k), b).
Proof. intros k b x ch H. unfold c_add1. now rewrite H. Qed.
Print Assumptions C15_add_wrong_kind.

(* ---- deletion at a position removes exactly that pair ---- *)
Lemma remove_nth_l_length {A} (l : list A) : forall n, (n < length l)%nat ->
  length (remove_nth_l n l) = (length l - 1)%nat.
Proof.
  induction l as [|x l IH]; intros [|n] H; cbn [remove_nth_l length] in *; try lia.
  rewrite IH by lia. lia.
Qed.

Lemma remove_nth_l_incl {A} (l : list A) : forall n x, In x (remove_nth_l n l) -> In x l.
Proof.
  induction l as [|y l IH]; intros [|n] x; cbn [remove_nth_l In]; try tauto.
  intros [H|H]; [now left|right; now apply (IH n)].
Qed.

Lemma remove_nth_l_nodup (l : list Z) : forall n, NoDup l -> NoDup (remove_nth_l n l).
Proof.
  induction l as [|y l IH]; intros [|n] H; cbn [remove_nth_l]; try assumption.
  - now inversion H.
  - inversion H as [|? ? Hy Hl]; subst. constructor; [|now apply IH].
    intros Hin. apply Hy. now apply (remove_nth_l_incl l n).
Qed.

Lemma remove_nth_l_combine {A B} (l1 : list A) : forall (l2 : list B) n,
  combine (remove_nth_l n l1) (remove_nth_l n l2) = remove_nth_l n (combine l1 l2).
Proof.
  induction l1 as [|a l1 IH]; intros [|b l2] [|n]; cbn [remove_nth_l combine]; try reflexivity;
    try (now destruct l1); try (now destruct (remove_nth_l n l1)).
  f_equal. apply IH.
Qed.

Theorem C15_delete : forall b pos, aligned b -> (pos < length (c_items b))%nat ->
  aligned (c_del b pos) /\ c_pairs (c_del b pos) = remove_nth_l pos (c_pairs b).
Proof.
  intros b pos [Hl Hn] Hp. unfold aligned, c_del, c_pairs. cbn [c_map c_items]. repeat split.
  - rewrite !remove_nth_l_length by lia. lia.
  - now apply remove_nth_l_nodup.
  - apply remove_nth_l_combine.
Qed.
Print Assumptions C15_delete.

Lemma find_index_lt {A} (p : A -> bool) l : forall pos, find_index p l = Some pos -> (pos < length l)%nat.
Proof.
  induction l as [|x l IH]; cbn [find_index length]; [discriminate|]. destruct (p x); intros pos H.
  - inversion H. lia.
  - destruct (find_index p l) as [q|]; [|discriminate]. inversion H. specialize (IH q eq_refl). lia.
Qed.

(* ---- every call keeps the block aligned, and never re-binds a surviving item ---- *)
Definition sticky (b b' : cblock) : Prop :=
  forall c x, In (c, x) (c_pairs b') -> In (c, x) (c_pairs b) \/ ~ In c (c_map b).

Lemma add1_inv k b x ch : aligned b -> aligned (snd (c_add1 k b x ch)) /\ sticky b (snd (c_add1 k b x ch)).
Proof.
  intros Ha. destruct (is_item x) eqn:Hx.
  - destruct ch as [c|].
    + destruct (C15_add_explicit k b x c Ha Hx) as [H1 H2]. destruct (in_dec Z.eq_dec c (c_map b)) as [Hi|Hi].
      * rewrite (H1 Hi). split; [exact Ha|]. intros c0 x0 H. now left.
      * destruct (H2 Hi) as [E [A P]]. split; [exact A|]. intros c0 x0 H. rewrite P in H.
        apply in_app_iff in H. destruct H as [H|[H|[]]]; [now left|right]. now inversion H; subst.
    + destruct (C15_add_auto k b x Ha Hx) as [c [Hf [E [A P]]]]. split; [exact A|]. intros c0 x0 H.
      rewrite P in H. apply in_app_iff in H. destruct H as [H|[H|[]]]; [now left|right]. now inversion H; subst.
  - rewrite (C15_add_wrong_kind k b x ch Hx). split; [exact Ha|]. intros c0 x0 H. now left.
Qed.

Lemma del_inv b pos : aligned b -> (pos < length (c_items b))%nat ->
  aligned (c_del b pos) /\ sticky b (c_del b pos).
Proof.
  intros Ha Hp. destruct (C15_delete b pos Ha Hp) as [A P]. split; [exact A|].
  intros c x H. left. rewrite P in H. now apply (remove_nth_l_incl _ pos).
Qed.

Theorem C15_step_aligned : forall k ieq b c, aligned b -> aligned (snd (c_step k ieq b c)).
Proof.
  intros k ieq b c Ha. destruct c as [x ch|s|i|x|xs|xs]; cbn [c_step].
  - now apply add1_inv.
  - unfold c_remove_label. destruct (find_index _ _) as [pos|] eqn:E; [|exact Ha].
    apply del_inv; [exact Ha|now apply find_index_lt in E].
  - unfold c_remove_index. pose proof (zlength_correct (c_items b)) as Hz.
    destruct (zlength (c_items b) <=? i) eqn:E1; [exact Ha|].
    destruct (i <? - zlength (c_items b)) eqn:E2; [exact Ha|].
    apply del_inv; [exact Ha|]. destruct (i <? 0) eqn:E3; lia.
  - unfold c_remove_item. destruct (find_index _ _) as [pos|] eqn:E; [|exact Ha].
    apply del_inv; [exact Ha|now apply find_index_lt in E].
  - revert b Ha. induction xs as [|[x ch] xs IH]; intros b Ha; cbn [c_add_many]; [exact Ha|].
    destruct (c_add1 k b x ch) as [[e|] b'] eqn:E.
    + pose proof (add1_inv k b x ch Ha) as [A _]. now rewrite E in A.
    + apply IH. pose proof (add1_inv k b x ch Ha) as [A _]. now rewrite E in A.
  - assert (Ha0 : aligned (mkCB [] [])) by (split; [reflexivity|constructor]).
    generalize (mkCB [] []) Ha0. clear b Ha Ha0.
    induction xs as [|[x ch] xs IH]; intros b Ha; cbn [c_add_many]; [exact Ha|].
    destruct (c_add1 k b x ch) as [[e|] b'] eqn:E.
    + pose proof (add1_inv k b x ch Ha) as [A _]. now rewrite E in A.
    + apply IH. pose proof (add1_inv k b x ch Ha) as [A _]. now rewrite E in A.
Qed.
Print Assumptions C15_step_aligned.

(* any sequence of calls, from any aligned start (empty, constructor-filled, decoded) *)
Theorem C15_invariant : forall k ieq cs b, aligned b -> aligned (c_run k ieq b cs).
Proof.
  intros k ieq cs. induction cs as [|c cs IH]; intros b Ha; cbn [c_run fold_left]; [exact Ha|].
  apply IH. now apply C15_step_aligned.
Qed.
Print Assumptions C15_invariant.

(* the three origins are aligned *)
Theorem C15_origins : forall k,
  aligned (mkCB [] []) /\
  (forall xs, Forall (fun x => is_item x = true) xs ->
     aligned (snd (c_add_many k (mkCB [] []) (map (fun x => (x, None)) xs))) /\
     length (c_items (snd (c_add_many k (mkCB [] []) (map (fun x => (x, None)) xs)))) = length xs) /\
  (forall m its, length m = length its -> NoDup m -> aligned (mkCB m its)).
Proof.
  intros k. split; [split; [reflexivity|constructor]|]. split.
  - intros xs Hx.
    assert (G : forall b, aligned b ->
              aligned (snd (c_add_many k b (map (fun x => (x, None)) xs))) /\
              length (c_items (snd (c_add_many k b (map (fun x => (x, None)) xs)))) = (length (c_items b) + length xs)%nat).
    { induction Hx as [|x xs Hx1 _ IH]; intros b Ha; cbn [map c_add_many snd length]; [split; [exact Ha|lia]|].
      destruct (C15_add_auto k b x Ha Hx1) as [c [_ [E [A _]]]]. rewrite E in *. cbn [snd] in A.
      destruct (IH _ A) as [A2 L2]. split; [exact A2|]. rewrite L2. cbn [c_items]. rewrite app_length. cbn. lia. }
    destruct (G (mkCB [] [])) as [A L]; [split; [reflexivity|constructor]|]. split; [exact A|exact L].
  - intros m its Hl Hn. split; assumption.
Qed.
Print Assumptions C15_origins.

(* removal by position / label / item deletes exactly one pair and re-binds nothing *)
Theorem C15_remove_exact : forall b s pos, aligned b ->
  find_index (fun t => zs_eqb (o_label t) s) (c_items b) = Some pos ->
  c_remove_label b s = (None, c_del b pos) /\ c_pairs (c_del b pos) = remove_nth_l pos (c_pairs b).
Proof.
  intros b s pos Ha E. unfold c_remove_label. rewrite E. split; [reflexivity|].
  apply C15_delete; [exact Ha|now apply find_index_lt in E].
Qed.
Print Assumptions C15_remove_exact.

Example C15_example :
  let i1 := OItem 1 [65] 3 in let i2 := OItem 2 [66] 3 in let i3 := OItem 3 [67] 3 in
  let b := c_run KEmg (fun _ _ => false) (mkCB [] [])
             [CAdd i1 (Some 7); CAdd i2 None; CAdd i3 (Some 7); CAdd i3 (Some 2); CRemoveLabel [66]; CAdd i2 None] in
  c_pairs b = [(7, i1); (2, i3); (8, i2)] /\ aligned b.
Proof.
  cbn zeta. split; [vm_compute; reflexivity|]. vm_compute. split; [reflexivity|].
  repeat constructor; cbn; intuition discriminate.
Qed.

(* C18 — lookup by index, by label, membership, iteration and length are coherent.
   Model: BlockAPI.v part 1 (the four block kinds share one implementation pattern over the item
   list: Data3D._tracks, ForceTorque3D._tracks, EMG._signals, TemporalEventsData.events).
   Labels are compared exactly (code point by code point): case and blanks matter. *)
From Model Require Import Base BlockAPI.
From Proofs Require Import BaseFacts.
From Coq Require Import ZifyBool.
Open Scope Z_scope.

Lemma zs_eqb_eq a : forall b, zs_eqb a b = true <-> a = b.
Proof.
  induction a as [|x a IH]; intros [|y b]; cbn [zs_eqb]; try (split; [discriminate|intros H; inversion H]).
  - split; reflexivity.
  - rewrite andb_true_iff, Z.eqb_eq, IH. split; [intros [-> ->]; reflexivity|intros H; now inversion H].
Qed.

(* the length is the number of items iteration yields *)
Theorem C18_len_iter : forall l, b_len l = Z.of_nat (length (b_iter l)).
Proof. intros l. apply zlength_correct. Qed.
Print Assumptions C18_len_iter.

(* indexing by position i returns the i-th iterated item; negative indices count from the end;
   anything else raises IndexError *)
Theorem C18_index : forall l i,
  (0 <= i < b_len l -> getitem l (OInt i) = Ok (nth (Z.to_nat i) (b_iter l) ONone)) /\
  (- b_len l <= i < 0 -> getitem l (OInt i) = Ok (nth (Z.to_nat (i + b_len l)) (b_iter l) ONone)) /\
  (i < - b_len l \/ b_len l <= i -> getitem l (OInt i) = Err EIndex).
Proof.
  intros l i. unfold getitem, getitem_int, b_len, b_iter. pose proof (zlength_nonneg l). repeat split; intros Hi.
  - destruct ((- zlength l <=? i) && (i <? zlength l)) eqn:E; [|lia].
    destruct (i <? 0) eqn:E2; [lia|reflexivity].
  - destruct ((- zlength l <=? i) && (i <? zlength l)) eqn:E; [|lia].
    destruct (i <? 0) eqn:E2; [reflexivity|lia].
  - destruct ((- zlength l <=? i) && (i <? zlength l)) eqn:E; [lia|reflexivity].
Qed.
Print Assumptions C18_index.

(* indexing by label returns the FIRST item carrying that label, KeyError when there is none *)
Theorem C18_label : forall l s,
  (forall pre t post, l = pre ++ t :: post -> o_label t = s ->
                      Forall (fun u => o_label u <> s) pre -> getitem l (OStr s) = Ok t) /\
  (Forall (fun u => o_label u <> s) l -> getitem l (OStr s) = Err EKey).
Proof.
  intros l s. unfold getitem, getitem_str. split.
  - intros pre t post -> Ht Hpre. induction Hpre as [|u pre Hu _ IH]; cbn [app find].
    + assert (zs_eqb (o_label t) s = true) as -> by now apply zs_eqb_eq. reflexivity.
    + destruct (zs_eqb (o_label u) s) eqn:E; [apply zs_eqb_eq in E; contradiction|exact IH].
  - intros H. induction H as [|u l Hu _ IH]; cbn [find]; [reflexivity|].
    destruct (zs_eqb (o_label u) s) eqn:E; [apply zs_eqb_eq in E; contradiction|exact IH].
Qed.
Print Assumptions C18_label.

(* a label is reported as contained exactly when lookup by it succeeds *)
Theorem C18_contains : forall ieq l s,
  contains ieq l (OStr s) = Ok true <-> exists t, getitem l (OStr s) = Ok t.
Proof.
  intros ieq l s. unfold contains, contains_str, getitem, getitem_str.
  induction l as [|u l IH]; cbn [existsb find].
  - split; [discriminate|intros [t H]; discriminate].
  - destruct (zs_eqb (o_label u) s); cbn [orb]; [split; [intros _; now exists u|reflexivity]|exact IH].
Qed.
Print Assumptions C18_contains.

(* an unsupported key type raises TypeError *)
Theorem C18_bad_key : forall ieq l k,
  (match k with OInt _ | OStr _ => False | _ => True end -> getitem l k = Err EType) /\
  (match k with OStr _ | OItem _ _ _ => False | _ => True end -> contains ieq l k = Err EType).
Proof. intros ieq l k. destruct k; cbn; split; intros H; try reflexivity; contradiction. Qed.
Print Assumptions C18_bad_key.

(* membership of an item is membership in the iterated list up to the item class's == *)
Theorem C18_contains_item : forall ieq l id lb n,
  contains ieq l (OItem id lb n) = Ok true <-> exists t, In t (b_iter l) /\ ieq (OItem id lb n) t = true.
Proof.
  intros ieq l id lb n. unfold contains, b_iter. split.
  - intros H. assert (H1 : existsb (ieq (OItem id lb n)) l = true) by congruence.
    apply existsb_exists in H1. exact H1.
  - intros H. f_equal. apply existsb_exists. exact H.
Qed.
Print Assumptions C18_contains_item.

(* none of these operations changes the block: they are functions of the list, which they do not return *)
Example C18_example :
  let l := [OItem 1 [99; 55] 3; OItem 2 [] 3; OItem 3 [99; 55] 3; OItem 4 [67; 55] 3] in
  b_len l = 4 /\ getitem l (OInt (-1)) = Ok (OItem 4 [67; 55] 3) /\ getitem l (OInt 4) = Err EIndex /\
  getitem l (OStr [99; 55]) = Ok (OItem 1 [99; 55] 3) /\ getitem l (OStr [99; 56]) = Err EKey /\
  getitem l (OStr []) = Ok (OItem 2 [] 3) /\ getitem l ONone = Err EType /\
  contains (fun _ _ => false) l (OStr [67; 55]) = Ok true /\ contains (fun _ _ => false) l (OInt 0) = Err EType.
Proof. vm_compute. repeat split; reflexivity. Qed.

(* C20 — separately created blocks share no state.
   Model: Heap.v (an explicit heap of list objects and item objects; blocks hold references).
   Scope, as the property words it: blocks created by SEPARATE constructor or decode calls; a caller
   who hands the same list object to two constructors, or puts the same track object into two
   blocks, has created the sharing himself (op_ok / the hypothesis of C20_frame on HEdit). *)
From Model Require Import Base Heap.
From Proofs Require Import HeapFacts.
Open Scope Z_scope.

Fixpoint ops_ok (s : hstate) (os : list hop) : Prop :=
  match os with [] => True | o :: r => op_ok s o /\ ops_ok (h_step s o) r end.

(* in every state reachable by any interleaving of construction, decoding, insertion, removal,
   in-place edits, list assignment and encoding, no two blocks use the same container, and every
   reference points at an allocated object *)
Theorem C20_separated : forall os, ops_ok h_init os -> Sep (h_run h_init os).
Proof. intros os H. apply Sep_run; [apply Sep_init|exact H]. Qed.
Print Assumptions C20_separated.

Corollary C20_distinct_containers : forall os h1 h2 l, ops_ok h_init os ->
  h_blocks (h_run h_init os) h1 = Some l -> h_blocks (h_run h_init os) h2 = Some l -> h1 = h2.
Proof. intros os h1 h2 l H. apply (sep_inj _ (C20_separated os H)). Qed.
Print Assumptions C20_distinct_containers.

(* adding, removing or editing items of one block never changes what another contains or encodes *)
Theorem C20_frame : forall s o h, Sep s -> op_ok s o -> target o <> Some h ->
  (forall h' i lid its it, o = HEdit h' i -> h_blocks s h' = Some lid -> h_lists s lid = Some its ->
                           nth_error its i = Some it -> ~ In it (items_of s h)) ->
  content (h_step s o) h = content s h.
Proof. exact frame. Qed.
Print Assumptions C20_frame.

(* a block constructed without items starts empty no matter what was done to earlier instances *)
Theorem C20_fresh_empty : forall s h, content (h_step s (HNew h None)) h = Some [].
Proof.
  intros s h. unfold content. cbn [h_step h_blocks h_lists]. now rewrite !fupd_same.
Qed.
Print Assumptions C20_fresh_empty.

(* decoding the same bytes twice yields two blocks with no object in common *)
Theorem C20_decode_twice : forall s h1 h2 k, Sep s -> h1 <> h2 ->
  let s2 := h_step (h_step s (HDecode h1 k)) (HDecode h2 k) in
  (forall it, In it (items_of s2 h1) -> ~ In it (items_of s2 h2)) /\
  (exists l1 l2, h_blocks s2 h1 = Some l1 /\ h_blocks s2 h2 = Some l2 /\ l1 <> l2).
Proof.
  intros s h1 h2 k HS Hne. cbn zeta. cbn [h_step h_next]. unfold items_of. cbn [h_blocks h_lists].
  rewrite fupd_same. rewrite (fupd_other h2) by exact Hne. rewrite fupd_same.
  rewrite fupd_same. rewrite fupd_other by lia. rewrite fupd_same. split.
  - intros it H1 H2.
    pose proof (zseq_bounds k (h_next s + 1)) as B1. rewrite Forall_forall in B1. specialize (B1 it H1).
    pose proof (zseq_bounds k (h_next s + 1 + Z.of_nat k + 1)) as B2. rewrite Forall_forall in B2. specialize (B2 it H2).
    lia.
  - eexists. eexists. split; [reflexivity|split; [reflexivity|lia]].
Qed.
Print Assumptions C20_decode_twice.

(* non-vacuity: three blocks, interleaved edits *)
Example C20_example :
  let os := [HNew 1 None; HNew 2 None; HAdd 1; HDecode 3 2; HAdd 1; HEdit 3 0; HRemove 1 0; HNew 4 None; HAssign 2 3; HAdd 2] in
  ops_ok h_init os /\
  content (h_run h_init os) 1 = Some [(6, Some 0)] /\
  content (h_run h_init os) 2 = Some [(4, Some 1); (5, Some 0); (9, Some 0)] /\
  content (h_run h_init os) 3 = Some [(4, Some 1); (5, Some 0)] /\
  content (h_run h_init os) 4 = Some [].
Proof. cbn zeta. split; [cbn; repeat split|vm_compute; repeat split; reflexivity]. Qed.

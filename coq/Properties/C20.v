(* C20 — separately created blocks share no state.
   Model: Heap.v (an explicit heap of list objects and item objects; blocks hold references).
   Scope, as the property words it: blocks created by SEPARATE constructor or decode calls, with or
   without an explicit item list — also the SAME list handed to two constructors (a constructor takes the
   items over into a list of the block's own, C20_two_blocks_from_one_list); only a caller who puts the
   same track OBJECT into two blocks has created that sharing himself (the hypothesis of C20_frame on
   HEdit). *)
From Model Require Import Base Heap Buffers.
From Proofs Require Import HeapFacts BufferFacts.
Open Scope Z_scope.

Fixpoint ops_ok (s : hstate) (os : list hop) : Prop :=
  match os with [] => True | o :: r => op_ok s o /\ ops_ok (h_step s o) r end.

(* in every state reachable by any interleaving of construction, decoding, insertion, removal,
   in-place edits, list assignment and encoding, no two blocks use the same container, and every
   reference points at an allocated object *)
Theorem C20_separated : forall os, ops_ok h_init os -> Sep (h_run h_init os).
Proof. intros os H. apply Sep_run; [apply Sep_init|exact H]. Qed.
Print Assumptions C20_separated.

Corollary C20_distinct_containers : forall os h1 h2 l, ops_ok h_init os ->
  h_blocks (h_run h_init os) h1 = Some l -> h_blocks (h_run h_init os) h2 = Some l -> h1 = h2.
Proof. intros os h1 h2 l H. apply (sep_inj _ (C20_separated os H)). Qed.
Print Assumptions C20_distinct_containers.

(* adding, removing or editing items of one block never changes what another contains or encodes *)
Theorem C20_frame : forall s o h, Sep s -> op_ok s o -> target o <> Some h ->
  (forall h' i lid its it, o = HEdit h' i -> h_blocks s h' = Some lid -> h_lists s lid = Some its ->
                           nth_error its i = Some it -> ~ In it (items_of s h)) ->
  content (h_step s o) h = content s h.
Proof. exact frame. Qed.
Print Assumptions C20_frame.

(* a block constructed without items starts empty no matter what was done to earlier instances *)
Theorem C20_fresh_empty : forall s h, content (h_step s (HNew h None)) h = Some [].
Proof.
  intros s h. unfold content. cbn [h_step h_blocks h_lists]. now rewrite !fupd_same.
Qed.
Print Assumptions C20_fresh_empty.

(* decoding the same bytes twice yields two blocks with no object in common *)
Theorem C20_decode_twice : forall s h1 h2 k, Sep s -> h1 <> h2 ->
  let s2 := h_step (h_step s (HDecode h1 k)) (HDecode h2 k) in
  (forall it, In it (items_of s2 h1) -> ~ In it (items_of s2 h2)) /\
  (exists l1 l2, h_blocks s2 h1 = Some l1 /\ h_blocks s2 h2 = Some l2 /\ l1 <> l2).
Proof.
  intros s h1 h2 k HS Hne. cbn zeta. cbn [h_step h_next]. unfold items_of. cbn [h_blocks h_lists].
  rewrite fupd_same. rewrite (fupd_other h2) by exact Hne. rewrite fupd_same.
  rewrite fupd_same. rewrite fupd_other by lia. rewrite fupd_same. split.
  - intros it H1 H2.
    pose proof (zseq_bounds k (h_next s + 1)) as B1. rewrite Forall_forall in B1. specialize (B1 it H1).
    pose proof (zseq_bounds k (h_next s + 1 + Z.of_nat k + 1)) as B2. rewrite Forall_forall in B2. specialize (B2 it H2).
    lia.
  - eexists. eexists. split; [reflexivity|split; [reflexivity|lia]].
Qed.
Print Assumptions C20_decode_twice.

(* one caller-side list handed to two constructors: both blocks hold its items, each in a container of its own —
   adding to or removing from one changes neither the other block nor the caller's list *)
Theorem C20_two_blocks_from_one_list : forall s lid its h1 h2, Sep s -> h1 <> h2 ->
  h_blocks s h1 = None -> h_blocks s h2 = None -> h_lists s lid = Some its ->
  let s2 := h_step (h_step s (HNew h1 (Some lid))) (HNew h2 (Some lid)) in
  content s2 h1 = Some (map (fun it => (it, h_vers s it)) its) /\ content s2 h2 = content s2 h1 /\
  (exists l1 l2, h_blocks s2 h1 = Some l1 /\ h_blocks s2 h2 = Some l2 /\ l1 <> l2 /\ l1 <> lid /\ l2 <> lid) /\
  forall o, (o = HAdd h1 \/ exists i, o = HRemove h1 i) ->
            content (h_step s2 o) h2 = content s2 h2 /\ h_lists (h_step s2 o) lid = Some its.
Proof.
  intros s lid its h1 h2 HS Hne Hb1 Hb2 Hl s2.
  destruct (sep_lst s HS lid its Hl) as [Hlid _].
  set (s1 := h_step s (HNew h1 (Some lid))) in *.
  assert (E1 : s1 = mkH (h_next s + 1) (fupd (h_next s) its (h_lists s)) (h_vers s) (fupd h1 (h_next s) (h_blocks s)))
    by (now apply new_given_eq).
  assert (Hl1 : h_lists s1 lid = Some its) by (rewrite E1; cbn [h_lists]; rewrite fupd_other by lia; exact Hl).
  assert (Hs1 : Sep s1) by (apply Sep_step; [exact HS|cbn; split; [exact Hb1|now exists its]]).
  assert (E2 : s2 = mkH (h_next s1 + 1) (fupd (h_next s1) its (h_lists s1)) (h_vers s1) (fupd h2 (h_next s1) (h_blocks s1)))
    by (now apply new_given_eq).
  assert (Hs2 : Sep s2).
  { apply Sep_step; [exact Hs1|]. cbn [op_ok]. split; [|now exists its].
    rewrite E1. cbn [h_blocks]. rewrite fupd_other by congruence. exact Hb2. }
  assert (N1 : h_next s1 = h_next s + 1) by (now rewrite E1).
  assert (B1 : h_blocks s2 h1 = Some (h_next s)).
  { rewrite E2. cbn [h_blocks]. rewrite fupd_other by exact Hne. rewrite E1. cbn [h_blocks]. apply fupd_same. }
  assert (B2 : h_blocks s2 h2 = Some (h_next s + 1)).
  { rewrite E2. cbn [h_blocks]. rewrite fupd_same. now rewrite N1. }
  assert (L1 : h_lists s2 (h_next s) = Some its).
  { rewrite E2. cbn [h_lists]. rewrite fupd_other by lia. rewrite E1. cbn [h_lists]. apply fupd_same. }
  assert (L2 : h_lists s2 (h_next s + 1) = Some its).
  { rewrite E2. cbn [h_lists]. rewrite N1. apply fupd_same. }
  assert (L0 : h_lists s2 lid = Some its).
  { rewrite E2. cbn [h_lists]. rewrite fupd_other by lia. exact Hl1. }
  assert (V : h_vers s2 = h_vers s) by (rewrite E2, E1; reflexivity).
  repeat split.
  - unfold content. now rewrite B1, L1, V.
  - unfold content. now rewrite B1, B2, L1, L2.
  - exists (h_next s), (h_next s + 1). repeat split; try assumption; lia.
  - destruct H as [-> | [i ->]]; (apply frame; [exact Hs2|exact I|cbn; congruence|intros; discriminate]).
  - destruct H as [-> | [i ->]]; cbn [h_step]; rewrite B1, L1; cbn [h_lists]; rewrite fupd_other by lia; exact L0.
Qed.
Print Assumptions C20_two_blocks_from_one_list.

(* non-vacuity: three blocks, interleaved edits *)
Example C20_example :
  let os := [HNew 1 None; HNew 2 None; HAdd 1; HDecode 3 2; HAdd 1; HEdit 3 0; HRemove 1 0; HNew 4 None; HAssign 2 3; HAdd 2] in
  ops_ok h_init os /\
  content (h_run h_init os) 1 = Some [(6, Some 0)] /\
  content (h_run h_init os) 2 = Some [(4, Some 1); (5, Some 0); (9, Some 0)] /\
  content (h_run h_init os) 3 = Some [(4, Some 1); (5, Some 0)] /\
  content (h_run h_init os) 4 = Some [].
Proof. cbn zeta. split; [cbn; repeat split|vm_compute; repeat split; reflexivity]. Qed.


(* ---------- the numbers of an item (Buffers.v): "event values copied into a fresh array" ----------
   Items built by separate constructor calls from ONE caller-side source: when the constructor has to convert the
   source (a list, a tuple, an array of another dtype, array.array, a memoryview, an __array__ provider) each item gets a
   buffer that no other item and no source uses — in every reachable state —, so editing one item's values in place
   changes neither the other items nor the caller's source. *)
Lemma item_from_converted s src b0 : bs_src s src = Some (SConvert, b0) ->
  bs_next (b_step s (BItem src)) = bs_next s + 2 /\
  bs_item (b_step s (BItem src)) = fupd (bs_next s) (bs_next s + 1) (bs_item s) /\
  bs_src (b_step s (BItem src)) = bs_src s.
Proof. intros Es. cbn [b_step]. rewrite Es. repeat split. Qed.

Theorem C20_converted_items_own_their_buffer : forall os src b0,
  let s := b_run bs_init os in
  bs_src s src = Some (SConvert, b0) ->
  let s1 := b_step s (BItem src) in let it1 := bs_next s in
  let s2 := b_step s1 (BItem src) in let it2 := bs_next s1 in
  let s3 := b_step s2 (BEditItem it1) in
  item_ver s3 it2 = item_ver s2 it2 /\ src_ver s3 src = src_ver s2 src /\
  (forall it b, it <> it1 -> bs_item s2 it = Some b -> item_ver s3 it = item_ver s2 it).
Proof.
  intros os src b0 s Es s1 it1 s2 it2 s3.
  assert (Hb : bbound s) by (apply b_run_bound, bbound_init).
  destruct (item_from_converted s src b0 Es) as [N1 [I1 S1]]. fold s1 in N1, I1, S1.
  assert (Es1 : bs_src s1 src = Some (SConvert, b0)) by (rewrite S1; exact Es).
  destruct (item_from_converted s1 src b0 Es1) as [N2 [I2 S2]]. fold s2 in N2, I2, S2. fold it2 in I2.
  assert (Hb1 : bbound s1) by now apply b_step_bound.
  assert (Ei1 : bs_item s2 it1 = Some (it1 + 1)).
  { rewrite I2, fupd_other by (unfold it2, it1; lia). rewrite I1. apply fupd_same. }
  assert (Ei2 : bs_item s2 it2 = Some (it2 + 1)) by (rewrite I2; apply fupd_same).
  assert (Es2 : bs_src s2 src = Some (SConvert, b0)) by (rewrite S2; exact Es1).
  assert (Hne : it1 + 1 <> it2 + 1) by (unfold it2, it1; lia).
  destruct Hb as [H1 H2]. destruct Hb1 as [H11 H12].
  repeat split.
  - apply (edit_item_frame s2 it1 it2 (it1 + 1) (it2 + 1)); assumption.
  - apply (edit_item_frame_src s2 it1 src SConvert (it1 + 1) b0); try assumption.
    apply H2 in Es. unfold it1. lia.
  - intros it b Hit Eb. apply (edit_item_frame s2 it1 it (it1 + 1) b); try assumption.
    intros Heq. subst b. rewrite I2 in Eb. destruct (Z.eq_dec it it2) as [->|Nq].
    + rewrite fupd_same in Eb. inversion Eb. unfold it2, it1 in *. lia.
    + rewrite fupd_other in Eb by exact Nq. rewrite I1 in Eb. rewrite fupd_other in Eb by exact Hit.
      apply H1 in Eb. unfold it1 in Eb. lia.
Qed.
Print Assumptions C20_converted_items_own_their_buffer.

(* ... whereas an array the constructor keeps IS the item's buffer: two items built from it are one buffer — the caller
   placed one object in two items (the exception the property makes) *)
Theorem C20_kept_source_is_shared : forall s src b0, bs_src s src = Some (SKeep, b0) ->
  let s1 := b_step s (BItem src) in let s2 := b_step s1 (BItem src) in
  bs_item s2 (bs_next s) = Some b0 /\ bs_item s2 (bs_next s1) = Some b0.
Proof.
  intros s src b0 Es s1 s2. unfold s2, s1. cbn [b_step]. rewrite Es. cbn [bs_src bs_item bs_next]. rewrite Es. cbn [bs_item bs_next].
  split; [rewrite fupd_other by lia; apply fupd_same|apply fupd_same].
Qed.
Print Assumptions C20_kept_source_is_shared.

Example C20_buffers_example :
  let os := [BSource SConvert; BItem 0; BItem 0; BEditItem 2; BSource SKeep; BItem 6; BItem 6; BEditItem 8] in
  let s := b_run bs_init os in
  (item_ver s 2, item_ver s 4, src_ver s 0) = (Some 1, Some 0, Some 0) /\
  (item_ver s 8, item_ver s 9, src_ver s 6) = (Some 1, Some 1, Some 1).
Proof. vm_compute. split; reflexivity. Qed.

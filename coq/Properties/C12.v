(* C12 — reserved, padding and after-terminator bytes never influence what is read.
   The don't-care bytes of a layout are exactly the bytes the free encoder [encj] takes from its
   junk oracle: FPad fields (reserved words, block-header pads, the 256-byte calibration pad) and
   whatever follows the first NUL of an FStr field. *)
From Model Require Import Base Fmt Segments Blocks.
From Proofs Require Import BaseFacts StrFacts FmtFacts.
Open Scope Z_scope.

(* two encodings of the same value that differ only in junk decode identically *)
Theorem C12_decode_indep : forall f jk1 jk2 off1 off2 v b1 b2 rest,
  junk_ok jk1 -> junk_ok jk2 -> wfb f v = true ->
  encj f jk1 off1 v = Some b1 -> encj f jk2 off2 v = Some b2 ->
  dec f (b1 ++ rest) = dec f (b2 ++ rest).
Proof. exact dec_junk_indep. Qed.
Print Assumptions C12_decode_indep.

(* ... to the value that was encoded, so re-encoding gives the canonical (zero-junk) bytes ... *)
Theorem C12_reencode_canonical : forall f jk off v bj v' bs,
  junk_ok jk -> wfb f v = true -> encj f jk off v = Some bj ->
  dec f bj = Some (v', []) -> enc f v = Some bs -> enc f v' = Some bs.
Proof.
  intros f jk off v bj v' bs Hj Hw Ej Hd Eb.
  pose proof (dec_encj f jk Hj off v bj [] Hw Ej) as R. rewrite app_nil_r in R.
  rewrite R in Hd. inversion Hd; subst. exact Eb.
Qed.
Print Assumptions C12_reencode_canonical.

(* ... of the original size *)
Theorem C12_same_size : forall f jk off v bj bs,
  encj f jk off v = Some bj -> enc f v = Some bs -> length bs = length bj.
Proof. intros f jk off v bj bs Ej Eb. eapply encj_length_indep; eassumption. Qed.
Print Assumptions C12_same_size.

(* string fields: only the bytes up to the first NUL are read *)
Theorem C12_string_tail : forall w p t1 t2,
  length t1 = length t2 -> str_read w (p ++ 0 :: t1) = str_read w (p ++ 0 :: t2).
Proof. exact str_read_prefix. Qed.
Print Assumptions C12_string_tail.

(* for each of the nine block layouts (instances, so the statement visibly covers them) *)
Theorem C12_blocks : forall ty format f jk1 jk2 v b1 b2 rest,
  block_fmt ty format = Some f -> junk_ok jk1 -> junk_ok jk2 -> wfb f v = true ->
  encj f jk1 0 v = Some b1 -> encj f jk2 0 v = Some b2 ->
  dec f (b1 ++ rest) = Some (v, rest) /\ dec f (b2 ++ rest) = Some (v, rest).
Proof.
  intros ty format f jk1 jk2 v b1 b2 rest _ H1 H2 Hw E1 E2. split.
  - exact (dec_encj f jk1 H1 0 v b1 rest Hw E1).
  - exact (dec_encj f jk2 H2 0 v b2 rest Hw E2).
Qed.
Print Assumptions C12_blocks.

(* non-vacuity: an optical channel with 0x81 junk after each terminator and in the reserved word *)
Example C12_example :
  let v := VL [VI 3; VL []; vints [65]; vints []; vints [66; 67];
               VL [VL [VI 0; VI 0]; VL [VI 640; VI 480]]] in
  let jk := fun _ : Z => 129 in
  wfb os_channel v = true /\
  (exists bj, encj os_channel jk 0 v = Some bj /\ enc os_channel v <> Some bj /\
              dec os_channel bj = Some (v, [])).
Proof.
  split; [vm_compute; reflexivity|]. eexists. split; [vm_compute; reflexivity|].
  split; [vm_compute; discriminate|vm_compute; reflexivity].
Qed.

(* C03 — any history of add / remove / replace / setter calls leaves a structurally sound file.
   Model: Container.v ([step] = one public call of basictdf.py, statement by statement, on the state
   (N, Tdf.entries, table on disk, data on disk)); AFile.v ([compact] = the state is the layout of
   an abstract file, [wf] = the soundness conditions of the property, literally).
   Scope: histories start from a compact file (what Tdf.new creates and what BTS software writes:
   blocks back to back in table order, free slots pointing at the end, one block per type); from a
   file that is merely [wf] the code can corrupt data — recorded finding F3b, see C03_wf_not_enough. *)
From Model Require Import Base Str Fmt Container AFile GFile.
From Proofs Require Import BaseFacts ContainerFacts ContainerProps GapFacts OrderedDec AddSafe.
Open Scope Z_scope.

(* one call: the result is again compact, whatever the outcome; the number of slots never changes *)
Theorem C03_step : forall s o r s',
  compact s -> op_ok o -> step s o = (r, s') -> compact s' /\ s_n s' = s_n s.
Proof.
  intros s o r s' Hc Ho E. split; [eapply step_compact; eassumption|].
  destruct Hc as [a [Hi ->]]. destruct (next_refines a o Hi Ho) as [E2 _]. rewrite E in E2.
  cbn [snd] in E2. subst s'. cbn [s_n conc]. apply a_next_n.
Qed.
Print Assumptions C03_step.

(* any finite history, any table length N >= 1, any block types (payloads are opaque), any sizes *)
Theorem C03_history : forall s ops,
  compact s -> Forall op_ok ops -> compact (run_ops s ops) /\ s_n (run_ops s ops) = s_n s.
Proof.
  intros s ops Hc Ho. split; [now apply run_compact|].
  destruct Hc as [a [Hi ->]]. destruct (run_refines ops a Hi Ho) as [E _]. rewrite E.
  cbn [s_n conc]. apply a_run_n.
Qed.
Print Assumptions C03_history.

(* compact implies the property's well-formedness: N entries, every live range after the table and
   inside the file, no two live ranges overlap, every unused slot has size zero; and the open
   object's table is the table on disk *)
Theorem C03_compact_is_wf : forall s, compact s -> wf s /\ mem s = tab s.
Proof. exact compact_wf. Qed.
Print Assumptions C03_compact_is_wf.

Corollary C03_wf_after_history : forall s ops,
  compact s -> Forall op_ok ops -> wf (run_ops s ops).
Proof. intros s ops Hc Ho. apply compact_wf. now apply run_compact. Qed.
Print Assumptions C03_wf_after_history.

(* "a block added after a removal never lands on top of a block that is still live" *)
Corollary C03_no_overlap_after_remove_add : forall s ty now b c now',
  compact s -> ty <> 0 -> blk_ok b ->
  ForallOrdPairs disjoint (filter is_live (tab (run_ops s [ORemove ty now; OAdd b c now']))).
Proof.
  intros s ty now b c now' Hc Hty Hb.
  assert (Ho : Forall op_ok [ORemove ty now; OAdd b c now']) by (constructor; [exact Hty|constructor; [exact Hb|constructor]]).
  destruct (compact_wf _ (run_compact s _ Hc Ho)) as [[_ [_ [_ H]]] _]. exact H.
Qed.
Print Assumptions C03_no_overlap_after_remove_add.

(* Tdf.new creates a compact file with 14 slots *)
Theorem C03_new_compact : forall now, compact (new_file now) /\ s_n (new_file now) = 14.
Proof.
  intros now. split; [|reflexivity].
  exists (mkA 14 [] (repeat (fresh_slot now) 14)). split; [|reflexivity].
  split; [split; [constructor|reflexivity]|constructor].
Qed.
Print Assumptions C03_new_compact.

(* ---- beyond packed files.  The property quantifies over "any well-formed file".  [ordered] (GFile.v) is the largest
   class the code is right about: the blocks lie in table order and all unused slots carry ONE offset behind the last
   block — but there may be padding in front of every block (a writer that aligns), bytes between the last block and
   that offset, and bytes behind it.  Every packed file is ordered; what lies outside (unused slots pointing elsewhere,
   table order differing from file order) is finding F3b. ---- *)
Theorem C03_compact_is_ordered : forall s, compact s -> ordered s.
Proof. exact compact_ordered. Qed.
Print Assumptions C03_compact_is_ordered.

Theorem C03_history_ordered : forall s ops, ordered s -> Forall op_ok ops ->
  ordered (run_ops s ops) /\ wf (run_ops s ops) /\ mem (run_ops s ops) = tab (run_ops s ops) /\
  s_n (run_ops s ops) = s_n s.
Proof.
  intros s ops Ho Hk. pose proof (run_ordered s ops Ho Hk) as Hr. split; [exact Hr|].
  destruct (ordered_wf _ Hr) as [Hw Hm]. split; [exact Hw|split; [exact Hm|]].
  destruct Ho as [a [Hi ->]]. destruct (grun_refines ops a Hi Hk) as [E _]. rewrite E.
  cbn [s_n gconc]. apply g_run_n.
Qed.
Print Assumptions C03_history_ordered.

(* the premise is decidable, and the decision procedure certifies its answer (it rebuilds the file and compares): the
   correspondence check evaluates it on every initial file of the strata it calls ordered *)
Theorem C03_orderedb_sound : forall s, orderedb s = true -> ordered s.
Proof. exact orderedb_sound. Qed.
Print Assumptions C03_orderedb_sound.

(* ... and it rejects nothing it should accept: reading the file back off its own layout returns the file *)
Theorem C03_orderedb_decides : forall s, orderedb s = true <-> ordered s.
Proof. exact orderedb_iff. Qed.
Print Assumptions C03_orderedb_decides.

(* non-vacuity: a 4-slot file of a writer that pads (3 bytes in front of the first block, 2 in front of the second,
   one more byte behind the data): remove the first block, add a new one — sound, and the second block's bytes moved
   up by exactly the removed size, padding and all *)
Example C03_example_holes :
  let a := mkGF 4 [mkG [0; 0; 0] (mkL 16 0 1 2 3 [65] [9; 9; 9]); mkG [0; 0] (mkL 11 1 1 2 3 [] [7])] [] [255]
                [mkF 0 5 5 5 []; mkF 0 5 5 5 []] in
  let b := mkB 5 2 2 (Some [4; 4]) EValue 8 9 in
  g_inv a /\
  map (fun e => (e_type e, e_off e, e_size e)) (tab (gconc a)) = [(16, 1219, 3); (11, 1224, 1); (0, 1225, 0); (0, 1225, 0)] /\
  map (fun e => (e_type e, e_off e, e_size e))
      (tab (run_ops (gconc a) [ORemove 16 50; OAdd b [66] 60])) = [(11, 1221, 1); (5, 1222, 2); (0, 1224, 0); (0, 1224, 0)] /\
  data (run_ops (gconc a) [ORemove 16 50; OAdd b [66] 60]) = [0; 0; 0; 0; 0; 7; 4; 4].
Proof.
  cbn zeta. split; [|split; [|split]; vm_compute; reflexivity].
  split; [split; [repeat constructor; discriminate|split; [reflexivity|discriminate]]|].
  repeat constructor; cbn; intuition discriminate.
Qed.

(* F3b: soundness alone is not an invariant of the code.  A sound 1-slot file whose unused slot
   carries offset 0 instead of the end of data: add_block trusts that offset. *)
Theorem C03_wf_not_enough : exists s b,
  wf s /\ mem s = tab s /\ blk_ok b /\ ~ wf (snd (step s (OAdd b default_comment 0))).
Proof.
  exists (mkS 1 [mkE 0 0 0 0 0 0 0 []] [mkE 0 0 0 0 0 0 0 []] []),
         (mkB 5 1 2 (Some [1; 2]) EValue 0 0).
  split; [|split; [reflexivity|split; [split; [discriminate|reflexivity]|]]].
  - split; [reflexivity|split; [|split]].
    + constructor; [intros H; discriminate|constructor].
    + constructor; [intros _; reflexivity|constructor].
    + cbn. constructor.
  - intros [_ [H _]]. cbn in H. inversion H as [|? ? H1 _]; subst.
    specialize (H1 eq_refl). unfold in_file in H1. cbn in H1. lia.
Qed.
Print Assumptions C03_wf_not_enough.

(* the soundness conditions are decidable: [soundb] is what the harness has Coq evaluate on the files the library writes *)
Theorem C03_soundb_decides : forall s, soundb s = true <-> wf s.
Proof. exact soundb_iff. Qed.
Print Assumptions C03_soundb_decides.

(* ... and exactly where the boundary lies.  On ANY sound file — blocks in any order, free regions anywhere, unused
   slots carrying whatever offsets — a successful add_block leaves a sound file if and only if the region the block
   occupies (it starts at the offset the first unused slot carries) lies behind the table and meets no live block.
   F3b is the "only if"; the "if" covers the foreign files the ordered-file theorems do not reach (a free region
   between two live blocks, a writer that maintains only the first free slot). *)
Theorem C03_add_on_any_sound_file : forall s b c now s' k,
  wf s -> mem s = tab s -> blk_ok b -> step s (OAdd b c now) = (Done, s') ->
  find_pos is_unused (tab s) = Some k ->
  (wf s' <-> base (s_n s) <= e_off (nth_entry k (tab s)) /\ region_free s (e_off (nth_entry k (tab s))) (b_size b)).
Proof.
  intros s b c now s' k Hw Hm Hb Hs Hk. cbn [step] in Hs. split.
  - intros Hw'. now apply (add_sound_only_if s b c now s' k).
  - intros [H1 H2]. now destruct (add_sound s b c now s' k Hw Hm Hb Hs Hk H1 H2).
Qed.
Print Assumptions C03_add_on_any_sound_file.

(* the computable form of the "if", evaluated by the harness on the foreign files it crafts; the open object's table
   and the slot count come along *)
Theorem C03_add_safeb_sound : forall s b c now s',
  wf s -> mem s = tab s -> blk_ok b -> step s (OAdd b c now) = (Done, s') -> add_safeb s (b_size b) = true ->
  wf s' /\ mem s' = tab s' /\ s_n s' = s_n s.
Proof. intros s b c now s'. cbn [step]. apply add_sound_b. Qed.
Print Assumptions C03_add_safeb_sound.

(* non-vacuity: two live blocks with a 10-byte free region between them, the unused slot pointing at it; a 4-byte block
   goes into the hole and the file stays sound — an 11-byte one may not be added *)
Example C03_example_free_region :
  let s := mkS 3 [mkE 11 1 928 2 0 0 0 []; mkE 5 1 940 3 0 0 0 []; mkE 0 0 930 0 0 0 0 []]
                 [mkE 11 1 928 2 0 0 0 []; mkE 5 1 940 3 0 0 0 []; mkE 0 0 930 0 0 0 0 []]
                 [1; 1; 0; 0; 0; 0; 0; 0; 0; 0; 0; 0; 2; 2; 2] in
  orderedb s = false /\ add_safeb s 4 = true /\ add_safeb s 11 = false /\
  map (fun e => (e_type e, e_off e, e_size e)) (tab (snd (step s (OAdd (mkB 16 1 4 (Some [9; 9; 9; 9]) EValue 0 0) [] 7))))
  = [(11, 928, 2); (5, 940, 3); (16, 930, 4)] /\
  data (snd (step s (OAdd (mkB 16 1 4 (Some [9; 9; 9; 9]) EValue 0 0) [] 7))) = [1; 1; 9; 9; 9; 9; 0; 0; 0; 0; 0; 0; 2; 2; 2].
Proof. cbn zeta. repeat split; vm_compute; reflexivity. Qed.

(* non-vacuity: a compact 3-slot file with two live blocks of different sizes, remove the first,
   add a third: still sound, and the blocks sit where expected *)
Example C03_example :
  let a := mkA 3 [mkL 16 0 1 2 3 [65] [9; 9; 9]; mkL 11 1 1 2 3 [] [7]] [mkF 0 5 5 5 []] in
  let b := mkB 5 2 2 (Some [4; 4]) EValue 8 9 in
  a_inv a /\
  map (fun e => (e_type e, e_off e, e_size e))
      (tab (run_ops (conc a) [ORemove 16 50; OAdd b [66] 60])) = [(11, 928, 1); (5, 929, 2); (0, 931, 0)] /\
  data (run_ops (conc a) [ORemove 16 50; OAdd b [66] 60]) = [7; 4; 4].
Proof.
  cbn zeta. split; [|split; vm_compute; reflexivity].
  split; [split; [repeat constructor; discriminate|reflexivity]|].
  repeat constructor; cbn; intuition discriminate.
Qed.

(* C04 — mutating one block never alters any other block or its metadata.
   On the abstract file (AFile.v) a live block IS its type, format, dates, comment and payload bytes;
   [a_find a ty] is "the block of type ty".  The theorems say what every call does to [a_find], and
   ContainerFacts.step_refines says the code does exactly that to the bytes.  The last theorems go
   from the abstract block to the concrete bytes at the concrete offset and through the decoder. *)
From Model Require Import Base Str Fmt Blocks Container AFile GFile.
From Proofs Require Import BaseFacts FmtFacts ContainerFacts ContainerProps GapFacts AddSafe.
Open Scope Z_scope.

(* the code's step IS the abstract step (successful or refused), for every history *)
Theorem C04_code_follows_abstract_file : forall a ops, a_inv a -> Forall op_ok ops ->
  run_ops (conc a) ops = conc (a_run a ops) /\ a_inv (a_run a ops).
Proof. intros a ops. apply run_refines. Qed.
Print Assumptions C04_code_follows_abstract_file.

(* frame: a call about type T leaves every block of another type exactly as it was:
   payload bytes, format code, comment, creation / modification / access dates — also for types the
   library cannot decode (payloads are opaque), also when every later block has to move *)
Theorem C04_frame : forall a o ty', op_type o <> Some ty' -> a_find (a_next a o) ty' = a_find a ty'.
Proof. exact frame_other. Qed.
Print Assumptions C04_frame.

(* a successful add stores exactly what it was given *)
Theorem C04_add_stores : forall a b c now a', a_inv a -> a_step a (OAdd b c now) = Some a' ->
  exists p, b_payload b = Some p /\
            a_find a' (b_type b) = Some (mkL (b_type b) (b_format b) (b_cdate b) (b_mdate b) now c p).
Proof. exact stored_add. Qed.
Print Assumptions C04_add_stores.

(* ... whichever way the block came by its dates: handed to the constructor (the clock is then irrelevant), or
   never given (then it is the time of its construction, not the time of the call, that is stored) *)
Corollary C04_add_stores_dates : forall a b cd md clock c now a', a_inv a ->
  a_step a (OAdd (dated b cd md clock) c now) = Some a' ->
  exists nb, a_find a' (b_type b) = Some nb /\
    l_cdate nb = init_date cd clock /\ l_mdate nb = init_date md clock /\ l_adate nb = now.
Proof.
  intros a b cd md clock c now a' Hi H. destruct (stored_add a _ c now a' Hi H) as [p [_ Hf]].
  eexists. split; [exact Hf|]. cbn. repeat split; reflexivity.
Qed.
Print Assumptions C04_add_stores_dates.

(* a successful replace stores the new block; without a comment it keeps the previous comment *)
Theorem C04_replace_stores : forall a b c n1 n2 a', a_inv a -> a_step a (OReplace b c n1 n2) = Some a' ->
  exists p old, b_payload b = Some p /\ a_find a (b_type b) = Some old /\
    a_find a' (b_type b) =
    Some (mkL (b_type b) (b_format b) (b_cdate b) (b_mdate b) n2
              (match c with Some c => c | None => l_comment old end) p).
Proof. exact stored_replace. Qed.
Print Assumptions C04_replace_stores.

Corollary C04_replace_keeps_comment : forall a b n1 n2 a', a_inv a ->
  a_step a (OReplace b None n1 n2) = Some a' ->
  exists old nb, a_find a (b_type b) = Some old /\ a_find a' (b_type b) = Some nb /\
                 l_comment nb = l_comment old.
Proof.
  intros a b n1 n2 a' Hi H. destruct (stored_replace a b None n1 n2 a' Hi H) as [p [old [_ [H1 H2]]]].
  exists old. eexists. split; [exact H1|split; [exact H2|reflexivity]].
Qed.
Print Assumptions C04_replace_keeps_comment.

(* removed types are absent *)
Theorem C04_removed_absent : forall a ty now a', a_inv a -> a_step a (ORemove ty now) = Some a' ->
  a_find a' ty = None.
Proof. exact removed_absent. Qed.
Print Assumptions C04_removed_absent.

(* the abstract block is what is on disk: the table entry found for the type carries the block's
   metadata, and the bytes at [offset, offset+size) are the block's payload *)
Theorem C04_bytes_on_disk : forall a ty lb, ty <> 0 -> a_find a ty = Some lb ->
  exists off rest,
    c_get_type (conc a) ty = Some (live_entry off lb, l_payload lb ++ rest) /\
    slice off (zlength (l_payload lb)) (conc a) = l_payload lb.
Proof. exact get_type_conc. Qed.
Print Assumptions C04_bytes_on_disk.

(* read-back: if the stored payload is the encoding of a valid block value v, get_block decodes v *)
Theorem C04_read_back : forall a ty lb f v, ty <> 0 -> a_find a ty = Some lb ->
  block_fmt ty (l_format lb) = Some f -> wfb f v = true -> enc f v = Some (l_payload lb) ->
  exists e bytes, c_get_type (conc a) ty = Some (e, bytes) /\ e_format e = l_format lb /\
                  exists rest, dec f bytes = Some (v, rest).
Proof.
  intros a ty lb f v Hty Hf _ Hw He. destruct (get_type_conc a ty lb Hty Hf) as [off [rest [H _]]].
  exists (live_entry off lb), (l_payload lb ++ rest). split; [exact H|split; [reflexivity|]].
  exists rest. now apply dec_enc.
Qed.
Print Assumptions C04_read_back.

(* ---- the same on files that are not packed (GFile.v: padding in front of blocks, bytes behind the last block; the
   class [ordered] of C03_history_ordered).  A block is still its type, format, dates, comment and payload; the
   padding is not part of any block. ---- *)
Theorem C04_holes_code_follows_abstract_file : forall a ops, g_inv a -> Forall op_ok ops ->
  run_ops (gconc a) ops = gconc (g_run a ops) /\ g_inv (g_run a ops).
Proof. intros a ops. apply grun_refines. Qed.
Print Assumptions C04_holes_code_follows_abstract_file.

Theorem C04_holes_frame : forall a o ty', op_type o <> Some ty' -> g_find (g_next a o) ty' = g_find a ty'.
Proof. exact gframe_other. Qed.
Print Assumptions C04_holes_frame.

Theorem C04_holes_add_stores : forall a b c now a', g_inv a -> g_step a (OAdd b c now) = Some a' ->
  exists p, b_payload b = Some p /\
            g_find a' (b_type b) = Some (mkL (b_type b) (b_format b) (b_cdate b) (b_mdate b) now c p).
Proof. exact gstored_add. Qed.
Print Assumptions C04_holes_add_stores.

Theorem C04_holes_removed_absent : forall a ty now a', g_inv a -> g_step a (ORemove ty now) = Some a' ->
  g_find a' ty = None.
Proof. exact gremoved_absent. Qed.
Print Assumptions C04_holes_removed_absent.

(* on disk: the live entries of the table are, in order, the entries of the blocks, and the bytes each points at are
   exactly its block's payload — whatever padding surrounds it, after any history *)
Theorem C04_holes_bytes_on_disk : forall a ops, g_inv a -> Forall op_ok ops ->
  Forall2 (fun e g => slice (e_off e) (e_size e) (run_ops (gconc a) ops) = l_payload (g_blk g) /\
                      e = live_entry (e_off e) (g_blk g))
          (filter is_live (tab (run_ops (gconc a) ops))) (gf_live (g_run a ops)).
Proof.
  intros a ops Hi Ho. destruct (grun_refines ops a Hi Ho) as [E Hi']. rewrite E. now apply gbytes_on_disk.
Qed.
Print Assumptions C04_holes_bytes_on_disk.

(* non-vacuity: three blocks with 5, 0 and 2 bytes of padding in front; remove the first: the other two keep payload,
   format, comment and dates, their offsets drop by exactly the removed size, and the bytes found there are theirs *)
Example C04_example_holes :
  let a := mkGF 4 [mkG [1; 1; 1; 1; 1] (mkL 16 0 1 2 3 [65] [9; 9; 9]); mkG [] (mkL 13 7 10 20 30 [66; 67] [7]);
                   mkG [2; 2] (mkL 5 1 11 21 31 [] [4; 5])] [] [] [mkF 0 5 5 5 []] in
  g_inv a /\
  g_find (g_next a (ORemove 16 99)) 13 = Some (mkL 13 7 10 20 30 [66; 67] [7]) /\
  c_get_type (snd (step (gconc a) (ORemove 16 99))) 5 = Some (mkE 5 1 1224 2 11 21 31 [], [4; 5]) /\
  c_get_type (gconc a) 5 = Some (mkE 5 1 1227 2 11 21 31 [], [4; 5]).
Proof.
  cbn zeta. split; [|split; [|split]; vm_compute; reflexivity].
  split; [split; [repeat constructor; discriminate|split; [reflexivity|discriminate]]|].
  repeat constructor; cbn; intuition discriminate.
Qed.

(* non-vacuity: remove the first of three blocks (sizes 3, 1, 2): the other two keep payload, format,
   comment and dates although both had to move *)
Example C04_example :
  let a := mkA 4 [mkL 16 0 1 2 3 [65] [9; 9; 9]; mkL 13 7 10 20 30 [66; 67] [7]; mkL 5 1 11 21 31 [] [4; 5]]
                 [mkF 0 5 5 5 []] in
  a_inv a /\
  a_find (a_next a (ORemove 16 99)) 13 = Some (mkL 13 7 10 20 30 [66; 67] [7]) /\
  c_get_type (snd (step (conc a) (ORemove 16 99))) 5 = Some (mkE 5 1 1217 2 11 21 31 [], [4; 5]).
Proof.
  cbn zeta. split; [|split; vm_compute; reflexivity].
  split; [split; [repeat constructor; discriminate|reflexivity]|].
  repeat constructor; cbn; intuition discriminate.
Qed.

(* beyond the ordered class: on ANY sound file a successful add_block into a free region (C03_add_on_any_sound_file)
   stores exactly the block's bytes at the offset the unused slot carried, and every other live block keeps its table
   entry and its bytes — whatever order the blocks have in the file and wherever the free region lies *)
Theorem C04_add_into_free_region : forall s b c now s' k payload,
  wf s -> mem s = tab s -> blk_ok b -> b_payload b = Some payload -> step s (OAdd b c now) = (Done, s') ->
  find_pos is_unused (tab s) = Some k ->
  base (s_n s) <= e_off (nth_entry k (tab s)) ->
  region_free s (e_off (nth_entry k (tab s))) (b_size b) ->
  slice (e_off (nth_entry k (tab s))) (b_size b) s' = payload /\
  forall e, In e (tab s) -> is_live e = true ->
            In e (tab s') /\ slice (e_off e) (e_size e) s' = slice (e_off e) (e_size e) s.
Proof. intros s b c now s' k payload. cbn [step]. apply add_frame. Qed.
Print Assumptions C04_add_into_free_region.

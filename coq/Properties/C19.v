(* C19 — constructors refuse arguments whose shape would mis-size the encoding.
   Model: Shapes.v.  Shapes are lists of extents of ANY rank and ANY size (the property's
   rank 0-3 / extent 0..4 box is a subset). *)
From Model Require Import Base Shapes.
From Coq Require Import ZifyBool.
Open Scope Z_scope.

Lemma shape_eqb_eq a : forall b, shape_eqb a b = true <-> a = b.
Proof.
  induction a as [|x a IH]; intros [|y b]; cbn [shape_eqb]; try (split; [discriminate|intros H; inversion H]).
  - split; reflexivity.
  - rewrite andb_true_iff, Nat.eqb_eq, IH. split; [intros [-> ->]; reflexivity|intros H; now inversion H].
Qed.

Lemma is_arr_iff v sh : is_arr v sh = true <-> v = PArr sh.
Proof.
  destruct v; cbn [is_arr]; try (split; [discriminate|intros H; inversion H]).
  rewrite shape_eqb_eq. split; [intros ->; reflexivity|intros H; now inversion H].
Qed.

Ltac step_arr H :=
  match type of H with
  | context [is_arr ?v ?sh] =>
      let E := fresh "E" in destruct (is_arr v sh) eqn:E; cbn [negb] in H; [apply is_arr_iff in E|discriminate]
  end.

(* 3D-marker and force/torque blocks: accepted iff the three arguments have exactly the required shape,
   and then each is written in exactly the bytes the block header reserves (36 + 12 + 12) *)
Theorem C19_geometry : forall rot tr vol,
  (ctor_geometry rot tr vol = Ok tt <-> rot = PArr [3; 3]%nat /\ tr = PArr [3]%nat /\ vol = PArr [3]%nat) /\
  (ctor_geometry rot tr vol = Ok tt ->
     written rot 4 = Some 36 /\ written tr 4 = Some 12 /\ written vol 4 = Some 12).
Proof.
  intros rot tr vol. assert (H0 : ctor_geometry rot tr vol = Ok tt ->
                                  rot = PArr [3; 3]%nat /\ tr = PArr [3]%nat /\ vol = PArr [3]%nat).
  { unfold ctor_geometry. intros H. step_arr H. step_arr H. step_arr H. now subst. }
  split; [split; [exact H0|intros [-> [-> ->]]; reflexivity]|].
  intros H. destruct (H0 H) as [-> [-> ->]]. repeat split.
Qed.
Print Assumptions C19_geometry.

Theorem C19_calibration : forall vol rot tr map,
  (ctor_calibration vol rot tr map = Ok tt <->
     vol = PArr [3]%nat /\ rot = PArr [3; 3]%nat /\ tr = PArr [3]%nat /\ exists n, map = PArr [n]) /\
  (ctor_calibration vol rot tr map = Ok tt ->
     written vol 4 = Some 12 /\ written rot 4 = Some 36 /\ written tr 4 = Some 12).
Proof.
  intros vol rot tr map.
  assert (H0 : ctor_calibration vol rot tr map = Ok tt ->
               vol = PArr [3]%nat /\ rot = PArr [3; 3]%nat /\ tr = PArr [3]%nat /\ exists n, map = PArr [n]).
  { unfold ctor_calibration. intros H.
    step_arr H. step_arr H. step_arr H.
    destruct map as [| | | | |[|n [|]]| |]; try discriminate. subst. repeat split. now exists n. }
  split; [split; [exact H0|]|].
  - intros [-> [-> [-> [n ->]]]]. reflexivity.
  - intros H. destruct (H0 H) as [-> [-> [-> _]]]. repeat split.
Qed.
Print Assumptions C19_calibration.

(* viewports: a two-element list, tuple or array is accepted, everything else refused; 8 + 8 bytes *)
Theorem C19_viewport : forall origin size,
  (ctor_viewport origin size = Ok tt <->
     (origin = PArr [2]%nat \/ origin = PList 2 \/ origin = PTuple 2) /\
     (size = PArr [2]%nat \/ size = PList 2 \/ size = PTuple 2)) /\
  (ctor_viewport origin size = Ok tt -> written origin 4 = Some 8 /\ written size 4 = Some 8).
Proof.
  intros origin size.
  assert (Hk : forall v, vp_arg_ok v = true <-> (v = PArr [2]%nat \/ v = PList 2 \/ v = PTuple 2)).
  { intros v. destruct v as [| | |n|n|s| |]; cbn [vp_arg_ok];
      try (split; [discriminate|intros [H|[H|H]]; discriminate]).
    - rewrite Nat.eqb_eq. split; [intros ->; tauto|intros [H|[H|H]]; now inversion H].
    - rewrite Nat.eqb_eq. split; [intros ->; tauto|intros [H|[H|H]]; now inversion H].
    - rewrite shape_eqb_eq. split; [intros ->; tauto|intros [H|[H|H]]; now inversion H]. }
  assert (H0 : ctor_viewport origin size = Ok tt -> vp_arg_ok origin = true /\ vp_arg_ok size = true).
  { unfold ctor_viewport. destruct (vp_arg_ok origin); cbn [negb]; [|discriminate].
    destruct (vp_arg_ok size); cbn [negb]; [tauto|discriminate]. }
  split; [split|].
  - intros H. destruct (H0 H) as [H1 H2]. now rewrite <- !Hk.
  - intros [H1 H2]. apply Hk in H1, H2. unfold ctor_viewport. now rewrite H1, H2.
  - intros H. destruct (H0 H) as [H1 H2]. apply Hk in H1, H2.
    destruct H1 as [->|[->| ->]], H2 as [->|[->| ->]]; split; reflexivity.
Qed.
Print Assumptions C19_viewport.

(* Seelab camera records: the seven arrays and the viewport; 72 + 24 + 5 * 16 bytes *)
Theorem C19_seelab : forall rot tr focus center radial decent prism vp,
  (ctor_seelab rot tr focus center radial decent prism vp = Ok tt <->
     rot = PArr [3; 3]%nat /\ tr = PArr [3]%nat /\ focus = PArr [2]%nat /\ center = PArr [2]%nat /\
     radial = PArr [2]%nat /\ decent = PArr [2]%nat /\ prism = PArr [2]%nat /\
     (vp = PViewPort \/ vp = PArr [2; 2]%nat)) /\
  (ctor_seelab rot tr focus center radial decent prism vp = Ok tt ->
     written rot 8 = Some 72 /\ written tr 8 = Some 24 /\ written focus 8 = Some 16 /\
     written center 8 = Some 16 /\ written radial 8 = Some 16 /\ written decent 8 = Some 16 /\
     written prism 8 = Some 16).
Proof.
  intros rot tr focus center radial decent prism vp.
  assert (Hv : vp_field_ok vp = true <-> (vp = PViewPort \/ vp = PArr [2; 2]%nat)).
  { destruct vp as [| | | | |s| |]; cbn [vp_field_ok]; try (split; [discriminate|intros [H|H]; discriminate]).
    - rewrite shape_eqb_eq. split; [intros ->; tauto|intros [H|H]; now inversion H].
    - split; [tauto|reflexivity]. }
  assert (H0 : ctor_seelab rot tr focus center radial decent prism vp = Ok tt ->
     rot = PArr [3; 3]%nat /\ tr = PArr [3]%nat /\ focus = PArr [2]%nat /\ center = PArr [2]%nat /\
     radial = PArr [2]%nat /\ decent = PArr [2]%nat /\ prism = PArr [2]%nat /\ vp_field_ok vp = true).
  { unfold ctor_seelab. intros H. do 7 step_arr H.
    destruct (vp_field_ok vp); cbn [negb] in H; [|discriminate]. subst. repeat split. }
  split; [split|].
  - intros H. destruct (H0 H) as [? [? [? [? [? [? [? H8]]]]]]]. apply Hv in H8. tauto.
  - intros [-> [-> [-> [-> [-> [-> [-> H8]]]]]]]. apply Hv in H8. unfold ctor_seelab. cbn. now rewrite H8.
  - intros H. destruct (H0 H) as [-> [-> [-> [-> [-> [-> [-> _]]]]]]]. repeat split.
Qed.
Print Assumptions C19_seelab.

Theorem C19_optical_channel : forall vp,
  ctor_optical_channel vp = Ok tt <-> (vp = PViewPort \/ vp = PArr [2; 2]%nat).
Proof.
  intros vp. unfold ctor_optical_channel.
  destruct vp as [| | | | |s| |]; cbn [vp_field_ok]; try (split; [discriminate|intros [H|H]; discriminate]).
  - destruct (shape_eqb s [2; 2]%nat) eqn:E.
    + apply shape_eqb_eq in E. subst. split; [tauto|reflexivity].
    + split; [discriminate|]. intros [H|H]; [discriminate|]. inversion H; subst.
      assert (shape_eqb [2; 2]%nat [2; 2]%nat = true) by reflexivity. congruence.
  - split; [tauto|reflexivity].
Qed.
Print Assumptions C19_optical_channel.

(* coupled arrays of one force/torque track: accepted iff all three are (n, 3) with the same n;
   each frame is then written in exactly 3 x 12 = 36 bytes, as the track's size assumes *)
Theorem C19_ft_track : forall ap force torque,
  (ctor_ft_track ap force torque = Ok tt <->
     exists n, ap = PArr [n; 3%nat] /\ force = PArr [n; 3%nat] /\ torque = PArr [n; 3%nat]) /\
  (ctor_ft_track ap force torque = Ok tt ->
     exists n, written ap 4 = Some (12 * Z.of_nat n) /\ written force 4 = Some (12 * Z.of_nat n) /\
               written torque 4 = Some (12 * Z.of_nat n)).
Proof.
  intros ap force torque.
  assert (H0 : ctor_ft_track ap force torque = Ok tt ->
               exists n, ap = PArr [n; 3%nat] /\ force = PArr [n; 3%nat] /\ torque = PArr [n; 3%nat]).
  { unfold ctor_ft_track. destruct ap as [| | | | |s1| |]; try discriminate.
    destruct force as [| | | | |s2| |]; try discriminate.
    destruct (shape_eqb s1 s2) eqn:E2; cbn [negb]; [|discriminate].
    destruct torque as [| | | | |s3| |]; try discriminate.
    destruct (shape_eqb s1 s3) eqn:E3; cbn [negb]; [|discriminate].
    apply shape_eqb_eq in E2, E3. subst s2 s3.
    destruct s1 as [|n [|d r]]; try discriminate.
    destruct d as [|[|[|[|k]]]]; try discriminate; destruct r; try discriminate. intros _. now exists n. }
  split; [split; [exact H0|]|].
  - intros [n [-> [-> ->]]]. unfold ctor_ft_track.
    assert (shape_eqb [n; 3%nat] [n; 3%nat] = true) as -> by now apply shape_eqb_eq. reflexivity.
  - intros H. destruct (H0 H) as [n [-> [-> ->]]]. exists n. cbn [written numel]. repeat split; f_equal; lia.
Qed.
Print Assumptions C19_ft_track.

(* events: non-iterable values and more than one value for a single event are refused with TypeError;
   what is accepted is a one-dimensional sequence of n numbers, written in 4n bytes *)
Theorem C19_event : forall values single,
  (match values with PNone | PScalar | PViewPort | POther | PArr [] => ctor_event values single = Err EType
                   | _ => True end) /\
  (forall n, event_len values = Some n -> single = true -> (1 < n)%nat ->
             match values with PStr _ => True | _ => ctor_event values single = Err EType end) /\
  (forall n, ctor_event values single = Ok n ->
             event_len values = Some n /\ (single = true -> (n <= 1)%nat) /\
             written values 4 = Some (4 * Z.of_nat n)).
Proof.
  intros values single. split; [|split].
  - destruct values as [| | | | |[|? ?]| |]; try exact I; reflexivity.
  - intros n Hl -> Hn. apply Nat.ltb_lt in Hn.
    destruct values as [| | |m|m|[|m [|]]| |]; cbn [event_len] in Hl; try discriminate; try exact I;
      inversion Hl; subst; cbn [ctor_event event_len andb]; rewrite Hn; reflexivity.
  - intros n H.
    destruct values as [| | |m|m|[|m [|]]| |]; cbn [ctor_event event_len] in H; try discriminate;
      (destruct single; cbn [andb] in H;
       [destruct (Nat.ltb_spec 1 m); [discriminate|]|]; inversion H; subst;
       (split; [reflexivity|split; [intros; try lia; try discriminate|cbn [written numel]; f_equal; lia]])).
Qed.
Print Assumptions C19_event.

Example C19_example :
  ctor_geometry (PArr [3; 3]%nat) (PArr [3]%nat) (PArr [3]%nat) = Ok tt /\
  ctor_geometry (PArr [3; 3]%nat) (PArr [3]%nat) (PArr [2]%nat) = Err EValue /\
  ctor_viewport (PList 2) (PTuple 2) = Ok tt /\ ctor_viewport PScalar (PList 2) = Err EType /\
  ctor_ft_track (PArr [4; 2]%nat) (PArr [4; 2]%nat) (PArr [4; 2]%nat) = Err EValue /\
  ctor_event (PArr [1; 3]%nat) true = Err EType /\ ctor_event (PList 1) true = Ok 1%nat.
Proof. vm_compute. repeat split; reflexivity. Qed.

(* C07 — a rejected mutation leaves the file exactly as it was.
   [step] returns (Raised e, s'): the theorem is s' = s — table on disk, data on disk AND the open
   object's table — so later calls behave as if the failed one had never been made.
   The block handed to add/replace/set is modelled as (type, format, declared size, Some payload |
   None + the error its serialisation raises): "the block or its comment cannot be encoded
   (over-long or non-cp1252 label at any position, unsupported format, wrong object)" is
   b_payload = None, whatever the position of the failing element. *)
From Model Require Import Base Str Fmt Container AFile GFile.
From Proofs Require Import BaseFacts ContainerFacts ContainerProps GapFacts.
Open Scope Z_scope.

Theorem C07_atomic : forall s o e s', compact s -> op_ok o -> step s o = (Raised e, s') -> s' = s.
Proof. exact step_atomic. Qed.
Print Assumptions C07_atomic.

(* ... hence any continuation behaves as if the failed call had never been made *)
Theorem C07_continuation : forall s o e s' ops, compact s -> op_ok o ->
  step s o = (Raised e, s') -> run_ops s (o :: ops) = run_ops s ops.
Proof.
  intros s o e s' ops Hc Ho E. cbn [run_ops fold_left]. rewrite E. cbn [snd].
  now rewrite (step_atomic s o e s' Hc Ho E).
Qed.
Print Assumptions C07_continuation.

(* add_block and remove_block are atomic on ANY state, compact or not *)
(* the same on every ORDERED file (GFile.v: padding between blocks, bytes behind the last one — what a foreign writer
   may leave), of which the packed files are a special case *)
Theorem C07_atomic_ordered : forall s o e s', ordered s -> op_ok o -> step s o = (Raised e, s') -> s' = s.
Proof. exact gstep_atomic. Qed.
Print Assumptions C07_atomic_ordered.

Theorem C07_continuation_ordered : forall s o e s' ops, ordered s -> op_ok o ->
  step s o = (Raised e, s') -> run_ops s (o :: ops) = run_ops s ops.
Proof.
  intros s o e s' ops Hc Ho E. cbn [run_ops fold_left]. rewrite E. cbn [snd].
  now rewrite (gstep_atomic s o e s' Hc Ho E).
Qed.
Print Assumptions C07_continuation_ordered.

Theorem C07_add_any_state : forall s b c now e s', c_add s b c now = (Raised e, s') -> s' = s.
Proof. exact c_add_raise_same. Qed.
Print Assumptions C07_add_any_state.

Theorem C07_remove_any_state : forall s ty now e s', c_remove s ty now = (Raised e, s') -> s' = s.
Proof. exact c_remove_raise_same. Qed.
Print Assumptions C07_remove_any_state.

(* the rejection is not lost: each listed cause makes the call raise (and by C07_atomic change nothing) *)
Theorem C07_causes : forall a, a_inv a ->
  (* a block of that type already exists *)
  (forall b c now, blk_ok b -> existsb (Z.eqb (b_type b)) (a_types a) = true ->
     exists e, step (conc a) (OAdd b c now) = (Raised e, conc a)) /\
  (* the table is full *)
  (forall b c now, blk_ok b -> a_free a = [] ->
     exists e, step (conc a) (OAdd b c now) = (Raised e, conc a)) /\
  (* the comment cannot be encoded *)
  (forall b c now, blk_ok b -> comment_ok c = false ->
     exists e, step (conc a) (OAdd b c now) = (Raised e, conc a)) /\
  (* the block cannot be encoded *)
  (forall b c now, blk_ok b -> b_payload b = None ->
     exists e, step (conc a) (OAdd b c now) = (Raised e, conc a)) /\
  (forall b c n1 n2, blk_ok b -> b_payload b = None ->
     exists e, step (conc a) (OReplace b c n1 n2) = (Raised e, conc a)) /\
  (forall b n1 n2, blk_ok b -> b_payload b = None ->
     exists e, step (conc a) (OSet b n1 n2) = (Raised e, conc a)) /\
  (* the type to remove or replace is absent *)
  (forall ty now, ty <> 0 -> existsb (Z.eqb ty) (a_types a) = false ->
     exists e, step (conc a) (ORemove ty now) = (Raised e, conc a)) /\
  (forall b c n1 n2, blk_ok b -> a_find a (b_type b) = None ->
     exists e, step (conc a) (OReplace b c n1 n2) = (Raised e, conc a)).
Proof.
  intros a Hi. repeat split.
  - intros b c now Hb Hd. pose proof (step_refines a (OAdd b c now) Hi Hb) as H. cbn [a_step] in H.
    rewrite Hd in H. cbn [negb andb] in H. destruct (b_payload b); [destruct (a_free a)|]; exact H.
  - intros b c now Hb Hf. pose proof (step_refines a (OAdd b c now) Hi Hb) as H. cbn [a_step] in H.
    rewrite Hf in H. destruct (b_payload b); exact H.
  - intros b c now Hb Hc. pose proof (step_refines a (OAdd b c now) Hi Hb) as H. cbn [a_step] in H.
    rewrite Hc, andb_false_r in H. destruct (b_payload b); [destruct (a_free a)|]; exact H.
  - intros b c now Hb Hp. pose proof (step_refines a (OAdd b c now) Hi Hb) as H. cbn [a_step] in H.
    now rewrite Hp in H.
  - intros b c n1 n2 Hb Hp. pose proof (step_refines a (OReplace b c n1 n2) Hi Hb) as H. cbn [a_step] in H.
    now rewrite Hp in H.
  - intros b n1 n2 Hb Hp. pose proof (step_refines a (OSet b n1 n2) Hi Hb) as H. cbn [a_step] in H.
    now rewrite Hp in H.
  - intros ty now Hty Hn. pose proof (step_refines a (ORemove ty now) Hi Hty) as H. cbn [a_step] in H.
    now rewrite Hn in H.
  - intros b c n1 n2 Hb Hf. pose proof (step_refines a (OReplace b c n1 n2) Hi Hb) as H. cbn [a_step] in H.
    rewrite Hf in H. destruct (b_payload b); exact H.
Qed.
Print Assumptions C07_causes.

(* an unused slot between live blocks: add_block refuses with IOError and touches nothing *)
Theorem C07_unused_in_the_middle : forall s b c now k x p,
  existsb (has_type (b_type b)) (mem s) = false ->
  find_pos is_unused (mem s) = Some k -> existsb is_live (skipn (S k) (mem s)) = true ->
  str_write 256 c = Ok x -> b_payload b = Some p ->
  c_add s b c now = (Raised EIO, s).
Proof. intros s b c now k x p H1 H2 H3 H4 H5. unfold c_add. now rewrite H1, H2, H3. Qed.
Print Assumptions C07_unused_in_the_middle.

(* a failed replace never loses the block it was meant to replace *)
Corollary C07_failed_replace_keeps_block : forall a b c n1 n2 e s' old,
  a_inv a -> blk_ok b -> a_find a (b_type b) = Some old ->
  step (conc a) (OReplace b c n1 n2) = (Raised e, s') ->
  s' = conc a /\ exists off rest, c_get_type s' (b_type b) = Some (live_entry off old, l_payload old ++ rest).
Proof.
  intros a b c n1 n2 e s' old Hi Hb Hf E.
  assert (s' = conc a).
  { apply (step_atomic (conc a) (OReplace b c n1 n2) e s'); [exists a; split; [exact Hi|reflexivity]|exact Hb|exact E]. }
  subst s'. split; [reflexivity|].
  destruct Hb as [Hty _]. destruct (get_type_conc a _ old Hty Hf) as [off [rest [H _]]]. now exists off, rest.
Qed.
Print Assumptions C07_failed_replace_keeps_block.

(* non-vacuity: a file holding two blocks; replacing the first with an unencodable block raises and
   the state is untouched; so does adding with a 256-character comment *)
Example C07_example :
  let a := mkA 3 [mkL 16 0 1 2 3 [65] [9; 9; 9]; mkL 11 1 1 2 3 [] [7]] [mkF 0 5 5 5 []] in
  let bad := mkB 16 0 0 None EValue 8 9 in
  let good := mkB 5 1 1 (Some [4]) EValue 8 9 in
  a_inv a /\
  step (conc a) (OReplace bad None 50 51) = (Raised EValue, conc a) /\
  step (conc a) (OAdd good (repeat 65 256) 50) = (Raised EValue, conc a).
Proof.
  cbn zeta. split; [|split; vm_compute; reflexivity].
  split; [split; [repeat constructor; discriminate|reflexivity]|].
  repeat constructor; cbn; intuition discriminate.
Qed.

(* C01 — encoding a block and decoding it gives back the same block.
   Model: Blocks.v (the nine layouts) interpreted by Fmt.enc / Fmt.dec.
   Validity of a block value v for layout f is the executable predicate [wfb f v]:
   labels cp1252-encodable, NUL-free and shorter than their field; integers in range; enum codes
   legal; every count equal to the length of the list it announces; every missing frame canonical. *)
From Model Require Import Base Fmt Segments Blocks.
From Proofs Require Import BaseFacts FmtFacts SegFacts GridFacts.
Open Scope Z_scope.

(* decode (encode b ++ anything) = (b, anything), for every block type and format *)
Theorem C01_roundtrip : forall ty format f v bs rest,
  block_fmt ty format = Some f -> wfb f v = true -> enc f v = Some bs ->
  dec f (bs ++ rest) = Some (v, rest).
Proof. intros ty format f v bs rest _. apply dec_enc. Qed.
Print Assumptions C01_roundtrip.

(* every valid block encodes, to bytes *)
Theorem C01_valid_encodes : forall ty format f v,
  block_fmt ty format = Some f -> wfb f v = true ->
  exists bs, enc f v = Some bs /\ bytesb bs = true.
Proof.
  intros ty format f v _ Hw. destruct (encj_total f zero_junk 0 v Hw) as [bs E].
  exists bs. split; [exact E|]. eapply encj_bytes; [exact zero_junk_ok|exact E].
Qed.
Print Assumptions C01_valid_encodes.

(* encoding the decoded block again reproduces exactly the same bytes *)
Theorem C01_reencode : forall ty format f v bs v',
  block_fmt ty format = Some f -> wfb f v = true -> enc f v = Some bs ->
  dec f bs = Some (v', []) -> enc f v' = Some bs.
Proof.
  intros ty format f v bs v' Hf Hw He Hd.
  pose proof (C01_roundtrip ty format f v bs [] Hf Hw He) as R. rewrite app_nil_r in R.
  rewrite R in Hd. inversion Hd; subst. exact He.
Qed.
Print Assumptions C01_reencode.

(* nothing is lost: two valid blocks with the same bytes are the same block, and — the encoding being
   a prefix code — a valid encoding followed by anything determines the block AND where it ends *)
Theorem C01_encode_injective : forall ty format f v1 v2 bs,
  block_fmt ty format = Some f -> wfb f v1 = true -> wfb f v2 = true ->
  enc f v1 = Some bs -> enc f v2 = Some bs -> v1 = v2.
Proof.
  intros ty format f v1 v2 bs Hf H1 H2 E1 E2.
  pose proof (C01_roundtrip ty format f v1 bs [] Hf H1 E1) as R1.
  pose proof (C01_roundtrip ty format f v2 bs [] Hf H2 E2) as R2.
  rewrite R1 in R2. now inversion R2.
Qed.
Print Assumptions C01_encode_injective.

Theorem C01_prefix_code : forall ty format f v1 v2 bs1 bs2 r1 r2,
  block_fmt ty format = Some f -> wfb f v1 = true -> wfb f v2 = true ->
  enc f v1 = Some bs1 -> enc f v2 = Some bs2 -> bs1 ++ r1 = bs2 ++ r2 ->
  v1 = v2 /\ bs1 = bs2 /\ r1 = r2.
Proof.
  intros ty format f v1 v2 bs1 bs2 r1 r2 Hf H1 H2 E1 E2 Hb.
  pose proof (C01_roundtrip ty format f v1 bs1 r1 Hf H1 E1) as R1.
  pose proof (C01_roundtrip ty format f v2 bs2 r2 Hf H2 E2) as R2.
  rewrite Hb, R2 in R1. inversion R1; subst. rewrite E1 in E2. inversion E2; subst. now repeat split.
Qed.
Print Assumptions C01_prefix_code.

(* the gap pattern is a stored field: the view condition inside wfb holds for every frame list
   whose missing frames are canonical (proved for all lengths in SegFacts) *)
Theorem C01_gaps_preserved : forall fs,
  gaps_canonical fs -> frames_of_wire (length fs) (frames_to_wire fs) = fs.
Proof. exact frames_roundtrip. Qed.
Print Assumptions C01_gaps_preserved.

(* 2D data keeps its point counts camera-major and its points frame-major; the two orders are inverse
   permutations on EVERY frames x cameras grid, and the grid survives the view to the wire form: the
   view conditions inside wfb are satisfied by all rectangular grids, they restrict nothing *)
Theorem C01_d2_count_table_orders : forall C F (M : list (list V)), rect F C M ->
  to_frame_major C F (to_camera_major C F (concat M)) = concat M.
Proof. intros C F M. apply frame_camera_major_inverse. Qed.
Print Assumptions C01_d2_count_table_orders.

Theorem C01_d2_grid_view : forall C F (frames : list (list V)), rect F C frames ->
  d2_from C F (d2_to C F (VL (map (fun fr => VL fr) frames))) = VL (map (fun fr => VL fr) frames).
Proof. exact d2_view_roundtrip. Qed.
Print Assumptions C01_d2_grid_view.

(* non-vacuity: one concrete valid block per layout family *)
Example C01_example_d3 :
  let p := VL [VI 1065353216; VI 2147483648; VI 1] in
  let v3 := VL [VI 0; VI 0; VI 0] in
  let v9 := VL [VI 0; VI 0; VI 0; VI 0; VI 0; VI 0; VI 0; VI 0; VI 0] in
  wfb (d3 1) (VL [VI 3; VI 100; VI 0; VI 2; v3; v9; v3; VI 1;
                  VL [VI 1; VL []; VL [VL [VI 0; VI 1]]];
                  VL [VL [vints [99; 55]; VL [p; gap; p]]; VL [vints []; VL [gap; gap; gap]]]]) = true.
Proof. vm_compute. reflexivity. Qed.

Example C01_example_ev :
  wfb ev (VL [VI 2; VI 0; VL [VL [vints [8364]; VI 0; VI 1; VL [VI 5]];
                               VL [vints [65; 66]; VI 1; VI 3; VL [VI 1; VI 2; VI 3]]]]) = true.
Proof. vm_compute. reflexivity. Qed.

Example C01_example_em :
  wfb em (VL [VI 1; VI 1000; VI 0; VI 4; VL [VI (-7)];
              VL [VL [vints [101]; VL [VI 1; gap; VI 2; VI 3]]]]) = true.
Proof. vm_compute. reflexivity. Qed.

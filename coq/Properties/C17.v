(* C17 — creating or copying a file never clobbers an existing one. *)
From Model Require Import Base Str Fmt Container AFile Fs.
From Proofs Require Import BaseFacts FmtFacts ContainerFacts ContainerProps.
From Coq Require Import ZifyBool.
Open Scope Z_scope.

Lemma fs_get_set_same f p bs : fs_get (fs_set f p bs) p = Some bs.
Proof. unfold fs_set. cbn [fs_get]. now rewrite Z.eqb_refl. Qed.
Lemma fs_get_set_other f p q bs : q <> p -> fs_get (fs_set f p bs) q = fs_get f q.
Proof. intros H. unfold fs_set. cbn [fs_get]. destruct (Z.eqb_spec p q); [congruence|reflexivity]. Qed.

(* a date that fits the 32-bit field *)
Definition date_ok (now : Z) : Prop := -2147483648 <= now < 2147483648.

Lemma new_bytes_ok now : date_ok now -> exists bs, new_bytes now = Some bs /\ zlength bs = 4096.
Proof.
  intros Hd. unfold new_bytes, file_bytes.
  assert (Hr : in_rangeb (-2147483648) 2147483648 now = true) by (unfold in_rangeb, date_ok in *; lia).
  assert (Hh : wfb header_fmt (header_v 1 (s_n (new_file now)) now now now) = true).
  { cbn. rewrite Hr. reflexivity. }
  assert (He : wfb entry_fmt (entry_v (unused_entry (base 14) now)) = true).
  { cbn. rewrite Hr. reflexivity. }
  destruct (encj_total header_fmt zero_junk 0 _ Hh) as [h Eh].
  destruct (encj_total entry_fmt zero_junk 0 _ He) as [e Ee].
  unfold enc. rewrite Eh. cbn [tab new_file].
  assert (Hen : forall k, enc_entries (repeat (unused_entry (base 14) now) k) = Some (concat (repeat e k))).
  { induction k as [|k IH]; cbn [repeat enc_entries concat]; [reflexivity|].
    unfold enc at 1. rewrite Ee, IH. reflexivity. }
  rewrite Hen. eexists. split; [reflexivity|].
  pose proof (encj_size _ _ _ _ _ Eh) as Sh. pose proof (encj_size _ _ _ _ _ Ee) as Se.
  cbn in Sh, Se. cbn [data new_file]. rewrite app_nil_r, zlength_app, Sh.
  assert (Hc : forall k, zlength (concat (repeat e k)) = 288 * Z.of_nat k).
  { induction k as [|k IH]; cbn [repeat concat]; [reflexivity|]. rewrite zlength_app, IH, Se. lia. }
  rewrite Hc. reflexivity.
Qed.

(* new on a fresh path: a 4096-byte file = header + 14 unused slots pointing at 4096, nothing after;
   no other path is touched *)
Theorem C17_new_fresh : forall f p now, date_ok now -> fs_get f p = None ->
  exists bs f', fs_new f p now = (Done, f') /\ fs_get f' p = Some bs /\
    file_bytes 1 now now now (new_file now) = Some bs /\ zlength bs = 4096 /\
    compact (new_file now) /\ s_n (new_file now) = 14 /\ data (new_file now) = [] /\
    Forall (fun e => e_type e = 0 /\ e_off e = 4096 /\ e_size e = 0) (tab (new_file now)) /\
    fs_open f' p = Ok bs /\
    forall q, q <> p -> fs_get f' q = fs_get f q.
Proof.
  intros f p now Hd Hp. destruct (new_bytes_ok now Hd) as [bs [Eb Hl]].
  exists bs, (fs_set f p bs). unfold fs_new. rewrite Hp, Eb.
  split; [reflexivity|]. split; [apply fs_get_set_same|]. split; [exact Eb|]. split; [exact Hl|].
  split.
  { exists (mkA 14 [] (repeat (fresh_slot now) 14)). split; [|reflexivity].
    split; [split; [constructor|reflexivity]|constructor]. }
  split; [reflexivity|]. split; [reflexivity|]. split.
  { cbn [tab new_file]. apply Forall_forall. intros e He. apply repeat_spec in He. subst e. now cbn. }
  split.
  { unfold fs_open. rewrite fs_get_set_same.
    unfold new_bytes, file_bytes in Eb.
    destruct (enc header_fmt (header_v 1 (s_n (new_file now)) now now now)) as [h|] eqn:Eh; [|discriminate].
    destruct (enc_entries (tab (new_file now))) as [t|]; [|discriminate]. inversion Eb; subst bs.
    unfold enc, header_fmt, header_v in Eh. cbn [FSeq FCons encj] in Eh.
    destruct (encj sig_fmt zero_junk 0 (VL (map VI signature))) as [sg|] eqn:Es; [|discriminate].
    vm_compute in Es. inversion Es; subst sg.
    match type of Eh with
    | match ?X with Some _ => _ | None => _ end = _ => destruct X as [rest|]; [|discriminate]
    end.
    inversion Eh; subst h. reflexivity. }
  intros q Hq. now apply fs_get_set_other.
Qed.
Print Assumptions C17_new_fresh.

(* new on an existing path — TDF, non-TDF or empty alike — is refused; nothing changes *)
Theorem C17_new_exists : forall f p now x, fs_get f p = Some x ->
  fs_new f p now = (Raised EFileExists, f).
Proof. intros f p now x H. unfold fs_new. now rewrite H. Qed.
Print Assumptions C17_new_exists.

(* copy to a fresh path: byte-identical; nothing else is touched *)
Theorem C17_copy_fresh : forall f src dst bs, fs_get f dst = None -> fs_get f src = Some bs ->
  exists f', fs_copy f src dst = (Done, f') /\ fs_get f' dst = Some bs /\
             forall q, q <> dst -> fs_get f' q = fs_get f q.
Proof.
  intros f src dst bs Hd Hs. exists (fs_set f dst bs). unfold fs_copy. rewrite Hd, Hs.
  split; [reflexivity|]. split; [apply fs_get_set_same|]. intros q Hq. now apply fs_get_set_other.
Qed.
Print Assumptions C17_copy_fresh.

Theorem C17_copy_exists : forall f src dst x, fs_get f dst = Some x ->
  fs_copy f src dst = (Raised EFileExists, f).
Proof. intros f src dst x H. unfold fs_copy. now rewrite H. Qed.
Print Assumptions C17_copy_exists.

(* the copy is independent of the original: later mutations of either leave the other untouched *)
Theorem C17_copy_independent : forall f src dst f' g, src <> dst ->
  fs_copy f src dst = (Done, f') ->
  fs_get (fs_mutate f' dst g) src = fs_get f src /\
  fs_get (fs_mutate f' src g) dst = fs_get f src.
Proof.
  intros f src dst f' g Hne H. unfold fs_copy in H.
  destruct (fs_get f dst) eqn:Hd; [discriminate|]. destruct (fs_get f src) as [bs|] eqn:Hs; [|discriminate].
  inversion H; subst f'. unfold fs_mutate. rewrite fs_get_set_same.
  rewrite (fs_get_set_other f dst src bs Hne), Hs. split.
  - rewrite fs_get_set_other by exact Hne. rewrite fs_get_set_other by exact Hne. exact Hs.
  - rewrite fs_get_set_other by congruence. apply fs_get_set_same.
Qed.
Print Assumptions C17_copy_independent.

(* opening: a missing path, or content that does not start with the signature, yields no data *)
Theorem C17_open_refuses : forall f p,
  (fs_get f p = None -> fs_open f p = Err ENotFound) /\
  (forall bs, fs_get f p = Some bs -> is_prefix signature bs = false -> fs_open f p = Err EOther).
Proof.
  intros f p. split.
  - intros H. unfold fs_open. now rewrite H.
  - intros bs H Hp. unfold fs_open. now rewrite H, Hp.
Qed.
Print Assumptions C17_open_refuses.

(* ---- the same refusal seen from a long-lived Tdf object (Access.v): somebody replaces its file by bytes that are
   not a TDF file while no context is open.  Entering a context and every reader that provides its own context are
   then refused, the object is left outside any context with its handle closed — so the NEXT call opens the file
   again instead of answering from what an earlier context read — and nothing is written; once the TDF file is
   back, the object works again. ---- *)
From Model Require Import Access.

Theorem C17_object_refuses_non_tdf : forall s c,
  x_valid s = false -> x_inside s = false -> (c = Enter \/ c = Reader RAuto) ->
  fst (a_step s c) = true /\
  x_inside (snd (a_step s c)) = false /\ x_handle (snd (a_step s c)) = HClosed /\
  x_mode (snd (a_step s c)) = RB /\ x_disk (snd (a_step s c)) = x_disk s /\
  x_valid (snd (a_step s c)) = false.
Proof.
  intros [m i h d ga gw vl] c Hv Hi [-> | ->]; cbn in *; subst; cbn; repeat split.
Qed.
Print Assumptions C17_object_refuses_non_tdf.

(* any number of refused calls in a row: each is refused on its own account *)
Theorem C17_object_keeps_refusing : forall cs s,
  x_valid s = false -> x_inside s = false -> Forall (fun c => c = Enter \/ c = Reader RAuto) cs ->
  Forall (fun r => r = true) (snd (fold_left (fun '(s, out) c => (snd (a_step s c), fst (a_step s c) :: out)) cs (s, []) : astate * list bool))
  /\ x_inside (a_run s cs) = false /\ x_disk (a_run s cs) = x_disk s.
Proof.
  intros cs. assert (G : forall s out, x_valid s = false -> x_inside s = false ->
    Forall (fun c => c = Enter \/ c = Reader RAuto) cs -> Forall (fun r => r = true) out ->
    Forall (fun r => r = true) (snd (fold_left (fun '(s, out) c => (snd (a_step s c), fst (a_step s c) :: out)) cs (s, out) : astate * list bool))
    /\ x_inside (a_run s cs) = false /\ x_disk (a_run s cs) = x_disk s).
  { induction cs as [|c cs IH]; intros s out Hv Hi Hc Ho; cbn [fold_left a_run snd]; [repeat split; assumption|].
    inversion Hc as [|? ? Hc1 Hc2]; subst.
    destruct (C17_object_refuses_non_tdf s c Hv Hi Hc1) as [R [I [_ [_ [D V]]]]].
    destruct (IH (snd (a_step s c)) (fst (a_step s c) :: out) V I Hc2) as [A [B C]]; [constructor; assumption|].
    repeat split; [exact A|exact B|]. unfold a_run in *. rewrite C. exact D. }
  intros s Hv Hi Hc. apply G; try assumption. constructor.
Qed.
Print Assumptions C17_object_keeps_refusing.

(* an open context is always on a TDF file (the file is not swapped under an open handle), and a refusal leaves
   nothing behind: with the file back, the next context is entered normally *)
Theorem C17_object_recovers : forall s,
  x_inside s = false ->
  let s1 := snd (a_step (snd (a_step s Clobber)) Enter) in
  let s2 := snd (a_step s1 Restore) in
  fst (a_step s2 Enter) = false /\ x_inside (snd (a_step s2 Enter)) = true /\
  fst (a_step s2 (Reader RAuto)) = false.
Proof. intros [m i h d ga gw vl] Hi. cbn in *. subst. cbn. repeat split. Qed.
Print Assumptions C17_object_recovers.

Example C17_example :
  let f := [(1, [1; 2; 3]); (2, [])] in
  fs_new f 1 0 = (Raised EFileExists, f) /\ fs_new f 2 0 = (Raised EFileExists, f) /\
  fst (fs_new f 3 1600000000) = Done /\ fs_copy f 1 2 = (Raised EFileExists, f) /\
  fs_open f 1 = Err EOther /\ fs_open f 9 = Err ENotFound.
Proof. vm_compute. repeat split; reflexivity. Qed.

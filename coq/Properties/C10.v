(* C10 — the open object, the file on disk and a reopened file always agree.
   The state of Container.v keeps the open object's table ([mem] = Tdf.entries) and the file
   ([tab], [data]) SEPARATELY, and every operation updates them separately in the order the code
   does; their agreement after every call is therefore a theorem.  The model has no write buffer:
   what [tab]/[data] denote is what an independent reader sees the moment the call returns — the
   correspondence check observes exactly that through a fresh OS handle. *)
From Model Require Import Base Str Fmt Blocks Container AFile GFile TwoObjects.
From Proofs Require Import BaseFacts FmtFacts ContainerFacts ContainerProps GapFacts TwoFacts.
Open Scope Z_scope.

(* after every call — successful or refused — the open object's table is the table on disk *)
Theorem C10_sync : forall s o r s', compact s -> op_ok o -> step s o = (r, s') -> mem s' = tab s'.
Proof.
  intros s o r s' Hc Ho E. apply compact_wf. eapply step_compact; eassumption.
Qed.
Print Assumptions C10_sync.

Theorem C10_sync_history : forall s ops, compact s -> Forall op_ok ops ->
  mem (run_ops s ops) = tab (run_ops s ops).
Proof. intros s ops Hc Ho. apply compact_wf. now apply run_compact. Qed.
Print Assumptions C10_sync_history.

(* the same on every ordered file (GFile.v: padding between blocks, bytes behind the last one) *)
Theorem C10_sync_history_ordered : forall s ops, ordered s -> Forall op_ok ops ->
  mem (run_ops s ops) = tab (run_ops s ops) /\ c_reopen (run_ops s ops) = run_ops s ops.
Proof.
  intros s ops Hc Ho. pose proof (run_ordered s ops Hc Ho) as Hr. split; [now apply ordered_wf|].
  destruct Hr as [a [_ ->]]. reflexivity.
Qed.
Print Assumptions C10_sync_history_ordered.

(* closing and reopening (the table is re-read from the file) changes nothing, at any point of a history *)
Theorem C10_reopen : forall s, compact s -> c_reopen s = s.
Proof. intros s [a [_ ->]]. reflexivity. Qed.
Print Assumptions C10_reopen.

Theorem C10_reopen_anywhere : forall s ops1 ops2, compact s -> Forall op_ok ops1 -> Forall op_ok ops2 ->
  run_ops s (ops1 ++ OReopen :: ops2) = run_ops s (ops1 ++ ops2).
Proof.
  intros s ops1 ops2 Hc H1 H2. unfold run_ops. rewrite !fold_left_app. cbn [fold_left step snd].
  fold (run_ops s ops1). now rewrite C10_reopen by now apply run_compact.
Qed.
Print Assumptions C10_reopen_anywhere.

(* the table bytes on disk decode to the open object's table, entry for entry *)
Theorem C10_table_bytes : forall l bs rest,
  Forall (fun e => wfb entry_fmt (entry_v e) = true) l -> enc_entries l = Some bs ->
  dec_entries (length l) (bs ++ rest) = Some (map entry_v l, rest).
Proof. exact dec_entries_enc. Qed.
Print Assumptions C10_table_bytes.

(* the whole file — header, table, data — read back from its bytes IS the state: nothing is held only
   in memory, and every byte is accounted for *)
Theorem C10_whole_file : forall version cd md ad s bs,
  wfb header_fmt (header_v version (s_n s) cd md ad) = true ->
  Forall (fun e => wfb entry_fmt (entry_v e) = true) (tab s) -> zlength (tab s) = s_n s ->
  file_bytes version cd md ad s = Some bs ->
  parse_file bs = Some (header_v version (s_n s) cd md ad, map entry_v (tab s), data s).
Proof. exact parse_file_bytes. Qed.
Print Assumptions C10_whole_file.

(* reading a block through the open object = decoding the bytes stored on disk at its entry *)
Theorem C10_read_through : forall a ty lb, ty <> 0 -> a_find a ty = Some lb ->
  exists off rest, c_get_type (conc a) ty = Some (live_entry off lb, l_payload lb ++ rest) /\
                   slice off (e_size (live_entry off lb)) (conc a) = l_payload lb.
Proof. exact get_type_conc. Qed.
Print Assumptions C10_read_through.

(* Tdf.nBytes (size from the file system) = header + table + data *)
Theorem C10_nbytes : forall a, c_nbytes (conc a) = 64 + 288 * a_n a + total (a_live a).
Proof. intros a. rewrite nbytes_conc. apply file_len_conc. Qed.
Print Assumptions C10_nbytes.

Example C10_example :
  let a := mkA 3 [mkL 16 0 1 2 3 [65] [9; 9; 9]] [mkF 0 5 5 5 []; mkF 0 6 6 6 []] in
  let b := mkB 5 1 2 (Some [4; 4]) EValue 8 9 in
  let s := run_ops (conc a) [OAdd b [] 50; OReopen; ORemove 16 60] in
  a_inv a /\ mem s = tab s /\ map e_type (mem s) = [5; 0; 0].
Proof.
  cbn zeta. split; [|split; vm_compute; reflexivity].
  split; [split; [repeat constructor; discriminate|reflexivity]|].
  repeat constructor; cbn; intuition discriminate.
Qed.

(* two objects on one file, their sessions OVERLAPPING (TwoObjects.v: each object has its own copy of the table; entering a
   context re-reads it, leaving writes nothing).  A enters and mutates (or does not: opsA = []); while A is still inside its
   context a helper object B enters, runs a whole session and leaves; A leaves without touching the file again.  The file —
   and the table any object reads from it afterwards — is what A's calls followed by B's calls make of it, and it is compact. *)
Theorem C10_two_objects_overlapping_sessions : forall s opsA opsB,
  compact s -> Forall op_ok opsA -> Forall op_ok opsB ->
  let calls := TEnter ObjA :: map (TOp ObjA) opsA ++ TEnter ObjB :: map (TOp ObjB) opsB ++ [TExit ObjB; TExit ObjA] in
  file_of (t_run (start s) calls) = run_ops s (opsA ++ opsB) /\ compact (file_of (t_run (start s) calls)).
Proof. exact overlapping_sessions. Qed.
Print Assumptions C10_two_objects_overlapping_sessions.

(* ... and "without touching the file again" cannot be dropped: an object that goes on mutating with the table copy it read
   BEFORE the other object's session writes over the other's block (each object trusts its own copy — the property speaks of one
   open object and independent readers, not of two writers).  A 3-slot file; A enters; B adds an 8-byte block and leaves; A,
   whose copy still says "slot 0 is free, data ends at 928", adds a 2-byte block: both blocks now claim offset 928. *)
Example C10_two_writers_with_a_stale_table :
  let s := mkS 3 [mkE 0 0 928 0 0 0 0 []; mkE 0 0 928 0 0 0 0 []; mkE 0 0 928 0 0 0 0 []]
                 [mkE 0 0 928 0 0 0 0 []; mkE 0 0 928 0 0 0 0 []; mkE 0 0 928 0 0 0 0 []] [] in
  let bB := mkB 11 1 8 (Some [1; 1; 1; 1; 1; 1; 1; 1]) EValue 0 0 in
  let bA := mkB 5 1 2 (Some [9; 9]) EValue 0 0 in
  let t := t_run (start s) [TEnter ObjA; TEnter ObjB; TOp ObjB (OAdd bB [] 1); TExit ObjB; TOp ObjA (OAdd bA [] 2); TExit ObjA] in
  compact s /\ map (fun e => (e_type e, e_off e, e_size e)) (t_tab t) = [(5, 928, 2); (0, 930, 0); (0, 930, 0)] /\
  t_data t = [9; 9; 1; 1; 1; 1; 1; 1] /\ soundb (file_of t) = true /\
  file_of t <> run_ops s [OAdd bB [] 1; OAdd bA [] 2].
Proof.
  cbn zeta. split; [|split; [vm_compute; reflexivity|split; [vm_compute; reflexivity|split; [vm_compute; reflexivity|]]]].
  - exists (mkA 3 [] [mkF 0 0 0 0 []; mkF 0 0 0 0 []; mkF 0 0 0 0 []]). split; [|reflexivity].
    split; [split; [constructor|reflexivity]|constructor].
  - intros H. apply (f_equal data) in H. vm_compute in H. discriminate.
Qed.

(* C06 — bytes on disk follow the fixed TDF layout.
   The layouts are DATA (Blocks.v, Entry.v): lists of fields with kind and width.  The library's
   writer is modelled by [enc] = the layout interpreter with zeros in the don't-care bytes;
   "layout-conformant bytes" are the outputs of the free interpreter [encj] with any junk. *)
From Model Require Import Base Fmt Segments Blocks Container.
From Proofs Require Import BaseFacts StrFacts FmtFacts ContainerFacts ContainerProps.
Open Scope Z_scope.

(* the library's own output is an instance of the layout-driven encoder *)
Theorem C06_own_is_conformant : forall f v, enc f v = encj f zero_junk 0 v.
Proof. reflexivity. Qed.
Print Assumptions C06_own_is_conformant.

(* conformant bytes — with anything in the don't-care positions — decode to exactly the encoded
   value, consuming exactly the block *)
Theorem C06_decode_conformant : forall ty format f jk v bs rest,
  block_fmt ty format = Some f -> junk_ok jk -> wfb f v = true -> encj f jk 0 v = Some bs ->
  dec f (bs ++ rest) = Some (v, rest).
Proof. intros ty format f jk v bs rest _ Hj. now apply dec_encj. Qed.
Print Assumptions C06_decode_conformant.

(* integers: little-endian, width exact *)
Theorem C06_int_little_endian : forall w lo hi jk off z bs,
  encj (FInt w lo hi) jk off (VI z) = Some bs ->
  length bs = w /\ bytesb bs = true /\ le_val bs = z mod pow256 w.
Proof.
  intros w lo hi jk off z bs H. cbn [encj] in H. destruct (in_rangeb lo hi z); [|discriminate].
  inversion H; subst. repeat split.
  - apply le_bytes_length.
  - apply le_bytes_ok.
  - apply le_val_le_bytes.
Qed.
Print Assumptions C06_int_little_endian.

(* fields are laid out consecutively, in order: a sequence is the concatenation of its fields,
   each starting where the previous one ended *)
Theorem C06_fields_consecutive : forall a k jk off va vs bs,
  encj (FBind a k) jk off (VL (va :: vs)) = Some bs ->
  exists b1 b2, encj a jk off va = Some b1 /\
                encj (k va) jk (off + zlength b1) (VL vs) = Some b2 /\ bs = b1 ++ b2.
Proof.
  intros a k jk off va vs bs H. cbn [encj] in H.
  destruct (encj a jk off va) as [b1|] eqn:E1; [|discriminate].
  destruct (encj (k va) jk (off + zlength b1) (VL vs)) as [b2|] eqn:E2; [|discriminate].
  inversion H; subst. exists b1, b2. repeat split; [exact E2].
Qed.
Print Assumptions C06_fields_consecutive.

(* reserved / pad fields are zero in what the library writes *)
Theorem C06_reserved_zero : forall n bs, enc (FPad n) (VL []) = Some bs -> bs = repeat 0 n.
Proof. intros n bs H. cbn in H. inversion H. apply junk_zero. Qed.
Print Assumptions C06_reserved_zero.

(* strings are NUL-terminated and zero-padded to the field width *)
Theorem C06_string_field : forall w s bs,
  enc (FStr w) (vints s) = Some bs ->
  exists e, cp_encode s = Some e /\ bs = e ++ 0 :: repeat 0 (w - length e - 1).
Proof.
  intros w s bs H. unfold enc in H. cbn [encj vints] in H. rewrite unints_vints in H.
  destruct (str_writej w zero_junk 0 s) as [out|] eqn:E; cbn [opt_of_result] in H; [|discriminate].
  inversion H; subst. now apply str_write_shape.
Qed.
Print Assumptions C06_string_field.

(* sizes *)
Theorem C06_size : forall f jk off v bs, encj f jk off v = Some bs -> zlength bs = size f v.
Proof. exact encj_size. Qed.
Print Assumptions C06_size.

(* the fixed records have the documented widths (computed from the layout data) *)
(* the file header and the jump table are layouts too (64 and 288 bytes), and a whole file written from
   a state reads back as that state: header, every entry, and the data region untouched after them *)
Theorem C06_header_entry_sizes : forall jk off version n cd md ad e hb eb,
  encj header_fmt jk off (header_v version n cd md ad) = Some hb ->
  encj entry_fmt jk off (entry_v e) = Some eb ->
  zlength hb = 64 /\ zlength eb = 288.
Proof.
  intros jk off version n cd md ad e hb eb Hh He. apply encj_size in Hh. apply encj_size in He.
  split; [rewrite Hh|rewrite He]; reflexivity.
Qed.
Print Assumptions C06_header_entry_sizes.

Theorem C06_whole_file : forall version cd md ad s bs,
  wfb header_fmt (header_v version (s_n s) cd md ad) = true ->
  Forall (fun e => wfb entry_fmt (entry_v e) = true) (tab s) -> zlength (tab s) = s_n s ->
  file_bytes version cd md ad s = Some bs ->
  parse_file bs = Some (header_v version (s_n s) cd md ad, map entry_v (tab s), data s).
Proof. exact parse_file_bytes. Qed.
Print Assumptions C06_whole_file.

Example C06_record_widths :
  size os_channel (VL [VI 0; VL []; vints []; vints []; vints []; VL [VL [VI 0; VI 0]; VL [VI 0; VI 0]]]) = 120 /\
  size pc_platform (VL [vints []; VL [VI 0; VI 0]; VL (repeat (VI 0) 12); VL []]) = 568 /\
  size cam_seelab (VL [VL (repeat (VI 0) 9); VL (repeat (VI 0) 3); VL [VI 0; VI 0]; VL [VI 0; VI 0];
                       VL [VI 0; VI 0]; VL [VI 0; VI 0]; VL [VI 0; VI 0];
                       VL [VL [VI 0; VI 0]; VL [VI 0; VI 0]]]) = 192 /\
  size cam_bts (VL [VL (repeat (VI 0) 9); VL (repeat (VI 0) 3); VL [VI 0; VI 0]; VL [VI 0; VI 0];
                    VL (repeat (VI 0) 70); VL (repeat (VI 0) 70);
                    VL [VL [VI 0; VI 0]; VL [VI 0; VI 0]]]) = 1264.
Proof. vm_compute. repeat split; reflexivity. Qed.

(* a concrete EMG header: 2 signals, 1000 Hz, start 0.0, 1049 samples -> stored 1000 (the 49 bias),
   channel map (3, -1) *)
Example C06_em_header_bytes :
  enc em (VL [VI 2; VI 1000; VI 0; VI 1049; VL [VI 3; VI (-1)];
              VL [VL [vints []; VL (repeat gap 1049)]; VL [vints []; VL (repeat gap 1049)]]]) =
  Some ([2;0;0;0; 232;3;0;0; 0;0;0;0; 232;3;0;0; 3;0; 255;255]
          ++ (0 :: repeat 0 255) ++ [0;0;0;0; 0;0;0;0]
          ++ (0 :: repeat 0 255) ++ [0;0;0;0; 0;0;0;0]).
Proof. vm_compute. reflexivity. Qed.

(* C14 — equality tells equal content from different content.
   Model: Equality.v (each __eq__ as a comparison schema over the block values of Blocks.v, or as
   the comparison of the two encodings).  np.allclose's tolerance arithmetic is the Section
   variable [close]: the theorems hold for EVERY [close] that is reflexive on non-NaN patterns —
   that is all they use of it (it appears as an explicit premise in Print Assumptions' output as
   a section hypothesis, not as an axiom). *)
From Model Require Import Base Fmt Segments Blocks Equality.
From Proofs Require Import BaseFacts FmtFacts EqFacts.
From Coq Require Import ZifyBool.
Open Scope Z_scope.

Section C14.
Variable close : Z -> Z -> bool.
Hypothesis close_refl : forall x, is_nan32 x = false -> close x x = true.

(* a block compares equal to itself — also with missing-data gaps (QGapOr), for every schema *)
Theorem C14_reflexive : forall s v, reflb s v = true -> eqv close s v v = true.
Proof. exact (eqv_refl close close_refl). Qed.

(* ... and to the block obtained by encoding and decoding it (C01: that block IS the same value) *)
Theorem C14_roundtrip : forall ty format f s v bs v',
  block_fmt ty format = Some f -> wfb f v = true -> reflb s v = true ->
  enc f v = Some bs -> dec f bs = Some (v', []) ->
  eqv close s v v' = true /\ eqv close s v' v = true.
Proof.
  intros ty format f s v bs v' _ Hw Hr He Hd.
  pose proof (dec_enc f v bs [] Hw He) as R. rewrite app_nil_r in R. rewrite R in Hd. inversion Hd; subst v'.
  split; now apply C14_reflexive.
Qed.

(* it compares unequal to a block that differs in the number of items, in a label, a channel number,
   a header scalar, or a sample beyond tolerance: [differs] has one constructor per clause *)
Theorem C14_discriminates : forall s a b, differs close s a b -> eqv close s a b = false.
Proof. exact (eqv_discriminates close). Qed.

(* byte-comparing classes (3D markers, force/torque, optical setup): equal exactly when the values are *)
Theorem C14_bytes : forall ty format f a b,
  block_fmt ty format = Some f -> wfb f a = true -> wfb f b = true ->
  (eq_bytes f a b = true <-> a = b).
Proof. intros ty format f a b _. apply eq_bytes_iff. Qed.

(* two files compare equal exactly when their version, slot count and block lists do *)
Definition eq_file (beq : V -> V -> bool) (v1 n1 : Z) (bl1 : list V) (v2 n2 : Z) (bl2 : list V) : bool :=
  (v1 =? v2) && (n1 =? n2) &&
  (fix go (x y : list V) : bool :=
     match x, y with
     | [], [] => true
     | p :: x', q :: y' => beq p q && go x' y'
     | _, _ => false
     end) bl1 bl2.

Theorem C14_files : forall beq v1 n1 bl1 v2 n2 bl2,
  eq_file beq v1 n1 bl1 v2 n2 bl2 = true <->
  v1 = v2 /\ n1 = n2 /\ Forall2 (fun p q => beq p q = true) bl1 bl2.
Proof.
  intros beq v1 n1 bl1 v2 n2 bl2. unfold eq_file. rewrite !andb_true_iff, !Z.eqb_eq.
  assert (G : forall x y, (fix go (x y : list V) : bool :=
     match x, y with [] , [] => true | p :: x', q :: y' => beq p q && go x' y' | _, _ => false end) x y = true
     <-> Forall2 (fun p q => beq p q = true) x y).
  { induction x as [|p x IH]; intros [|q y].
    - split; [constructor|reflexivity].
    - split; [discriminate|intros H; inversion H].
    - split; [discriminate|intros H; inversion H].
    - rewrite andb_true_iff, IH. split; [intros [H1 H2]; now constructor|intros H; inversion H; subst; tauto]. }
  rewrite G. tauto.
Qed.
End C14.

Print Assumptions C14_reflexive.
Print Assumptions C14_roundtrip.
Print Assumptions C14_discriminates.
Print Assumptions C14_bytes.
Print Assumptions C14_files.

(* non-vacuity: an EMG block with a gap equals itself; it differs from the block with one more signal,
   with another channel, with another label, and from one with another sample *)
Example C14_example :
  let close := fun a b => a =? b in
  let sig1 := VL [vints [101]; VL [VI 1065353216; gap; VI 1073741824]] in
  let sig2 := VL [vints [102]; VL [VI 1065353216; gap; VI 1073741824]] in
  let sig3 := VL [vints [101]; VL [VI 1065353216; gap; VI 1077936128]] in
  let b := VL [VI 1; VI 1000; VI 0; VI 3; VL [VI 4]; VL [sig1]] in
  reflb q_em b = true /\ eqv close q_em b b = true /\
  eqv close q_em b (VL [VI 2; VI 1000; VI 0; VI 3; VL [VI 4; VI 5]; VL [sig1; sig1]]) = false /\
  eqv close q_em b (VL [VI 1; VI 1000; VI 0; VI 3; VL [VI 5]; VL [sig1]]) = false /\
  eqv close q_em b (VL [VI 1; VI 1000; VI 0; VI 3; VL [VI 4]; VL [sig2]]) = false /\
  eqv close q_em b (VL [VI 1; VI 1000; VI 0; VI 3; VL [VI 4]; VL [sig3]]) = false /\
  differs close q_em b (VL [VI 1; VI 1000; VI 0; VI 3; VL [VI 5]; VL [sig1]]).
Proof.
  cbn zeta. repeat split; try (vm_compute; reflexivity).
  apply (D_field _ _ [VI 1; VI 1000; VI 0; VI 3] [VI 1; VI 1000; VI 0; VI 3] (VL [VI 4]) (VL [VI 5]) [_] [_] (QList QInt));
    [reflexivity|reflexivity|].
  apply (D_elem _ QInt [] [] (VI 4) (VI 5) [] []); [reflexivity|]. apply D_int. discriminate.
Qed.

(* C09 — the file stays compact: no holes, no leaked bytes, free slots point at the end of data.
   [compact s] (AFile.v): s is the layout of an abstract file — live blocks back to back in table
   order right after the table, unused slots after all live ones, each carrying the end-of-data
   offset and size 0, data length = sum of live sizes, and the open object's table = the table on
   disk.  [compactb] is the same statement as an executable check on a parsed file, used by the
   correspondence harness on the implementation's files. *)
From Model Require Import Base Str Fmt Container AFile.
From Proofs Require Import BaseFacts ContainerFacts ContainerProps.
Open Scope Z_scope.

Theorem C09_step : forall s o r s', compact s -> op_ok o -> step s o = (r, s') -> compact s'.
Proof. intros s o r s'. apply step_compact. Qed.
Print Assumptions C09_step.

Theorem C09_history : forall s ops, compact s -> Forall op_ok ops -> compact (run_ops s ops).
Proof. exact run_compact. Qed.
Print Assumptions C09_history.

(* what compact means, spelled out on the concrete table *)
Theorem C09_compact_explicit : forall s, compact s -> compactb s = true /\ mem s = tab s.
Proof. intros s H. split; [now apply compact_compactb|now apply compact_wf]. Qed.
Print Assumptions C09_compact_explicit.

Theorem C09_layout : forall a, a_inv a ->
  tab (conc a) = lay (base (a_n a)) (a_live a) ++
                 map (free_entry (base (a_n a) + total (a_live a))) (a_free a) /\
  data (conc a) = flat_map l_payload (a_live a) /\
  file_len (conc a) = 64 + 288 * a_n a + total (a_live a).
Proof. intros a _. repeat split. apply file_len_conc. Qed.
Print Assumptions C09_layout.

(* removing a block shrinks the file by exactly its size *)
Theorem C09_remove_shrinks : forall a ty now b, a_inv a -> ty <> 0 -> a_find a ty = Some b ->
  exists s', step (conc a) (ORemove ty now) = (Done, s') /\
             file_len s' = file_len (conc a) - zlength (l_payload b).
Proof. exact remove_shrinks. Qed.
Print Assumptions C09_remove_shrinks.

(* adding one grows it by exactly its size *)
Theorem C09_add_grows : forall a b c now s', a_inv a -> blk_ok b ->
  step (conc a) (OAdd b c now) = (Done, s') -> file_len s' = file_len (conc a) + b_size b.
Proof. exact add_grows. Qed.
Print Assumptions C09_add_grows.

Theorem C09_new : forall now, compact (new_file now) /\ file_len (new_file now) = 4096.
Proof.
  intros now. split; [|reflexivity].
  exists (mkA 14 [] (repeat (fresh_slot now) 14)). split; [|reflexivity].
  split; [split; [constructor|reflexivity]|constructor].
Qed.
Print Assumptions C09_new.

(* non-vacuity: three blocks, remove the middle one (the pinned code left the last slot at the old end) *)
Example C09_example :
  let a := mkA 4 [mkL 16 0 1 2 3 [] [1; 1]; mkL 11 1 1 2 3 [] [2; 2; 2]; mkL 5 1 1 2 3 [] [3]] [mkF 0 5 5 5 []] in
  a_inv a /\
  map (fun e => (e_type e, e_off e, e_size e)) (tab (snd (step (conc a) (ORemove 11 9)))) =
    [(16, 1216, 2); (5, 1218, 1); (0, 1219, 0); (0, 1219, 0)] /\
  compactb (snd (step (conc a) (ORemove 11 9))) = true.
Proof.
  cbn zeta. split; [|split; vm_compute; reflexivity].
  split; [split; [repeat constructor; discriminate|reflexivity]|].
  repeat constructor; cbn; intuition discriminate.
Qed.

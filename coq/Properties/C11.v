(* C11 — at most one block per type; presence, count and lookup agree with content. *)
From Model Require Import Base Str Fmt Container AFile GFile.
From Proofs Require Import BaseFacts ContainerFacts ContainerProps GapFacts.
Open Scope Z_scope.

(* the live types of the table on disk never contain a duplicate, after any history *)
Theorem C11_nodup : forall s ops, compact s -> Forall op_ok ops -> NoDup (live_types (run_ops s ops)).
Proof.
  intros s ops Hc Ho. destruct Hc as [a [Hi ->]].
  destruct (run_refines ops a Hi Ho) as [-> [[Ht _] Hnd]]. now rewrite live_types_conc.
Qed.
Print Assumptions C11_nodup.

(* the same from any ordered file (GFile.v) *)
Theorem C11_nodup_ordered : forall s ops, ordered s -> Forall op_ok ops -> NoDup (live_types (run_ops s ops)).
Proof.
  intros s ops Hc Ho. destruct Hc as [a [Hi ->]].
  destruct (grun_refines ops a Hi Ho) as [-> [[Ht _] Hnd]].
  unfold live_types. change (tab (gconc (g_run a ops))) with (gtable (g_run a ops)).
  rewrite gfilter_live_table by exact Ht. rewrite glay_types. exact Hnd.
Qed.
Print Assumptions C11_nodup_ordered.

(* adding a type that is present is refused with ValueError and changes nothing *)
Theorem C11_add_duplicate : forall a b c now, a_inv a -> blk_ok b ->
  existsb (Z.eqb (b_type b)) (a_types a) = true ->
  step (conc a) (OAdd b c now) = (Raised EValue, conc a).
Proof.
  intros a b c now Hi [Hty _] Hd. cbn [step]. unfold c_add. cbn [mem conc].
  now rewrite table_has_type, Hd by exact Hty.
Qed.
Print Assumptions C11_add_duplicate.

(* a setter replaces when the type is present and adds when it is absent — also on a full table *)
Theorem C11_setter : forall a b n1 n2, a_inv a -> blk_ok b ->
  step (conc a) (OSet b n1 n2) =
  if existsb (Z.eqb (b_type b)) (a_types a)
  then step (conc a) (OReplace b None n1 n2)
  else step (conc a) (OAdd b default_comment n2).
Proof.
  intros a b n1 n2 _ [Hty _]. cbn [step]. unfold c_set. cbn [mem conc].
  now rewrite table_has_type by exact Hty.
Qed.
Print Assumptions C11_setter.

Theorem C11_setter_on_full_table : forall a b n1 n2 old p, a_inv a -> blk_ok b -> a_free a = [] ->
  a_find a (b_type b) = Some old -> b_payload b = Some p -> comment_ok (l_comment old) = true ->
  exists a', step (conc a) (OSet b n1 n2) = (Done, conc a') /\
             a_find a' (b_type b) = Some (new_block b (l_comment old) p n2) /\ a_free a' = [].
Proof.
  intros a b n1 n2 old p Hi Hb Hfree Hf Hp Hc.
  pose proof (step_refines a (OSet b n1 n2) Hi Hb) as H. cbn [a_step] in H.
  rewrite Hp, Hf, Hc in H. destruct H as [E Hi'].
  eexists. split; [exact E|]. split.
  - assert (H2 : a_step a (OReplace b None n1 n2) =
                 Some (a_add (a_remove a (b_type b) n1) (new_block b (l_comment old) p n2))).
    { cbn [a_step]. now rewrite Hp, Hf, Hc. }
    destruct (stored_replace a b None n1 n2 _ Hi H2) as [p' [old' [E1 [E2 E3]]]].
    rewrite Hp in E1. rewrite Hf in E2. inversion E1; inversion E2; subst. exact E3.
  - cbn [a_free a_add a_remove]. rewrite Hfree. reflexivity.
Qed.
Print Assumptions C11_setter_on_full_table.

(* the accessors report exactly the live blocks *)
Theorem C11_accessors : forall a, a_inv a ->
  (forall ty, ty <> 0 -> c_has (conc a) ty = existsb (Z.eqb ty) (a_types a)) /\
  c_len (conc a) = zlength (a_live a) /\
  live_types (conc a) = a_types a /\
  (forall ty lb, ty <> 0 -> a_find a ty = Some lb ->
     exists off rest, c_get_type (conc a) ty = Some (live_entry off lb, l_payload lb ++ rest)) /\
  (forall ty, ty <> 0 -> a_find a ty = None -> c_get_type (conc a) ty = None) /\
  (forall i, c_get_index (conc a) i =
             if (0 <=? i) && (i <? a_n a) then Some (nth (Z.to_nat i) (table_of a) (mkE 0 0 0 0 0 0 0 [])) else None).
Proof.
  intros a [[Ht Hn] Hnd]. repeat split.
  - intros ty Hty. now apply has_conc.
  - now apply len_conc.
  - now apply live_types_conc.
  - intros ty lb Hty Hf. destruct (get_type_conc a ty lb Hty Hf) as [off [rest [H _]]]. now exists off, rest.
  - intros ty Hty Hf. now apply get_type_none.
  - intros i. unfold c_get_index. cbn [mem conc]. rewrite table_length by (split; assumption). reflexivity.
Qed.
Print Assumptions C11_accessors.

(* lookup by type returns a block OF THAT TYPE, with its own bytes *)
Corollary C11_getter_own_type : forall a ty e bytes, a_inv a -> ty <> 0 ->
  c_get_type (conc a) ty = Some (e, bytes) -> e_type e = ty.
Proof.
  intros a ty e bytes Hi Hty H. destruct (a_find a ty) as [lb|] eqn:Hf.
  - destruct (get_type_conc a ty lb Hty Hf) as [off [rest [H2 _]]]. rewrite H in H2. inversion H2; subst.
    cbn [e_type live_entry]. now destruct (a_find_some_in _ _ _ Hf).
  - rewrite (get_type_none a ty Hty Hf) in H. discriminate.
Qed.
Print Assumptions C11_getter_own_type.

Example C11_example :
  let a := mkA 3 [mkL 16 0 1 2 3 [65] [9; 9; 9]] [mkF 0 5 5 5 []; mkF 0 6 6 6 []] in
  let b := mkB 16 1 2 (Some [4; 4]) EValue 8 9 in
  a_inv a /\ fst (step (conc a) (OAdd b [] 50)) = Raised EValue /\
  live_types (snd (step (conc a) (OSet b 50 51))) = [16] /\
  data (snd (step (conc a) (OSet b 50 51))) = [4; 4].
Proof.
  cbn zeta. split; [|split; [|split]; vm_compute; reflexivity].
  split; [split; [repeat constructor; discriminate|reflexivity]|].
  repeat constructor; cbn; intuition discriminate.
Qed.

(* C05 — missing-data gaps survive storage exactly; gap frames always read as NaN.
   Model: Segments.v (chunks = np.ma.clump_unmasked on the first component; place = slice assignment;
   nan_fill = np.empty followed by arr[:] = nan) and the track layouts of Blocks.v.
   All statements are for frame lists of ANY length and any number of runs. *)
From Model Require Import Base Fmt Segments Blocks.
From Proofs Require Import BaseFacts FmtFacts SegFacts RunsUnique.
Open Scope Z_scope.

(* the runs written: non-empty, inside the frame range, made of present frames only,
   in increasing order and maximal (consecutive runs never touch) *)
Theorem C05_runs_shape : forall fs,
  Forall (run_ok 0 (zlength fs)) (chunks fs 0) /\ separated (chunks fs 0).
Proof. intros fs. exact (chunks_shape fs 0). Qed.
Print Assumptions C05_runs_shape.

(* ... and they cover exactly the present frames *)
Theorem C05_runs_cover : forall fs i, 0 <= i < zlength fs ->
  (present (nth (Z.to_nat i) fs gap) = true <-> covers (chunks fs 0) i).
Proof. intros fs i Hi. exact (chunks_cover fs 0 i Hi). Qed.
Print Assumptions C05_runs_cover.

(* each run carries the stored values of its own index range *)
Theorem C05_runs_content : forall fs sc, In sc (chunks fs 0) ->
  snd sc = firstn (length (snd sc)) (skipn (Z.to_nat (fst sc)) fs).
Proof.
  intros fs sc H. pose proof (chunks_content fs 0 sc H) as E. now rewrite Z.sub_0_r in E.
Qed.
Print Assumptions C05_runs_content.

(* the listed conditions leave nothing free: ANY table of (start, length) pairs that is non-empty
   run by run, increasing and never touching, inside the frame range and covering exactly the
   present frames IS the table the library writes *)
Theorem C05_runs_canonical : forall fs (rs : list (Z * Z)),
  Forall iv_pos rs -> iv_sep rs ->
  (forall i, iv_cov rs i -> 0 <= i < zlength fs) ->
  (forall i, 0 <= i < zlength fs -> (present (nth (Z.to_nat i) fs gap) = true <-> iv_cov rs i)) ->
  rs = map iv_of (chunks fs 0).
Proof. exact runs_canonical. Qed.
Print Assumptions C05_runs_canonical.

(* non-vacuity of C05_runs_canonical: the table [(0,1); (3,2)] meets all four hypotheses for
   present, gap, gap, present, present *)
Example C05_canonical_example :
  let p := VL [VI 1065353216; VI 0; VI 1073741824] in
  let fs := [p; gap; gap; p; p] in
  let rs := [(0, 1); (3, 2)] in
  Forall iv_pos rs /\ iv_sep rs /\ (forall i, iv_cov rs i -> 0 <= i < zlength fs) /\
  (forall i, 0 <= i < zlength fs -> (present (nth (Z.to_nat i) fs gap) = true <-> iv_cov rs i)) /\
  map iv_of (chunks fs 0) = rs.
Proof.
  cbv zeta. split; [|split; [|split; [|split]]].
  - repeat constructor.
  - cbn [iv_sep fst snd]. split; [lia|exact I].
  - intros i (r & [<-|[<-|[]]] & Hi); cbn [fst snd] in Hi; change (zlength _) with 5; lia.
  - intros i H. change (zlength _) with 5 in H. split.
    + intros Hp.
      assert (i = 0 \/ i = 1 \/ i = 2 \/ i = 3 \/ i = 4) as [->|[->|[->|[->| ->]]]] by lia;
        try (vm_compute in Hp; discriminate).
      * exists (0, 1). cbn [In fst snd]. split; [tauto|lia].
      * exists (3, 2). cbn [In fst snd]. split; [tauto|lia].
      * exists (3, 2). cbn [In fst snd]. split; [tauto|lia].
    + intros (r & [<-|[<-|[]]] & Hi); cbn [fst snd] in Hi.
      * replace i with 0 by lia. reflexivity.
      * assert (i = 3 \/ i = 4) as [->| ->] by lia; reflexivity.
  - reflexivity.
Qed.

(* the segment table that goes into the bytes IS that list of runs *)
Theorem C05_table_written : forall label fs,
  track_to (VL [label; VL fs]) =
  VL [label; VI (zlength (chunks fs 0)); VL []; VL (map seg_entry (chunks fs 0));
      VL (map seg_chunk (chunks fs 0))].
Proof. reflexivity. Qed.
Print Assumptions C05_table_written.

(* decoding: frames outside the runs are gaps (NaN in every component), frames inside carry
   their stored value — i.e. the frame list comes back exactly *)
Theorem C05_decode_exact : forall fs,
  gaps_canonical fs -> frames_of_wire (length fs) (frames_to_wire fs) = fs.
Proof. exact frames_roundtrip. Qed.
Print Assumptions C05_decode_exact.

(* ... identically whatever the uninitialised buffer contained *)
Theorem C05_deterministic : forall g1 g2 l,
  length g1 = length g2 -> decode_frames_g g1 l = decode_frames_g g2 l.
Proof. exact decode_garbage_indep. Qed.
Print Assumptions C05_deterministic.

(* through the bytes, for each of the four track kinds (sample layout arbitrary) *)
Theorem C05_track_bytes : forall n sample jk off t bs rest,
  junk_ok jk -> wfb (track n sample) t = true -> encj (track n sample) jk off t = Some bs ->
  dec (track n sample) (bs ++ rest) = Some (t, rest).
Proof. intros n sample jk off t bs rest Hj. now apply dec_encj. Qed.
Print Assumptions C05_track_bytes.

Theorem C05_ptrack_bytes : forall n sample jk off t bs rest,
  junk_ok jk -> wfb (ptrack n sample) t = true -> encj (ptrack n sample) jk off t = Some bs ->
  dec (ptrack n sample) (bs ++ rest) = Some (t, rest).
Proof. intros n sample jk off t bs rest Hj. now apply dec_encj. Qed.
Print Assumptions C05_ptrack_bytes.

(* non-vacuity: a 3D track  present, gap, gap, present, present  *)
Example C05_example :
  let p := VL [VI 1065353216; VI 0; VI 1073741824] in
  let fs := [p; gap; gap; p; p] in
  map seg_entry (chunks fs 0) = [VL [VI 0; VI 1]; VL [VI 3; VI 2]] /\
  wfb (track 5 (vec 3 f32)) (VL [vints [99; 55]; VL fs]) = true.
Proof. vm_compute. split; reflexivity. Qed.

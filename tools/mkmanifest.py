#!/usr/bin/env python3
"""Regenerates /verif/MANIFEST.json from the table below (and validates it against the schema)."""
import json, os, subprocess, sys
V = os.path.dirname(os.path.dirname(os.path.abspath(__file__)))
CLAIMED = {
 "C01": ("round-trip theorem dec (enc v ++ rest) = (v, rest) for every layout (Fmt/Blocks), all nine block types", ""),
 "C02": ("size theorem |enc v| = size v and exact consumption, for every layout and nested item", ""),
 "C03": ("refinement of add/remove/replace/setter to an abstract file; compact is an invariant of every history and implies structural soundness, for every N",
         "scope: histories start from compact files (Tdf.new, BTS files); a sound-but-not-compact start is the recorded finding F3b"),
 "C04": ("frame theorems on the abstract file (every other block keeps bytes, format, comment, dates) + refinement + bytes-at-offset + decoder composition", ""),
 "C05": ("runs are exact (non-empty, ordered, maximal, covering) and decoding is garbage-independent, for every frame list", "partial: allocator behaviour is modelled as 'arbitrary initial buffer content'"),
 "C06": ("encoders/decoders are interpreters of explicit layout tables; decode of any conformant (junk-filled) bytes = the value", ""),
 "C07": ("step s o = (Raised e, s') -> s' = s on every compact state, for every rejection cause; add/remove atomic on any state", ""),
 "C08": ("state machine of access modes: bytes change only through a mutator inside a context entered after allow_write, over all call interleavings",
         "partial: garbage collection of a handle leaked by nested contexts is a runtime matter outside the model"),
 "C09": ("compact (back to back, free slots at end of data, length = header+table+sizes) is preserved by every history; size deltas of add/remove", ""),
 "C10": ("the open object's table and the table on disk are separate components of the model state and provably equal after every call; reopen is the identity",
         "partial: what an outside reader sees between two writes of one call, and OS durability, are not modelled"),
 "C11": ("NoDup live types is an invariant; duplicate add refused; setter = replace|add; accessors characterised against the abstract file", ""),
 "C12": ("decode is independent of the junk oracle in every don't-care position, for every layout", ""),
 "C13": ("fixed-width string codec: exact width, round-trip iff encodable and fits, refusal otherwise, for every width", ""),
 "C14": ("equality functions of every block type: reflexive, stable under decode(encode), discriminating on each listed difference",
         "partial: the numeric meaning of 'beyond float tolerance' is numpy's; it enters as an abstract closeness relation"),
 "C15": ("channel map / item list alignment, uniqueness and stickiness as an invariant over all edit histories of the three channel-mapped blocks", ""),
 "C16": ("frame-count invariant of track lists over all add / assign histories; list assignment all-or-nothing", ""),
 "C17": ("file-system model: new/copy on a fresh path create exactly the stated bytes and touch nothing else; existing targets are refused and untouched",
         "partial: the exists()-then-open race is a concurrency matter outside the model"),
 "C18": ("len / iter / index / label / contains coherence as list-program theorems for the four block kinds", ""),
 "C19": ("constructor acceptance iff exact shape, over shapes of any rank and extent; accepted => encoded width as sized", ""),
 "C20": ("explicit heap of list objects: separately created blocks own disjoint containers, invariant over all interleavings", ""),
}
NOT_YET = {
}
def main(claimed_ids):
    checks = []
    for pid in sorted(claimed_ids):
        text, partial = CLAIMED[pid]
        checks.append({
            "property_id": pid,
            "quick_cmd": "./check %s --tier quick" % pid,
            "thorough_cmd": "./check %s --tier thorough" % pid,
            "evidence_file": "/verif/evidence/%s.json" % pid,
            "replay_cmd_template": "./check %s --replay {path}" % pid,
            "engine": "coq-model+correspondence",
            "level_claimed": {"category": "proof",
                              "text": "Unbounded Coq theorems (coq/Properties/%s.v, every theorem 'Closed under the global context'): %s. "
                                      "The hand-written executable model is tied to /repo on every run by a differential correspondence check "
                                      "(extracted model vs the Python implementation on the same inputs/histories)%s" %
                                      (pid, text, ("; " + partial) if partial else ""),
                              "design_ref": "DESIGN.md section 5 %s" % pid},
            "level_note": "Trusted: Coq 8.16.1 kernel (vm_compute used, no native_compute, no axioms), ExtrOcamlBasic extraction + OCaml driver, "
                          "the Python correspondence harness and its independent struct parser; numpy/CPython/OS semantics are modelled and compared on every run, not verified",
            "technique": "Coq proof about an executable Gallina model + differential correspondence check against the implementation"})
    allp = [json.loads(l)["id"] for l in open(os.path.join(V, "properties.jsonl"))]
    na = [{"property_id": p, "reason": NOT_YET.get(p, "no theorem + correspondence check built for it yet in this development (model exists only in the design); not claimed")}
          for p in allp if p not in claimed_ids]
    m = {"version": 1, "setup_cmd": "./setup.sh",
         "hooks": {"guard": "BASICTDF_VERIF",
                   "enable": "no in-source hooks: the clock, numpy.empty and file handles are substituted from the harness process; checks import /repo/src afresh on every run",
                   "baseline_off_cmd": "cd /repo && /venv/bin/python -m pytest -ra -q -p no:cacheprovider --timeout=900 --continue-on-collection-errors",
                   "source_commits": [], "add_only": True},
         "engines": [{"name": "coq-model+correspondence", "path": "check", "serves_properties": sorted(claimed_ids),
                      "kind_free_text": "Coq 8.16 theorems about a hand-written executable Gallina model (coq/), tied to /repo by a differential "
                                        "correspondence check between the OCaml-extracted model and the Python implementation (harness/)"}],
         "checks": checks, "not_applicable": na, "notes": "see DESIGN.md; known_findings.txt lists recorded findings and fixes"}
    json.dump(m, open(os.path.join(V, "MANIFEST.json"), "w"), indent=1)
    r = subprocess.run(["python3-vt", "-c", "import json,jsonschema;jsonschema.validate(json.load(open('%s/MANIFEST.json')),json.load(open('/root/.vp/MANIFEST.schema.json')));print('manifest valid')" % V])
    sys.exit(r.returncode)
if __name__ == "__main__":
    main(sys.argv[1:])

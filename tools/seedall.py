#!/usr/bin/env python3
"""tools/seedall.py [jobs [seed ids...]]: applies every /verif/seeded/<id>/patch.diff to a scratch worktree of /repo HEAD, confirms it
(39 tests pass, demo fails with it / passes without), runs the quick check of the property it breaks against the patched
worktree (VERIF_REPO) and writes /verif/seeded/MATRIX.json + prints one line per seed.  Nothing is written to /repo."""
import json, os, re, shutil, subprocess, sys, tempfile
from concurrent.futures import ThreadPoolExecutor
V = "/verif"
def sh(cmd, **kw):
    p = subprocess.run(cmd, shell=True, stdout=subprocess.PIPE, stderr=subprocess.STDOUT, text=True, **kw)
    return p.returncode, p.stdout
def one(sid):
    d = os.path.join(V, "seeded", sid)
    meta = json.load(open(os.path.join(d, "meta.json")))
    pid = meta["property"]
    wt = tempfile.mkdtemp(prefix="seedall_", dir="/tmp"); os.rmdir(wt)
    res = {"seed": sid, "property": pid}
    try:
        rc, o = sh("git -C /repo worktree add --detach %s HEAD" % wt)
        env = dict(os.environ, PYTHONPATH=wt + "/src", PYTHONDONTWRITEBYTECODE="1")
        rc0, _ = sh("/venv/bin/python %s/demo.py" % d, env=env, cwd=wt)
        rc, o = sh("git -C %s apply %s/patch.diff" % (wt, d))
        if rc != 0:
            res["error"] = "patch does not apply to HEAD: " + o[-200:]
            return res
        rc, o = sh("/venv/bin/python -m pytest -q -p no:cacheprovider --timeout=900 --continue-on-collection-errors", env=env, cwd=wt)
        m = re.search(r"(\d+) passed", o)
        rc1, _ = sh("/venv/bin/python %s/demo.py" % d, env=env, cwd=wt)
        res.update(demo_clean=rc0, demo_patched=rc1, tests_passed=int(m.group(1)) if m else 0)
        ev = tempfile.mkdtemp(prefix="seedev_")
        rc, o = sh("./check %s --tier quick" % pid, env=dict(os.environ, VERIF_REPO=wt, VERIF_EVIDENCE=ev), cwd=V)
        shutil.rmtree(ev, ignore_errors=True)
        lines = [l for l in o.split("\n") if l.startswith("VIOLATION")]
        res["detected"] = rc != 0 and bool(lines)
        res["with_failing_input"] = any("no-failing-input-found" not in l for l in lines)
        res["first"] = next((l.strip() for l in o.split("\n") if l.startswith("  ")), "")[:240]
        res["by"] = pid if res["detected"] else None
        if not res["detected"]:
            # the change may break the property only through another one (e.g. a wrong size that corrupts the
            # container): try the checks that caught it when it was first confirmed
            for other in [p for p, hit in (meta.get("detected_by") or {}).items() if hit and p != pid]:
                ev = tempfile.mkdtemp(prefix="seedev_")
                rc, o = sh("./check %s --tier quick" % other, env=dict(os.environ, VERIF_REPO=wt, VERIF_EVIDENCE=ev), cwd=V)
                shutil.rmtree(ev, ignore_errors=True)
                lines = [l for l in o.split("\n") if l.startswith("VIOLATION")]
                if rc != 0 and lines:
                    res.update(detected=True, by=other, with_failing_input=any("no-failing-input-found" not in l for l in lines),
                               first=next((l.strip() for l in o.split("\n") if l.startswith("  ")), "")[:240])
                    break
    finally:
        sh("git -C /repo worktree remove --force %s" % wt)
        shutil.rmtree(wt, ignore_errors=True)
    return res
seeds = sys.argv[2:] or sorted(x for x in os.listdir(os.path.join(V, "seeded")) if os.path.isdir(os.path.join(V, "seeded", x)))
with ThreadPoolExecutor(max_workers=int(sys.argv[1]) if len(sys.argv) > 1 else 4) as ex:
    out = list(ex.map(one, seeds))
head = subprocess.run("git -C /repo rev-parse --short HEAD", shell=True, capture_output=True, text=True).stdout.strip()
mpath = os.path.join(V, "seeded", "MATRIX.json")
if sys.argv[2:] and os.path.exists(mpath):          # a partial run: merge into the existing matrix
    old = {r["seed"]: r for r in json.load(open(mpath))["seeds"]}
    old.update({r["seed"]: r for r in out})
    merged = [old[k] for k in sorted(old)]
else:
    merged = out
json.dump({"repo_head": head, "seeds": merged}, open(mpath, "w"), indent=1)
for r in out:
    print(r["seed"], r.get("error") or ("confirmed=%s detected=%s input=%s  %s" % (
        r["demo_clean"] == 0 and r["demo_patched"] != 0 and r["tests_passed"] == 39, r["detected"], r["with_failing_input"],
        ("[by %s] " % r.get("by") if r.get("by") != r["property"] else "") + r["first"][:110])))

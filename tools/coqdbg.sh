#!/bin/bash
# tools/coqdbg.sh File.v : compile a scratch copy of coq/<File.v> and show the tail of the output (goals at Show./errors)
cd /verif/coq; f=$1; cp $f Proofs/Dbg_tmp.v; timeout ${2:-300} coqc -Q Model Model -Q Proofs Proofs -Q Properties Properties Proofs/Dbg_tmp.v 2>&1 | grep -v "^Warning\|deprecated\|^\[" | sed "s#Proofs/Dbg_tmp.v#$f#" | tail -${3:-45}; rm -f Proofs/Dbg_tmp.* Proofs/.Dbg_tmp.*

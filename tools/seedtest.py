#!/usr/bin/env python3
"""tools/seedtest.py <out_dir> <variant> <pid> [more pids...]
Confirms a seeded change (patch_<variant>.diff + demo_<variant>.py in <out_dir>) in a scratch worktree
of /repo: demo passes on the clean tree, the 39 tests still pass with the patch, the demo fails with it.
Then runs ./check <pid> --tier quick for each pid against the patched worktree (VERIF_REPO) and stores
everything under /verif/seeded/<first pid>_<tag>/.  Nothing is written to /repo."""
import json, os, re, shutil, subprocess, sys, tempfile, time

out, var, pids = sys.argv[1], sys.argv[2], sys.argv[3:]
tag = os.environ.get("SEED_TAG", var)
patch = os.path.join(out, "patch_%s.diff" % var)
demo = os.path.join(out, "demo_%s.py" % var)
meta_in = os.path.join(out, "meta_%s.json" % var)
wt = tempfile.mkdtemp(prefix="seedchk_", dir="/tmp")
os.rmdir(wt)
def sh(cmd, **kw):
    p = subprocess.run(cmd, shell=True, stdout=subprocess.PIPE, stderr=subprocess.STDOUT, text=True, **kw)
    return p.returncode, p.stdout
res = {}
try:
    rc, o = sh("git -C /repo worktree add --detach %s HEAD" % wt)
    assert rc == 0, o
    env = dict(os.environ, PYTHONPATH=wt + "/src", PYTHONDONTWRITEBYTECODE="1")
    rc0, o0 = sh("/venv/bin/python %s" % demo, env=env, cwd=wt)
    res["demo_clean_rc"] = rc0
    rc, o = sh("git -C %s apply %s" % (wt, patch))
    assert rc == 0, "patch does not apply: " + o
    rc, o = sh("/venv/bin/python -m pytest -ra -q -p no:cacheprovider --timeout=900 --continue-on-collection-errors", env=env, cwd=wt)
    m = re.search(r"(\d+) passed", o)
    res["tests_passed"] = int(m.group(1)) if m else 0
    res["tests_failed"] = bool(re.search(r"\d+ failed", o))
    rc1, o1 = sh("/venv/bin/python %s" % demo, env=env, cwd=wt)
    res["demo_patched_rc"] = rc1
    res["demo_patched_tail"] = o1[-600:]
    res["confirmed"] = (rc0 == 0 and rc1 != 0 and res["tests_passed"] == 39 and not res["tests_failed"])
    res["checks"] = {}
    if res["confirmed"] or os.environ.get("SEED_FORCE"):
        for pid in pids:
            ev = tempfile.mkdtemp(prefix="seedev_")
            t0 = time.time()
            env2 = dict(os.environ, VERIF_REPO=wt, VERIF_EVIDENCE=ev)
            rc, o = sh("./check %s --tier quick" % pid, env=env2, cwd="/verif")
            vio = [l for l in o.split("\n") if l.startswith("VIOLATION") or l.startswith("  ")]
            res["checks"][pid] = {"rc": rc, "wall_s": round(time.time() - t0, 1), "lines": vio[:6]}
            shutil.rmtree(ev, ignore_errors=True)
finally:
    sh("git -C /repo worktree remove --force %s" % wt)
    shutil.rmtree(wt, ignore_errors=True)
if res.get("confirmed"):
    d = os.path.join("/verif/seeded", "%s_%s" % (pids[0], tag))
    os.makedirs(d, exist_ok=True)
    shutil.copy(patch, os.path.join(d, "patch.diff"))
    shutil.copy(demo, os.path.join(d, "demo.py"))
    meta = {}
    if os.path.exists(meta_in):
        try:
            meta = json.load(open(meta_in))
        except Exception:
            meta = {"raw": open(meta_in).read()}
    meta["property"] = pids[0]
    meta["confirmed_by_me"] = {k: res[k] for k in ("demo_clean_rc", "demo_patched_rc", "tests_passed")}
    meta["what_i_ran"] = ("scratch worktree of /repo HEAD: demo on clean tree (exit %d), git apply patch.diff, baseline pytest "
                          "command (39 passed), demo (exit %d); then ./check <pid> --tier quick with VERIF_REPO=<patched worktree>"
                          % (rc0, rc1))
    meta["detected_by"] = {p: (r["rc"] != 0) for p, r in res["checks"].items()}
    meta["check_output"] = res["checks"]
    json.dump(meta, open(os.path.join(d, "meta.json"), "w"), indent=1)
print(json.dumps(res, indent=1))

#!/usr/bin/env python3
"""tools/mutate.py <jobs> <per_file> [seed]  —  a mutation sweep over /repo/src/basictdf (a diagnostic, not a registered check).

For every source file a deterministic sample of small syntactic mutants (comparison / arithmetic / boolean operator swaps,
constants off by one, negated conditions, a statement dropped, a default flipped) is applied, one at a time, to a scratch
worktree of /repo HEAD.  A mutant that still passes the 39 pinned tests is then shown to the quick checks of the
properties anchored in that file (VERIF_REPO = the worktree), stopping at the first check that reports a violation.
Survivors are listed for triage: each is either an equivalent mutant / a change to code no property speaks about, or a
hole in the checks.  Results: /verif/seeded/MUTANTS.json.  Nothing is written to /repo."""
import ast
import copy
import json
import os
import random
import re
import shutil
import subprocess
import sys
import tempfile
from concurrent.futures import ThreadPoolExecutor

V = "/verif"
SRC = "src/basictdf"
RELEVANT = {
    "tdfTypes.py": ["C13", "C06", "C19", "C01", "C12", "C10", "C14", "C04"],
    "basictdf.py": ["C03", "C07", "C10", "C11", "C08", "C17", "C04", "C09", "C14"],
    "tdfData3D.py": ["C01", "C05", "C16", "C18", "C02", "C19", "C14", "C12", "C20", "C09", "C04"],
    "tdfEMG.py": ["C01", "C05", "C15", "C16", "C18", "C02", "C14", "C04"],
    "tdfForce3D.py": ["C01", "C05", "C16", "C18", "C19", "C02", "C14", "C04"],
    "tdfForcePlatformsData.py": ["C01", "C05", "C15", "C02", "C14", "C04"],
    "tdfForcePlatformsCalibration.py": ["C01", "C15", "C02", "C12", "C14", "C04"],
    "tdfData2D.py": ["C01", "C02", "C06", "C14", "C04"],
    "tdfCalibrationData.py": ["C01", "C02", "C19", "C06", "C14", "C04"],
    "tdfOpticalSystem.py": ["C01", "C12", "C19", "C20", "C14", "C04"],
    "tdfEvents.py": ["C01", "C18", "C19", "C20", "C02", "C14", "C04"],
    "tdfUtils.py": ["C08", "C15", "C11"],
    "tdfBlock.py": ["C04", "C11", "C01", "C07"],
}
SKIP_FUNCS = {"__repr__", "__str__"}
CMP = {ast.Lt: ast.LtE, ast.LtE: ast.Lt, ast.Gt: ast.GtE, ast.GtE: ast.Gt, ast.Eq: ast.NotEq, ast.NotEq: ast.Eq,
       ast.Is: ast.IsNot, ast.IsNot: ast.Is, ast.In: ast.NotIn, ast.NotIn: ast.In}
BIN = {ast.Add: ast.Sub, ast.Sub: ast.Add, ast.Mult: ast.FloorDiv, ast.FloorDiv: ast.Mult}


def sh(cmd, timeout=None, **kw):
    try:
        p = subprocess.run(cmd, shell=True, stdout=subprocess.PIPE, stderr=subprocess.STDOUT, text=True, timeout=timeout, **kw)
    except subprocess.TimeoutExpired:
        return 124, "TIMEOUT"
    return p.returncode, p.stdout


class Sites(ast.NodeVisitor):
    """enumerates mutation sites as (kind, lineno, col, extra)"""

    def __init__(self):
        self.sites, self.stack = [], []

    def visit_FunctionDef(self, node):
        if node.name in SKIP_FUNCS:
            return
        self.stack.append(node.name)
        for i, d in enumerate(node.args.defaults):
            if isinstance(d, ast.Constant) and isinstance(d.value, bool):
                self.sites.append(("default", d.lineno, d.col_offset, None))
        body = node.body[1:] if (node.body and isinstance(node.body[0], ast.Expr) and isinstance(getattr(node.body[0], "value", None), ast.Constant)
                                 and isinstance(node.body[0].value.value, str)) else node.body
        for st in body:
            self.visit(st)
        self.stack.pop()

    visit_AsyncFunctionDef = visit_FunctionDef

    def visit_Compare(self, node):
        for i, op in enumerate(node.ops):
            if type(op) in CMP:
                self.sites.append(("cmp", node.lineno, node.col_offset, i))
        self.generic_visit(node)

    def visit_BinOp(self, node):
        if type(node.op) in BIN and not (isinstance(node.left, ast.Constant) and isinstance(node.left.value, str)):
            self.sites.append(("bin", node.lineno, node.col_offset, None))
        self.generic_visit(node)

    def visit_BoolOp(self, node):
        self.sites.append(("bool", node.lineno, node.col_offset, None))
        self.generic_visit(node)

    def visit_Constant(self, node):
        if isinstance(node.value, int) and not isinstance(node.value, bool) and self.stack:
            self.sites.append(("const", node.lineno, node.col_offset, None))

    def visit_If(self, node):
        if self.stack:
            self.sites.append(("negate", node.lineno, node.col_offset, None))
        self.generic_visit(node)

    def visit_Raise(self, node):
        return                      # do not mutate error messages

    def visit_Expr(self, node):
        if self.stack and isinstance(node.value, ast.Call):
            self.sites.append(("drop", node.lineno, node.col_offset, None))
        self.generic_visit(node)

    def visit_Assign(self, node):
        if self.stack and not isinstance(node.value, ast.Constant):
            self.sites.append(("drop", node.lineno, node.col_offset, None))
        self.generic_visit(node)

    def visit_AugAssign(self, node):
        if self.stack:
            self.sites.append(("drop", node.lineno, node.col_offset, None))
        self.generic_visit(node)


class Apply(ast.NodeTransformer):
    def __init__(self, site, variant):
        self.kind, self.line, self.col, self.extra = site
        self.variant = variant
        self.done = False

    def at(self, node):
        return getattr(node, "lineno", None) == self.line and getattr(node, "col_offset", None) == self.col and not self.done

    def visit_Compare(self, node):
        if self.kind == "cmp" and self.at(node):
            node.ops[self.extra] = CMP[type(node.ops[self.extra])]()
            self.done = True
            return node
        return self.generic_visit(node)

    def visit_BinOp(self, node):
        if self.kind == "bin" and self.at(node):
            node.op = BIN[type(node.op)]()
            self.done = True
            return node
        return self.generic_visit(node)

    def visit_BoolOp(self, node):
        if self.kind == "bool" and self.at(node):
            node.op = ast.Or() if isinstance(node.op, ast.And) else ast.And()
            self.done = True
            return node
        return self.generic_visit(node)

    def visit_Constant(self, node):
        if self.kind in ("const", "default") and self.at(node):
            self.done = True
            if isinstance(node.value, bool):
                return ast.copy_location(ast.Constant(not node.value), node)
            return ast.copy_location(ast.Constant(node.value + (1 if self.variant == 0 else -1)), node)
        return node

    def visit_If(self, node):
        if self.kind == "negate" and self.at(node):
            node.test = ast.UnaryOp(ast.Not(), node.test)
            self.done = True
            return node
        return self.generic_visit(node)

    def _drop(self, node):
        if self.kind == "drop" and self.at(node):
            self.done = True
            return ast.copy_location(ast.Pass(), node)
        return self.generic_visit(node)

    visit_Expr = visit_Assign = visit_AugAssign = _drop


def mutants_of(path, rng, k):
    src = open(path).read()
    tree = ast.parse(src)
    v = Sites()
    v.visit(tree)
    sites = sorted(set(v.sites))
    rng.shuffle(sites)
    out = []
    for site in sites:
        if len(out) >= k:
            break
        t = copy.deepcopy(tree)
        a = Apply(site, rng.randrange(2))
        t = a.visit(t)
        if not a.done:
            continue
        try:
            new = ast.unparse(ast.fix_missing_locations(t))
            compile(new, path, "exec")
        except Exception:
            continue
        orig_line = src.split("\n")[site[1] - 1].strip()
        out.append({"site": list(site[:3]), "kind": site[0], "original_line": orig_line, "source": new})
    return out


def evaluate(job):
    fname, m, idx = job
    wt = tempfile.mkdtemp(prefix="mut_", dir="/tmp")
    os.rmdir(wt)
    res = {"file": fname, "kind": m["kind"], "line": m["site"][1], "original_line": m["original_line"]}
    try:
        rc, o = sh("git -C /repo worktree add --detach %s HEAD" % wt)
        target = os.path.join(wt, SRC, fname)
        before = open(target).read()
        # keep the original formatting everywhere except the mutated statement: write the unparsed module only if it differs
        open(target, "w").write(m["source"])
        env = dict(os.environ, PYTHONPATH=wt + "/src", PYTHONDONTWRITEBYTECODE="1")
        rc, o = sh("/venv/bin/python -m pytest -q -p no:cacheprovider --timeout=900 --continue-on-collection-errors", env=env, cwd=wt)
        mt = re.search(r"(\d+) passed", o)
        res["tests_passed"] = int(mt.group(1)) if mt else 0
        if res["tests_passed"] != 39 or re.search(r"\d+ failed", o):
            res["status"] = "killed by the pinned tests"
            return res
        rc, o = sh("git -C %s diff --stat" % wt)
        for pid in RELEVANT.get(fname, []):
            ev = tempfile.mkdtemp(prefix="mutev_")
            rc, o = sh("timeout -k 10 2400 ./check %s --tier quick" % pid, timeout=2500, env=dict(os.environ, VERIF_REPO=wt, VERIF_EVIDENCE=ev), cwd=V)
            shutil.rmtree(ev, ignore_errors=True)
            if rc in (124, 137):
                res["status"] = "caught"
                res["by"] = pid
                res["with_failing_input"] = False
                res["first"] = "the check did not finish within 40 minutes on this tree"
                return res
            lines = [l for l in o.split("\n") if l.startswith("VIOLATION")]
            if rc != 0 and lines:
                res["status"] = "caught"
                res["by"] = pid
                res["with_failing_input"] = any("no-failing-input-found" not in l for l in lines)
                res["first"] = next((l.strip() for l in o.split("\n") if l.startswith("  ")), "")[:200]
                return res
        res["status"] = "survived " + ",".join(RELEVANT.get(fname, []))
        # what changed, for triage: the first lines on which the unparsed original and the unparsed mutant differ
        a = ast.unparse(ast.parse(before)).split("\n")
        b = m["source"].split("\n")
        res["diff"] = "; ".join("%s  =>  %s" % (x.strip(), y.strip()) for x, y in zip(a, b) if x != y)[:400] or "(line count differs)"
        return res
    finally:
        sh("git -C /repo worktree remove --force %s" % wt)
        shutil.rmtree(wt, ignore_errors=True)


HEAD = subprocess.run("git -C /repo rev-parse --short HEAD", shell=True, stdout=subprocess.PIPE, text=True).stdout.strip()


def main():
    jobs = int(sys.argv[1]) if len(sys.argv) > 1 else 4
    per_file = int(sys.argv[2]) if len(sys.argv) > 2 else 10
    seed = int(sys.argv[3]) if len(sys.argv) > 3 else 1
    rng = random.Random(seed)
    work = []
    for fname in sorted(RELEVANT):
        ms = mutants_of(os.path.join("/repo", SRC, fname), rng, per_file)
        for i, m in enumerate(ms):
            work.append((fname, m, i))
    print("mutants:", len(work), flush=True)
    out = []
    with ThreadPoolExecutor(max_workers=jobs) as ex:
        for r in ex.map(evaluate, work):
            out.append(r)
            print(json.dumps({k: r[k] for k in r if k not in ("diff",)})[:300], flush=True)
            json.dump({"seed": seed, "per_file": per_file, "repo_head": HEAD, "results": out},
                      open(os.path.join(V, "seeded", "MUTANTS.json" if seed == 1 else "MUTANTS_seed%d.json" % seed), "w"), indent=1)
    tally = {}
    for r in out:
        key = r["status"].split(" ")[0]
        tally[key] = tally.get(key, 0) + 1
    print("tally:", tally)


if __name__ == "__main__":
    main()

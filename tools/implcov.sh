#!/bin/bash
# tools/implcov.sh [jobs]: which lines of /repo/src/basictdf do the 20 quick checks execute?  (a diagnostic for the
# correspondence: implementation code no check runs is code no model definition is being compared with)
# Writes nothing under /verif: coverage data and throw-away evidence go to a scratch directory that is removed.
cd "$(dirname "$0")/.."
W=$(mktemp -d /tmp/implcov.XXXXXX)
export PYTHONPATH="/repo/src:$(pwd)" PYTHONHASHSEED=0 TZ=UTC PYTHONDONTWRITEBYTECODE=1 LC_ALL=C.UTF-8
export VERIF_EVIDENCE=$W/ev COVERAGE_FILE=$W/.coverage
ulimit -s unlimited 2>/dev/null
printf '%s\n' C01 C02 C03 C04 C05 C06 C07 C08 C09 C10 C11 C12 C13 C14 C15 C16 C17 C18 C19 C20 | \
  xargs -P "${1:-5}" -I{} sh -c '/venv/bin/python -W ignore -m coverage run --parallel-mode --source=/repo/src/basictdf -m harness.main {} --tier quick 2>&1 | tail -1'
/venv/bin/python -m coverage combine -q $W >/dev/null 2>&1
/venv/bin/python -m coverage report -m --skip-empty
rm -rf "$W"

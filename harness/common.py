"""Shared machinery of the correspondence harness.

Everything here is property-independent: paths, the S-expression wire format shared with the
extracted model, the model runner, the Coq re-check of a property file, evidence and verdict
output, known-findings handling.
"""
import fcntl
import hashlib
import json
import os
import random
import re
import resource
import shutil
import subprocess
import sys
import tempfile
import time

VERIF = os.path.dirname(os.path.dirname(os.path.abspath(__file__)))
REPO = os.environ.get("VERIF_REPO", "/repo")
COQ = os.path.join(VERIF, "coq")
OCAML = os.path.join(VERIF, "ocaml")
MODEL_BIN = os.path.join(OCAML, "tdfmodel")
EVIDENCE = os.environ.get("VERIF_EVIDENCE") or os.path.join(VERIF, "evidence")
KNOWN = os.path.join(VERIF, "known_findings.txt")
CAPTURE = os.path.join(REPO, "tests", "test_files", "2838~aa~Walking 01.tdf")

ERR = {"ValueError": 1, "TypeError": 2, "KeyError": 3, "IndexError": 4, "NotImplementedError": 5,
       "PermissionError": 6, "OutsideOfContextError": 7, "FileExistsError": 8,
       "FileNotFoundError": 9, "OSError": 10, "AttributeError": 11}


def err_code(exc):
    """Map an exception instance to the model's err enum (most specific class first)."""
    for klass in type(exc).__mro__:
        n = klass.__name__
        if n in ("UnicodeEncodeError", "UnicodeDecodeError"):
            return 1
        if n in ERR:
            return ERR[n]
    return 12


# ---------------------------------------------------------------- S-expressions
def sx(v):
    """Python nested lists / ints -> text."""
    out = []

    def go(x):
        if isinstance(x, (list, tuple)):
            out.append("(")
            first = True
            for y in x:
                if not first:
                    out.append(" ")
                first = False
                go(y)
            out.append(")")
        else:
            out.append(str(int(x)))
    go(v)
    return "".join(out)


_tok = re.compile(r"[()]|-?\d+")


def unsx(s):
    stack = [[]]
    for t in _tok.findall(s):
        if t == "(":
            stack.append([])
        elif t == ")":
            x = stack.pop()
            stack[-1].append(x)
        else:
            stack[-1].append(int(t))
    if len(stack) != 1 or len(stack[0]) != 1:
        raise ValueError("bad sexp: %r" % s[:80])
    return stack[0][0]


# ---------------------------------------------------------------- building
def _lock():
    f = open(os.path.join(VERIF, ".build.lock"), "w")
    fcntl.flock(f, fcntl.LOCK_EX)
    return f


def sh(cmd, timeout, cwd=None):
    p = subprocess.run(cmd, shell=True, cwd=cwd, stdout=subprocess.PIPE, stderr=subprocess.STDOUT,
                       timeout=timeout, text=True)
    return p.returncode, p.stdout


def ensure_makefile():
    mk = os.path.join(COQ, "Makefile")
    cp = os.path.join(COQ, "_CoqProject")
    if not os.path.exists(mk) or os.path.getmtime(mk) < os.path.getmtime(cp):
        sh("coq_makefile -f _CoqProject -o Makefile", 120, cwd=COQ)


def build_model():
    """(Re)build the extracted model binary if any Model/*.v or the driver is newer."""
    lock = _lock()
    try:
        ensure_makefile()
        os.makedirs(os.path.join(COQ, "extracted"), exist_ok=True)
        rc, out = sh("timeout 1500 make -j16 Ext/Extract.vo", 1600, cwd=COQ)
        if rc != 0:
            return False, out[-3000:]
        src = os.path.join(COQ, "extracted", "model.ml")
        drv = os.path.join(OCAML, "driver.ml")
        if (not os.path.exists(MODEL_BIN)
                or os.path.getmtime(MODEL_BIN) < os.path.getmtime(src)
                or os.path.getmtime(MODEL_BIN) < os.path.getmtime(drv)):
            shutil.copy(src, os.path.join(OCAML, "model.ml"))
            shutil.copy(src + "i", os.path.join(OCAML, "model.mli"))
            # build beside the old binary and rename over it: a check that is running the old one keeps its inode
            rc, out = sh("ocamlfind ocamlopt -w -a model.mli model.ml driver.ml -o tdfmodel.%d && mv -f tdfmodel.%d tdfmodel"
                         % (os.getpid(), os.getpid()), 600, cwd=OCAML)
            if rc != 0:
                return False, out[-3000:]
        return True, ""
    finally:
        lock.close()


def check_theorems(pid):
    """Re-check Properties/<pid>.v with coqc (after making its dependencies).
    Returns dict(ok, obligations, discharged, assumptions, log, cmd)."""
    lock = _lock()
    try:
        ensure_makefile()
        vfile = os.path.join(COQ, "Properties", pid + ".v")
        res = {"ok": False, "obligations": 0, "discharged": 0, "assumptions": [], "log": "",
               "cmd": "make -C coq Properties/%s.vo && coqc -Q ... Properties/%s.v" % (pid, pid)}
        if not os.path.exists(vfile):
            res["log"] = "no property file"
            return res
        text = open(vfile).read()
        names = re.findall(r"^\s*(?:Theorem|Corollary)\s+(\w+)", text, flags=re.M)
        res["obligations"] = len(names)
        res["theorems"] = names
        rc, out = sh("timeout 1700 make -j16 Properties/%s.vo" % pid, 1800, cwd=COQ)
        if rc != 0:
            res["log"] = out[-3000:]
            return res
        # run coqc once more on the property file alone to capture Print Assumptions
        rc, out = sh("timeout 600 coqc -Q Model Model -Q Proofs Proofs -Q Properties Properties "
                     "-w -notation-overridden Properties/%s.v" % pid, 700, cwd=COQ)
        res["log"] = out[-6000:]
        if rc != 0:
            return res
        closed = len(re.findall(r"Closed under the global context", out))
        axioms = re.findall(r"^Axioms:\n((?:.+\n)+?)(?=\n|\Z)", out, flags=re.M)
        res["assumptions"] = ["Closed under the global context x%d" % closed] + \
            [a.strip() for a in axioms]
        res["discharged"] = len(names)
        res["ok"] = True
        # forbidden words anywhere in the development
        rc2, out2 = sh(r"grep -rnE '\b(Admitted|admit|Axiom|Parameter|Conjecture|Abort)\b|Unset Guard|"
                       r"bypass_check|type-in-type' --include=*.v Model Proofs Properties Ext "
                       r"| grep -v '^[^:]*:[0-9]*: *(\*' || true", 60, cwd=COQ)
        if out2.strip():
            res["ok"] = False
            res["log"] += "\nFORBIDDEN: " + out2
        return res
    finally:
        lock.close()


# ---------------------------------------------------------------- running the model
def run_model(cases, timeout=1200):
    """cases: list of (opcode, value).  Returns list of decoded result values."""
    if not cases:
        return []
    with tempfile.NamedTemporaryFile("w", suffix=".cases", delete=False) as f:
        for op, v in cases:
            f.write("%d %s\n" % (op, sx(v)))
        path = f.name
    try:
        def pre():
            resource.setrlimit(resource.RLIMIT_STACK, (resource.RLIM_INFINITY, resource.RLIM_INFINITY))
            resource.setrlimit(resource.RLIMIT_AS, (resource.RLIM_INFINITY, resource.RLIM_INFINITY))
        with open(path) as fin:
            p = subprocess.run([MODEL_BIN], stdin=fin, stdout=subprocess.PIPE, stderr=subprocess.PIPE,
                               timeout=timeout, preexec_fn=pre, text=True)
        if p.returncode != 0:
            raise RuntimeError("model binary failed rc=%d: %s" % (p.returncode, p.stderr[-500:]))
        lines = p.stdout.split("\n")
        if lines and lines[-1] == "":
            lines.pop()
        if len(lines) != len(cases):
            raise RuntimeError("model printed %d lines for %d cases" % (len(lines), len(cases)))
        res = [unsx(l) for l in lines]
        _remember_for_crosscheck(cases, res)
        return res
    finally:
        os.unlink(path)


# a small reservoir of (case, OCaml result) pairs, re-evaluated inside coqc with vm_compute at the end of the
# run: the extraction and the driver are cross-checked against the kernel's own evaluator on every check
_XS = {"seen": 0, "keep": [], "rng": random.Random(20261001)}


def _remember_for_crosscheck(cases, res, cap=10):
    for c, r in zip(cases, res):
        if _sx_size(c[1]) > 400:
            continue
        _XS["seen"] += 1
        if len(_XS["keep"]) < cap:
            _XS["keep"].append((c, r))
        else:
            j = _XS["rng"].randrange(_XS["seen"])
            if j < cap:
                _XS["keep"][j] = (c, r)


def _sx_size(v, limit=401):
    n, stack = 0, [v]
    while stack and n < limit:
        x = stack.pop()
        n += 1
        if isinstance(x, (list, tuple)):
            stack.extend(x)
    return n


def kernel_crosscheck():
    """returns dict(cases, equal, mismatch)"""
    keep = list(_XS["keep"])
    if not keep:
        return {"cases": 0, "equal": True}
    # both sides are evaluated now, with the development as it stands and with nobody rebuilding it meanwhile (the
    # model may have been rebuilt since this check started — e.g. by another check after an edit of coq/Model)
    okb, log = build_model()
    if not okb:
        return {"cases": len(keep), "equal": False, "mismatch": "model build failed: " + log[-500:]}
    lock = _lock()
    try:
        saved = dict(_XS, keep=list(_XS["keep"]))
        again = run_model([c for c, _ in keep])
        _XS.update(saved)
        keep = [(c, r) for (c, _), r in zip(keep, again)]
        try:
            got = coq_eval_sample([c for c, _ in keep], timeout=300)
        except Exception as e:
            return {"cases": len(keep), "equal": False, "mismatch": "coqc evaluation failed: " + exc_info(e)}
    finally:
        lock.close()
    for (c, r), g in zip(keep, got):
        if r != g:
            return {"cases": len(keep), "equal": False, "mismatch": {"case": [c[0], c[1]], "ocaml": r, "coq": g}}
    return {"cases": len(keep), "equal": True}


def run_model_sharded(cases, shards=16, timeout=1800):
    """Same as run_model but split over processes."""
    if len(cases) < 64 or shards <= 1:
        return run_model(cases, timeout)
    from concurrent.futures import ThreadPoolExecutor
    n = len(cases)
    step = (n + shards - 1) // shards
    chunks = [cases[i:i + step] for i in range(0, n, step)]
    with ThreadPoolExecutor(max_workers=shards) as ex:
        parts = list(ex.map(lambda c: run_model(c, timeout), chunks))
    out = []
    for p in parts:
        out.extend(p)
    return out


def run_model_each(cases, workers=16, timeout=1800):
    """one process per case (for a few very large cases), results cached on disk keyed by the
    model binary and the case text"""
    from concurrent.futures import ThreadPoolExecutor
    cdir = os.path.join(VERIF, "work", "cache")
    os.makedirs(cdir, exist_ok=True)
    mh = hashlib.sha1(open(MODEL_BIN, "rb").read()).hexdigest()[:16]

    def one(c):
        text = "%d %s" % (c[0], sx(c[1]))
        key = hashlib.sha1((mh + text).encode()).hexdigest()
        path = os.path.join(cdir, key)
        if len(text) > 20000 and os.path.exists(path):
            try:
                return unsx(open(path).read())
            except Exception:
                pass
        r = run_model([c], timeout)[0]
        if len(text) > 20000:
            tmp = path + ".%d" % os.getpid()
            open(tmp, "w").write(sx(r))
            os.replace(tmp, path)
        return r
    with ThreadPoolExecutor(max_workers=workers) as ex:
        return list(ex.map(one, cases))


def coq_eval_sample(cases, timeout=600):
    """Evaluate a few cases inside coqc with vm_compute (kernel evaluator) and return results:
    cross-checks extraction + driver against Coq's own reduction."""
    def lit(v):
        if isinstance(v, (list, tuple)):
            return "(VL [" + "; ".join(lit(x) for x in v) + "])"
        return "(VI (%d))" % v
    d = tempfile.mkdtemp(prefix="coqeval")
    try:
        src = ["From Model Require Import Main.", "Open Scope Z_scope."]
        for i, (op, v) in enumerate(cases):
            src.append("Definition c%d := Eval vm_compute in run (%d) %s." % (i, op, lit(v)))
            src.append("Print c%d." % i)
        open(os.path.join(d, "cases.v"), "w").write("\n".join(src) + "\n")
        rc, out = sh("timeout %d coqc -Q %s/Model Model cases.v" % (timeout, COQ), timeout + 20, cwd=d)
        if rc != 0:
            raise RuntimeError("coqc sample evaluation failed: " + out[-800:])
        res = []
        for m in re.finditer(r"c\d+ =\s*(.*?)\s*:\s*V\b", out, flags=re.S):
            res.append(_parse_coq_v(m.group(1)))
        if len(res) != len(cases):
            raise RuntimeError("coqc printed %d results for %d cases" % (len(res), len(cases)))
        return res
    finally:
        shutil.rmtree(d, ignore_errors=True)


def _parse_coq_v(s):
    toks = re.findall(r"VI|VL|\[|\]|;|\(|\)|-?\d+", s)
    pos = [0]

    def val():
        t = toks[pos[0]]
        if t == "(":
            pos[0] += 1
            v = val()
            assert toks[pos[0]] == ")"
            pos[0] += 1
            return v
        if t == "VI":
            pos[0] += 1
            t2 = toks[pos[0]]
            if t2 == "(":
                pos[0] += 1
                n = int(toks[pos[0]])
                pos[0] += 1
                assert toks[pos[0]] == ")"
                pos[0] += 1
                return n
            pos[0] += 1
            return int(t2)
        if t == "VL":
            pos[0] += 1
            assert toks[pos[0]] == "["
            pos[0] += 1
            items = []
            while toks[pos[0]] != "]":
                if toks[pos[0]] == ";":
                    pos[0] += 1
                    continue
                items.append(val())
            pos[0] += 1
            return items
        raise ValueError("unexpected token %r" % t)
    return val()


# ---------------------------------------------------------------- verdicts
class Check:
    """Collects what one run of one property check covered and produces the verdict."""

    def __init__(self, pid, tier, seed):
        self.pid, self.tier, self.seed = pid, tier, seed
        self.t0 = time.time()
        self.evaluations = 0
        self.nontrivial = set()
        self.samples = []
        self.dist = {}
        self.violations = []      # (what, replay_obj, found_input: bool)
        self.known_printed = []
        self.rule = ""
        self.coq = None
        self.extra = {}
        self.exhaustive = False
        self.assumptions = []
        self.work = tempfile.mkdtemp(prefix="verif_%s_" % pid)
        self.known = load_known(pid)

    def count(self, key, n=1):
        self.dist[key] = self.dist.get(key, 0) + n

    def note_case(self, case, nontrivial):
        self.evaluations += 1
        if nontrivial:
            self.nontrivial.add(hashlib.sha1(repr(case).encode()).digest()[:10])
        if len(self.samples) < 4:
            s = repr(case)
            self.samples.append(s if len(s) < 600 else s[:600] + "...")

    def violation(self, what, replay, found_input=True, key=None):
        """Record a violation unless it is a listed known finding (matched by key)."""
        if key is not None:
            for k in self.known:
                if k["kind"] == "finding" and k["key"] == key:
                    if key not in self.known_printed:
                        self.known_printed.append(key)
                        print("KNOWN-FINDING: property=%s %s" % (self.pid, k["text"]))
                    return
        if not found_input and sum(1 for v in self.violations if not v[2]) >= 40:
            return          # enough divergences recorded; keep searching for a concrete failing input
        self.violations.append((what, replay, found_input))
        if found_input and self.n_found() >= ENOUGH:
            raise EnoughFound()

    def n_found(self):
        """violations with a concrete failing input (divergences of the correspondence do not stop the search)"""
        return sum(1 for v in self.violations if v[2])

    def finish(self):
        if self.coq and self.coq.get("ok") and os.environ.get("VERIF_NO_XCHECK") != "1":
            xc = kernel_crosscheck()
            self.extra["extraction_crosscheck_vm_compute"] = {"cases": xc["cases"], "equal": xc["equal"]}
            if not xc["equal"]:
                self.violation("the extracted model (OCaml) and Coq's vm_compute disagree: %r" % (xc.get("mismatch"),),
                               {"correspondence": "extraction / ocaml driver vs coqc vm_compute", "detail": xc.get("mismatch")},
                               found_input=False)
        wall = time.time() - self.t0
        os.makedirs(EVIDENCE, exist_ok=True)
        coq = self.coq or {"ok": False, "obligations": 0, "discharged": 0, "assumptions": [],
                           "cmd": "", "log": "not run"}
        cov = {
            "obligations": max(coq["obligations"], 1),
            "discharged": coq["discharged"],
            "checker_cmd": coq["cmd"],
            "trusted_base": TRUSTED_BASE + ["Print Assumptions: " + "; ".join(coq["assumptions"])],
            "theorems": coq.get("theorems", []),
            "evaluations": self.evaluations,
            "distinct_nontrivial": len(self.nontrivial),
            "rule": self.rule,
            "samples": self.samples,
            "distribution": self.dist,
            "disagreements_checked": len(self.violations),
            "exhaustive": self.exhaustive,
        }
        cov.update(self.extra)
        ev = {"property_id": self.pid, "tier": self.tier, "seed": self.seed, "level": "proof",
              "coverage": cov, "assumptions": self.assumptions, "wall_s": round(wall, 2),
              "violations": len(self.violations)}
        with open(os.path.join(EVIDENCE, self.pid + ".json"), "w") as f:
            json.dump(ev, f, indent=1, sort_keys=True)
        rc = 0
        if self.violations:
            rc = 1
            os.makedirs(os.path.join(VERIF, "work", "replays"), exist_ok=True)
            # a concrete failing input, when the search found one, is THE report; the broken
            # correspondences that led to it are kept in the evidence only
            shown = [v for v in self.violations if v[2]] or self.violations
            for i, (what, replay, found) in enumerate(shown[:5]):
                path = os.path.join(VERIF, "work", "replays", "%s_%d_%d.json" % (self.pid, self.seed, i))
                with open(path, "w") as f:
                    json.dump({"property": self.pid, "seed": self.seed, "tier": self.tier, "what": what, "replay": replay,
                               "failing_input_found": found}, f, indent=1, default=repr)
                print("VIOLATION property=%s replay=%s%s" %
                      (self.pid, path, "" if found else " no-failing-input-found"))
                print("  " + what[:400])
        shutil.rmtree(self.work, ignore_errors=True)
        print("%s %s: %d evaluations, %d distinct non-trivial, %d theorem(s) checked, %.1fs -> %s" %
              (self.pid, self.tier, self.evaluations, len(self.nontrivial), coq["discharged"], wall,
               "VIOLATION" if rc else "ok"))
        return rc


TRUSTED_BASE = [
    "Coq 8.16.1 kernel (coqc, full .vo build; vm_compute used, native_compute not used)",
    "extraction: ExtrOcamlBasic directives only (bool, option, unit, list, prod, sumbool, sumor; "
    "inlined andb/orb/negb); Z/positive/nat kept as Coq inductives; OCaml 4.13.1 ocamlopt",
    "ocaml/driver.ml (text <-> V), harness/*.py (generators, implementation runners, differ)",
    "modelled not verified: numpy (astype/tobytes/frombuffer/masked arrays), CPython (struct, cp1252 "
    "codec, buffered files, datetime), OS file system; each compared with the model on every run",
]


def load_known(pid):
    out = []
    if not os.path.exists(KNOWN):
        return out
    for line in open(KNOWN):
        line = line.strip()
        if not line or line.startswith("#"):
            continue
        m = re.match(r"(finding|fixed): property=(\w+) (?:key=(\S+) )?(.*)", line)
        if m and m.group(2) == pid:
            out.append({"kind": m.group(1), "key": m.group(3), "text": m.group(4)})
    return out


def rng_for(seed, *salt):
    h = hashlib.sha256(("%d|" % seed + "|".join(map(str, salt))).encode()).digest()
    return random.Random(int.from_bytes(h[:8], "little"))


ENOUGH = 8


class EnoughFound(BaseException):
    """the check has that many concrete failing inputs: further exploration adds nothing to the verdict (and on a tree
    that is badly broken every further case may be slow)"""


class CallTimeout(Exception):
    """a call into the library did not return within the time a call of that size can possibly need"""


import contextlib
import signal
import threading


@contextlib.contextmanager
def time_limit(seconds):
    """bounds one call into the library (decoders loop over counts they read from the stream: on a stream that is not
    what they expect they may run practically for ever); a call that is cut off counts as having raised CallTimeout"""
    if threading.current_thread() is not threading.main_thread() or signal.getitimer(signal.ITIMER_REAL)[0] > 0:
        yield
        return

    def handler(signum, frame):
        raise CallTimeout("the call did not return within %d s" % seconds)
    old = signal.signal(signal.SIGALRM, handler)
    signal.setitimer(signal.ITIMER_REAL, seconds)
    try:
        yield
    finally:
        signal.setitimer(signal.ITIMER_REAL, 0)
        signal.signal(signal.SIGALRM, old)


def exc_info(e):
    return "%s: %s" % (type(e).__name__, str(e)[:200])

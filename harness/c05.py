"""C05 — missing-data gaps: runs written are exact; gap frames decode to NaN whatever np.empty returns."""
import itertools
import json
import struct

import numpy as np

from harness import blocks, codec, common

RL_KINDS = {"D3": 3, "EM": 1, "FT": 9, "PD": 6}
HDR = {"D3": lambda fmt, v: 80 + (8 + 8 * v[8][0] if fmt == 1 else 0), "EM": lambda fmt, v: 16 + 2 * v[0],
       "FT": lambda fmt, v: 80, "PD": lambda fmt, v: 16 + 2 * v[0]}


def one_track_block(kind, rng, mask, ntracks=1):
    n = len(mask)
    fmt, v = blocks.gen(kind, rng, nframes=n, fmt=(2 if kind == "D3" else None))
    ncomp = RL_KINDS[kind]
    tr = []
    for t in range(ntracks):
        fr = blocks.rframes(rng, n, ncomp, scalar=(kind == "EM"), mask=mask if t == 0 else None)
        tr.append(fr if kind == "PD" else [blocks.rlabel(rng), fr])
    if kind == "D3":
        v[3], v[9] = ntracks, tr
    elif kind == "EM":
        v[0], v[4], v[5] = ntracks, list(range(ntracks)), tr
    elif kind == "FT":
        v[0], v[8] = ntracks, tr
    else:
        v[0], v[4], v[5] = ntracks, list(range(ntracks)), tr
    return kind, fmt, v


def mask_cases(chk, nmax):
    rng = common.rng_for(chk.seed, "C05masks")
    out = []
    for kind in RL_KINDS:
        for n in range(1, nmax + 1):
            for m in itertools.product((True, False), repeat=n):
                out.append(one_track_block(kind, rng, list(m), ntracks=1 if n > 3 else 2))
    return out


def tracks_of(kind, v):
    t = v[{"D3": 9, "EM": 5, "FT": 8, "PD": 5}[kind]]
    return t if kind == "PD" else [x[1] for x in t]


def tables_from_bytes(kind, fmt, v, b):
    """segment tables of every track, parsed from the written bytes with struct only"""
    off = HDR[kind](fmt, v)
    ncomp = RL_KINDS[kind]
    out = []
    for _ in tracks_of(kind, v):
        if kind != "PD":
            off += 256
        n, segs, off = codec.seg_table_from_bytes(kind, b, off)
        out.append(segs)
        off += sum(c for _, c in segs) * 4 * ncomp
    if off != len(b):
        out.append("size mismatch %d vs %d" % (off, len(b)))
    return out


def property_holds_on_table(frames, segs):
    """C05's statement, evaluated directly (search oracle)"""
    pres = [f != [] for f in frames]
    covered = [False] * len(frames)
    prev_end = -1
    for s, c in segs:
        if c <= 0:
            return "empty run"
        if s <= prev_end:
            return "runs overlap, touch or are out of order"
        if s < 0 or s + c > len(frames):
            return "run outside frame range"
        for i in range(s, s + c):
            covered[i] = True
        prev_end = s + c
    if covered != pres:
        return "runs do not cover exactly the present frames"
    return None


class Poison:
    """numpy.empty replaced by a version that pre-fills float/structured buffers with garbage"""

    def __init__(self, pattern):
        self.pattern = pattern

    def __enter__(self):
        self.orig = np.empty
        pat = self.pattern
        orig = self.orig

        def empty(shape, dtype=float, *a, **k):
            arr = orig(shape, dtype, *a, **k)
            if arr.dtype != object and arr.size:
                raw = arr.view(np.uint8).reshape(-1)
                if pat == "finite":
                    raw[:] = np.frombuffer((struct.pack("<f", 1234.5) * (raw.size // 4 + 1))[:raw.size], dtype=np.uint8)
                elif pat == "ff":
                    raw[:] = 0x7E
                else:
                    raw[:] = np.frombuffer(bytes((37 * i + 11) % 251 for i in range(raw.size)), dtype=np.uint8)
            return arr
        np.empty = empty
        return self

    def __exit__(self, *a):
        np.empty = self.orig


def check_cases(chk, cases):
    mres = codec.model_eval(cases, want=("wfb", "enc", "dec"))
    ch = common.run_model_sharded([(20, fr) for (k, f, v) in cases for fr in tracks_of(k, v)])
    pos = 0
    for (kind, fmt, v), m in zip(cases, mres):
        case = {"kind": kind, "fmt": fmt, "v": v}
        trs = tracks_of(kind, v)
        mtables = [r[1] for r in ch[pos:pos + len(trs)]]
        pos += len(trs)
        if not m["wfb"]:
            raise RuntimeError("generator produced an invalid block: " + blocks.describe(kind, fmt, v))
        ngaps = sum(1 for fr in trs for f in fr if f == [])
        chk.note_case((kind, fmt, v), ngaps > 0 and any(f != [] for fr in trs for f in fr))
        for fr in trs:
            chk.count("runs per track:%d" % min(len(common_runs(fr)), 6))
        try:
            o = blocks.build(kind, fmt, v)
            b = blocks.impl_write(o)
        except Exception as e:
            chk.violation("%s: block with gaps cannot be written: %s" % (kind, common.exc_info(e)), case, True)
            continue
        try:
            itables = tables_from_bytes(kind, fmt, v, b)
        except Exception as e:
            itables = ["unparsable: " + common.exc_info(e)]
        if itables != mtables:
            why = None
            for fr, segs in zip(trs, itables):
                if isinstance(segs, list):
                    why = why or property_holds_on_table(fr, segs)
            if why or any(isinstance(s, str) for s in itables):
                chk.violation("%s: segment table written for mask %s: %s" %
                              (kind, mask_text(trs[0]), why or itables[-1]), case, True)
            else:
                chk.violation("segment tables differ from Segments.chunks: %r vs %r" % (itables, mtables),
                              dict(case, correspondence="Segments.chunks vs _segments/_write"), False)
            continue
        # decode under three different contents of uninitialised memory
        decs = []
        for pat in ("finite", "ff", "mixed"):
            with Poison(pat):
                r = codec.impl_decode(kind, fmt, b)
            decs.append(r.get("dec"))
        if any(d is None for d in decs):
            chk.violation("%s: own encoding with gaps cannot be decoded" % kind, case, True)
            continue
        if decs[0] != decs[1] or decs[0] != decs[2]:
            chk.violation("%s: decoding the same bytes depends on uninitialised memory: %s" %
                          (kind, codec.fdiff(decs[0], decs[1]) or codec.fdiff(decs[0], decs[2])), case, True)
            continue
        # decoding is a function of the bytes alone: a client who fills every array of a decoded block with numbers
        # (gap frames and wholly missing tracks included) does not change what the NEXT decode of the same bytes gives
        try:
            o1, _n = blocks.impl_build(kind, fmt, b)
            scribble(kind, o1)
        except Exception as e:
            chk.violation("%s: a decoded block cannot be edited in place: %s" % (kind, common.exc_info(e)), case, True)
            continue
        again = codec.impl_decode(kind, fmt, b).get("dec")
        if again != decs[0]:
            chk.violation("%s: decoding the same bytes again, after the client filled the arrays of the first decoded block "
                          "in place, gives other frames: %s" % (kind, "cannot be decoded" if again is None else codec.fdiff(again, decs[0])), case, True)
            continue
        if decs[0] != m["dec"]:
            d = codec.fdiff(decs[0], v)
            if d:
                chk.violation("%s: frames after decode differ from what was stored at %s" % (kind, d), case, True)
            else:
                chk.violation("model decode differs", dict(case, correspondence="Blocks.v dec vs _build"), False)


def scribble(kind, o):
    """overwrite every sample array of a decoded block in place (read-only arrays are left alone)"""
    def fill(a):
        try:
            a[...] = 777.0
        except ValueError:
            pass
    if kind == "D3":
        for t in o._tracks:
            fill(t.data)
    elif kind == "EM":
        for t in o._signals:
            fill(t.data)
    elif kind in ("FT", "PD"):
        for t in (o._tracks if kind == "FT" else o._platforms):
            fill(t.application_point)
            fill(t.force)
            fill(t.torque)


def mask_text(frames):
    """X = present, . = missing; long masks as run lengths"""
    if len(frames) <= 80:
        return "".join("X" if f != [] else "." for f in frames)
    runs, prev, n = [], None, 0
    for f in frames:
        cur = f != []
        if cur != prev and prev is not None:
            runs.append("%d%s" % (n, "X" if prev else "."))
            n = 0
        prev, n = cur, n + 1
    runs.append("%d%s" % (n, "X" if prev else "."))
    return " ".join(runs[:40]) + (" ..." if len(runs) > 40 else "")


def common_runs(frames):
    runs, cur = [], None
    for i, f in enumerate(frames):
        if f != []:
            if cur is None:
                cur = [i, 0]
                runs.append(cur)
            cur[1] += 1
        else:
            cur = None
    return runs


def run(chk):
    chk.rule = ("every presence mask over n<=%d frames for each of the four run-length coded kinds (single- and "
                "two-track blocks), plus long random tracks and multi-track blocks; observation = segment tables parsed "
                "from the written bytes with struct, and the decoded frames (NaN mask + bit patterns) under three "
                "different pre-fills of numpy.empty, and once more after the first decoded block was filled with numbers in place; compared with Segments.chunks and the model decoder; "
                "also: blocks built, used (sized / encoded / compared / printed), then edited IN PLACE to another content of the same shape and used again; blocks built from arrays with the same values but another memory layout (column-major, strided, reversed, big-endian, read-only, unaligned); non-trivial = at least one gap and one present frame" % (8 if chk.tier == "quick" else 11))
    chk.assumptions = ["'any process memory state' is modelled as 'any content of the buffer numpy.empty returns'"]
    corpus = codec.load_corpus("C05")
    chk.count("corpus", len(corpus))
    check_cases(chk, corpus)
    cases = mask_cases(chk, 8 if chk.tier == "quick" else 11)
    chk.count("exhaustive masks", len(cases))
    rng = common.rng_for(chk.seed, "C05long")
    nlong = 120 if chk.tier == "quick" else 1500
    for i in range(nlong):
        kind = list(RL_KINDS)[i % 4]
        n = rng.choice((9, 17, 64, 257, rng.randrange(10, 1500)))
        cases.append(one_track_block(kind, rng, blocks.rmask(rng, n), ntracks=rng.choice((1, 2, 3))))
    chk.count("long tracks", nlong)
    check_cases(chk, cases)
    check_cases(chk, [c for c in codec.large_count_cases(chk) if c[0] in RL_KINDS])
    check_cases(chk, codec.threshold_cases(chk, RL_KINDS))
    codec.check_inplace(chk, "C05", 200 if chk.tier == "quick" else 3000)
    codec.check_layouts(chk, "C05", 240 if chk.tier == "quick" else 3000)
    codec.check_trimmed(chk, "C05", 96 if chk.tier == "quick" else 1200)
    codec.check_partial_gaps(chk, "C05", 45 if chk.tier == "quick" else 600)
    chk.exhaustive = True
    chk.extra["exhaustive_scope"] = "all 2^n masks, n <= %d, per kind" % (8 if chk.tier == "quick" else 11)


def replay(chk, path):
    d = json.load(open(path))["replay"]
    check_cases(chk, [(d["kind"], d["fmt"], d["v"])])
    chk.rule = "replay of " + path

"""Shared evaluation for the block-codec properties C01, C02, C05, C06, C12:
run one generated block through the implementation and through the extracted model."""
import copy
import io
import json
import os
import struct

import numpy as np

from harness import blocks, common
from harness.common import err_code

TRAILER = b"\xA5\x5A\xC3"


# ------------------------------------------------------------------ independent container parser
def parse_tdf(data):
    """Header + jump table of a TDF file, with struct only (no library code)."""
    sig = data[:16]
    version, n = struct.unpack_from("<Ii", data, 16)
    cdate, mdate, adate = struct.unpack_from("<iii", data, 32)
    entries = []
    for k in range(max(n, 0)):
        off = 64 + 288 * k
        if off + 288 > len(data):
            break
        ty, fm, o, sz, c, m, a = struct.unpack_from("<IIiiiii", data, off)
        raw = data[off + 32: off + 288]
        comment = raw.split(b"\0", 1)[0]
        entries.append({"type": ty, "format": fm, "offset": o, "size": sz, "cdate": c, "mdate": m,
                        "adate": a, "comment": comment, "pad": data[off + 28: off + 32], "raw_comment": raw})
    return {"signature": sig, "version": version, "n": n, "dates": (cdate, mdate, adate),
            "reserved1": data[24:32], "reserved2": data[44:64], "entries": entries, "length": len(data)}


_capture = None


def capture_blocks():
    """[(kind, type, format, bytes)] for the blocks of the BTS-recorded capture the library implements."""
    global _capture
    if _capture is None:
        data = open(common.CAPTURE, "rb").read()
        t = parse_tdf(data)
        inv = {v: k for k, v in blocks.TY.items()}
        out = []
        for e in t["entries"]:
            if e["type"] in inv:
                out.append((inv[e["type"]], e["type"], e["format"], data[e["offset"]: e["offset"] + e["size"]]))
        _capture = out
    return _capture


# ------------------------------------------------------------------ implementation side
def impl_roundtrip(kind, fmt, v):
    """dict with: enc (bytes | err), nbytes, dec (V | err), consumed, reenc (bytes | err)"""
    r = {}
    try:
        o = blocks.build(kind, fmt, v)
    except Exception as e:
        return {"build_err": common.exc_info(e)}
    try:
        r["nbytes"] = int(o.nBytes)
    except Exception as e:
        r["nbytes"] = "err:" + common.exc_info(e)
    try:
        b = blocks.impl_write(o)
        r["enc"] = b
    except Exception as e:
        r["enc"] = None
        r["enc_err"] = err_code(e)
        r["enc_exc"] = common.exc_info(e)
        return r
    r.update(impl_decode(kind, fmt, b))
    return r


def impl_decode(kind, fmt, b):
    r = {}
    try:
        o2, n = blocks.impl_build(kind, fmt, b, TRAILER)
        r["consumed"] = n
        r["dec"] = blocks.extract(kind, fmt, o2)
        try:
            r["nbytes2"] = int(o2.nBytes)
        except Exception as e:
            r["nbytes2"] = "err:" + common.exc_info(e)
        try:
            r["reenc"] = blocks.impl_write(o2)
        except Exception as e:
            r["reenc"] = None
            r["reenc_exc"] = common.exc_info(e)
    except Exception as e:
        r["dec"] = None
        r["dec_err"] = err_code(e)
        r["dec_exc"] = common.exc_info(e)
    return r


# ------------------------------------------------------------------ model side
def model_eval(cases, want=("wfb", "enc", "dec", "size")):
    """cases: [(kind, fmt, v)].  Returns list of dicts."""
    out = [dict() for _ in cases]
    T = blocks.TY
    if "wfb" in want:
        for d, r in zip(out, common.run_model_sharded([(12, [T[k], f, v]) for k, f, v in cases])):
            d["wfb"] = r == [0, 1]
    if "size" in want:
        for d, r in zip(out, common.run_model_sharded([(13, [T[k], f, v]) for k, f, v in cases])):
            d["size"] = r[1] if r[0] == 0 else None
    if "enc" in want:
        for d, r in zip(out, common.run_model_sharded([(10, [T[k], f, v]) for k, f, v in cases])):
            d["enc"] = bytes(r[1]) if r[0] == 0 else None
            d["enc_err"] = r[0]
    if "dec" in want:
        idx = [i for i, d in enumerate(out) if d.get("enc") is not None]
        res = common.run_model_sharded([(11, [T[cases[i][0]], cases[i][1], list(out[i]["enc"] + TRAILER)]) for i in idx])
        for i, r in zip(idx, res):
            if r[0] == 0:
                out[i]["dec"], out[i]["consumed"] = r[1][0], r[1][1]
            else:
                out[i]["dec"], out[i]["consumed"] = None, None
    return out


def model_encj(cases, a, b):
    T = blocks.TY
    res = common.run_model_sharded([(14, [T[k], f, v, a, b]) for k, f, v in cases])
    return [bytes(r[1]) if r[0] == 0 else None for r in res]


def model_dec_bytes(items):
    """items: [(kind, fmt, bytes)] -> [(v, consumed) | None]"""
    T = blocks.TY
    res = common.run_model_each([(11, [T[k], f, list(b)]) for k, f, b in items])
    return [(r[1][0], r[1][1]) if r[0] == 0 else None for r in res]


def model_capture_views(cases):
    """for large decoded values: (enc, dc positions) per case, all model runs in parallel and cached"""
    T = blocks.TY
    jobs = []
    for k, f, v in cases:
        jobs += [(10, [T[k], f, v]), (14, [T[k], f, v, 0, 0]), (14, [T[k], f, v, 0, 255])]
    res = common.run_model_each(jobs)
    out = []
    for i in range(len(cases)):
        e, z, o = res[3 * i: 3 * i + 3]
        if e[0] != 0 or z[0] != 0 or o[0] != 0:
            out.append((None, None))
        else:
            out.append((bytes(e[1]), [j for j in range(len(z[1])) if z[1][j] != o[1][j]]))
    return out


def dc_mask(cases):
    """don't-care byte positions of each case's encoding, computed by the model:
    positions where the free encoder's output depends on the junk oracle."""
    z = model_encj(cases, 0, 0)
    o = model_encj(cases, 0, 255)
    out = []
    for x, y in zip(z, o):
        if x is None or y is None:
            out.append(None)
        else:
            out.append([i for i in range(len(x)) if x[i] != y[i]])
    return out


# ------------------------------------------------------------------ generation
def gen_cases(chk, n, salt, kinds=None, big=6):
    rng = common.rng_for(chk.seed, salt)
    kinds = kinds or blocks.KINDS
    cases = []
    for i in range(n):
        kind = kinds[i % len(kinds)]
        fmt, v = blocks.gen(kind, rng, big=big)
        cases.append((kind, fmt, v))
        chk.count("kind:%s fmt=%d" % (kind, fmt))
        items = v[3] if kind == "D3" else v[0]
        chk.count("items:%s" % ("0" if items == 0 else "1" if items == 1 else "2" if items == 2 else "3+"))
    return cases


def large_count_cases(chk):
    """blocks whose counts do not fit one byte (256 or more of something): events, channels, signals, tracks,
    segments per track, points per 2D cell, links, platforms"""
    rng = common.rng_for(chk.seed, "largecounts")
    out = []

    def lab(i):
        return [0x61 + (i % 26), 0x30 + (i // 26) % 10]
    n = 256 + rng.randrange(0, 45)
    out.append(("EV", 1, [n, blocks.rf32(rng), [[lab(i), 1, i % 3, [blocks.rf32(rng) for _ in range(i % 3)]] for i in range(n)]]))
    n = 256 + rng.randrange(0, 45)
    out.append(("OS", 1, [n, [], [[i, [], lab(i), [], lab(i + 1), [[0, i], [640, 480]]] for i in range(n)]]))
    n = 257
    out.append(("EM", 1, [n, 1000, blocks.rf32(rng), 2, list(range(n)), [[lab(i), [blocks.rf32(rng), []][:2] if i % 2 else [[], blocks.rf32(rng)]] for i in range(n)]]))
    nfr = 620                                    # alternating presence: 310 segments in one track
    fr3 = [[blocks.rf32(rng), blocks.rf32(rng), blocks.rf32(rng)] if i % 2 == 0 else [] for i in range(nfr)]
    z3, z9 = [0, 0, 0], [0] * 9
    out.append(("D3", 1, [nfr, 100, 0, 2, z3, z9, z3, 0, [300, [], [[i, i + 1] for i in range(300)]],
                          [[lab(1), fr3], [lab(2), [[] for _ in range(nfr)]]]]))
    fr9 = [[blocks.rf32(rng) for _ in range(9)] if i % 2 == 1 else [] for i in range(nfr)]
    out.append(("FT", 1, [1, 100, 0, nfr, z3, z9, z3, [], [[lab(3), fr9]]]))
    fr6 = [[blocks.rf32(rng) for _ in range(6)] if i % 3 else [] for i in range(nfr)]
    out.append(("PD", 1, [2, 100, 0, nfr, [7, 32767], [fr6, fr6[::-1]]]))
    n = 260
    out.append(("PC", 2, [n, [], [i - 130 for i in range(n)], [[lab(i), [0, 0], [0] * 12, []] for i in range(n)]]))
    cell = [[blocks.rf32(rng), blocks.rf32(rng)] for _ in range(300)]
    out.append(("D2", 2, [2, 2, 100, 0, 0, [1, 2], [[cell, []], [[], cell[:257]]]]))
    for k, f, v in out:
        chk.count("large counts: " + k)
    # items whose every field is zero / empty, between ordinary ones (a hub slot nobody plugged a camera into, an event nobody
    # named): their records consist of nothing but zero bytes
    out.append(("OS", 1, [3, [], [[1, [], [0x61], [], [0x62], [[0, 0], [640, 480]]], [0, [], [], [], [], [[0, 0], [0, 0]]],
                                  [2, [], [0x63], [], [0x64], [[0, 0], [640, 480]]]]]))
    out.append(("EV", 1, [3, 0, [[[0x61], 1, 2, [0x3F800000, 0x40000000]], [[], 0, 0, []], [[0x62], 0, 1, [0x40400000]]]]))
    out.append(("PC", 2, [3, [], [0, 1, 2], [[[0x61], [0x3F000000, 0x3F000000], [0x3F800000] * 12, []], [[], [0, 0], [0] * 12, []],
                                             [[0x62], [0x3F000000, 0x3F000000], [0x40000000] * 12, []]]]))
    chk.count("blocks with an all-zero item between ordinary ones", 3)
    # counts that coincide with a constant of the format: the EMG sample count is stored with a bias of 49 (49 samples are
    # stored as 0, 48 as -1), records are 256 / 32 / 288 / 64 bytes wide, a camera record has 70 coefficients
    for nfr in (48, 49, 50, 64, 70, 255, 256, 257, 288):
        for kind in ("EM", "D3", "FT", "PD"):
            for _ in range(20):
                f, v = blocks.gen(kind, rng, big=2, nframes=nfr)
                if blocks.nontrivial(kind, v):
                    break
            out.append((kind, f, v))
            chk.count("frame count equal to a constant of the format (48-50, 64, 70, 255-257, 288)")
    return out


def threshold_cases(chk, kinds=None):
    """blocks whose sizes cross the 16-bit limits (2^13 eight-byte points = 2^16 bytes; 2^16 frames) with gap edges
    placed exactly on, one before and one after the power of two"""
    rng = common.rng_for(chk.seed, "thresholds")
    out = []
    P = 65536

    def scal(n, gaps):
        fr = [blocks.rf32(rng) for _ in range(n)]
        for a, b in gaps:
            for i in range(a, b):
                fr[i] = []
        return fr

    def vec(n, ncomp, gaps):
        fr = [[(i * 7 + c) & 0x3FFFFFFF for c in range(ncomp)] for i in range(n)]
        for a, b in gaps:
            for i in range(a, b):
                fr[i] = []
        return fr
    n = P + 5000
    sigs = [[[0x61], scal(n, [(P - 300, P)])],                       # gap ends exactly on 2^16
            [[0x62], scal(n, [(P - 300, P - 1)])],                   # one before
            [[0x63], scal(n, [(P, P + 7)])],                         # gap starts exactly on 2^16
            [[0x64], scal(n, [(4096, 8192), (32768, 32769), (P - 1, P + 1)])],
            [[0x65], scal(n, [])]]
    out.append(("EM", 1, [len(sigs), 1000, 0, n, list(range(len(sigs))), sigs]))
    for m in (4096, 6000):        # medium-long recordings with a wholly missing channel next to gappy and complete ones
        sg = [[[0x61], scal(m, [(100, 250), (m - 200, m)])], [[0x73], [[] for _ in range(m)]], [[0x63], scal(m, [])],
              [[0x74], [[] for _ in range(m)]]]
        out.append(("EM", 1, [len(sg), 1000, 0, m, list(range(len(sg))), sg]))
    z3, z9 = [0, 0, 0], [0] * 9
    for m in (4096, 5000):
        out.append(("D3", 2, [m, 100, 0, 3, z3, z9, z3, 0, [], [[[0x61], vec(m, 3, [(7, 90)])], [[0x62], [[] for _ in range(m)]], [[0x63], vec(m, 3, [])]]]))
    out.append(("D3", 2, [n, 100, 0, 2, z3, z9, z3, 0, [], [[[0x61], vec(n, 3, [(P - 10, P)])], [[0x62], vec(n, 3, [(0, 1), (P, P + 1)])]]]))
    out.append(("FT", 1, [1, 100, 0, n, z3, z9, z3, [], [[[0x61], vec(n, 9, [(P - 3, P), (P + 1, P + 2)])]]]))
    out.append(("PD", 1, [1, 100, 0, n, [0], [vec(n, 6, [(P - 2, P)])]]))
    for npts in (8191, 8192, 8193, 65535):
        cell = [[(i * 3) & 0x3FFFFFFF, (i * 5) & 0x3FFFFFFF] for i in range(npts)]
        out.append(("D2", 2, [2, 1, 100, 0, 0, [1, 2], [[cell, cell[:3]]]]))
    if chk.tier == "quick":                      # the 9- and 6-component kinds only in the thorough tier (model time)
        out = [c for c in out if c[0] not in ("FT", "PD")]
    # one contiguous run of more than 2^17 frames that does not start at frame 0 (a long recording with a few missing
    # frames before first contact): force/torque in C01 / C05 already in the quick tier, everywhere in the thorough one
    if chk.tier != "quick" or getattr(chk, "pid", "") in ("C01", "C05"):
        n2 = 2 ** 17 + 9000
        out.append(("FT", 1, [1, 1000, 0, n2, z3, z9, z3, [], [[[0x72], vec(n2, 9, [(0, 7)])]]]))
    if chk.tier != "quick":
        n2 = 2 ** 17 + 9000
        out.append(("EM", 1, [1, 1000, 0, n2, [0], [[[0x65], scal(n2, [(0, 3), (2 ** 17 - 1, 2 ** 17 + 1)])]]]))
        out.append(("D3", 2, [n2, 100, 0, 1, z3, z9, z3, 0, [], [[[0x61], vec(n2, 3, [(0, 5)])]]]))
    # runs of EXACTLY 2^18 samples (what a writer that works in slices of 2^18 sees when the last slice is a whole one), with a
    # second signal stored behind: a gap-free recording of 2^18 samples, and a run [100, 100 + 2^18) inside 300 000
    if chk.tier != "quick" or getattr(chk, "pid", "") in ("C01", "C02"):
        q = 2 ** 18
        out.append(("EM", 1, [2, 1000, 0, q, [0, 1], [[[0x61], scal(q, [])], [[0x62], scal(q, [(5, 9)])]]]))
        out.append(("EM", 1, [2, 1000, 0, 300000, [3, 4], [[[0x63], scal(300000, [(0, 100), (100 + q, 300000)])], [[0x64], scal(300000, [])]]]))
    out = [c for c in out if kinds is None or c[0] in kinds]
    for k, f, v in out:
        chk.count("sizes across 2^13 / 2^16 / 2^18: " + k)
    return out


def load_corpus(pid):
    d = os.path.join(common.VERIF, "corpus", pid)
    out = []
    if os.path.isdir(d):
        for fn in sorted(os.listdir(d)):
            if fn.endswith(".json"):
                for c in json.load(open(os.path.join(d, fn))):
                    out.append((c["kind"], c["fmt"], c["v"]))
    return out


def seg_table_from_bytes(kind, b, off):
    """(nseg, [(start,count)], next offset) parsed with struct at offset off (after the label if any)"""
    n, = struct.unpack_from("<i", b, off)
    segs = [list(struct.unpack_from("<ii", b, off + 8 + 8 * i)) for i in range(n)]
    return n, segs, off + 8 + 8 * n


def fdiff(a, b, path=""):
    """first position where two V trees differ"""
    if isinstance(a, list) and isinstance(b, list):
        if len(a) != len(b):
            return "%s: length %d vs %d" % (path, len(a), len(b))
        for i, (x, y) in enumerate(zip(a, b)):
            d = fdiff(x, y, path + "[%d]" % i)
            if d:
                return d
        return None
    if a != b:
        return "%s: %r vs %r" % (path, a, b)
    return None


# ------------------------------------------------------------------ blocks edited in place (stale caches)
def inplace_cases(chk, n, salt):
    """[(kind, fmt, v, w)]: w has the shape of v; the implementation object is built from v, used (sized, encoded,
    compared, printed), edited in place to hold w and used again"""
    rng = common.rng_for(chk.seed, salt, "inplace")
    out = []
    for i in range(n):
        kind = blocks.KINDS[i % len(blocks.KINDS)]
        fmt, v = blocks.gen(kind, rng, big=4)
        out.append((kind, fmt, v, blocks.perturb(kind, fmt, v, rng)))
        chk.count("edited in place: " + kind)
    return out


def impl_after_inplace(kind, fmt, v, w, decoded=False):
    """dict like impl_roundtrip, for the object built from v (or decoded from v's encoding), warmed, edited in
    place to w"""
    try:
        o = blocks.build(kind, fmt, v)
        if decoded:
            o, _ = blocks.impl_build(kind, fmt, blocks.impl_write(o))
        blocks.warm(o)
    except Exception as e:
        return {"build_err": common.exc_info(e)}
    try:
        blocks.apply_inplace(kind, fmt, o, w)
    except ValueError as e:
        if "read-only" in str(e):
            return {"readonly": True}          # numpy marks some decoded arrays read-only: no in-place edit is possible
        return {"build_err": common.exc_info(e)}
    except Exception as e:
        return {"build_err": common.exc_info(e)}
    r = {"content": blocks.extract(kind, fmt, o)}          # what the object holds now (attributes and arrays, no encoder involved)
    try:
        r["nbytes"] = int(o.nBytes)
    except Exception as e:
        r["nbytes"] = "err:" + common.exc_info(e)
    try:
        r["enc"] = blocks.impl_write(o)
    except Exception as e:
        r["enc"] = None
        r["enc_exc"] = common.exc_info(e)
        return r
    r.update(impl_decode(kind, fmt, r["enc"]))
    r["obj"] = o
    return r


def check_inplace(chk, pid, n):
    """the property pid (C01 / C02 / C05 / C06) on blocks reached by in-place edits — of constructed blocks and of
    blocks decoded from bytes; the model side is simply the value the object now holds (values have no history)"""
    cases = inplace_cases(chk, n, pid)
    impl = []
    for idx, (kind, fmt, v, w) in enumerate(cases):
        decoded = (idx // len(blocks.KINDS)) % 2 == 1
        impl.append((decoded, impl_after_inplace(kind, fmt, v, w, decoded)))
    todo = [(c, d, i) for c, (d, i) in zip(cases, impl) if "content" in i]
    mres = model_eval([(c[0], c[1], i["content"]) for c, d, i in todo], want=("wfb", "enc", "size"))
    bym = {id(i): m for (c, d, i), m in zip(todo, mres)}
    for (kind, fmt, v, w), (decoded, i) in zip(cases, impl):
        origin = "decoded from bytes" if decoded else "constructed"
        chk.note_case((kind, fmt, "edited in place", decoded, v, w), blocks.nontrivial(kind, w))
        case = {"kind": kind, "fmt": fmt, "built_from": v, "origin": origin, "edited_in_place_towards": w}
        if "build_err" in i:
            chk.violation("%s (%s): a block cannot be edited in place: %s" % (kind, origin, i["build_err"]), case, True)
            continue
        cur = i["content"]
        case["content_after_edit"] = cur
        m = bym[id(i)]
        if not m["wfb"]:
            chk.count("edited in place: content outside the valid blocks (skipped)")
            continue
        if i["enc"] is None:
            chk.violation("%s (%s): a block edited in place cannot be encoded: %s" % (kind, origin, i["enc_exc"]), case, True)
            continue
        if pid == "C02":
            if not (i["nbytes"] == len(i["enc"]) == i.get("consumed")):
                chk.violation("%s fmt=%d (%s) after an in-place edit: nBytes=%r, bytes written=%d, bytes consumed=%r" %
                              (kind, fmt, origin, i["nbytes"], len(i["enc"]), i.get("consumed")), case, True)
            elif m["size"] != len(i["enc"]):
                chk.violation("%s: size differs from the model after an in-place edit" % kind, dict(case, correspondence="Fmt.size"), False)
        elif pid == "C06":
            if i["enc"] != m["enc"]:
                k = next((j for j, (x, y) in enumerate(zip(i["enc"], m["enc"])) if x != y), min(len(i["enc"]), len(m["enc"])))
                chk.violation("%s fmt=%d (%s) after an in-place edit: bytes written differ from the layout-driven encoder of the "
                              "block's current content at offset %d (%d vs %d bytes)" % (kind, fmt, origin, k, len(i["enc"]), len(m["enc"])), case, True)
        else:   # C01 / C05: what comes back is the current content
            if i.get("dec") is None:
                chk.violation("%s (%s) after an in-place edit: own encoding cannot be decoded: %s" % (kind, origin, i.get("dec_exc")), case, True)
            elif i["dec"] != cur:
                chk.violation("%s fmt=%d (%s) after an in-place edit: decode(encode(b)) differs from the block's current content at %s" %
                              (kind, fmt, origin, fdiff(i["dec"], cur)), case, True)


# ------------------------------------------------------------------ arrays with another layout in memory
def check_layouts(chk, pid, n):
    """the property pid (C01 / C02 / C05 / C06) on blocks whose constructor arguments are arrays with the same values
    but another layout in memory (column-major, strided, negative strides, big-endian, read-only, unaligned): the
    model side is the same value v — a value has no layout"""
    rng = common.rng_for(chk.seed, pid, "layouts")
    cases = []
    for i in range(n):
        kind = blocks.KINDS[i % len(blocks.KINDS)]
        fmt, v = blocks.gen(kind, rng, big=4)
        cases.append((kind, fmt, v, blocks.LAYOUTS[(i // len(blocks.KINDS)) % len(blocks.LAYOUTS)]))
    # gap-free multi-frame tracks and non-symmetric matrices, where a layout mix-up shows
    for lay in blocks.LAYOUTS:
        nfr = 3 + rng.randrange(4)
        fr3 = [[blocks.rf32(rng) for _ in range(3)] for _ in range(nfr)]
        rot = [blocks.rf32(rng) for _ in range(9)]
        z3 = [0, 0, 0]
        for fmt in (1, 2):
            cases.append(("D3", fmt, [nfr, 100, 0, 1, z3, rot, z3, 0, [0, [], []] if fmt == 1 else [], [[[0x61], fr3]]], lay))
    # EMG signals with several gaps, in every layout (a column vector cut out of a samples x channels matrix, a masked array, ...)
    for lay in blocks.LAYOUTS:
        ns = 40 + rng.randrange(30)
        sig = lambda gaps: [[] if any(a <= i < b for a, b in gaps) else blocks.rf32(rng) for i in range(ns)]
        cases.append(("EM", 1, [2, 1000, 0, ns, [4, 9], [[[0x61], sig([(0, 1), (5, 7), (20, 29)])], [[0x62], sig([(ns - 3, ns)])]]], lay))
    mres = model_eval([(k, f, v) for k, f, v, lay in cases], want=("wfb", "enc", "size"))
    for (kind, fmt, v, lay), m in zip(cases, mres):
        chk.count("array layout: " + lay)
        chk.note_case((kind, fmt, v, lay), blocks.nontrivial(kind, v))
        case = {"kind": kind, "fmt": fmt, "v": v, "array_layout": lay}
        if not m["wfb"]:
            raise RuntimeError("generator produced an invalid block: " + blocks.describe(kind, fmt, v))
        blocks.LAYOUT = lay
        try:
            i = impl_roundtrip(kind, fmt, v)
        finally:
            blocks.LAYOUT = None
        if "build_err" in i:
            chk.violation("%s: valid block cannot be constructed from %s arrays: %s" % (kind, lay, i["build_err"]), case, True)
            continue
        if i["enc"] is None:
            chk.violation("%s: valid block built from %s arrays cannot be encoded: %s" % (kind, lay, i["enc_exc"]), case, True)
            continue
        if pid == "C02":
            if not (i["nbytes"] == len(i["enc"]) == i.get("consumed")):
                chk.violation("%s fmt=%d built from %s arrays: nBytes=%r, bytes written=%d, bytes consumed=%r" %
                              (kind, fmt, lay, i["nbytes"], len(i["enc"]), i.get("consumed")), case, True)
            elif m["size"] != len(i["enc"]):
                chk.violation("%s: size differs from the model" % kind, dict(case, correspondence="Fmt.size"), False)
        elif pid == "C06":
            if i["enc"] != m["enc"]:
                k = next((j for j, (x, y) in enumerate(zip(i["enc"], m["enc"])) if x != y), min(len(i["enc"]), len(m["enc"])))
                chk.violation("%s fmt=%d built from %s arrays: bytes written differ from the layout-driven encoder at offset %d "
                              "(%d vs %d bytes)" % (kind, fmt, lay, k, len(i["enc"]), len(m["enc"])), case, True)
        else:
            if i.get("dec") is None:
                chk.violation("%s built from %s arrays: own encoding cannot be decoded: %s" % (kind, lay, i.get("dec_exc")), case, True)
            elif i["dec"] != v:
                chk.violation("%s fmt=%d built from %s arrays: decode(encode(b)) differs from b at %s" %
                              (kind, fmt, lay, fdiff(i["dec"], v)), case, True)


# ------------------------------------------------------------------ a decoded recording, trimmed and stored again
TRIMS = (("front", lambda n: slice(min(3, n - 1), None)), ("both ends", lambda n: slice(1, max(2, n - 2))), ("every 2nd", lambda n: slice(None, None, 2)),
         ("every 3rd from 1", lambda n: slice(1, None, 3)), ("reversed", lambda n: slice(None, None, -1)), ("tail", lambda n: slice(n // 2, None)))
FRAME_SLOTS = {"D3": (0, 9, 1), "EM": (3, 5, 1), "FT": (3, 8, 1), "PD": (3, 5, None)}     # where nFrames and the items' frames sit in v


def retake(kind, fmt, o, sl, n2):
    """a new block with the frames o's items have under the slice sl — its items constructed from VIEWS of o's arrays
    (what `Track(label, old.data[5:])` is), everything else taken over"""
    if kind == "D3":
        from basictdf.tdfData3D import Data3D, MarkerTrack
        d = Data3D(frequency=o.frequency, nFrames=n2, volume=o.volume, rotationMatrix=o.rotationMatrix,
                   translationVector=o.translationVector, startTime=o.startTime, flag=o.flag, format=o.format)
        if fmt == 1:
            d.links = o.links
        for t in o._tracks:
            d.add_track(MarkerTrack(t.label, t.data[sl]))
        return d
    if kind == "EM":
        from basictdf.tdfEMG import EMG, EMGTrack
        e = EMG(frequency=o.frequency, nSamples=n2, startTime=o.startTime, format=o.format)
        for ch, t in zip(o._emgMap, o._signals):
            e.addSignal(EMGTrack(t.label, t.data[sl]), channel=int(ch))
        return e
    if kind == "FT":
        from basictdf.tdfForce3D import ForceTorque3D, ForceTorqueTrack
        f = ForceTorque3D(frequency=o.frequency, nFrames=n2, volume=o.volume, rotationMatrix=o.rotationMatrix,
                          translationVector=o.translationVector, startTime=o.startTime, format=o.format)
        for t in o._tracks:
            f.add_track(ForceTorqueTrack(t.label, t.application_point[sl], t.force[sl], t.torque[sl]))
        return f
    from basictdf.tdfForcePlatformsData import ForcePlatformData, ForcePlatformsDataBlock
    b = ForcePlatformsDataBlock(start_time=o.start_time, frequency=o.frequency, n_frames=n2, format=o.format)
    for ch, pl in zip(o._plat_map, o._platforms):
        b.add_platform(ForcePlatformData(pl.application_point[sl], pl.force[sl], pl.torque[sl]), channel=int(ch))
    return b


def check_trimmed(chk, pid, n):
    """pid in C01 / C02 / C05 / C06 for a recording that was DECODED, cut down (front, both ends, every k-th frame,
    reversed) and stored again — the new items are made from views of the decoded arrays; and the same with the source
    block freshly constructed instead of decoded.  The model side is simply the value with its frame lists sliced."""
    rng = common.rng_for(chk.seed, pid, "trimmed")
    cases = []
    for i in range(n):
        kind = ("PD", "FT", "D3", "EM")[i % 4]
        fmt, v = blocks.gen(kind, rng, big=3, nframes=rng.choice((6, 9, 12, 19)))
        nslot, islot, fslot = FRAME_SLOTS[kind]
        if not v[islot]:
            continue
        nfr = v[nslot]
        name, mk = TRIMS[(i // 4) % len(TRIMS)]
        sl = mk(nfr)
        v2 = copy.deepcopy(v)
        for it in v2[islot]:
            if fslot is None:
                it[:] = it[sl]
            else:
                it[fslot] = it[fslot][sl]
        first = v2[islot][0] if fslot is None else v2[islot][0][fslot]
        v2[nslot] = len(first)
        if v2[nslot] == 0:
            continue
        cases.append((kind, fmt, v, v2, name, sl, "decoded" if (i // 24) % 2 == 0 else "constructed"))
    mres = model_eval([(k, f, v2) for k, f, v, v2, nm, sl, src in cases], want=("wfb", "enc", "size"))
    for (kind, fmt, v, v2, name, sl, src), m in zip(cases, mres):
        chk.count("recording %s, cut (%s), stored again" % (src, name))
        chk.note_case((kind, fmt, v, name, src), blocks.nontrivial(kind, v2))
        case = {"kind": kind, "fmt": fmt, "v": v2, "how": "items made from views [%s] of the arrays of a %s block" % (name, src), "source_v": v}
        if not m["wfb"]:
            raise RuntimeError("generator produced an invalid block: " + blocks.describe(kind, fmt, v2))
        try:
            o = blocks.build(kind, fmt, v)
            if src == "decoded":
                o, _n = blocks.impl_build(kind, fmt, blocks.impl_write(o), TRAILER)
            o2 = retake(kind, fmt, o, sl, v2[FRAME_SLOTS[kind][0]])
        except Exception as e:
            chk.violation("%s: a %s recording cut to [%s] cannot be made into a block: %s" % (kind, src, name, common.exc_info(e)), case, True)
            continue
        what = "%s fmt=%d, %s recording cut to [%s] and stored again" % (kind, fmt, src, name)
        try:
            had = blocks.extract(kind, fmt, o2)
            nb = int(o2.nBytes)
            b = blocks.impl_write(o2)
        except Exception as e:
            chk.violation("%s: cannot be encoded: %s" % (what, common.exc_info(e)), case, True)
            continue
        if had != v2:
            chk.violation("%s: generator problem, the block does not hold the cut frames at %s" % (what, fdiff(had, v2)), case, False)
            continue
        i = impl_decode(kind, fmt, b)
        if pid == "C02":
            if not (nb == len(b) == i.get("consumed")):
                chk.violation("%s: nBytes=%r, bytes written=%d, bytes consumed=%r" % (what, nb, len(b), i.get("consumed")), case, True)
        elif pid == "C06":
            if b != m["enc"]:
                k = next((j for j, (x, y) in enumerate(zip(b, m["enc"])) if x != y), min(len(b), len(m["enc"])))
                chk.violation("%s: bytes written differ from the layout-driven encoder at offset %d (%d vs %d bytes)" % (what, k, len(b), len(m["enc"])), case, True)
        else:
            if i.get("dec") is None:
                chk.violation("%s: own encoding cannot be decoded: %s" % (what, i.get("dec_exc")), case, True)
            elif i["dec"] != v2:
                chk.violation("%s: decode(encode(b)) differs from b at %s" % (what, fdiff(i["dec"], v2)), case, True)
            elif pid == "C05" and b != m["enc"]:
                chk.violation("%s: the stored runs / samples differ from Chunks.v's" % what, dict(case, correspondence="enc"), False)


def check_stray_attributes(chk, pid, n):
    """pid in C01 / C02 / C06 on blocks that carry something their FORMAT does not store: a Data3D of a link-less format
    whose `links` attribute is set (by the caller, or left over from the format it was read in).  The value — and so
    the model side — is that of the block without them."""
    rng = common.rng_for(chk.seed, pid, "stray")
    cases = [blocks.gen("D3", rng, fmt=2, big=4) for _ in range(n)]
    mres = model_eval([("D3", f, v) for f, v in cases], want=("wfb", "enc", "size"))
    for j, ((fmt, v), m) in enumerate(zip(cases, mres)):
        k = 1 + j % 3
        chk.count("links set on a block of a link-less format")
        chk.note_case(("stray links", fmt, v, k), blocks.nontrivial("D3", v))
        case = {"kind": "D3", "fmt": fmt, "v": v, "how": "block.links set to %d link(s) although the format stores none" % k}
        blocks.STRAY_LINKS = k
        try:
            i = impl_roundtrip("D3", fmt, v)
        finally:
            blocks.STRAY_LINKS = 0
        what = "D3 fmt=%d with %d link(s) the format does not store" % (fmt, k)
        if "build_err" in i or i.get("enc") is None:
            chk.violation("%s: cannot be built / encoded: %s" % (what, i.get("build_err") or i.get("enc_exc")), case, True)
        elif pid == "C02":
            if not (i["nbytes"] == len(i["enc"]) == i.get("consumed")):
                chk.violation("%s: nBytes=%r, bytes written=%d, bytes consumed=%r" % (what, i["nbytes"], len(i["enc"]), i.get("consumed")), case, True)
        elif pid == "C06":
            if i["enc"] != m["enc"]:
                chk.violation("%s: bytes written differ from the layout-driven encoder" % what, case, True)
        elif i.get("dec") != v:
            chk.violation("%s: decode(encode(b)) differs from b at %s" % (what, fdiff(i.get("dec"), v) if i.get("dec") else i.get("dec_exc")), case, True)
        if chk.n_found() >= 3:
            return


def check_reassigned_arrays(chk, pid, n):
    """pid in C01 / C02 / C06 on blocks whose items got their arrays REASSIGNED after construction, through the public
    attributes, to arrays holding the same numbers in another dtype (float64 — what np.append / np.concatenate / a
    Python-float computation hands back): sizes, bytes and the round trip are those of the same values"""
    rng = common.rng_for(chk.seed, pid, "reassigned")
    attrs = {"D3": ("_tracks", ("data",)), "EM": ("_signals", ("data",)), "FT": ("_tracks", ("application_point", "force", "torque")),
             "PD": ("_platforms", ("application_point", "force", "torque")), "EV": ("events", ("values",))}
    cases = []
    for i in range(n):
        kind = list(attrs)[i % len(attrs)]
        for _ in range(20):
            fmt, v = blocks.gen(kind, rng, big=3)
            if blocks.nontrivial(kind, v):
                break
        cases.append((kind, fmt, v))
    mres = model_eval(cases, want=("wfb", "enc", "size"))
    for (kind, fmt, v), m in zip(cases, mres):
        chk.count("item arrays reassigned as float64")
        chk.note_case(("reassigned arrays", kind, fmt, v), blocks.nontrivial(kind, v))
        case = {"kind": kind, "fmt": fmt, "v": v, "how": "every item's arrays reassigned (public attributes) to float64 arrays with the same numbers"}
        what = "%s fmt=%d with item arrays reassigned as float64" % (kind, fmt)
        try:
            o = blocks.build(kind, fmt, v)
            lst, names = attrs[kind]
            for it in getattr(o, lst):
                for a in names:
                    setattr(it, a, np.asarray(getattr(it, a)).astype("<f8"))
            nb = int(o.nBytes)
            b = blocks.impl_write(o)
        except Exception as e:
            chk.violation("%s: cannot be sized / encoded: %s" % (what, common.exc_info(e)), case, True)
            continue
        i = impl_decode(kind, fmt, b)
        if pid == "C02":
            if not (nb == len(b) == i.get("consumed")):
                chk.violation("%s: nBytes=%r, bytes written=%d, bytes consumed=%r" % (what, nb, len(b), i.get("consumed")), case, True)
        elif pid == "C06":
            if b != m["enc"]:
                chk.violation("%s: bytes written differ from the layout-driven encoder" % what, case, True)
        elif i.get("dec") != v:
            chk.violation("%s: decode(encode(b)) differs from b at %s" % (what, fdiff(i.get("dec"), v) if i.get("dec") else i.get("dec_exc")), case, True)
        if chk.n_found() >= 3:
            return


def check_partial_gaps(chk, pid, n):
    """pid in C01 / C02 / C05 / C06 on recordings whose missing frames are marked the way acquisition software marks them:
    NaN in the first component (the one the library looks at), left-over numbers in the others.  Such a frame is a
    missing frame: the value — and the model side — is that of the recording with those frames missing."""
    rng = common.rng_for(chk.seed, pid, "partialgaps")
    cases = []
    for i in range(n * 3):
        kind = ("FT", "PD", "D3")[i % 3]
        fmt, v = blocks.gen(kind, rng, big=3, nframes=rng.choice((4, 7, 12, 20)))
        if "[]" in repr(v[FRAME_SLOTS[kind][1]]) and blocks.nontrivial(kind, v):
            cases.append((kind, fmt, v))
        if len(cases) >= n:
            break
    mres = model_eval(cases, want=("wfb", "enc", "size"))
    for (kind, fmt, v), m in zip(cases, mres):
        chk.count("gaps marked by NaN in the first component only")
        chk.note_case(("partial gaps", kind, fmt, v), True)
        case = {"kind": kind, "fmt": fmt, "v": v, "how": "missing frames carry NaN in their first component and numbers in the others"}
        what = "%s fmt=%d, gaps marked by NaN in the first component only" % (kind, fmt)
        blocks.PARTIAL_GAPS = True
        try:
            i = impl_roundtrip(kind, fmt, v)
        finally:
            blocks.PARTIAL_GAPS = False
        if "build_err" in i or i.get("enc") is None:
            chk.violation("%s: cannot be built / encoded: %s" % (what, i.get("build_err") or i.get("enc_exc")), case, True)
        elif pid == "C02":
            if not (i["nbytes"] == len(i["enc"]) == i.get("consumed")):
                chk.violation("%s: nBytes=%r, bytes written=%d, bytes consumed=%r" % (what, i["nbytes"], len(i["enc"]), i.get("consumed")), case, True)
        elif pid == "C06":
            if i["enc"] != m["enc"]:
                chk.violation("%s: bytes written differ from the layout-driven encoder" % what, case, True)
        elif i.get("dec") != v:
            chk.violation("%s: decode(encode(b)) differs from b at %s" % (what, fdiff(i.get("dec"), v) if i.get("dec") else i.get("dec_exc")), case, True)
        elif pid == "C05" and i["enc"] != m["enc"]:
            chk.violation("%s: the stored runs / samples differ from Chunks.v's" % what, dict(case, correspondence="enc"), False)
        if chk.n_found() >= 3:
            return


# ------------------------------------------------------------------ layout-conformant but not canonical
def rewrite_segments(kind, fmt, v, raw, how):
    """the same block with every track's segment table rewritten — still conformant to the layout (which says nothing
    about the order or the maximality of the runs), as another writer might produce it:
    how = "reversed" (later pieces listed, and stored, first) | "rotated" | "split" (every run of >= 2 frames as two
    adjacent runs).  Pure byte surgery with struct; returns the new bytes."""
    from harness import c05
    off = c05.HDR[kind](fmt, v)
    ncomp = c05.RL_KINDS[kind]
    out = bytearray(raw[:off])
    for _ in c05.tracks_of(kind, v):
        lab = b""
        if kind != "PD":
            lab = raw[off:off + 256]
            off += 256
        n, segs, off2 = seg_table_from_bytes(kind, raw, off)
        pad = raw[off + 4:off + 8]
        runs, p = [], off2
        for s0, cnt in segs:
            runs.append((s0, cnt, raw[p:p + cnt * 4 * ncomp]))
            p += cnt * 4 * ncomp
        if how == "reversed":
            runs = runs[::-1]
        elif how == "rotated":
            runs = runs[1:] + runs[:1]
        elif how == "split":
            new = []
            for s0, cnt, d in runs:
                if cnt >= 2:
                    k = cnt // 2
                    new += [(s0, k, d[:k * 4 * ncomp]), (s0 + k, cnt - k, d[k * 4 * ncomp:])]
                else:
                    new.append((s0, cnt, d))
            runs = new
        out += lab + struct.pack("<i", len(runs)) + pad + b"".join(struct.pack("<ii", a, c) for a, c, _ in runs) + b"".join(d for _, _, d in runs)
        off = p
    out += raw[off:]
    return bytes(out)

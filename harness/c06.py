"""C06 — bytes follow the fixed TDF layout: exact bytes against the layout-driven model encoder,
independently (model-) encoded bytes decoded by the library, the BTS capture explained byte for byte."""
import json
import os

from harness import blocks, codec, common


def check_cases(chk, cases):
    mres = codec.model_eval(cases, want=("wfb", "enc"))
    mj = codec.model_encj(cases, 37, 11)          # an independent writer that leaves junk in don't-care bytes
    for (kind, fmt, v), m, bj in zip(cases, mres, mj):
        case = {"kind": kind, "fmt": fmt, "v": v}
        if not m["wfb"]:
            raise RuntimeError("generator produced an invalid block: " + blocks.describe(kind, fmt, v))
        chk.note_case((kind, fmt, v), blocks.nontrivial(kind, v))
        try:
            o = blocks.build(kind, fmt, v)
            b = blocks.impl_write(o)
        except Exception as e:
            chk.violation("%s: valid block cannot be written: %s" % (kind, common.exc_info(e)), case, True)
            continue
        if b != m["enc"]:
            k = next((i for i, (x, y) in enumerate(zip(b, m["enc"])) if x != y), min(len(b), len(m["enc"])))
            chk.violation("%s fmt=%d: bytes written differ from the layout-driven encoder at offset %d "
                          "(%d vs %d bytes; library %s, layout %s)" %
                          (kind, fmt, k, len(b), len(m["enc"]), b[k:k + 8].hex(), m["enc"][k:k + 8].hex()), case, True)
            continue
        # conversely: conformant bytes from an independent encoder (with junk) decode to exactly v
        r = codec.impl_decode(kind, fmt, bj)
        if r.get("dec") is None:
            chk.violation("%s fmt=%d: layout-conformant bytes (junk in reserved positions) are rejected: %s" %
                          (kind, fmt, r.get("dec_exc")), dict(case, junk=[37, 11]), True)
        elif r["dec"] != v or r["consumed"] != len(bj):
            chk.violation("%s fmt=%d: layout-conformant bytes decode differently: %s (consumed %d of %d)" %
                          (kind, fmt, codec.fdiff(r["dec"], v), r["consumed"], len(bj)), dict(case, junk=[37, 11]), True)


def check_noncanonical(chk):
    """conformant bytes another writer might produce: segment tables that are not sorted by start frame, or whose runs
    are not maximal.  The library must decode exactly what the layout-driven decoder (Fmt.dec over Blocks.v) extracts
    from the same bytes, consuming the same number of bytes."""
    from harness import c05
    rng = common.rng_for(chk.seed, "C06noncanon")
    base = []
    for i in range(60 if chk.tier == "quick" else 600):
        kind = list(c05.RL_KINDS)[i % 4]
        n = rng.choice((4, 7, 12, 30))
        base.append(c05.one_track_block(kind, rng, blocks.rmask(rng, n), ntracks=rng.choice((1, 2))))
    encs = codec.model_eval(base, want=("enc",))
    items, meta = [], []
    for (kind, fmt, v), m in zip(base, encs):
        for how in ("reversed", "rotated", "split"):
            b2 = codec.rewrite_segments(kind, fmt, v, m["enc"], how)
            if b2 != m["enc"]:
                items.append((kind, fmt, b2))
                meta.append((kind, fmt, v, how))
    md = codec.model_dec_bytes(items)
    for (kind, fmt, b2), (k2, f2, v, how), m in zip(items, meta, md):
        chk.note_case(("non-canonical", kind, how, repr(v)[:300]), True)
        chk.count("non-canonical segment table: " + how)
        what = {"kind": kind, "fmt": fmt, "canonical_value": v, "segment_tables": how, "bytes_hex": b2.hex() if len(b2) < 6000 else None}
        if m is None:
            chk.count("non-canonical: the layout-driven decoder rejects it (skipped)")
            continue
        r = codec.impl_decode(kind, fmt, b2)
        if r.get("dec") is None:
            chk.violation("%s: layout-conformant bytes with %s segment tables are rejected: %s" % (kind, how, r.get("dec_exc")), what, True)
        elif r["dec"] != m[0] or r["consumed"] != m[1]:
            chk.violation("%s: layout-conformant bytes with %s segment tables decode differently from the layout-driven decoder: %s "
                          "(consumed %d, layout %d)" % (kind, how, codec.fdiff(r["dec"], m[0]), r["consumed"], m[1]), what, True)


def check_capture(chk):
    if not os.path.exists(common.CAPTURE):
        chk.count("capture missing")
        return
    caps = codec.capture_blocks()
    md = codec.model_dec_bytes([(k, f, b) for k, t, f, b in caps])
    todo = []
    for (kind, ty, fmt, b), m in zip(caps, md):
        chk.note_case(("capture", kind, fmt, len(b)), True)
        chk.count("capture:" + kind)
        what = {"capture_block": kind, "format": fmt, "size": len(b)}
        r = codec.impl_decode(kind, fmt, b)
        if m is None:
            chk.violation("model cannot decode the capture's %s block" % kind, dict(what, correspondence="Blocks.v"), False)
            continue
        if r.get("dec") is None:
            chk.violation("capture %s block does not decode: %s" % (kind, r.get("dec_exc")), what, True)
            continue
        if r["dec"] != m[0]:
            chk.violation("capture %s: library decodes a different value than the layout-driven decoder at %s" %
                          (kind, codec.fdiff(r["dec"], m[0])), what, True)
            continue
        if r["consumed"] != len(b) or m[1] != len(b):
            chk.violation("capture %s: %d bytes in the jump table, library consumed %d, layout %d" %
                          (kind, len(b), r["consumed"], m[1]), what, True)
            continue
        todo.append((kind, fmt, m[0], b))
    # every byte accounted for: the layout-driven encoding of the decoded value equals the capture
    # everywhere except at the don't-care positions
    cases = [(k, f, v) for k, f, v, b in todo]
    views = codec.model_capture_views(cases)
    for (kind, fmt, v, b), (enc0, dc) in zip(todo, views):
        what = {"capture_block": kind, "format": fmt, "size": len(b)}
        e = {"enc": enc0}
        if e["enc"] is None or len(e["enc"]) != len(b):
            chk.violation("capture %s: re-encoding has a different size" % kind, what, False)
            continue
        dcs = set(dc)
        bad = [i for i in range(len(b)) if b[i] != e["enc"][i] and i not in dcs]
        chk.extra.setdefault("capture_dont_care_bytes_nonzero", {})[kind] = \
            sum(1 for i in dcs if b[i] != 0)
        if bad:
            chk.violation("capture %s: %d bytes are not explained by the layout (first at %d)" % (kind, len(bad), bad[0]),
                          dict(what, correspondence="Blocks.v enc vs capture bytes"), False)
            continue
        # and the library's own re-encoding of its decode equals the layout-driven one
        r = codec.impl_decode(kind, fmt, b)
        if r.get("reenc") != e["enc"]:
            chk.violation("capture %s: library re-encoding differs from the layout-driven encoder" % kind, what, True)


def check_container_bytes(chk):
    """header and table entries of files the library writes (needs the container model)"""
    try:
        from harness import container
    except Exception:
        return
    container.check_layout_bytes(chk)


def check_scalar_types(chk):
    """the field codecs of tdfTypes through BOTH of their interfaces — bytes (read / write) and streams (bread / bwrite):
    little-endian, fields consecutive, exactly the type's width consumed, the two interfaces agree; the viewport's 16
    bytes are origin then size; a date is a signed 32-bit second count"""
    import io
    import struct
    import numpy as np
    import basictdf.tdfTypes as T
    rng = common.rng_for(chk.seed, "C06-types")
    scal = {"i32": "<i", "u32": "<I", "i16": "<h", "u16": "<H", "f32": "<f", "f64": "<d"}
    vecs = {"VEC3F": ("<3f", (3,)), "VEC3D": ("<3d", (3,)), "VEC2I": ("<2i", (2,)), "VEC2F": ("<2f", (2,)), "VEC2D": ("<2d", (2,)),
            "MAT3X3F": ("<9f", (3, 3)), "MAT3X3D": ("<9d", (3, 3)), "Volume": ("<3f", (3,))}
    for rep in range(20 if chk.tier == "quick" else 300):
        for name, fmt in list(scal.items()) + [(k, v[0]) for k, v in vecs.items()]:
            ty = getattr(T, name)
            n = struct.calcsize(fmt)
            raw = bytes(rng.getrandbits(8) for _ in range(n))
            if "f" in fmt or "d" in fmt:            # compare floats through their bit patterns only
                raw = struct.pack(fmt, *[float(rng.randrange(-1000, 1000)) / 8 for _ in range(len(struct.unpack(fmt, raw)))])
            want = list(struct.unpack(fmt, raw))
            chk.note_case(("type", name, raw), True)
            chk.count("field codec through bytes and stream interfaces")
            what = {"type": name, "bytes": list(raw)}
            try:
                a = ty.read(raw)
                st = io.BytesIO(raw + b"\xAA\xBB\xCC")
                b = ty.bread(st)
                pos = st.tell()
                flat = lambda x: [float(v) if "f" in fmt or "d" in fmt else int(v) for v in np.asarray(x).reshape(-1)]
                back = ty.write(np.asarray(b))
                out = io.BytesIO()
                ty.bwrite(out, np.asarray(b))
                found = None
                if flat(a) != want or flat(b) != want:
                    found = "%s: bytes %r read as %r (bytes interface) / %r (stream interface), little-endian they are %r" % (name, raw, flat(a), flat(b), want)
                elif pos != n:
                    found = "%s.bread consumed %d bytes, the type is %d wide" % (name, pos, n)
                elif back != raw or out.getvalue() != raw:
                    found = "%s: writing the value read does not give the bytes back (write %r, bwrite %r)" % (name, back, out.getvalue())
                elif name in vecs and tuple(np.asarray(b).shape) != vecs[name][1]:
                    found = "%s.bread returns shape %r" % (name, np.asarray(b).shape)
            except Exception as e:
                found = "%s: %s" % (name, common.exc_info(e))
            if found:
                chk.violation("C06 field codec " + found, what, True)
                return
        # viewport and date
        nums = [rng.randrange(-2 ** 31, 2 ** 31) for _ in range(4)]
        raw = struct.pack("<4i", *nums)
        try:
            v1 = T.CameraViewPort.read(raw)
            st = io.BytesIO(raw + b"\xAA")
            v2 = T.CameraViewPort.bread(st)
            got = [[int(x) for x in np.asarray(v.origin).reshape(-1)] + [int(x) for x in np.asarray(v.size).reshape(-1)] for v in (v1, v2)]
            out = io.BytesIO()
            v2.bwrite(out)
            found = None
            if got[0] != nums or got[1] != nums:
                found = "CameraViewPort: bytes of %r read as %r (bytes interface) / %r (stream interface)" % (nums, got[0], got[1])
            elif st.tell() != 16 or v1.write() != raw or out.getvalue() != raw:
                found = "CameraViewPort: consumed %d bytes; write gives %r, bwrite %r for %r" % (st.tell(), v1.write(), out.getvalue(), raw)
        except Exception as e:
            found = "CameraViewPort: " + common.exc_info(e)
        chk.note_case(("viewport", tuple(nums)), True)
        if found:
            chk.violation("C06 field codec " + found, {"type": "CameraViewPort", "numbers": nums}, True)
            return
        sec = rng.choice((0, 1, -1, 2 ** 31 - 1, -2 ** 31, rng.randrange(-2 ** 31, 2 ** 31)))
        raw = struct.pack("<i", sec)
        try:
            d1 = T.BTSDate.read(raw)
            st = io.BytesIO(raw + b"\xAA")
            d2 = T.BTSDate.bread(st)
            out = io.BytesIO()
            T.BTSDate.bwrite(out, d2)
            found = None
            if int(d1.timestamp()) != sec or int(d2.timestamp()) != sec:
                found = "BTSDate: the bytes of %d read as %d (bytes) / %d (stream)" % (sec, int(d1.timestamp()), int(d2.timestamp()))
            elif st.tell() != 4 or T.BTSDate.write(d1) != raw or out.getvalue() != raw:
                found = "BTSDate: consumed %d bytes; write gives %r, bwrite %r for %r" % (st.tell(), T.BTSDate.write(d1), out.getvalue(), raw)
        except Exception as e:
            found = "BTSDate %d: %s" % (sec, common.exc_info(e))
        chk.note_case(("date", sec), True)
        if found:
            chk.violation("C06 field codec " + found, {"type": "BTSDate", "seconds": sec}, True)
            return


def run(chk):
    chk.rule = ("valid blocks of all nine types (as C01): exact bytes of _write against the layout-driven encoder "
                "(Fmt.enc over Blocks.v), and bytes produced by the free encoder with junk (37*off+11 mod 256) in every "
                "don't-care position fed to _build; conformant bytes whose segment tables are not sorted / not maximal (reversed, rotated, split runs) against the layout-driven decoder; the 8 BTS capture blocks: decoded fields equal the layout-driven "
                "decoder's, consumed = jump-table size, and every byte outside the don't-care positions reproduced by "
                "re-encoding; file header / table entries against Entry.v; also: blocks built, used (sized / encoded / compared / printed), then edited IN PLACE to another content of the same shape and used again; blocks built from arrays with the same values but another memory layout (column-major, strided, reversed, big-endian, read-only, unaligned); the field codecs of tdfTypes (six scalar types, eight vector / matrix types, viewport, date) through their bytes and their stream interface against struct's little-endian reading; non-trivial = >=1 item and (gap or >=2 items)")
    corpus = codec.load_corpus("C06")
    check_cases(chk, corpus)
    n = 1200 if chk.tier == "quick" else 20000
    check_cases(chk, codec.gen_cases(chk, n, "C06"))
    check_cases(chk, codec.large_count_cases(chk))
    check_cases(chk, codec.threshold_cases(chk))
    codec.check_inplace(chk, "C06", 200 if chk.tier == "quick" else 3000)
    codec.check_layouts(chk, "C06", 240 if chk.tier == "quick" else 3000)
    codec.check_trimmed(chk, "C06", 96 if chk.tier == "quick" else 1200)
    codec.check_partial_gaps(chk, "C06", 45 if chk.tier == "quick" else 600)
    codec.check_stray_attributes(chk, "C06", 30 if chk.tier == "quick" else 400)
    codec.check_reassigned_arrays(chk, "C06", 60 if chk.tier == "quick" else 800)
    check_noncanonical(chk)
    check_capture(chk)
    check_container_bytes(chk)
    check_scalar_types(chk)


def replay(chk, path):
    d = json.load(open(path))["replay"]
    if "kind" in d:
        check_cases(chk, [(d["kind"], d["fmt"], d["v"])])
    else:
        check_capture(chk)
        check_container_bytes(chk)
    chk.rule = "replay of " + path

"""Shared helpers for the object-layer properties (C14-C16, C18-C20): small factories for items and blocks of
every class, with stable content ids."""
import io

import numpy as np

from harness import blocks, common
from harness.common import err_code

LABEL_POOL = ["c7", "C7", "c7 ", " c7", "", "heel", "heel", "Heel", "é€", "toe off", "x" * 255, "c7\t"]


def cps(s):
    return [ord(c) for c in s]


def vol():
    return np.array([1.0, 2.0, 3.0], dtype="<f4")


def rot():
    return np.eye(3, dtype="<f4")


class Named(str):
    """a Python string that is not a plain str: a str subclass whose str() is something else than its text — what a member of
    `class Marker(str, Enum)` is.  As a label or a key it IS its text."""

    def __str__(self):
        return "Marker." + str.__str__(self).upper()

    __repr__ = __str__


def make_item(kind, label, n, salt=0):
    """an item of the block kind's item class with n frames / samples and content determined by (label, n, salt)"""
    base = (abs(hash((label, n, salt))) % 1000) / 10.0
    if kind == "D3":
        from basictdf.tdfData3D import MarkerTrack
        return MarkerTrack(label, (np.arange(n * 3, dtype="<f4").reshape(n, 3) + base))
    if kind == "FT":
        from basictdf.tdfForce3D import ForceTorqueTrack
        a = np.arange(n * 3, dtype="<f4").reshape(n, 3) + base
        return ForceTorqueTrack(label, a.copy(), a + 1, a + 2)
    if kind == "EM":
        from basictdf.tdfEMG import EMGTrack
        return EMGTrack(label, np.arange(n, dtype="<f4") + base)
    if kind == "EV":
        from basictdf.tdfEvents import Event, EventsDataType
        return Event(label, np.arange(n, dtype="<f4") + base, EventsDataType.eventSequence)
    raise KeyError(kind)


def make_block(kind, nframes):
    if kind == "D3":
        from basictdf.tdfData3D import Data3D
        return Data3D(100, nframes, vol(), rot(), vol())
    if kind == "FT":
        from basictdf.tdfForce3D import ForceTorque3D
        return ForceTorque3D(100, nframes, vol(), rot(), vol())
    if kind == "EM":
        from basictdf.tdfEMG import EMG
        return EMG(1000, nframes)
    if kind == "EV":
        from basictdf.tdfEvents import TemporalEventsData
        return TemporalEventsData()
    raise KeyError(kind)


def items_of(kind, b):
    return {"D3": lambda: b._tracks, "FT": lambda: b._tracks, "EM": lambda: b._signals, "EV": lambda: b.events}[kind]()


def install(kind, b, items):
    if kind in ("D3", "FT"):
        for t in items:
            b.add_track(t)
    elif kind == "EM":
        for t in items:
            b.addSignal(t)
    else:
        b.events = list(items)


def encoded(b):
    f = io.BytesIO()
    b._write(f)
    return f.getvalue()


def encoded_item(kind, it):
    """the numbers an item holds, as bytes (to tell two items' data apart)"""
    attrs = {"D3": ("data",), "EM": ("data",), "FT": ("application_point", "force", "torque"), "EV": ("values",)}[kind]
    return b"".join(np.ascontiguousarray(np.asarray(getattr(it, a), dtype="<f4")).tobytes() for a in attrs)


def exc_name(e):
    for k in type(e).__mro__:
        if k.__name__ in ("KeyError", "IndexError", "TypeError", "ValueError", "AttributeError", "NotImplementedError"):
            return k.__name__
    return type(e).__name__

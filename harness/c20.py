"""C20 — separately created blocks share no state.
Interleavings of construction (with / without an item list), decoding, item insertion / removal, in-place edits,
list assignment and encoding over two or three instances of each of the seven block classes, against Heap.v (op 44)."""
import hashlib
import io
import json

import numpy as np

from harness import api, common

KINDS = ["D3", "FT", "EM", "EV", "PC", "PD", "OS"]
NF = 3


def nan_track(kind, label):
    """an item that is wholly missing (zero segments when encoded)"""
    if kind == "D3":
        from basictdf.tdfData3D import MarkerTrack
        return MarkerTrack(label, np.full((NF, 3), np.nan, dtype="<f4"))
    if kind == "FT":
        from basictdf.tdfForce3D import ForceTorqueTrack
        a = np.full((NF, 3), np.nan, dtype="<f4")
        return ForceTorqueTrack(label, a.copy(), a.copy(), a.copy())
    if kind == "EM":
        from basictdf.tdfEMG import EMGTrack
        return EMGTrack(label, np.full((NF,), np.nan, dtype="<f4"))
    if kind == "PD":
        from basictdf.tdfForcePlatformsData import ForcePlatformData
        return ForcePlatformData(np.full((NF, 2), np.nan, dtype="<f4"), np.full((NF, 3), np.nan, dtype="<f4"),
                                 np.full((NF,), np.nan, dtype="<f4"))
    return None


class Adapter:
    def __init__(self, kind, rng):
        self.kind, self.rng, self.n = kind, rng, 0

    def item(self):
        self.n += 1
        k, s = self.kind, float(self.n)
        if k in ("D3", "FT", "EM", "EV"):
            return api.make_item(k, "i%d" % self.n, NF, self.n)
        if k == "PC":
            from basictdf.tdfForcePlatformsCalibration import ForcePlatformInfo
            return ForcePlatformInfo("p%d" % self.n, np.array([s, 2.0], dtype="<f4"), np.zeros((4, 3), dtype="<f4") + s)
        if k == "PD":
            from basictdf.tdfForcePlatformsData import ForcePlatformData
            return ForcePlatformData(np.zeros((NF, 2), dtype="<f4") + s, np.ones((NF, 3), dtype="<f4") + s, np.zeros((NF,), dtype="<f4") + s)
        from basictdf.tdfOpticalSystem import OpticalChannelData
        from basictdf.tdfTypes import CameraViewPort
        return OpticalChannelData(self.n, "lens", "type", "cam%d" % self.n,
                                  CameraViewPort(np.array([0, self.n], dtype="<i4"), np.array([640, 480], dtype="<i4")))

    def new(self, given=None):
        k = self.kind
        if k in ("D3", "FT", "EM", "EV"):
            return api.make_block(k, NF)
        if k == "PC":
            from basictdf.tdfForcePlatformsCalibration import ForcePlatformsCalibrationDataBlock
            return ForcePlatformsCalibrationDataBlock(platforms=given) if given is not None else ForcePlatformsCalibrationDataBlock()
        if k == "PD":
            from basictdf.tdfForcePlatformsData import ForcePlatformsDataBlock
            return ForcePlatformsDataBlock(0.0, 100, NF)
        from basictdf.tdfOpticalSystem import OpticalSetupBlock
        return OpticalSetupBlock(channels=given) if given is not None else OpticalSetupBlock()

    def items(self, b):
        k = self.kind
        if k in ("D3", "FT"):
            return b.tracks
        if k == "EM":
            return b._signals
        if k == "EV":
            return b.events
        if k in ("PC", "PD"):
            return b._platforms
        return b.channels

    def add(self, b, it=None):
        it = it if it is not None else self.item()
        k = self.kind
        if k in ("D3", "FT"):
            b.add_track(it)
        elif k == "EM":
            b.addSignal(it)
        elif k == "EV":
            b.events.append(it)
        elif k in ("PC", "PD"):
            b.add_platform(it)
        else:
            b.channels.append(it)

    def remove(self, b, i):
        k = self.kind
        if k == "EM":
            b.removeSignal(b._signals[i].label)
        elif k == "PC":
            b.remove_platform(i)
        elif k == "PD":
            del b._platforms[i]
            del b._plat_map[i]
        else:
            del self.items(b)[i]

    def edit(self, it):
        k = self.kind
        if k in ("D3", "EM"):
            it.data.flat[0] = 7.5 if np.isnan(it.data.flat[0]) else it.data.flat[0] + 1.0
        elif k in ("FT", "PD"):
            it.force.flat[0] = 7.5 if np.isnan(it.force.flat[0]) else it.force.flat[0] + 1.0
            if np.isnan(it.application_point.flat[0]):
                it.application_point[...] = 1.0
                it.force[...] = 7.5
                it.torque[...] = 2.0
        elif k == "EV":
            it.values[0] += 1.0
        elif k == "PC":
            it.size[0] += 1.0
        else:
            try:
                it.camera_viewport.origin[0] += 1
            except ValueError:
                # decoded viewport vectors are read-only arrays: the client edits by assigning a new vector to the
                # viewport object's attribute instead
                vp = it.camera_viewport
                vp.origin = np.array([int(vp.origin[0]) + 1, int(vp.origin[1])], dtype="<i4")
                vp.size = np.array([int(vp.size[0]) + 3, int(vp.size[1])], dtype="<i4")

    def template(self, kcount):
        """bytes of a block with kcount items (the second one wholly missing where the kind has gap coding)"""
        b = self.new()
        for j in range(kcount):
            nt = nan_track(self.kind, "gap") if j == 1 else None
            self.add(b, nt)
        return api.encoded(b), b.format.value

    def decode(self, raw, fmt):
        return type(self.new())._build(io.BytesIO(raw), fmt)


def sha(b):
    try:
        return hashlib.sha1(api.encoded(b)).hexdigest()
    except Exception as e:
        return "unwritable " + type(e).__name__


def run_sequence(chk, kind, rng, idx, script=None):
    ad = Adapter(kind, rng)
    nh = rng.choice([2, 3]) if script is None else 3
    blocks, caller_lists = {}, {}
    mops, log, obs = [], [], []
    templates = {}
    can_assign = kind in ("D3", "FT")
    can_given = kind in ("PC", "OS")
    pending_list = None
    for step in range(rng.randrange(3, 9) if script is None else len(script)):
        live = sorted(blocks)
        free = [h for h in range(1, nh + 1) if h not in blocks]
        choices = []
        if free:
            choices += ["new", "new", "decode", "decode"] + (["new_given"] if can_given else [])
        if live:
            choices += ["add", "add", "remove", "edit", "edit", "encode"] + (["assign"] if can_assign and len(live) >= 2 else [])
            if kind == "D3":
                choices += ["link", "link"]
        sc = script[step] if script is not None else None
        op = rng.choice(choices) if sc is None else sc[0]
        if sc is not None and ((op in ("new", "decode", "new_given") and not free) or (op == "assign" and not can_assign)
                               or (op == "new_given" and not can_given) or (op == "link" and kind != "D3")):
            continue
        before = {h: ([id(x) for x in ad.items(b)], sha(b)) for h, b in blocks.items()}
        target, edited = None, None
        if op == "new":
            h = free[0]
            blocks[h] = ad.new()
            mops.append([2, h, []])
            target = h
            if len(ad.items(blocks[h])) != 0:
                return {"found": "%s constructed without items starts with %d items" % (kind, len(ad.items(blocks[h]))), "log": log + ["new(%d)" % h]}
        elif op == "new_given":
            h = free[0]
            k = rng.randrange(0, 3)
            lst = [ad.item() for _ in range(k)]
            mops.append([1, k])
            mops.append([2, h, ["LID"]])           # patched with the allocator value below
            blocks[h] = ad.new(given=lst)
            caller_lists[h] = lst
            target = h
            log.append("caller list of %d" % k)
            obs.append(None)
        elif op == "decode":
            h = free[0]
            k = rng.choice([0, 1, 2, 2]) if sc is None else sc[1]
            if k not in templates:
                templates[k] = ad.template(k)
            blocks[h] = ad.decode(*templates[k])
            mops.append([3, h, k])
            target = h
        elif op == "add":
            h = rng.choice(live) if sc is None else sc[1]
            if h not in blocks:
                continue
            ad.add(blocks[h])
            mops.append([4, h])
            target = h
        elif op == "remove":
            h = rng.choice(live) if sc is None else sc[1]
            if h not in blocks:
                continue
            n = len(ad.items(blocks[h]))
            if n == 0 or (sc is not None and sc[2] >= n):
                continue
            i = rng.randrange(n) if sc is None else sc[2]
            ad.remove(blocks[h], i)
            mops.append([5, h, i])
            target = h
        elif op == "edit":
            h = rng.choice(live) if sc is None else sc[1]
            if h not in blocks:
                continue
            its = ad.items(blocks[h])
            if not its or (sc is not None and sc[2] >= len(its)):
                continue
            i = rng.randrange(len(its)) if sc is None else sc[2]
            if kind == "EV" and len(its[i].values) == 0:
                continue
            edited = its[i]
            try:
                ad.edit(edited)
            except ValueError:          # a decoded array that numpy marks read-only: no edit is possible at all
                edited = None
                continue
            mops.append([6, h, i])
            target = h
        elif op == "link":
            # marker links: an optional attribute of 3D blocks that callers fill in place when it exists
            h = rng.choice(live) if sc is None else sc[1]
            if h not in blocks or kind != "D3":
                continue
            b = blocks[h]
            try:
                b.links.append((0, 1))
            except AttributeError:
                b.links = [(0, 1)]
            mops.append([8, h])            # not an item: Heap.v sees an encode-like no-op on the item lists
            target = h
        elif op == "assign":
            if len(live) < 2:
                continue
            h, h2 = rng.sample(live, 2) if sc is None else (sc[1], sc[2])
            blocks[h].tracks = blocks[h2].tracks
            mops.append([7, h, h2])
            target = h
        else:
            h = rng.choice(live) if sc is None else sc[1]
            if h not in blocks:
                continue
            sha(blocks[h])
            mops.append([8, h])
            target = h
        log.append("%s(%s)" % (op, target))
        after = {h: ([id(x) for x in ad.items(b)], sha(b)) for h, b in blocks.items()}
        # ---- oracle: nothing but the target changes, unless the caller himself put the edited object there
        for h in before:
            if h == target:
                continue
            if before[h] != after[h]:
                if edited is not None and id(edited) in before[h][0]:
                    continue
                return {"found": "%s: %s on instance %s changed instance %s (%s)" %
                                 (kind, op, target, h, "items" if before[h][0] != after[h][0] else "encoding"), "log": list(log)}
        obs.append({h: after[h] for h in after})
    return {"mops": mops, "obs": obs, "log": log, "nh": nh}


def alloc_trace(mops):
    out, nxt = [], 0
    for o in mops:
        out.append(nxt)
        if o[0] == 1:
            nxt += o[1] + 1
        elif o[0] in (2, 4, 7):              # a constructor allocates the block's own list, with or without a given one
            nxt += 1
        elif o[0] == 3:
            nxt += o[2] + 1
    return out


def canon(seq_of_lists):
    """rename ids by first appearance"""
    m = {}
    out = []
    for l in seq_of_lists:
        out.append([m.setdefault(x, len(m)) for x in l])
    return out


def compare_with_model(chk, kind, r):
    mops, obs, nh = r["mops"], r["obs"], r["nh"]
    handles = list(range(1, nh + 1))
    # the caller-list id is the allocator value at the time of HMkList: replay Heap.v's allocator
    nxt, last_list, patched = 0, None, []
    for o in mops:
        if o[0] == 1:
            last_list, nxt = nxt, nxt + o[1] + 1
            patched.append(o)
        elif o[0] == 2 and o[2] == ["LID"]:
            patched.append([2, o[1], [last_list]])
            nxt += 1
        else:
            if o[0] == 2 or o[0] == 4 or o[0] == 7:
                nxt += 1
            elif o[0] == 3:
                nxt += o[2] + 1
            patched.append(o)
    res = common.run_model([(44, [patched, handles])])[0][1]
    if any(step[0] != exp for step, exp in zip(res, alloc_trace(mops))):
        return "the harness's replay of the allocator disagrees with Heap.v"
    prev_m = {h: None for h in handles}
    prev_i = {h: None for h in handles}
    for j, (step, ob) in enumerate(zip(res, obs)):
        if ob is None:
            continue
        conts = step[1]
        model_lists, impl_lists = [], []
        for h, c in zip(handles, conts):
            if h in ob:
                if not c:
                    return "instance %d exists in the implementation but not in Heap.v after %r" % (h, r["log"][:j + 1])
                model_lists.append([p[0] for p in c[0]])
                impl_lists.append(ob[h][0])
            elif c:
                return "instance %d exists in Heap.v only" % h
        if canon(model_lists) != canon(impl_lists):
            return "item identities differ after %r: implementation %r, Heap.v %r" % (r["log"][:j + 1], canon(impl_lists), canon(model_lists))
        for h, c in zip(handles, conts):
            if h not in ob:
                continue
            mchanged = prev_m[h] is not None and prev_m[h] != c
            ichanged = prev_i[h] is not None and prev_i[h] != ob[h]
            if prev_m[h] is not None and mchanged != ichanged and not r["log"][j].startswith("assign") \
                    and not (r["log"][j] == "link(%s)" % h):
                return "instance %d %s in the implementation but %s in Heap.v at %s" % (
                    h, "changed" if ichanged else "did not change", "changed" if mchanged else "did not", r["log"][j])
            prev_m[h], prev_i[h] = c, ob[h]
    return None


def run(chk):
    rng = common.rng_for(chk.seed, "C20")
    n = 700 if chk.tier == "quick" else 10000
    chk.rule = ("interleavings of 3-8 operations over two or three instances of each of the seven block classes: constructor "
                "without items, constructor given a caller's list (platform calibration, optical setup), decode of the same bytes "
                "(0-2 items, one of them wholly missing), add, remove, in-place edit of an item's arrays, `a.tracks = b.tracks`, "
                "encode; after EVERY operation: identity of every instance's items and the sha of its encoding; oracle: only the "
                "target instance changes (an edited object the caller himself placed in two blocks excepted), a block built "
                "without items is empty; control experiments (the same history on A with and without a block B that receives A's own item objects under other channels, with direct edits of A's public item list); plus one caller-side LIST of items given to two blocks through every bulk entry point (list setters, add_platforms, list-taking constructors), then each block and the list edited in turn; plus pairs of events / tracks built from ONE caller-side source of numbers (list, tuple, arrays of other dtypes, array.array, memoryview, __array__ provider); non-trivial = >= 2 instances exist at some point")
    scripts = []
    creates = [("new",), ("decode", 0), ("decode", 1), ("decode", 2), ("new_given",)]
    edits = [("add", 1), ("add", 2), ("remove", 1, 0), ("remove", 2, 1), ("edit", 1, 0), ("edit", 1, 1), ("edit", 2, 0),
             ("edit", 2, 1), ("assign", 1, 2), ("assign", 2, 1), ("link", 1), ("link", 2)]
    for kind in KINDS:
        for c1 in creates:
            for c2 in creates:
                for e1 in edits:
                    for e2 in ((("encode", 1),) if chk.tier == "quick" else edits):
                        scripts.append((kind, [c1, c2, ("add", 2) if c2[0] in ("new", "new_given") else ("encode", 2), e1, e2, ("new",)]))
    chk.extra["systematic_interleavings"] = len(scripts)
    todo = [(k, sc) for k, sc in scripts] + [(KINDS[i % len(KINDS)], None) for i in range(n)]
    for i, (kind, script) in enumerate(todo):
        r = run_sequence(chk, kind, rng, i, script)
        chk.note_case((kind, i, tuple(r.get("log", []))), len(r.get("log", [])) >= 2)
        chk.count(kind)
        for l in r.get("log", []):
            chk.count("op " + l.split("(")[0])
        what = {"kind": kind, "ops": r.get("log")}
        if "found" in r:
            chk.violation("C20 %s [%r]" % (r["found"], r["log"]), what, True)
            if chk.n_found() >= 3:
                return
            continue
        d = compare_with_model(chk, kind, r)
        if d:
            chk.violation("C20 %s: correspondence broken: %s" % (kind, d), dict(what, correspondence="coq/Model/Heap.v h_step"), False)
    container_fetches(chk, rng)
    long_recording_fetches(chk, rng)
    shared_sources(chk, rng)
    shared_item_control(chk, rng)
    callers_lists(chk, rng)
    block_given_as_items(chk, rng)


def container_fetches(chk, rng):
    """blocks fetched twice from one open file are separate objects: editing one never shows in the other"""
    import os
    from basictdf import Tdf
    from basictdf.tdfBlock import BlockType
    from harness import container
    work = os.path.join(chk.work, "c20files")
    os.makedirs(work, exist_ok=True)
    GET = {"D3": ("data3D", BlockType.data3D), "EV": ("events", BlockType.temporalEventsData), "EM": ("emg", BlockType.electromyographicData),
           "FT": ("force_and_torque", BlockType.forceAndTorqueData), "PD": ("force_platforms_data", BlockType.forcePlatformsData)}
    for j in range(4 if chk.tier == "quick" else 40):
        p = os.path.join(work, "f%d.tdf" % j)
        if os.path.exists(p):
            os.unlink(p)
        kinds = rng.sample(list(GET), 3)
        with container.scripted_clock():
            container.Clock.now = container.T0
            Tdf.new(p)
            ads = {k: Adapter(k, rng) for k in kinds}
            with Tdf(p).allow_write() as f:
                for k in kinds:
                    b = ads[k].new()
                    for q in range(2):
                        ads[k].add(b, nan_track(k, "gap") if q == 1 and nan_track(k, "gap") is not None else None)
                    f.add_block(b)
        with Tdf(p) as f:
            for k in kinds:
                attr, bt = GET[k]
                ways = [lambda: f.get_block(bt), lambda: getattr(f, attr), lambda: f[bt],
                        lambda: next(b for b in f.blocks if getattr(b, "type", None) == bt)]
                for w1 in range(len(ways)):
                    w2 = (w1 + 1 + j) % len(ways)
                    first, second = ways[w1](), ways[w2]()
                    chk.note_case(("container fetch", k, w1, w2, j), True)
                    chk.count("container fetch pair")
                    if first is second:
                        chk.violation("C20 %s: two fetches of the block from one open file return the same object" % k,
                                      {"kind": k, "fetch": [w1, w2]}, True)
                        return
                    before = sha(second)
                    ad = ads[k]
                    items = ad.items(first)
                    try:
                        ad.edit(items[1] if len(items) > 1 else items[0])
                    except ValueError:
                        pass
                    ad.remove(first, 0)
                    if sha(second) != before or len(ad.items(second)) != 2:
                        chk.violation("C20 %s: editing a block fetched from an open file changed another fetch of the same block" % k,
                                      {"kind": k, "fetch": [w1, w2]}, True)
                        return


def long_recording_fetches(chk, rng):
    """the same for recordings of the length real captures have (300 000 gap-free samples per signal, about a megabyte each),
    fetched twice from a file on disk inside a read context AND inside a write-enabled one: each fetch has its own
    numbers — an in-place edit of one shows neither in the other, nor in a third fetch, nor in the file"""
    import hashlib
    import os
    import numpy as np
    from basictdf import Tdf
    from basictdf.tdfEMG import EMG, EMGTrack
    from basictdf.tdfData3D import Data3D, MarkerTrack
    from harness import container
    work = os.path.join(chk.work, "c20long")
    os.makedirs(work, exist_ok=True)
    n = 300000
    for kind in ("EM", "D3"):
        p = os.path.join(work, "long_%s.tdf" % kind)
        if os.path.exists(p):
            os.unlink(p)
        with container.scripted_clock():
            container.Clock.now = container.T0
            Tdf.new(p)
            if kind == "EM":
                b = EMG(1000, n)
                for lab in ("biceps", "triceps"):
                    b.addSignal(EMGTrack(lab, (np.arange(n, dtype="<f4") % 997) / 7))
            else:
                b = Data3D(100, n, np.ones(3, dtype="<f4"), np.eye(3, dtype="<f4"), np.zeros(3, dtype="<f4"))
                b.add_track(MarkerTrack("c7", (np.arange(3 * n, dtype="<f4").reshape(n, 3) % 911) / 3))
            with Tdf(p).allow_write() as f:
                f.add_block(b)
        attr = "emg" if kind == "EM" else "data3D"
        for mode in ("read context", "write-enabled context"):
            t = Tdf(p)
            ctx = t.allow_write() if mode.startswith("write") else t
            file_before = hashlib.sha1(open(p, "rb").read()).hexdigest()
            chk.note_case(("long recording fetched twice", kind, mode), True)
            chk.count("long recording fetched twice inside a %s" % mode)
            what = {"kind": kind, "samples": n, "context": mode}
            with ctx as f:
                first, second = getattr(f, attr), getattr(f, attr)
                before = sha(second)
                item = (first._signals if kind == "EM" else first._tracks)[0]
                try:
                    item.data[:5] = -1000.0
                    edited = True
                except ValueError:
                    edited = False          # a read-only array: no edit is possible at all
                third = getattr(f, attr)
                found = None
                if first is second:
                    found = "two fetches return the same object"
                elif edited and sha(second) != before:
                    found = "an in-place edit of one fetch shows in the other"
                elif edited and sha(third) != before:
                    found = "an in-place edit of one fetch shows in a later fetch"
            if found is None and hashlib.sha1(open(p, "rb").read()).hexdigest() != file_before:
                found = "an in-place edit of a fetched block changed the file"
            if found:
                chk.violation("C20 %s (%d gap-free samples, %s): %s" % (kind, n, mode, found), what, True)
                return


def shared_sources(chk, rng):
    """two items built by separate constructor calls from ONE caller-side source of numbers that is not itself a numpy
    array of the stored type (a list, a tuple, an array of another dtype, array.array, a memoryview, an object offering
    __array__ / the buffer protocol): each item owns its values — editing one changes neither the other nor the source"""
    import array
    from basictdf.tdfEvents import Event, EventsDataType
    from basictdf.tdfData3D import MarkerTrack
    from basictdf.tdfEMG import EMGTrack

    class Offers:                       # an object that hands out its own float32 buffer
        def __init__(self, a):
            self.a = a

        def __array__(self, dtype=None, copy=None):
            return self.a

        def __iter__(self):
            return iter(self.a)

        def __len__(self):
            return len(self.a)

    def sources(shape):
        n = int(np.prod(shape))
        base = [float(i + 1) for i in range(n)]
        nested = np.array(base).reshape(shape).tolist()
        f32 = np.array(base, dtype="<f4").reshape(shape)
        out = [("list", lambda: nested), ("tuple", lambda: tuple(map(tuple, nested)) if len(shape) > 1 else tuple(nested)),
               ("float64 array", lambda: np.array(base, dtype="<f8").reshape(shape)),
               ("big-endian float32 array", lambda: f32.astype(">f4")),
               ("int32 array", lambda: np.array(base, dtype="<i4").reshape(shape)),
               ("object offering __array__", lambda: Offers(f32.copy()))]
        if len(shape) == 1:
            out += [("array.array('f')", lambda: array.array("f", base)), ("array.array('d')", lambda: array.array("d", base)),
                    ("memoryview of float32", lambda: memoryview(f32.copy())),
                    ("memoryview of array.array('f')", lambda: memoryview(array.array("f", base)))]
        else:
            out += [("memoryview of float32", lambda: memoryview(f32.copy()))]
        return out

    # adopts(src): the constructor keeps the caller's own array object (documented numpy-style adoption) — then the caller
    # has placed ONE object in two items himself, which is the exception the property's oracle already makes
    makers = [("Event", (2,), lambda src: Event("e", src, EventsDataType.eventSequence), lambda o: o.values,
               lambda src: isinstance(src, np.ndarray) and src.dtype == np.dtype("<f4")),
              ("MarkerTrack", (NF, 3), lambda src: MarkerTrack("m", src), lambda o: o.data, lambda src: isinstance(src, np.ndarray)),
              ("EMGTrack", (NF,), lambda src: EMGTrack("s", src), lambda o: o.data, lambda src: isinstance(src, np.ndarray))]
    # the model's answer for both kinds of source: [source; item; item; edit item 1] then a third item — versions of
    # item 2, of the source, and of the third item (Buffers.v, op 49).  ids: source 0, its buffer 1, then items in order
    mkeep = common.run_model([(49, [[[1, 0], [2, 0], [2, 0], [3, 2], [2, 0]], [[0, 3], [1, 0], [0, 4]]])])[0][1]
    mconv = common.run_model([(49, [[[1, 1], [2, 0], [2, 0], [3, 2], [2, 0]], [[0, 4], [1, 0], [0, 6]]])])[0][1]
    if mconv != [[0], [0], [0]] or mkeep != [[1], [1], [1]]:
        chk.violation("C20: Buffers.v gives %r for a converted and %r for a kept source" % (mconv, mkeep), {"correspondence": "coq/Model/Buffers.v"}, False)
    for cname, shape, make, arr_of, adopts in makers:
        for sname, mk in sources(shape) + [("the stored-type array itself (kept)", lambda shape=shape: np.arange(int(np.prod(shape)), dtype="<f4").reshape(shape) + 1)]:
            src = mk()
            if adopts(src):
                # the constructor keeps the caller's array: Buffers.v says the two items ARE one buffer (SKeep) — the library
                # must agree with the model here too (this is the sharing the caller has asked for, not a violation)
                a, b = make(src), make(src)
                arr_of(a)[...] = 99.0
                shared = np.array(arr_of(b), dtype="<f8").tolist() != (np.arange(int(np.prod(shape))).reshape(shape) + 1.0).tolist()
                chk.count("shared source: %s keeps %s (one buffer, as the model says)" % (cname, sname))
                chk.note_case(("kept source", cname, sname), True)
                if not shared:
                    chk.violation("C20 %s: correspondence broken: the constructor copied an array Buffers.v says it keeps (%s)" % (cname, sname),
                                  {"class": cname, "source": sname, "correspondence": "coq/Model/Buffers.v SKeep"}, False)
                continue
            chk.note_case(("shared source", cname, sname), True)
            try:
                a, b = make(src), make(src)
                later = None
            except Exception:
                chk.count("shared source: %s refuses %s" % (cname, sname))
                continue
            chk.count("shared source: %s from %s" % (cname, sname))
            what = {"class": cname, "source": sname}
            before_b = np.array(arr_of(b), dtype="<f8").tolist()
            before_src = np.array(src if not isinstance(src, Offers) else src.a, dtype="<f8").tolist()
            try:
                arr_of(a)[...] = 99.0
            except Exception as e:
                chk.count("shared source: %s values not editable in place (%s)" % (cname, type(e).__name__))
                continue
            later = make(src)
            found = None
            if np.array(arr_of(b), dtype="<f8").tolist() != before_b:
                found = "editing the values of one changed the other"
            elif np.array(src if not isinstance(src, Offers) else src.a, dtype="<f8").tolist() != before_src:
                found = "editing the values of one changed the caller's %s" % sname
            elif np.array(arr_of(later), dtype="<f8").tolist() != before_b:
                found = "a third one built afterwards starts with the edit already in it"
            if found:
                chk.violation("C20 %s: two objects built by separate constructor calls from the same %s: %s" % (cname, sname, found), what, True)
                if chk.n_found() >= 3:
                    return


def callers_lists(chk, rng):
    """ONE list of items, made by the caller, handed to two separately created blocks through every bulk entry point
    (tracks = list, platforms = list, add_platforms(list), the constructors that take a list): afterwards adding to /
    removing from one block shows neither in the other block nor in the caller's list, and what the caller does to his
    list afterwards shows in neither block.  (The ITEM objects are in both blocks by the caller's own doing; their
    containers are not.)"""
    from basictdf.tdfForcePlatformsCalibration import ForcePlatformsCalibrationDataBlock
    from basictdf.tdfOpticalSystem import OpticalSetupBlock
    ways = {"D3": [("tracks = L", lambda ad, b, L: setattr(b, "tracks", L))],
            "FT": [("tracks = L", lambda ad, b, L: setattr(b, "tracks", L))],
            "PD": [("platforms = L", lambda ad, b, L: setattr(b, "platforms", L))],
            "PC": [("add_platforms(L)", lambda ad, b, L: b.add_platforms(L)),
                   ("platforms = pairs", lambda ad, b, L: setattr(b, "platforms", L)),
                   ("constructor", None)],
            "OS": [("constructor", None)]}
    for kind, entry in ways.items():
        for name, put in entry:
            for nitems in (1, 2, 3):
                for second in ("same way", "item by item"):
                    ad = Adapter(kind, rng)
                    its = [ad.item() for _ in range(nitems)]
                    L = [(10 + j, it) for j, it in enumerate(its)] if name == "platforms = pairs" else list(its)
                    L0 = list(L)
                    log = []

                    def fill(how):
                        if how == "item by item":
                            b = ad.new()
                            for it in its:
                                ad.add(b, it)
                            return b
                        if put is None:
                            return ForcePlatformsCalibrationDataBlock(platforms=L) if kind == "PC" else OpticalSetupBlock(channels=L)
                        b = ad.new()
                        put(ad, b, L)
                        return b

                    def view():
                        return ([id(x) for x in ad.items(A)], sha(A), [id(x) for x in ad.items(B)], sha(B), [id(x) if not isinstance(x, tuple) else (x[0], id(x[1])) for x in L])
                    chk.note_case(("caller's list", kind, name, nitems, second), True)
                    chk.count("one caller-side list given to two blocks: %s" % name)
                    what = {"kind": kind, "entry_point": name, "items": nitems, "second_block_filled": second}
                    try:
                        A = fill("same way")
                        B = fill(second)
                        v0 = view()
                        steps = [("A gets one more item", lambda: ad.add(A), (0, 1)), ("the first item is removed from A", lambda: ad.remove(A, 0), (0, 1)),
                                 ("the caller appends to his list", lambda: L.append(L0[0]), (4,)), ("the caller empties his list", lambda: L.clear(), (4,)),
                                 ("B gets one more item", lambda: ad.add(B), (2, 3))]
                        for desc, act, may in steps:
                            act()
                            log.append(desc)
                            v1 = view()
                            moved = [k for k in range(5) if v0[k] != v1[k] and k not in may]
                            if moved:
                                who = {0: "block A's items", 1: "block A's encoding", 2: "block B's items", 3: "block B's encoding", 4: "the caller's own list"}
                                chk.violation("C20 %s: two blocks filled from one caller-side list through %s (the second %s): after %r, %s changed" %
                                              (kind, name, second, log, " and ".join(who[k] for k in moved)), dict(what, steps=list(log)), True)
                                break
                            v0 = v1
                    except Exception as e:
                        chk.violation("C20 %s: two blocks filled from one caller-side list through %s: %s after %r" % (kind, name, common.exc_info(e), log),
                                      dict(what, steps=list(log)), True)
                    if chk.n_found() >= 3:
                        return


def block_given_as_items(chk, rng):
    """a block handed to another block's constructor as the source of its items (OpticalSetupBlock(channels=other)): the new
    block holds the same channel objects in a list of its own — editing either block's list leaves the other as it was"""
    from basictdf.tdfOpticalSystem import OpticalSetupBlock
    ad = Adapter("OS", rng)
    for origin in ("constructed", "decoded"):
        src = ad.new()
        for _ in range(2):
            ad.add(src)
        if origin == "decoded":
            src = ad.decode(api.encoded(src), src.format.value)
        chk.note_case(("block given as items", origin), True)
        chk.count("a block given to a constructor as its item source")
        what = {"kind": "OS", "scenario": "b = OpticalSetupBlock(channels=a) with a %s block a" % origin}
        try:
            new = OpticalSetupBlock(channels=src)
        except Exception:
            continue                      # refusing a block as an item list is fine
        for desc, act, victim in (("a channel is appended to a", lambda: ad.add(src), new), ("the first channel is removed from b", lambda: ad.remove(new, 0), src),
                                  ("a's channel list is reversed", lambda: src.channels.reverse(), new)):
            before = ([id(x) for x in ad.items(victim)], sha(victim))
            act()
            if ([id(x) for x in ad.items(victim)], sha(victim)) != before:
                chk.violation("C20 OS: %s: after '%s' the other block changed too" % (what["scenario"], desc), dict(what, step=desc), True)
                return


def shared_item_control(chk, rng):
    """independence as a control experiment: a history on block A gives the same observations (what A iterates over,
    what it encodes — or the same exception) whether or not a second, separately created block B is filled in between,
    also when B receives the very item objects A holds (with other channels) and when A's public item list is edited
    directly"""
    import io
    from basictdf.tdfForcePlatformsData import ForcePlatformData, ForcePlatformsDataBlock
    from basictdf.tdfEvents import Event, EventsDataType, TemporalEventsData
    from basictdf.tdfOpticalSystem import OpticalSetupBlock

    def observe(kind, a):
        out = []
        try:
            if kind == "PD":
                out.append([(int(c), id(p)) for c, p in a])
            else:
                out.append([id(x) for x in a])
        except Exception as e:
            out.append("iteration raised " + type(e).__name__)
        try:
            f = io.BytesIO()
            a._write(f)
            out.append(hashlib.sha1(f.getvalue()).hexdigest())
        except Exception as e:
            out.append("encoding raised " + type(e).__name__)
        try:
            out.append(int(a.nBytes))
        except Exception as e:
            out.append("nBytes raised " + type(e).__name__)
        return out

    for j in range(40 if chk.tier == "quick" else 400):
        kind = ("PD", "EV", "OS")[j % 3]
        ad = Adapter(kind, rng)
        items = [ad.item() for _ in range(3)]
        script = []
        # steps on A: ("a_add", item index, channel) | ("a_del", position) ; steps on B: ("b_add", item index, channel)
        chans = rng.sample([0, 1, 2, 5, 7, 9], 3)
        script.append(("a_add", 0, chans[0]))
        script.append(("a_add", 1, chans[1]))
        pool = [("b_add", 0, None), ("b_add", 1, rng.choice([None, 3])), ("a_del", rng.randrange(2)), ("a_add", 2, None), ("b_add", 2, 8),
                ("a_del", 0)]
        script += rng.sample(pool, rng.randrange(2, 6))
        if not any(s[0].startswith("b_") for s in script):
            script.insert(2, ("b_add", 0, None))

        def run(with_b):
            a, b = ad.new(), ad.new()
            obs = []
            for st in script:
                if st[0].startswith("b_") and not with_b:
                    continue
                tgt = a if st[0].startswith("a_") else b
                try:
                    if st[0].endswith("add"):
                        it = items[st[1]]
                        if kind == "PD":
                            tgt.add_platform(it, channel=st[2])
                        elif kind == "EV":
                            tgt.events.append(it)
                        else:
                            tgt.channels.append(it)
                    else:
                        lst = tgt.platforms if kind == "PD" else tgt.events if kind == "EV" else tgt.channels
                        if st[1] < len(lst):
                            del lst[st[1]]
                except Exception as e:
                    obs.append("%s raised %s" % (st[0], type(e).__name__))
                if st[0].startswith("a_"):
                    obs.append(observe(kind, a))
            obs.append(observe(kind, a))
            return obs
        alone, together = run(False), run(True)
        # item identities differ between nothing: the same item objects are used in both runs; compare as is
        chk.note_case(("shared item control", kind, tuple(script)), True)
        chk.count("control experiment: " + kind)
        if alone != together:
            k = next(i for i, (x, y) in enumerate(zip(alone, together)) if x != y)
            chk.violation("C20 %s: what block A iterates over / encodes depends on whether a separately created block B was given items in "
                          "between (observation %d: %r alone, %r with B) [steps %r]" % (kind, k, alone[k], together[k], script),
                          {"kind": kind, "steps": [list(x) for x in script]}, True)
            return


def replay(chk, path):
    run(chk)
    chk.rule = "replay (re-runs the seeded interleavings) of " + path

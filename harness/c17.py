"""C17 — creating or copying a file never clobbers an existing one.
File-system scenarios run on the implementation (a scratch directory) and on Fs.v (op 38)."""
import hashlib
import json
import os
import shutil

from harness import blocks, codec, common, container
from harness.container import T0, Clock, scripted_clock
from harness.common import err_code

PATHS = [1, 2, 3, 4]


def fname(work, p):
    return os.path.join(work, "p%d.tdf" % p)


def snapshot(work):
    out = []
    for p in PATHS:
        f = fname(work, p)
        if os.path.exists(f):
            out.append([p, list(open(f, "rb").read())])
    return out


SIBLINGS = ["p%d.tmp", "p%d.tdf.tmp", "p%d.bak", "p%d.tdf~", ".p%d.tdf.swp", "p%d", "p%d.new", "p%d.tdf.lock"]


def neighbours(work):
    """every file of the directory that is not one of the four paths: name -> bytes"""
    mine = {os.path.basename(fname(work, p)) for p in PATHS}
    out = {}
    for n in sorted(os.listdir(work)):
        f = os.path.join(work, n)
        if n not in mine and os.path.isfile(f):
            out[n] = open(f, "rb").read()
    return out


def put(work, p, data):
    open(fname(work, p), "wb").write(data)


def tdf_bytes(rng, work, nops):
    """a TDF file reached by a short history, as bytes"""
    from basictdf import Tdf
    f = os.path.join(work, "src_tmp.tdf")
    if os.path.exists(f):
        os.unlink(f)
    with scripted_clock():
        Clock.now = T0 + rng.randrange(0, 1000)
        Tdf.new(f)
    pool = {k: [container.small_block(k, rng, c) for c in (0, 1)] for k in ("EV", "EM", "D3", "OS")}
    ops = container.random_history(rng, ["EV", "EM", "D3", "OS"], nops, pool)
    if ops:
        container.run_impl(f, [ops])
    data = open(f, "rb").read()
    os.unlink(f)
    return data


def impl_call(work, call):
    """call = ("new", p, now) | ("copy", src, dst) | ("open", p) | ("mutate", p, seed);  returns (rc, payload)"""
    from basictdf import Tdf
    try:
        if call[0] == "new":
            with scripted_clock():
                Clock.now = call[2]
                t = Tdf.new(fname(work, call[1]))
            return 0, str(t.file_path) == fname(work, call[1])
        if call[0] == "copy":
            t = Tdf(fname(work, call[1])).copy(fname(work, call[2]))
            return 0, str(t.file_path) == fname(work, call[2])
        if call[0] == "open":
            t = Tdf(fname(work, call[1]))
            with t as f:
                return 0, [int(f.version), int(f.nEntries), len(f.entries)]
        if call[0] == "mutate":
            rng = common.rng_for(call[2], "mutate")
            ev = container.small_block("FT", rng, 1)
            with scripted_clock():
                with Tdf(fname(work, call[1])).allow_write() as f:
                    Clock.now = T0 + 5000
                    if f.has_force_and_torque:
                        f.remove_block(ev.build().type)
                    else:
                        f.add_block(ev.build(), "mutated")
            return 0, None
    except Exception as e:
        return err_code(e), common.exc_info(e)
    raise RuntimeError(call)


def model_call(fsv, call):
    if call[0] == "new":
        return common.run_model([(38, [fsv, 1, call[1], call[2]])])[0]
    if call[0] == "copy":
        return common.run_model([(38, [fsv, 2, call[1], call[2]])])[0]
    if call[0] == "open":
        return common.run_model([(38, [fsv, 3, call[1]])])[0]
    return None


def fs_dict(fsv):
    d = {}
    for p, b in fsv:
        if p not in d:
            d[p] = bytes(b)
    return d


def new_file_violation(data, now):
    t = codec.parse_tdf(data)
    if t["signature"] != container.SIG:
        return "bad signature"
    if t["version"] != 1 or t["n"] != 14:
        return "version %d, %d slots" % (t["version"], t["n"])
    if len(data) != 4096:
        return "length %d, expected 4096" % len(data)
    for e in t["entries"]:
        if e["type"] != 0 or e["offset"] != 4096 or e["size"] != 0:
            return "slot (type %d, offset %d, size %d) is not an unused slot pointing at 4096" % (e["type"], e["offset"], e["size"])
    return None


def scenario(chk, rng, work, idx):
    """one scenario: prepare targets, run a call sequence, compare + judge after every call"""
    for n in os.listdir(work):
        if os.path.isfile(os.path.join(work, n)):
            os.unlink(os.path.join(work, n))
    # other people's files next to the targets, named like them (what a temporary / backup / lock file would be called)
    for p in PATHS:
        for pat in rng.sample(SIBLINGS, rng.choice((0, 1, 3, len(SIBLINGS)))):
            open(os.path.join(work, pat % p), "wb").write(b"someone else's file " + (pat % p).encode())
    kinds = {}
    for p in PATHS:
        k = rng.choice(["absent", "absent", "tdf", "tdf_hist", "nontdf", "empty", "almost"])
        kinds[p] = k
        if k == "tdf":
            put(work, p, tdf_bytes(rng, work, 0))
        elif k == "tdf_hist":
            put(work, p, tdf_bytes(rng, work, rng.randrange(1, 4)))
        elif k == "nontdf":
            put(work, p, bytes(rng.getrandbits(8) for _ in range(rng.choice((1, 15, 16, 64, 5000)))))
        elif k == "empty":
            put(work, p, b"")
        elif k == "almost":
            # not a TDF file, but close: the signature is all there, only not at the start (a TDF file behind a foreign
            # prefix, the signature further into the first bytes), or the start is a truncated / one-bit-off signature
            good = tdf_bytes(rng, work, rng.randrange(0, 2))
            how = rng.randrange(6)
            if how == 0:
                data = bytes(rng.getrandbits(8) for _ in range(rng.choice((1, 4, 16, 48)))) + good
            elif how == 1:
                data = b"\0" * rng.choice((8, 32, 48)) + container.SIG + b"\0" * 4096
            elif how == 2:
                data = b"TDF file v1\r\n" + container.SIG + good[16:]
            elif how == 3:
                data = container.SIG[:15] + bytes([container.SIG[15] ^ 1]) + good[16:]
            elif how == 4:
                data = container.SIG[1:] + good[16:]
            else:
                data = container.SIG[:8]
            put(work, p, data)
    calls = []
    for _ in range(rng.randrange(2, 6)):
        r = rng.random()
        if r < 0.3:
            calls.append(("new", rng.choice(PATHS), T0 + rng.randrange(0, 10 ** 6)))
        elif r < 0.6:
            calls.append(("copy", rng.choice(PATHS), rng.choice(PATHS)))
        elif r < 0.8:
            calls.append(("open", rng.choice(PATHS)))
        else:
            calls.append(("mutate", rng.choice(PATHS), rng.randrange(10 ** 6)))
    desc = {"targets": kinds, "calls": [list(c) for c in calls], "seed": [chk.seed, idx]}
    for ci, call in enumerate(calls):
        before = snapshot(work)
        nb_before = neighbours(work)
        bd = fs_dict(before)
        exists = {p: p in bd for p in PATHS}
        if call[0] == "mutate":
            ok_tdf = call[1] in bd and bd[call[1]][:16] == container.SIG and len(bd[call[1]]) >= 64
            if not ok_tdf:
                continue
        if call[0] == "copy" and call[1] not in bd:
            continue            # Tdf(src) itself refuses a missing source (covered by "open")
        rc, payload = impl_call(work, call)
        after = snapshot(work)
        ad = fs_dict(after)
        chk.note_case((kinds, call), call[0] != "open" or rc != 0)
        chk.count("%s on %s -> %s" % (call[0], kinds.get(call[-1] if call[0] == "copy" else call[1], "?") if ci == 0 else "later",
                                      "ok" if rc == 0 else "refused"))
        what = "%s after %r on targets %r" % (call, calls[:ci], kinds)
        # ---- the oracle, on the implementation alone
        found = frame = None
        others = [p for p in PATHS if p != (call[2] if call[0] == "copy" else call[1])]
        for p in others:
            if bd.get(p) != ad.get(p):
                frame = "path %d changed although the call was about another path" % p
        nb_after = neighbours(work)
        for n in sorted(set(nb_before) | set(nb_after)):
            if nb_before.get(n) != nb_after.get(n):
                frame = "the neighbouring file %r %s although the call was about %s" % (
                    n, "disappeared" if n not in nb_after else "appeared" if n not in nb_before else "changed",
                    os.path.basename(fname(work, call[2] if call[0] == "copy" else call[1])))
        if call[0] == "new":
            p = call[1]
            if exists[p]:
                if rc != common.ERR["FileExistsError"]:
                    found = "Tdf.new on an existing file did not raise FileExistsError (rc %d)" % rc
                elif ad.get(p) != bd.get(p):
                    found = "Tdf.new was refused but the existing file changed"
            else:
                if rc != 0:
                    found = "Tdf.new on a fresh path raised: %s" % payload
                else:
                    found = new_file_violation(ad[p], call[2])
        elif call[0] == "copy":
            src, dst = call[1], call[2]
            if exists[dst]:
                if rc != common.ERR["FileExistsError"]:
                    found = "copy onto an existing file did not raise FileExistsError (rc %d)" % rc
                elif ad.get(dst) != bd.get(dst):
                    found = "copy was refused but the existing target changed"
            elif rc != 0:
                found = "copy to a fresh path raised: %s" % payload
            elif ad.get(dst) != bd.get(src):
                found = "the copy is not byte-identical to the original"
            elif ad.get(src) != bd.get(src):
                found = "copying changed the original"
        elif call[0] == "open":
            p = call[1]
            good = exists[p] and bd[p][:16] == container.SIG
            if not exists[p] and rc != common.ERR["FileNotFoundError"]:
                found = "opening a missing path did not raise FileNotFoundError (rc %d)" % rc
            elif exists[p] and not good and rc == 0:
                found = "a file that does not start with the TDF signature was opened and yielded %r" % (payload,)
            elif ad != bd:
                found = "opening changed a file"
        elif call[0] == "mutate":
            if rc == 0 and ad.get(call[1]) == bd.get(call[1]):
                found = None      # nothing to say
        found = frame or found
        if found:
            chk.violation("C17: %s [%s]" % (found, what), dict(desc, step=ci), True)
            return
        # ---- the correspondence with Fs.v
        m = model_call(before, call)
        if m is None:
            continue
        if call[0] == "open":
            mrc = 0 if m[0] == 0 else m[0]
            if (rc == 0) != (mrc == 0) or (rc != 0 and not exists[call[1]] and rc != mrc):
                chk.violation("C17: correspondence broken: open gives rc %d, Fs.fs_open %d [%s]" % (rc, mrc, what),
                              dict(desc, step=ci, correspondence="coq/Model/Fs.v fs_open"), False)
                return
            continue
        mrc, mfs = m[1][0], fs_dict(m[1][1])
        if rc != mrc or {p: ad.get(p) for p in PATHS} != {p: mfs.get(p) for p in PATHS}:
            chk.violation("C17: correspondence broken: %s gives rc %d, Fs.v %d, or the resulting files differ [%s]" %
                          (call[0], rc, mrc, what), dict(desc, step=ci, correspondence="coq/Model/Fs.v"), False)
            return


def run(chk):
    chk.rule = ("scenarios over 4 paths in a directory that also holds other files named like them (.tmp, .bak, ~, .swp, .lock, no suffix), each path initially absent / a fresh TDF / a TDF reached by a 1-3 call history / a non-TDF file "
                "(1..5000 random bytes) / an empty file / an almost-TDF file (signature present but not at offset 0, one bit off, truncated); 2-5 calls from {Tdf.new, copy, open+enter, a later mutation of any TDF "
                "path}; after every call: bytes of every path before/after, exception class; oracle: the property's clauses "
                "on the implementation alone; correspondence: Fs.v fs_new / fs_copy / fs_open on the same file-system state; "
                "plus targets given as relative paths (bare name, ./name, sub/name, ../dir/name) with the current directory different from the source's; plus copies of an object opened through a symbolic link, a relative symbolic link, a chain of links or a hard link to the recording (the copy is a regular file of its own, independent under later mutation; an existing target that is itself a link is refused); plus targets that are existing directories (empty, or holding a file named like the source): refused, nothing inside changes; non-trivial = a creating/copying call or a refused open")
    rng = common.rng_for(chk.seed, "C17")
    n = 250 if chk.tier == "quick" else 4000
    work = os.path.join(chk.work, "fs")
    os.makedirs(work, exist_ok=True)
    for i in range(n):
        scenario(chk, rng, work, i)
        if chk.n_found() >= 3:
            break
    long_lived(chk, rng, work)
    relative_targets(chk, rng, work)
    linked_sources(chk, rng, work)
    directory_targets(chk, rng, work)
    copy_during_a_session(chk, rng, work)
    # independence of a copy under the full container engine: mutate the copy, then the original
    from basictdf import Tdf
    for j in range(5 if chk.tier == "quick" else 60):
        for p in PATHS:
            if os.path.exists(fname(work, p)):
                os.unlink(fname(work, p))
        put(work, 1, tdf_bytes(rng, work, rng.randrange(0, 4)))
        orig = open(fname(work, 1), "rb").read()
        rc, _ = impl_call(work, ("copy", 1, 2))
        chk.note_case(("independence", j), True)
        chk.count("independence scenario")
        if rc != 0:
            chk.violation("C17: copy of a TDF reached by a history failed", {"scenario": "independence", "seed": [chk.seed, j]}, True)
            break
        impl_call(work, ("mutate", 2, j))
        if open(fname(work, 1), "rb").read() != orig:
            chk.violation("C17: mutating the copy changed the original", {"scenario": "independence: copy, mutate copy", "seed": [chk.seed, j]}, True)
            break
        copy_now = open(fname(work, 2), "rb").read()
        impl_call(work, ("mutate", 1, j + 1))
        if open(fname(work, 2), "rb").read() != copy_now:
            chk.violation("C17: mutating the original changed the copy", {"scenario": "independence: copy, mutate original", "seed": [chk.seed, j]}, True)
            break


def relative_targets(chk, rng, work):
    """targets given as RELATIVE paths (a bare file name, ./name, sub/name) while the current directory is not the
    directory of the source: the target is what that path means for the process — the file of that name in the current
    directory —, the existence check and the write concern the same file, and no file anywhere else is touched"""
    from basictdf import Tdf
    a, b = os.path.join(work, "relA"), os.path.join(work, "relB")
    cwd0 = os.getcwd()
    try:
        for j in range(24 if chk.tier == "quick" else 200):
            for d in (a, b):
                shutil.rmtree(d, ignore_errors=True)
                os.makedirs(os.path.join(d, "sub"))
            src = os.path.join(a, "walk.tdf")
            open(src, "wb").write(tdf_bytes(rng, work, rng.randrange(0, 3)))
            name = rng.choice(["backup.tdf", "walk.tdf", "x"])
            rel = rng.choice([name, "./" + name, "sub/" + name, os.path.join("..", "relB", name)])
            for d in (a, b):                              # files of that name may already exist in either directory
                for sub in ("", "sub"):
                    if rng.random() < 0.5 and os.path.join(d, sub, name) != src:
                        open(os.path.join(d, sub, name), "wb").write(b"existing file in %s/%s " % (os.path.basename(d).encode(), sub.encode()) * 3)
            os.chdir(b)
            target = os.path.normpath(os.path.join(b, rel))
            existed = os.path.exists(target)

            def snap():
                out = {}
                for root, _dirs, files in os.walk(work):
                    if os.path.basename(root) in ("relA", "relB", "sub") and ("relA" in root or "relB" in root):
                        for f in files:
                            out[os.path.join(root, f)] = open(os.path.join(root, f), "rb").read()
                return out
            before = snap()
            call = rng.choice(["copy", "copy", "new"])
            try:
                if call == "copy":
                    t = Tdf(src if j % 2 else os.path.join("..", "relA", "walk.tdf")).copy(rel)
                else:
                    with scripted_clock():
                        Clock.now = T0 + j
                        t = Tdf.new(rel)
                rc = 0
            except Exception as e:
                rc = err_code(e)
            after = snap()
            os.chdir(cwd0)
            chk.note_case(("relative target", call, rel, existed, j), True)
            chk.count("relative target: %s -> %s" % (call, "refused" if rc else "ok"))
            found = None
            for f in sorted(set(before) | set(after)):
                if f != target and before.get(f) != after.get(f):
                    found = "the file %s %s although the target was %r in the current directory %s" % (
                        os.path.relpath(f, work), "appeared" if f not in before else "disappeared" if f not in after else "changed", rel,
                        os.path.relpath(b, work))
            if found is None:
                if existed:
                    if rc != common.ERR["FileExistsError"]:
                        found = "%s(%r): the target exists but the call %s" % (call, rel, "succeeded" if rc == 0 else "raised error %d, not FileExistsError" % rc)
                    elif after.get(target) != before.get(target):
                        found = "%s(%r) was refused but the existing target changed" % (call, rel)
                elif rc != 0:
                    found = "%s(%r) to a path that does not exist was refused (error %d)" % (call, rel, rc)
                elif call == "copy" and after.get(target) != before.get(src):
                    found = "copy(%r): no byte-identical copy at %s" % (rel, os.path.relpath(target, work))
                elif call == "new" and (target not in after or new_file_violation(after[target], T0 + j)):
                    found = "Tdf.new(%r): no well-formed empty container at %s" % (rel, os.path.relpath(target, work))
            if found:
                chk.violation("C17: " + found, {"scenario": "relative target", "call": call, "target_as_given": rel, "cwd": "relB",
                                               "source": "relA/walk.tdf", "files_before": sorted(os.path.relpath(f, work) for f in before)}, True)
                return
    finally:
        os.chdir(cwd0)
        for d in (a, b):
            shutil.rmtree(d, ignore_errors=True)


def linked_sources(chk, rng, work):
    """the object being copied was opened through a path that is a symbolic link (work/current.tdf -> archive/walk01.tdf)
    or a hard link to the recording: copy() still yields a FILE OF ITS OWN at the new path — a regular file with the
    source's bytes, and mutating either afterwards leaves the other as it was; an existing target (also one that is
    itself a link) is refused and nothing changes"""
    from basictdf import Tdf
    from harness import container
    d = os.path.join(work, "links")
    for j in range(12 if chk.tier == "quick" else 120):
        shutil.rmtree(d, ignore_errors=True)
        os.makedirs(os.path.join(d, "archive"))
        real = os.path.join(d, "archive", "walk01.tdf")
        data = tdf_bytes(rng, work, rng.randrange(0, 3))
        open(real, "wb").write(data)
        how = ("symbolic link", "relative symbolic link", "hard link", "link to a link")[j % 4]
        src = os.path.join(d, "current.tdf")
        if how == "symbolic link":
            os.symlink(real, src)
        elif how == "relative symbolic link":
            os.symlink(os.path.join("archive", "walk01.tdf"), src)
        elif how == "hard link":
            os.link(real, src)
        else:
            os.symlink(real, os.path.join(d, "mid.tdf"))
            os.symlink(os.path.join(d, "mid.tdf"), src)
        target = os.path.join(d, "copy.tdf")
        pre = None
        if j % 3 == 2:                      # the target exists — as a link to some other file
            other = os.path.join(d, "archive", "other.bin")
            open(other, "wb").write(b"somebody else's file " * 4)
            os.symlink(other, target)
            pre = open(other, "rb").read()
        chk.note_case(("linked source", how, pre is not None, j), True)
        chk.count("copy of an object opened through a %s%s" % (how, ", target exists" if pre is not None else ""))
        what = {"scenario": "Tdf(<%s to archive/walk01.tdf>).copy('copy.tdf')" % how, "target_exists_as_link": pre is not None, "source_bytes": len(data)}
        try:
            t = Tdf(src).copy(target)
            rc = 0
        except Exception as e:
            rc = err_code(e)
        found = None
        if pre is not None:
            if rc != common.ERR["FileExistsError"]:
                found = "the target exists but copy() %s" % ("succeeded" if rc == 0 else "raised error %d, not FileExistsError" % rc)
            elif open(os.path.join(d, "archive", "other.bin"), "rb").read() != pre or not os.path.islink(target):
                found = "copy() was refused but the existing target changed"
        elif rc != 0:
            found = "copy() to a path that does not exist was refused (error %d)" % rc
        elif os.path.islink(target) or not os.path.isfile(target):
            found = "the copy is %s, not a file of its own" % ("a symbolic link to %r" % os.readlink(target) if os.path.islink(target) else "not a regular file")
        elif os.path.samefile(target, real):
            found = "the copy and the original are the same file on disk"
        elif open(target, "rb").read() != data:
            found = "the copy is not byte-identical to the source"
        if found is None and open(real, "rb").read() != data:
            found = "the original changed during copy()"
        if found is None and rc == 0:
            # independence: mutate the copy, then the original
            try:
                ev = container.small_block("EV", rng, 1).build()
                with t.allow_write() as f:
                    f.events = ev
                if open(real, "rb").read() != data:
                    found = "a mutation of the copy changed the original"
                else:
                    kept = open(target, "rb").read()
                    with Tdf(src).allow_write() as f:
                        f.events = ev
                    if open(target, "rb").read() != kept:
                        found = "a mutation of the original changed the copy"
            except Exception as e:
                found = "a later mutation failed: " + common.exc_info(e)
        if found:
            chk.violation("C17: %s [%s]" % (found, what["scenario"]), what, True)
            return


def directory_targets(chk, rng, work):
    """the target is an existing DIRECTORY — empty, or holding a file named like the source (the older backup): the path
    exists, so new() and copy() are refused with FileExistsError and nothing in or around the directory changes"""
    from basictdf import Tdf
    d = os.path.join(work, "dirs")
    for j in range(8 if chk.tier == "quick" else 60):
        shutil.rmtree(d, ignore_errors=True)
        os.makedirs(os.path.join(d, "work"))
        os.makedirs(os.path.join(d, "backup"))
        src = os.path.join(d, "work", "walk.tdf")
        open(src, "wb").write(tdf_bytes(rng, work, rng.randrange(0, 3)))
        inside = {}
        if j % 2:
            inside["walk.tdf"] = tdf_bytes(rng, work, 1) if j % 4 == 1 else b"an older backup, not a TDF file " * 3
        if j % 3 == 0:
            inside["notes.txt"] = b"keep"
        for n, data in inside.items():
            open(os.path.join(d, "backup", n), "wb").write(data)
        target = os.path.join(d, "backup") + ("/" if j % 5 == 0 else "")
        call = "copy" if j % 4 != 3 else "new"

        def snap():
            out = {}
            for root, _dirs, files in os.walk(d):
                for f in files:
                    out[os.path.relpath(os.path.join(root, f), d)] = open(os.path.join(root, f), "rb").read()
            return out
        before = snap()
        try:
            Tdf(src).copy(target) if call == "copy" else Tdf.new(target)
            rc = 0
        except Exception as e:
            rc = err_code(e)
        after = snap()
        chk.note_case(("directory target", call, sorted(inside), j), True)
        chk.count("target is an existing directory: %s -> %s" % (call, "refused" if rc else "ok"))
        what = {"scenario": "%s(<existing directory%s>)" % (call, " holding " + ", ".join(sorted(inside)) if inside else ""), "call": call}
        found = None
        changed = sorted(f for f in set(before) | set(after) if before.get(f) != after.get(f))
        if changed:
            found = "%s onto an existing directory %s %s" % (call, "changed" if all(f in before for f in changed) else "created", changed)
        elif rc != common.ERR["FileExistsError"]:
            found = "%s onto an existing directory %s" % (call, "succeeded" if rc == 0 else "raised error %d, not FileExistsError" % rc)
        if found:
            chk.violation("C17: %s [%s]" % (found, what["scenario"]), what, True)
            return


def copy_during_a_session(chk, rng, work):
    """copy() called INSIDE an open session of the object, after the file was changed through another object (a helper with
    its own write session) — and after the object itself read / did not read from the file: the copy is the file as it
    is at the time of the call, byte for byte"""
    from basictdf import Tdf
    from basictdf.tdfBlock import BlockType
    from harness import container
    d = os.path.join(work, "insession")
    for j in range(12 if chk.tier == "quick" else 80):
        shutil.rmtree(d, ignore_errors=True)
        os.makedirs(d)
        src, dst = os.path.join(d, "walk.tdf"), os.path.join(d, "copy.tdf")
        n = (3, 8, 14)[j % 3]
        ev = container.small_block("EV", rng, 1)
        m = ev.as_model()
        container.craft_file(src, n, [(m[0], m[1], bytes(m[3][0]), container.T0, container.T0, container.T0, "events")])
        ev2, em = container.small_block("EV", rng, 1), container.small_block("EM", rng, 1)
        chk.note_case(("copy during a session", n, j), True)
        chk.count("copy() inside a session after another object changed the file")
        what = {"scenario": "%d-slot file; with r: [%s] helper replaces events / adds EMG through its own object; r.copy(target)" % (n, "r reads a block; " if j % 2 else "")}
        try:
            r = Tdf(src)
            with r:
                if j % 2:
                    r.get_block(BlockType.temporalEventsData)
                with Tdf(src).allow_write() as w:
                    if j % 4 < 2:
                        w.replace_block(ev2.build(), "changed meanwhile")
                    w.add_block(em.build())
                now = open(src, "rb").read()
                r.copy(dst)
            got = open(dst, "rb").read()
        except Exception as e:
            chk.violation("C17: %s fails: %s" % (what["scenario"], common.exc_info(e)), what, True)
            return
        if got != now:
            k = next((i for i, (x, y) in enumerate(zip(got, now)) if x != y), min(len(got), len(now)))
            chk.violation("C17: the copy differs from the source as it was when copy() was called (first difference at byte %d, %d vs %d bytes) [%s]" %
                          (k, len(got), len(now), what["scenario"]), what, True)
            return


def long_lived(chk, rng, work):
    """one Tdf object kept across changes of its file made by someone else, and copies taken in mid-session"""
    from basictdf import Tdf
    from basictdf.tdfBlock import BlockType
    for j in range(6 if chk.tier == "quick" else 60):
        for p in PATHS:
            if os.path.exists(fname(work, p)):
                os.unlink(fname(work, p))
        put(work, 1, tdf_bytes(rng, work, rng.randrange(0, 3)))
        t = Tdf(fname(work, 1))
        chk.note_case(("long-lived object", j), True)
        chk.count("long-lived object scenario")
        try:
            with t:
                n0 = len(t.entries)
            t.has_events
        except Exception as e:
            chk.violation("C17: a valid file cannot be opened twice through one object: " + common.exc_info(e), {"scenario": "long-lived"}, True)
            return
        # someone else replaces the file's content with something that is not a TDF file
        junk = bytes(rng.getrandbits(8) for _ in range(16)) + open(fname(work, 1), "rb").read()[16:]
        put(work, 1, junk if j % 2 else b"not a tdf file at all" * 10)
        got = []
        order = ["with", "has_events", "blocks", "has_events", "blocks"]
        rng.shuffle(order)
        for how in order:               # the refusal of one call must not make the next one yield stale data
            try:
                if how == "with":
                    with t:
                        got.append((how, len(t.entries)))
                elif how == "has_events":
                    got.append((how, t.has_events))
                else:
                    got.append((how, len(t.blocks)))
            except Exception:
                pass
        if got:
            chk.violation("C17: a file that no longer starts with the TDF signature was opened through an existing object and yielded %r" % (got,),
                          {"scenario": "open once, file replaced by non-TDF bytes, open again through the same object"}, True)
            return
        # a copy taken in the middle of a write session is byte-identical to the original
        put(work, 2, tdf_bytes(rng, work, 0))
        ev = container.small_block("EV", rng, 1)
        ft = container.small_block("FT", rng, 1)
        try:
            with scripted_clock():
                Clock.now = T0 + 7000
                with Tdf(fname(work, 2)).allow_write() as f:
                    f.add_block(ev.build(), "mid")
                    f.copy(fname(work, 3))
                    mid = open(fname(work, 3), "rb").read()
                    logical = [container.entry_tuple(e) for e in f.entries]
        except Exception as e:
            chk.violation("C17: copy inside a write session failed: " + common.exc_info(e), {"scenario": "copy in mid-session"}, True)
            return
        orig = open(fname(work, 2), "rb").read()
        if mid != orig:
            k = next((i for i, (x, y) in enumerate(zip(mid, orig)) if x != y), min(len(mid), len(orig)))
            chk.violation("C17: a copy taken right after add_block (inside the write session) differs from the original at byte %d "
                          "(%d vs %d bytes)" % (k, len(mid), len(orig)), {"scenario": "add_block then copy inside one write session"}, True)
            return


def replay(chk, path):
    run(chk)
    chk.rule = "replay (re-runs the seeded scenarios) of " + path

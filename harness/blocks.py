"""Generators, builders (V -> basictdf object) and extractors (basictdf object -> V) for the nine
writable block types.  V = nested lists of ints in exactly the shape of coq/Model/Blocks.v
(fields in file order; floats as bit patterns; labels as code-point lists; a missing frame is [])."""
import io

import numpy as np

TY = {"D3": 5, "EM": 11, "FT": 12, "PD": 9, "PC": 7, "D2": 4, "CA": 2, "OS": 6, "EV": 16}
FORMATS = {"D3": (1, 2), "EM": (1,), "FT": (1,), "PD": (1,), "PC": (2,), "D2": (2,), "CA": (1, 2),
           "OS": (0, 1), "EV": (0, 1)}
KINDS = list(TY)

QNAN32 = 0x7FC00000
NAN32 = float("nan")


# ------------------------------------------------------------------ float helpers
def f32s(bits):
    return np.array([bits], dtype="<u4").view("<f4")[0]


# memory layout given to every array handed to a constructor by build(): None = a fresh C-contiguous little-endian
# array; otherwise an array with the same shape, dtype kind and VALUES but another layout in memory
PARTIAL_GAPS = False  # True: a missing frame is marked by NaN in its FIRST component only (that is the library's rule), the others hold numbers
STRAY_LINKS = 0       # > 0: Data3D blocks of a link-less format are given that many links all the same
LAYOUT = None
LAYOUTS = ("F", "strided", "reversed", "bigendian", "readonly", "offset", "masked", "plain", "column")


def lay(a):
    if LAYOUT is None or not isinstance(a, np.ndarray) or a.dtype == object or a.ndim == 0:
        return a
    if LAYOUT == "F":                               # column-major (what a transposed view of a C array is)
        return np.ascontiguousarray(a.T).T if a.ndim >= 2 else a
    if LAYOUT == "strided":                         # every second element of a larger buffer
        big = np.zeros(tuple(2 * s for s in a.shape), a.dtype)
        view = big[tuple(slice(None, None, 2) for _ in a.shape)]
        view[...] = a
        return view
    if LAYOUT == "reversed":                        # negative strides
        rev = tuple(slice(None, None, -1) for _ in a.shape)
        return np.ascontiguousarray(a[rev])[rev]
    if LAYOUT == "bigendian":                       # same numbers, other byte order in memory
        return a.astype(a.dtype.newbyteorder(">"))
    if LAYOUT == "readonly":
        b = a.copy()
        b.flags.writeable = False
        return b
    if LAYOUT == "masked":                          # only for the samples of a track: see lay_track
        return a
    if LAYOUT == "plain":                           # record arrays (the marker links) as a plain Python list of tuples
        return [tuple(int(x) for x in r) for r in a] if a.dtype.names else a
    if LAYOUT == "column":                          # only for one-dimensional samples: see lay_track
        return a
    if LAYOUT == "offset":                          # unaligned start inside a byte buffer
        raw = bytearray(1 + a.nbytes)
        raw[1:] = np.ascontiguousarray(a).tobytes()
        return np.frombuffer(raw, dtype=a.dtype, offset=1, count=a.size).reshape(a.shape)
    raise KeyError(LAYOUT)


def lay_track(a, column_ok=False):
    """the samples of a track / signal / platform.  Layout "masked": a numpy masked array — the missing frames are its mask,
    with numbers underneath, not NaN (what np.ma.masked_invalid / masked_where / a masked reader hand back)"""
    if LAYOUT == "masked" and isinstance(a, np.ndarray) and a.dtype.kind == "f":
        m = np.isnan(a)
        return np.ma.masked_array(np.where(m, a.dtype.type(5.5), a), mask=m)
    if LAYOUT == "column" and column_ok and isinstance(a, np.ndarray) and a.ndim == 1:
        return a.reshape(-1, 1)                     # one channel cut out of a samples x channels matrix:  mat[:, [k]]
    return lay(a)


def f32a(bits, shape=None):
    a = np.array(list(bits), dtype="<u4").view("<f4")
    return lay(a.reshape(shape) if shape is not None else a)


def f64a(bits, shape=None):
    a = np.array(list(bits), dtype="<u8").view("<f8")
    return lay(a.reshape(shape) if shape is not None else a)


def bits32(x):
    return [int(b) for b in np.ascontiguousarray(np.asarray(x, dtype="<f4")).reshape(-1).view("<u4")]


def bits64(x):
    return [int(b) for b in np.ascontiguousarray(np.asarray(x, dtype="<f8")).reshape(-1).view("<u8")]


def is_nan32(b):
    return (b >> 23) & 0xFF == 0xFF and (b & 0x7FFFFF) != 0


def cps(s):
    return [ord(c) for c in s]


def txt(c):
    return "".join(map(chr, c))


# ------------------------------------------------------------------ random material
F32_SPECIAL = [0x00000000, 0x80000000, 0x00000001, 0x007FFFFF, 0x00800000, 0x7F7FFFFF, 0xFF7FFFFF,
               0x3F800000, 0xBF800000, 0x7F800000, 0xFF800000, 0x3DCCCCCD, 0x42F6E979]
F64_SPECIAL = [0, 1 << 63, 1, 0x000FFFFFFFFFFFFF, 0x0010000000000000, 0x7FEFFFFFFFFFFFFF, 0x3FF0000000000000,
               0xBFF0000000000000, 0x7FF0000000000000, 0xFFF0000000000000, 0x3FB999999999999A]


def rf32(rng, allow_nan=False):
    r = rng.random()
    if r < 0.35:
        return rng.choice(F32_SPECIAL)
    if allow_nan and r < 0.38:
        return QNAN32
    while True:
        b = rng.getrandbits(32)
        if not is_nan32(b):
            return b


def rf64(rng):
    if rng.random() < 0.35:
        return rng.choice(F64_SPECIAL)
    while True:
        b = rng.getrandbits(64)
        if not ((b >> 52) & 0x7FF == 0x7FF and (b & ((1 << 52) - 1)) != 0):
            return b


_CP = None


def cp_chars():
    global _CP
    if _CP is None:
        _CP = []
        for b in range(1, 256):
            try:
                _CP.append(ord(bytes([b]).decode("cp1252")))
            except Exception:
                pass
    return _CP


def rlabel(rng, width=256, pool=None):
    """valid label: cp1252-encodable, NUL-free, shorter than width"""
    r = rng.random()
    ch = cp_chars()
    if pool and r < 0.25:
        return list(rng.choice(pool))
    if r < 0.35:
        return []
    if r < 0.45:
        return [rng.choice(ch)]
    if r < 0.55:
        return [rng.choice(ch) for _ in range(width - 1)]
    if r < 0.65:
        k = rng.randrange(1, min(width, 12))
        return cps("Ab c"[:k]) + [32] * rng.randrange(0, 3)
    if r < 0.75:
        start = rng.randrange(len(ch))
        k = rng.randrange(1, width)
        return [ch[(start + i) % len(ch)] for i in range(k)]
    k = rng.randrange(1, min(width, 20))
    return [rng.choice(ch) for _ in range(k)]


def rint(rng, lo, hi):
    """in-range integer, biased to extremes and small values; hi exclusive"""
    r = rng.random()
    if r < 0.15:
        return lo
    if r < 0.3:
        return hi - 1
    if r < 0.6:
        return max(lo, min(hi - 1, rng.randrange(-3, 200)))
    return rng.randrange(lo, hi)


def rsize(rng, big=6):
    r = rng.random()
    if r < 0.2:
        return 0
    if r < 0.45:
        return 1
    if r < 0.65:
        return 2
    return rng.randrange(3, max(big, 3) + 1)


def rmask(rng, n):
    """presence mask over n frames"""
    m = rng.randrange(7)
    if m == 0:
        return [True] * n
    if m == 1:
        return [False] * n
    if m == 2:
        return [i != 0 for i in range(n)]
    if m == 3:
        return [i != n - 1 for i in range(n)]
    if m == 4:
        return [i % 2 == 0 for i in range(n)]
    if m == 5:
        out, cur = [], rng.random() < 0.5
        while len(out) < n:
            k = rng.randrange(1, max(2, n // 2 + 1))
            out += [cur] * k
            cur = not cur
        return out[:n]
    return [rng.random() < 0.5 for _ in range(n)]


def rframes(rng, n, ncomp, scalar=False, mask=None):
    mask = mask if mask is not None else rmask(rng, n)
    out = []
    for p in mask:
        if not p:
            out.append([])
        elif scalar:
            out.append(rf32(rng))
        else:
            out.append([rf32(rng) for _ in range(ncomp)])
    return out


I32 = (-2 ** 31, 2 ** 31)


def gen(kind, rng, fmt=None, big=6, nframes=None):
    """Returns (format_code, V)."""
    fmt = fmt if fmt is not None else rng.choice(FORMATS[kind])
    nfr = nframes if nframes is not None else rng.choice((1, 1, 2, 3, 5, 8, rng.randrange(1, 40)))
    pool = [rlabel(rng) for _ in range(2)]
    if kind == "D3":
        nt = rsize(rng, big)
        tracks = [[rlabel(rng, 256, pool), rframes(rng, nfr, 3)] for _ in range(nt)]
        if fmt == 1:
            nl = rsize(rng, 4)
            lk = [nl, [], [[rint(rng, 0, 2 ** 32), rint(rng, 0, 2 ** 32)] for _ in range(nl)]]
        else:
            lk = []
        return fmt, [nfr, rint(rng, *I32), rf32(rng, True), nt, [rf32(rng, True) for _ in range(3)],
                     [rf32(rng, True) for _ in range(9)], [rf32(rng, True) for _ in range(3)], rng.randrange(2), lk, tracks]
    if kind == "EM":
        ns = rsize(rng, big)
        chans = rng.sample(range(-32768, 32768), ns) if rng.random() < 0.5 else rng.sample(range(0, 40), ns)
        sigs = [[rlabel(rng, 256, pool), rframes(rng, nfr, 1, scalar=True)] for _ in range(ns)]
        return fmt, [ns, rint(rng, *I32), rf32(rng, True), nfr, chans, sigs]
    if kind == "FT":
        nt = rsize(rng, big)
        tracks = [[rlabel(rng, 256, pool), rframes(rng, nfr, 9)] for _ in range(nt)]
        return fmt, [nt, rint(rng, *I32), rf32(rng, True), nfr, [rf32(rng, True) for _ in range(3)],
                     [rf32(rng, True) for _ in range(9)], [rf32(rng, True) for _ in range(3)], [], tracks]
    if kind == "PD":
        npl = rsize(rng, big)
        chans = rng.sample(range(0, 65536), npl) if rng.random() < 0.5 else rng.sample(range(0, 40), npl)
        plats = [rframes(rng, nfr, 6) for _ in range(npl)]
        return fmt, [npl, rint(rng, *I32), rf32(rng, True), nfr, chans, plats]
    if kind == "PC":
        npl = rsize(rng, big)
        chans = rng.sample(range(-32768, 32768), npl) if rng.random() < 0.5 else rng.sample(range(0, 40), npl)
        plats = [[rlabel(rng, 256, pool), [rf32(rng, True) for _ in range(2)], [rf32(rng, True) for _ in range(12)], []]
                 for _ in range(npl)]
        return fmt, [npl, [], chans, plats]
    if kind == "D2":
        nc = rsize(rng, 4)
        nf = nfr if nfr < 12 else rng.randrange(1, 12)
        data = []
        for _ in range(nf):
            row = []
            for _ in range(nc):
                k = rng.choice((0, 0, 1, 2, rng.randrange(0, 6)))
                row.append([[rf32(rng, True), rf32(rng, True)] for _ in range(k)])
            data.append(row)
        return fmt, [nc, nf, rint(rng, *I32), rf32(rng, True), rng.randrange(2),
                     [rint(rng, 0, 2 ** 15) for _ in range(nc)], data]
    if kind == "CA":
        nc = rsize(rng, 4)
        cams = []
        for _ in range(nc):
            vp = [[rint(rng, *I32), rint(rng, *I32)], [rint(rng, *I32), rint(rng, *I32)]]
            if fmt == 1:
                cams.append([[rf64(rng) for _ in range(9)], [rf64(rng) for _ in range(3)]] +
                            [[rf64(rng), rf64(rng)] for _ in range(5)] + [vp])
            else:
                cams.append([[rf64(rng) for _ in range(9)], [rf64(rng) for _ in range(3)],
                             [rf64(rng), rf64(rng)], [rf64(rng), rf64(rng)],
                             [rf64(rng) for _ in range(70)], [rf64(rng) for _ in range(70)], vp])
        return fmt, [nc, rng.randrange(4), [rf32(rng, True) for _ in range(3)], [rf32(rng, True) for _ in range(9)],
                     [rf32(rng, True) for _ in range(3)], [rint(rng, -32768, 32768) for _ in range(nc)], cams]
    if kind == "OS":
        nch = rsize(rng, big)
        chs = [[rint(rng, *I32), [], rlabel(rng, 32), rlabel(rng, 32), rlabel(rng, 32),
                [[rint(rng, *I32), rint(rng, *I32)], [rint(rng, *I32), rint(rng, *I32)]]] for _ in range(nch)]
        return fmt, [nch, [], chs]
    if kind == "EV":
        ne = rsize(rng, big)
        evs = []
        for _ in range(ne):
            k = rng.randrange(2)
            n = rng.randrange(0, 2) if k == 0 else rsize(rng, 6)
            evs.append([rlabel(rng, 256, pool), k, n, [rf32(rng, True) for _ in range(n)]])
        return fmt, [ne, rf32(rng, True), evs]
    raise KeyError(kind)


# ------------------------------------------------------------------ V -> object
def frames_array(frames, ncomp):
    n = len(frames)
    a = np.full((n, ncomp), NAN32, dtype="<f4")
    u = a.view("<u4")
    for i, fr in enumerate(frames):
        if fr != []:
            u[i, :] = fr
        elif PARTIAL_GAPS and ncomp > 1:
            a[i, 1:] = [float(7 * i + j) / 4 for j in range(1, ncomp)]      # left-over numbers behind the NaN that marks the gap
    return a


def build(kind, fmt, v, **kw):
    """kw: keyword arguments for the constructors that hand them on to Block.__init__ (the block's dates)"""
    if kind == "D3":
        from basictdf.tdfData3D import Data3D, Data3dBlockFormat, Flags, LinkType, MarkerTrack
        d = Data3D(frequency=v[1], nFrames=v[0], volume=f32a(v[4]), rotationMatrix=f32a(v[5], (3, 3)),
                   translationVector=f32a(v[6]), startTime=f32s(v[2]), flag=Flags(v[7]),
                   format=Data3dBlockFormat(fmt))
        if fmt == 1:
            d.links = lay(np.array([tuple(x) for x in v[8][2]], dtype=LinkType.btype))
        elif STRAY_LINKS:
            # a block of a link-less format that nevertheless HAS links (set by the caller, or left over from the format the
            # block was read in): the format does not store them, so they are no part of the value
            d.links = np.array([(0, 1), (1, 0), (0, 0)][:STRAY_LINKS], dtype=LinkType.btype)
        for label, frames in v[9]:
            d.add_track(MarkerTrack(txt(label), lay_track(frames_array(frames, 3))))
        return d
    if kind == "EM":
        from basictdf.tdfEMG import EMG, EMGBlockFormat, EMGTrack
        e = EMG(frequency=v[1], nSamples=v[3], startTime=f32s(v[2]), format=EMGBlockFormat(fmt))
        for ch, (label, frames) in zip(v[4], v[5]):
            a = np.full((len(frames),), NAN32, dtype="<f4")
            u = a.view("<u4")
            for i, fr in enumerate(frames):
                if fr != []:
                    u[i] = fr
            e.addSignal(EMGTrack(txt(label), lay_track(a, column_ok=True)), channel=ch)
        return e
    if kind == "FT":
        from basictdf.tdfForce3D import ForceTorque3D, ForceTorque3DBlockFormat, ForceTorqueTrack
        f = ForceTorque3D(frequency=v[1], nFrames=v[3], volume=f32a(v[4]), rotationMatrix=f32a(v[5], (3, 3)),
                          translationVector=f32a(v[6]), startTime=f32s(v[2]), format=ForceTorque3DBlockFormat(fmt))
        for label, frames in v[8]:
            a = frames_array(frames, 9)
            f.add_track(ForceTorqueTrack(txt(label), lay_track(np.ascontiguousarray(a[:, 0:3])),
                                         lay_track(np.ascontiguousarray(a[:, 3:6])), lay_track(np.ascontiguousarray(a[:, 6:9]))))
        return f
    if kind == "PD":
        from basictdf.tdfForcePlatformsData import (ForcePlatformBlockFormat, ForcePlatformData,
                                                    ForcePlatformsDataBlock)
        b = ForcePlatformsDataBlock(start_time=f32s(v[2]), frequency=v[1], n_frames=v[3],
                                    format=ForcePlatformBlockFormat(fmt))
        for ch, frames in zip(v[4], v[5]):
            a = frames_array(frames, 6)
            b.add_platform(ForcePlatformData(lay_track(np.ascontiguousarray(a[:, 0:2])), lay_track(np.ascontiguousarray(a[:, 2:5])),
                                             lay_track(np.ascontiguousarray(a[:, 5]))), channel=ch)
        return b
    if kind == "PC":
        from basictdf.tdfForcePlatformsCalibration import (ForcePlatformCalibrationBlockFormat,
                                                           ForcePlatformInfo,
                                                           ForcePlatformsCalibrationDataBlock)
        b = ForcePlatformsCalibrationDataBlock(format=ForcePlatformCalibrationBlockFormat(fmt), **kw)
        for ch, (label, size, pos, _pad) in zip(v[2], v[3]):
            b.add_platform(ForcePlatformInfo(txt(label), f32a(size), f32a(pos, (4, 3))), channel=ch)
        return b
    if kind == "D2":
        from basictdf.tdfData2D import Data2D, Data2DBlockFormat, Data2DFlags
        b = Data2D(nCams=v[0], nFrames=v[1], frequency=v[2], startTime=f32s(v[3]), flags=Data2DFlags(v[4]),
                   format=Data2DBlockFormat(fmt))
        b._camMap = list(v[5])
        data = np.empty((v[1], v[0]), dtype=object)
        for i, row in enumerate(v[6]):
            for j, cell in enumerate(row):
                if cell:
                    data[i, j] = f32a([x for p in cell for x in p], (len(cell), 2))
                else:
                    data[i, j] = None
        b.data = data
        return b
    if kind == "CA":
        from basictdf.tdfCalibrationData import (BTSCameraData, CalibrationDataBlock,
                                                 CalibrationDataBlockFormat, DistorsionModel,
                                                 SeelabCameraData)
        from basictdf.tdfTypes import CameraViewPort
        cams = []
        for c in v[6]:
            vp = CameraViewPort(lay(np.array(c[-1][0], dtype="<i4")), lay(np.array(c[-1][1], dtype="<i4")))
            if fmt == 1:
                cams.append(SeelabCameraData(f64a(c[0], (3, 3)), f64a(c[1]), f64a(c[2]), f64a(c[3]), f64a(c[4]),
                                             f64a(c[5]), f64a(c[6]), vp))
            else:
                cams.append(BTSCameraData(f64a(c[0], (3, 3)), f64a(c[1]), f64a(c[2]), f64a(c[3]), f64a(c[4]),
                                          f64a(c[5]), vp))
        return CalibrationDataBlock(DistorsionModel(v[1]), f32a(v[2]), f32a(v[3], (3, 3)), f32a(v[4]),
                                    lay(np.array(v[5], dtype="<i2")), cams, format=CalibrationDataBlockFormat(fmt), **kw)
    if kind == "OS":
        from basictdf.tdfOpticalSystem import OpticalChannelData, OpticalSetupBlock, OpticalSetupBlockFormat
        from basictdf.tdfTypes import CameraViewPort
        chs = [OpticalChannelData(c[0], txt(c[2]), txt(c[3]), txt(c[4]),
                                  CameraViewPort(lay(np.array(c[5][0], dtype="<i4")), lay(np.array(c[5][1], dtype="<i4"))))
               for c in v[2]]
        return OpticalSetupBlock(format=OpticalSetupBlockFormat(fmt), channels=chs, **kw)
    if kind == "EV":
        from basictdf.tdfEvents import Event, EventsDataType, TemporalEventsData, TemporalEventsDataFormat
        t = TemporalEventsData(format=TemporalEventsDataFormat(fmt), start_time=f32s(v[1]))
        t.events = [Event(txt(e[0]), f32a(e[3]), EventsDataType(e[1])) for e in v[2]]
        return t
    raise KeyError(kind)


# ------------------------------------------------------------------ object -> V
def frames_of(a, ncomp):
    a = np.ascontiguousarray(np.asarray(a, dtype="<f4")).reshape(-1, ncomp)
    u = a.view("<u4")
    nan = np.isnan(a).all(axis=1)
    return [[] if nan[i] else [int(x) for x in u[i]] for i in range(a.shape[0])]


def vp_of(vp):
    return [[int(x) for x in np.asarray(vp.origin).reshape(-1)], [int(x) for x in np.asarray(vp.size).reshape(-1)]]


def extract(kind, fmt, o):
    if kind == "D3":
        lk = []
        if fmt == 1:
            l = getattr(o, "links", [])
            lk = [len(l), [], [[int(a), int(b)] for a, b in l]]
        tracks = [[cps(t.label), frames_of(t.data, 3)] for t in o._tracks]
        return [int(o.nFrames), int(o.frequency), bits32(o.startTime)[0], len(o._tracks), bits32(o.volume),
                bits32(o.rotationMatrix), bits32(o.translationVector), int(o.flag.value), lk, tracks]
    if kind == "EM":
        sigs = []
        for s in o._signals:
            a = np.ascontiguousarray(np.asarray(s.data, dtype="<f4")).reshape(-1)
            u = a.view("<u4")
            sigs.append([cps(s.label), [[] if np.isnan(a[i]) else int(u[i]) for i in range(len(a))]])
        return [len(o._signals), int(o.frequency), bits32(o.startTime)[0], int(o.nSamples),
                [int(c) for c in o._emgMap], sigs]
    if kind == "FT":
        tracks = []
        for t in o._tracks:
            a = np.concatenate([np.asarray(t.application_point, dtype="<f4").reshape(-1, 3),
                                np.asarray(t.force, dtype="<f4").reshape(-1, 3),
                                np.asarray(t.torque, dtype="<f4").reshape(-1, 3)], axis=1)
            tracks.append([cps(t.label), frames_of(a, 9)])
        return [len(o._tracks), int(o.frequency), bits32(o.startTime)[0], int(o.nFrames), bits32(o.volume),
                bits32(o.rotationMatrix), bits32(o.translationVector), [], tracks]
    if kind == "PD":
        plats = []
        for p in o._platforms:
            a = np.concatenate([np.asarray(p.application_point, dtype="<f4").reshape(-1, 2),
                                np.asarray(p.force, dtype="<f4").reshape(-1, 3),
                                np.asarray(p.torque, dtype="<f4").reshape(-1, 1)], axis=1)
            plats.append(frames_of(a, 6))
        return [len(o._platforms), int(o.frequency), bits32(o.start_time)[0], int(o.n_frames),
                [int(c) for c in o._plat_map], plats]
    if kind == "PC":
        plats = [[cps(p.label), bits32(p.size), bits32(p.position), []] for p in o._platforms]
        return [len(o._platforms), [], [int(c) for c in o._platformMap], plats]
    if kind == "D2":
        data = []
        d = o._data.data
        for i in range(d.shape[0]):
            row = []
            for j in range(d.shape[1]):
                c = d[i, j]
                if c is None or len(c) == 0:
                    row.append([])
                else:
                    b = bits32(c)
                    row.append([[b[2 * k], b[2 * k + 1]] for k in range(len(b) // 2)])
            data.append(row)
        return [int(o.nCams), int(o.nFrames), int(o.frequency), bits32(o.startTime)[0], int(o.flags.value),
                [int(c) for c in o._camMap], data]
    if kind == "CA":
        cams = []
        for c in o.cam_data:
            if fmt == 1:
                cams.append([bits64(c.rotation_matrix), bits64(c.translation_vector), bits64(c.focus),
                             bits64(c.optical_center), bits64(c.radial_distortion), bits64(c.decentering),
                             bits64(c.thin_prism), vp_of(c.view_port)])
            else:
                cams.append([bits64(c.rotation_matrix), bits64(c.translation_vector), bits64(c.focus),
                             bits64(c.optical_center), bits64(c.x_distortion_coefficients),
                             bits64(c.y_distortion_coefficients), vp_of(c.view_port)])
        return [len(o.cam_data), int(o.distorsion_model), bits32(o.calibration_volume_size),
                bits32(o.calibration_volume_rotation_matrix), bits32(o.calibration_volume_translation_vector),
                [int(c) for c in np.asarray(o.cameras_calibration_map).reshape(-1)], cams]
    if kind == "OS":
        chs = [[int(c.logical_camera_index), [], cps(c.lens_name), cps(c.camera_type), cps(c.camera_name),
                vp_of(c.camera_viewport)] for c in o.channels]
        return [len(o.channels), [], chs]
    if kind == "EV":
        evs = [[cps(e.label), int(e.type.value), len(e.values), bits32(e.values)] for e in o.events]
        return [len(o.events), bits32(o.start_time)[0], evs]
    raise KeyError(kind)


# ------------------------------------------------------------------ implementation runners
def cls_of(kind):
    import basictdf.basictdf as B
    from basictdf.tdfBlock import BlockType
    return B._get_block_class(BlockType(TY[kind]))


def call_limit(nbytes):
    """seconds one encode / decode call of that many bytes may take: two minutes plus a minute per 4 MiB"""
    return 120 + 60 * (nbytes >> 22)


def impl_write(obj):
    from harness import common
    f = io.BytesIO()
    try:
        size = int(obj.nBytes)
    except Exception:
        size = 0
    with common.time_limit(call_limit(max(size, 0))):
        obj._write(f)
    return f.getvalue()


def impl_build(kind, fmt, data, trailer=b""):
    """returns (object, bytes consumed)"""
    from harness import common
    f = io.BytesIO(bytes(data) + trailer)
    with common.time_limit(call_limit(len(data))):
        o = cls_of(kind)._build(f, fmt)
    return o, f.tell()


def nontrivial(kind, v):
    """a block exercising at least one non-default branch: >=1 item and (a gap | a non-ASCII label | >=2 items)"""
    s = repr(v)
    items = v[0] if kind not in ("D3",) else v[3]
    return items >= 1 and ("[]" in s[1:] or items >= 2)


def describe(kind, fmt, v):
    s = repr(v)
    return "%s fmt=%d %s" % (kind, fmt, s if len(s) < 300 else s[:300] + "...")


# ------------------------------------------------------------------ blocks reached by editing in place
def perturb(kind, fmt, v, rng):
    """a second valid value of the same shape (same item and frame counts): other gap patterns, samples, labels,
    header scalars — what a caller produces by editing a block's arrays and attributes in place"""
    import copy
    w = copy.deepcopy(v)
    if kind in ("D3", "FT"):
        w[1] = rint(rng, *I32)
        w[2] = rf32(rng)
        w[4] = [rf32(rng) for _ in range(3)]
        key, ncomp = (9, 3) if kind == "D3" else (8, 9)
        n = w[0] if kind == "D3" else w[3]
        for t in w[key]:
            t[0] = rlabel(rng, 256)
            t[1] = rframes(rng, n, ncomp)
    elif kind == "EM":
        w[1] = rint(rng, *I32)
        for t in w[5]:
            t[0] = rlabel(rng, 256)
            t[1] = rframes(rng, w[3], 1, scalar=True)
    elif kind == "PD":
        w[5] = [rframes(rng, w[3], 6) for _ in w[5]]
    elif kind == "PC":
        for p in w[3]:
            p[0] = rlabel(rng, 256)
            p[1] = [rf32(rng) for _ in range(2)]
            p[2] = [rf32(rng) for _ in range(12)]
    elif kind == "EV":
        for e in w[2]:
            e[0] = rlabel(rng, 256)
            e[3] = [rf32(rng) for _ in e[3]]
    elif kind == "OS":
        for c in w[2]:
            c[2], c[4] = rlabel(rng, 32), rlabel(rng, 32)
            c[5] = [[rint(rng, *I32), rint(rng, *I32)], [rint(rng, *I32), rint(rng, *I32)]]
    elif kind == "CA":
        for c in w[6]:
            c[2] = [rf64(rng), rf64(rng)]
            c[-2] = [rf64(rng) for _ in c[-2]]
    elif kind == "D2":
        for row in w[6]:
            for j in range(len(row)):
                k = rng.choice((0, 0, 1, 2, len(row[j])))
                row[j] = [[rf32(rng), rf32(rng)] for _ in range(k)]
    return w


def warm(o):
    """everything a caller may have done with the object before editing it (sizes, encodings, comparisons, repr)"""
    try:
        o.nBytes
        impl_write(o)
        repr(o)
        o == o
        for x in o:
            repr(x)
            getattr(x, "nBytes", None)
    except Exception:
        pass


class _Arr:
    """arr[...] = value, skipping arrays numpy marks read-only (some decoded header fields)"""

    def __init__(self, a):
        self.a = a

    def __setitem__(self, key, value):
        try:
            self.a[key] = value
        except ValueError as e:
            if "read-only" not in str(e):
                raise


def apply_inplace(kind, fmt, o, w):
    """edit object o (built from a value of the same shape) IN PLACE towards w: arrays through slice assignment
    (read-only decoded arrays are left alone), strings and scalars through attribute assignment.  The content
    actually reached is extract(kind, fmt, o)."""
    if kind in ("D3", "FT"):
        o.frequency = w[1]
        o.startTime = f32s(w[2])
        _Arr(o.volume)[...] = f32a(w[4])
        key, ncomp = (9, 3) if kind == "D3" else (8, 9)
        for t, (label, frames) in zip(o._tracks, w[key]):
            t.label = txt(label)
            a = frames_array(frames, ncomp)
            if kind == "D3":
                _Arr(t.data)[...] = a
            else:
                _Arr(t.application_point)[...] = a[:, 0:3]
                _Arr(t.force)[...] = a[:, 3:6]
                _Arr(t.torque)[...] = a[:, 6:9]
    elif kind == "EM":
        o.frequency = w[1]
        for s, (label, frames) in zip(o._signals, w[5]):
            s.label = txt(label)
            a = np.full((len(frames),), NAN32, dtype="<f4")
            u = a.view("<u4")
            for i, fr in enumerate(frames):
                if fr != []:
                    u[i] = fr
            _Arr(s.data)[...] = a
    elif kind == "PD":
        for p, frames in zip(o._platforms, w[5]):
            a = frames_array(frames, 6)
            _Arr(p.application_point)[...] = a[:, 0:2]
            _Arr(p.force)[...] = a[:, 2:5]
            _Arr(p.torque)[...] = a[:, 5]
    elif kind == "PC":
        for p, (label, size, pos, _pad) in zip(o._platforms, w[3]):
            p.label = txt(label)
            _Arr(p.size)[...] = f32a(size)
            _Arr(p.position)[...] = f32a(pos, (4, 3))
    elif kind == "EV":
        for e, (label, k, n, vals) in zip(o.events, w[2]):
            e.label = txt(label)
            if n:
                _Arr(e.values)[...] = f32a(vals)
    elif kind == "OS":
        for c, cv in zip(o.channels, w[2]):
            c.lens_name, c.camera_name = txt(cv[2]), txt(cv[4])
            _Arr(c.camera_viewport.origin)[...] = cv[5][0]
            _Arr(c.camera_viewport.size)[...] = cv[5][1]
    elif kind == "CA":
        for c, cv in zip(o.cam_data, w[6]):
            _Arr(c.focus)[...] = f64a(cv[2])
            if fmt == 1:
                _Arr(c.thin_prism)[...] = f64a(cv[-2])
            else:
                _Arr(c.y_distortion_coefficients)[...] = f64a(cv[-2])
    elif kind == "D2":
        d = o._data.data
        for i, row in enumerate(w[6]):
            for j, cell in enumerate(row):
                d[i, j] = f32a([x for p in cell for x in p], (len(cell), 2)) if cell else None

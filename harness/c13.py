"""C13 — fixed-width text fields.  Correspondence between Str.v/Cp1252.v and
basictdf.tdfTypes.BTSString, plus a Python-only oracle for the property itself."""
import json

from harness import common
from harness.common import err_code


def impl_write(w, cps):
    from basictdf.tdfTypes import BTSString
    try:
        s = "".join(map(chr, cps))
        out = BTSString.write(w, s)
        return [0, list(out)]
    except Exception as e:
        return [err_code(e)]


def impl_read(w, bs):
    from basictdf.tdfTypes import BTSString
    try:
        s = BTSString.read(w, bytes(bs))
        return [0, [ord(c) for c in s]]
    except Exception as e:
        return [err_code(e)]


def impl_bwrite(w, cps):
    """through the stream interface: what lands in the stream, and nothing beyond"""
    import io
    from basictdf.tdfTypes import BTSString
    f = io.BytesIO()
    try:
        BTSString.bwrite(f, w, "".join(map(chr, cps)))
        return [0, list(f.getvalue())]
    except Exception as e:
        if f.getvalue():
            return [99, list(f.getvalue())]      # raised after writing something: never equal to the model
        return [err_code(e)]


def impl_bread(w, bs):
    import io
    from basictdf.tdfTypes import BTSString
    f = io.BytesIO(bytes(bs) + b"\xAA\xBB")
    try:
        s = BTSString.bread(f, w)
        if f.tell() != w:
            return [98, f.tell()]
        return [0, [ord(c) for c in s]]
    except Exception as e:
        return [err_code(e)]


# ---- the property itself, evaluated on the implementation alone (search oracle)
def cpython_encodable(cps):
    try:
        "".join(map(chr, cps)).encode("cp1252")
        return True
    except Exception:
        return False


def oracle_write(w, cps):
    """Returns None if C13 holds for this input on the implementation, else a description."""
    r = impl_write(w, cps)
    enc_ok = cpython_encodable(cps)
    fits = len(cps) < w
    if enc_ok and fits:
        if r[0] != 0:
            return "valid text refused (err %d)" % r[0]
        out = r[1]
        if len(out) != w:
            return "field is %d bytes, width %d" % (len(out), w)
        n = len(cps)
        if out[n] != 0 or any(b != 0 for b in out[n:]):
            return "not NUL-terminated / zero-padded"
        if 0 not in cps:
            back = impl_read(w, out)
            if back != [0, list(cps)]:
                return "does not read back: %r" % (back,)
        return None
    if r[0] == 0:
        return "invalid text accepted (%s)" % ("too long" if not fits else "not encodable")
    if r[0] != 1:
        return "refused with error %d, not ValueError" % r[0]
    return None


def oracle_read(w, bs):
    """read side: result depends only on bytes up to first NUL; equals cp1252 decoding of that prefix"""
    r = impl_read(w, bs)
    pre = bs[:bs.index(0)] if 0 in bs else bs
    try:
        want = [0, [ord(c) for c in bytes(pre).decode("cp1252")]]
    except Exception:
        want = [1]
    if r != want:
        return "read %r, expected %r" % (r, want)
    return None


CP_CHARS = None


def cp_chars():
    global CP_CHARS
    if CP_CHARS is None:
        CP_CHARS = []
        for b in range(1, 256):
            try:
                CP_CHARS.append(ord(bytes([b]).decode("cp1252")))
            except Exception:
                pass
    return CP_CHARS


MAGIC_PREFIXES = [(0xEF, 0xBB, 0xBF), (0xFF, 0xFE), (0xFE, 0xFF), (0xFF, 0xFE, 0x20AC), (0x2B, 0x2F, 0x76, 0x38),
                  (0x1B, 0x24, 0x42), (0x1F, 0x2039), (0xEF, 0xBB), (0xBF, 0xEF, 0xBB, 0xBF)]


def through_fields(chk):
    """the same contract through the real fixed-width fields of the format: the 256-byte comment of a table entry
    (TdfEntry._write / _build, and add_block + reopen), a 256-byte label inside a block (an event), a 32-byte camera
    name — for valid texts incl. the boundary lengths and the signature-like prefixes"""
    import datetime as _dt
    import io
    import os
    import tempfile
    import numpy as np
    from basictdf import Tdf
    from basictdf.basictdf import TdfEntry
    from basictdf.tdfBlock import BlockType
    from basictdf.tdfEvents import Event, EventsDataType, TemporalEventsData
    from basictdf.tdfOpticalSystem import OpticalChannelData, OpticalSetupBlock
    from basictdf.tdfTypes import CameraViewPort
    rng = common.rng_for(chk.seed, "C13fields")
    chars = cp_chars()
    texts = []
    for prefix in MAGIC_PREFIXES:
        for tailtxt in ([], [84, 114, 105, 97, 108, 32, 49], [71, 114, 0xF6, 0xDF, 101]):
            texts.append(list(prefix) + tailtxt)
    for _ in range(60 if chk.tier == "quick" else 600):
        n = rng.choice((0, 1, 5, 30, 31, 254, 255))
        texts.append([rng.choice(chars) for _ in range(n)])
    now = _dt.datetime.fromtimestamp(1_600_000_000)
    work = tempfile.mkdtemp(prefix="verif_c13f_")
    try:
        for k, t in enumerate(texts):
            s = "".join(map(chr, t))
            got = {}
            if len(t) <= 255:
                e = TdfEntry(BlockType.temporalEventsData, 1, 4096, 8, now, now, now, s)
                f = io.BytesIO()
                try:
                    e._write(f)
                    got["entry comment"] = TdfEntry._build(io.BytesIO(f.getvalue())).comment
                except Exception as x:
                    got["entry comment"] = "raised " + common.exc_info(x)
                ev = TemporalEventsData()
                ev.events = [Event(s, np.array([1.0], dtype="<f4"), EventsDataType.singleEvent)]
                f = io.BytesIO()
                try:
                    ev._write(f)
                    got["event label"] = TemporalEventsData._build(io.BytesIO(f.getvalue()), ev.format.value).events[0].label
                except Exception as x:
                    got["event label"] = "raised " + common.exc_info(x)
                if k % 4 == 0:
                    p = os.path.join(work, "c%d.tdf" % k)
                    try:
                        Tdf.new(p)
                        with Tdf(p).allow_write() as fh:
                            fh.add_block(ev, comment=s)
                        with Tdf(p) as fh:
                            got["comment after add_block and reopen"] = fh.entries[0].comment
                            got["label after add_block and reopen"] = fh.events.events[0].label
                    except Exception as x:
                        got["file"] = "raised " + common.exc_info(x)
            if len(t) <= 31:
                vp = CameraViewPort(np.array([0, 0], dtype="<i4"), np.array([4, 4], dtype="<i4"))
                osb = OpticalSetupBlock(channels=[OpticalChannelData(1, s, "type", s, vp)])
                f = io.BytesIO()
                try:
                    osb._write(f)
                    ch = OpticalSetupBlock._build(io.BytesIO(f.getvalue()), osb.format.value).channels[0]
                    got["camera name (32)"], got["lens name (32)"] = ch.camera_name, ch.lens_name
                except Exception as x:
                    got["camera name (32)"] = "raised " + common.exc_info(x)
            chk.note_case(("through fields", tuple(t)), any(c >= 128 for c in t) or len(t) >= 254)
            chk.count("text written and read back through real fields")
            bad = {where: g for where, g in got.items() if g != s}
            if bad:
                where, g = sorted(bad.items())[0]
                chk.violation("text %r (valid for the field) comes back as %r through the %s" % (s[:40], str(g)[:60], where),
                              {"text": t, "through": where, "got": [ord(c) for c in str(g)][:80]}, True)
                return
    finally:
        import shutil
        shutil.rmtree(work, ignore_errors=True)


def field_sites():
    """the real fixed-width text fields of the format, each as (name, width, encode(text) -> bytes, decode(bytes) -> text):
    a record that contains the field is written by the library with the given text, and read by the library's decoder
    of that record.  The second item is used where there are several, so that a field is not the first thing read."""
    import datetime as _dt
    import io
    import numpy as np
    from basictdf.basictdf import TdfEntry
    from basictdf.tdfBlock import BlockType
    from basictdf.tdfData3D import Data3D, Data3dBlockFormat, MarkerTrack
    from basictdf.tdfEMG import EMG, EMGTrack
    from basictdf.tdfEvents import Event, EventsDataType, TemporalEventsData
    from basictdf.tdfForce3D import ForceTorque3D, ForceTorqueTrack
    from basictdf.tdfForcePlatformsCalibration import ForcePlatformInfo, ForcePlatformsCalibrationDataBlock
    from basictdf.tdfOpticalSystem import OpticalChannelData, OpticalSetupBlock
    from basictdf.tdfTypes import CameraViewPort
    now = _dt.datetime.fromtimestamp(1_600_000_000)

    def enc(o):
        f = io.BytesIO()
        o._write(f)
        return f.getvalue()

    def f32(*shape):
        return np.arange(1, 1 + int(np.prod(shape)), dtype="<f4").reshape(shape)

    def d3(fmt):
        def make(t):
            d = Data3D(frequency=50, nFrames=3, volume=f32(3), rotationMatrix=f32(3, 3), translationVector=f32(3), format=fmt)
            d.add_track(MarkerTrack("first", f32(3, 3)))
            d.add_track(MarkerTrack(t, f32(3, 3)))
            return enc(d)
        return make, lambda b: Data3D._build(io.BytesIO(b), fmt.value)[1].label

    def em(t):
        e = EMG(frequency=1000, nSamples=4)
        e.addSignal(EMGTrack("first", f32(4)))
        e.addSignal(EMGTrack(t, f32(4)))
        return enc(e)

    def ft(t):
        b = ForceTorque3D(frequency=100, nFrames=2, volume=f32(3), rotationMatrix=f32(3, 3), translationVector=f32(3))
        b.add_track(ForceTorqueTrack("first", f32(2, 3), f32(2, 3), f32(2, 3)))
        b.add_track(ForceTorqueTrack(t, f32(2, 3), f32(2, 3), f32(2, 3)))
        return enc(b)

    def ev(t):
        b = TemporalEventsData()
        b.events = [Event("first", np.array([1.0, 2.0], dtype="<f4"), EventsDataType.eventSequence),
                    Event(t, np.array([3.0], dtype="<f4"), EventsDataType.singleEvent)]
        return enc(b)

    def pc(t):
        b = ForcePlatformsCalibrationDataBlock()
        b.add_platform(ForcePlatformInfo("first", f32(2), f32(4, 3)))
        b.add_platform(ForcePlatformInfo(t, f32(2), f32(4, 3)))
        return enc(b)

    def osb(which):
        def make(t):
            vp = CameraViewPort(np.array([0, 0], dtype="<i4"), np.array([4, 4], dtype="<i4"))
            names = ["lens", "type", "name"]
            names2 = list(names)
            names2[which] = t
            return enc(OpticalSetupBlock(channels=[OpticalChannelData(1, *names, vp), OpticalChannelData(2, *names2, vp)]))
        attr = ("lens_name", "camera_type", "camera_name")[which]
        return make, lambda b: getattr(OpticalSetupBlock._build(io.BytesIO(b), 1).channels[1], attr)

    sites = [("comment of a table entry", 256,
              lambda t: enc(TdfEntry(BlockType.temporalEventsData, 1, 4096, 8, now, now, now, t)),
              lambda b: TdfEntry._build(io.BytesIO(b)).comment),
             ("label of the second event", 256, ev, lambda b: TemporalEventsData._build(io.BytesIO(b), 1).events[1].label),
             ("label of the second EMG signal", 256, em, lambda b: EMG._build(io.BytesIO(b), 1)[1].label),
             ("label of the second force track", 256, ft, lambda b: ForceTorque3D._build(io.BytesIO(b), 1)[1].label),
             ("label of the second platform", 256, pc, lambda b: ForcePlatformsCalibrationDataBlock._build(io.BytesIO(b), 2)._platforms[1].label)]
    for fmt in (Data3dBlockFormat.byTrack, Data3dBlockFormat.byTrackWithoutLinks):
        mk, dc = d3(fmt)
        sites.append(("label of the second marker track (%s)" % fmt.name, 256, mk, dc))
    for which, nm in enumerate(("lens name", "camera type", "camera name")):
        mk, dc = osb(which)
        sites.append(("%s of the second optical channel" % nm, 32, mk, dc))
    return sites


def raw_fields(chk):
    """the read side through the decoders that own the fields: for ALL byte strings of the field width (junk behind the
    terminator, no terminator at all, bytes cp1252 cannot decode, an empty text) the decoder of the record returns what
    Str.v's read returns for the field — cut at the first NUL, cp1252 — or raises where the model refuses"""
    rng = common.rng_for(chk.seed, "C13raw")
    try:
        sites = field_sites()
    except Exception as e:
        chk.violation("a record with valid short labels cannot be built or written: " + common.exc_info(e), {"site": "field_sites"}, False)
        return
    chars = [bytes([b]) for b in range(1, 256)]
    for name, w, make, decode in sites:
        try:
            a, b = make("A" * (w - 1)), make("B" * (w - 1))
            diff = [i for i in range(min(len(a), len(b))) if a[i] != b[i]]
            ok = len(a) == len(b) and len(diff) == w - 1 and diff == list(range(diff[0], diff[0] + w - 1))
        except Exception as e:
            chk.violation("%s: a text of %d characters is refused: %s" % (name, w - 1, common.exc_info(e)), {"site": name}, False)
            return
        if not ok:
            chk.violation("%s: the field does not occupy %d consecutive bytes of the record" % (name, w), {"site": name}, False)
            return
        start = diff[0]
        # a text that is a str SUBCLASS instance (a str-Enum member, say) is written as the text it is
        from harness import api
        for t in ("c7", "caf\xe9 \u20ac", "x" * (w - 1)):
            chk.count("text given as an instance of a str subclass")
            try:
                back = decode(make(api.Named(t)))
            except Exception as e:
                back = "raised " + common.exc_info(e)
            if back != t:
                chk.violation("%s: the text %r given as an instance of a str subclass (whose str() differs) comes back as %r" % (name, t[:30], str.__str__(back)[:60] if isinstance(back, str) else back),
                              {"site": name, "text": [ord(c) for c in t], "given_as": "str subclass with its own __str__"}, True)
                return
        fields = []
        for text in (b"", b"x", b"Right Heel Strike", b"caf\xe9 \x80", b"y" * (w - 2), b"z" * (w - 1)):
            n = len(text)
            fields.append(text + b"\0" * (w - n))                                            # as the library writes it
            if n + 1 < w:
                fields.append(text + b"\0" + bytes(rng.choice((65, 0xFF, 0x81, 1)) for _ in range(w - n - 1)))   # junk behind the NUL
                fields.append(text + b"\0" + b"\0" * (w - n - 2) + b"t")                         # ... only in the very last byte
                fields.append(text + b"\0\0" + b"old label"[: max(0, w - n - 2)] + b"\0" * max(0, w - n - 11))
        fields.append(bytes(rng.randrange(1, 256) for _ in range(w)))                        # no terminator
        fields.append(b"ok\x81" + b"\0" * (w - 3))                                           # not decodable in front of the NUL
        fields.append(b"ok\0\x81" + b"\0" * (w - 4))                                         # ... behind it
        for _ in range(10 if chk.tier == "quick" else 200):
            n = rng.choice((0, 1, 2, w // 2, w - 2, w - 1))
            body = b"".join(rng.choice(chars) for _ in range(n))
            fields.append((body + b"\0" + bytes(rng.getrandbits(8) for _ in range(w)))[:w])
        want = common.run_model_sharded([(2, [w, list(fb)]) for fb in fields])
        for fb, m in zip(fields, want):
            rec = a[:start] + fb + a[start + w:]
            try:
                got = [0, [ord(c) for c in decode(rec)]]
            except Exception as e:
                got = [err_code(e)]
            chk.count("read through the decoder that owns the field: %s" % ("text" if got[0] == 0 else "refused"))
            chk.note_case(("raw field", name, fb), any(x >= 128 for x in fb) or 0 not in fb or any(fb[fb.index(0):]) )
            if got != m:
                pre = fb[:fb.index(0)] if 0 in fb else fb
                chk.violation("%s: the field bytes %r... read as %s, the text in the field is %r" % (
                    name, fb[:24], ("%r" % "".join(map(chr, got[1]))[:40]) if got[0] == 0 else "an error (%d)" % got[0], pre[:40]),
                    {"site": name, "width": w, "field": list(fb), "got": got, "model": m}, True)
                return


def gen_cases(chk):
    """Returns list of (kind, w, payload) with kind in {'w','r'}"""
    tier, seed = chk.tier, chk.seed
    rng = common.rng_for(seed, "C13")
    cases = []
    chars = cp_chars()
    # (a) every code point as a one-character string (quick: dense below 0x3000 + sample; thorough: all)
    if tier == "thorough":
        cps = range(0x110000)
    else:
        cps = list(range(0x3000)) + [0xD7FF, 0xD800, 0xDFFF, 0xE000, 0xFFFF, 0x10000, 0x10FFFF] + \
            [rng.randrange(0x3000, 0x110000) for _ in range(6000)]
    for c in cps:
        cases.append(("w", 2, [c]))
    chk.count("write:single code point", len(cases))
    # (b) every cp1252 character at every position, small widths; first/middle/last for 32, 256
    n0 = len(cases)
    for w in (1, 2, 3, 8):
        for L in range(0, w + 3):
            for pos in range(L):
                for c in chars if (w <= 3 or tier == "thorough") else chars[::5]:
                    s = [65] * L
                    s[pos] = c
                    cases.append(("w", w, s))
            cases.append(("w", w, [66] * L))
    for w in (32, 256):
        for L in (0, 1, w - 2, w - 1, w, w + 1, w + 3):
            for pos in sorted({0, L // 2, L - 1} - {-1}):
                if pos >= L:
                    continue
                for c in chars if tier == "thorough" else chars[::3]:
                    s = [97] * L
                    s[pos] = c
                    cases.append(("w", w, s))
            cases.append(("w", w, [98] * L))
    chk.count("write:every cp1252 char at positions", len(cases) - n0)
    # (c) embedded NUL, non-encodable at every position, lengths around the width
    n0 = len(cases)
    for w in (1, 2, 3, 8, 32, 256):
        for L in range(max(0, w - 3), w + 4):
            for bad in (0, 0x81, 0x100, 0x20AD, 0xD800, 0x1F600):
                for pos in sorted({0, L // 2, L - 1} - {-1}):
                    if pos < L:
                        s = [120] * L
                        s[pos] = bad
                        cases.append(("w", w, s))
    chk.count("write:NUL/non-encodable/boundary", len(cases) - n0)
    # (d) random strings
    n0 = len(cases)
    N = 3000 if tier == "quick" else 30000
    for _ in range(N):
        w = rng.choice((1, 2, 3, 4, 8, 16, 32, 256))
        L = rng.choice((0, 1, w - 1, w, w + 1, rng.randrange(0, w + 4)))
        L = max(0, L)
        p_bad = rng.choice((0, 0, 0, 0.02, 0.3))
        s = [rng.choice(chars) if rng.random() >= p_bad else rng.choice((0, 0x81, 0x8D, 0x100, 0x3B1, 0xFFFF, 0x10FFFF))
             for _ in range(L)]
        cases.append(("w", w, s))
    chk.count("write:random", len(cases) - n0)
    # (f) strings whose cp1252 bytes begin like a signature of another encoding (UTF-8 / UTF-16 / UTF-32 byte-order marks,
    #     UTF-7, ISO-2022 escapes, a gzip header): ordinary cp1252 text all the same
    n0 = len(cases)
    for w in (8, 32, 256):
        for prefix in MAGIC_PREFIXES:
            for tailtxt in ([], [84, 114, 105, 97, 108], [71, 114, 0xF6, 0xDF, 101]):
                cases.append(("w", w, list(prefix) + tailtxt))
                raw = list("".join(map(chr, list(prefix) + tailtxt)).encode("cp1252"))
                cases.append(("r", w, (raw + [0] * w)[:w]))
    chk.count("write/read:signature-like prefixes", len(cases) - n0)
    # (e) read side: every byte in 1- and 2-byte fields, every byte before/after a NUL, random fields
    n0 = len(cases)
    for b in range(256):
        cases.append(("r", 1, [b]))
        cases.append(("r", 2, [b, 0]))
        cases.append(("r", 2, [0, b]))
        cases.append(("r", 3, [65, b, 66]))
        cases.append(("r", 4, [65, 0, b, b]))
    M = 2500 if tier == "quick" else 25000
    for _ in range(M):
        w = rng.choice((1, 2, 3, 8, 32, 256))
        mode = rng.randrange(4)
        if mode == 0:
            bs = [rng.randrange(256) for _ in range(w)]
        elif mode == 1:
            bs = [rng.randrange(1, 256) for _ in range(w)]               # no terminator
        elif mode == 2:
            k = rng.randrange(w)
            bs = [rng.choice(range(32, 127)) for _ in range(k)] + [0] + [rng.randrange(256) for _ in range(w - k - 1)]
        else:
            k = rng.randrange(w)
            bs = [rng.randrange(1, 256) for _ in range(k)] + [0] + [rng.choice((0x81, 0x8D, 0xFF)) for _ in range(w - k - 1)]
        cases.append(("r", w, bs))
    chk.count("read", len(cases) - n0)
    return cases


def nontrivial(case):
    kind, w, p = case
    if kind == "w":
        return len(p) >= 1 and (any(c >= 128 for c in p) or len(p) >= w - 1)
    return any(b >= 128 for b in p) or 0 not in p


def evaluate(chk, cases):
    mcases = [((1 if k == "w" else 2), [w, p]) for (k, w, p) in cases]
    mres = common.run_model_sharded(mcases)
    dis = []
    for case, m in zip(cases, mres):
        k, w, p = case
        i1 = impl_write(w, p) if k == "w" else impl_read(w, p)
        i2 = impl_bwrite(w, p) if k == "w" else impl_bread(w, p)
        chk.note_case(case, nontrivial(case))
        chk.count("outcome:%s:%s" % (k, "ok" if i1[0] == 0 else "err%d" % i1[0]))
        if i1 != m or i2 != m:
            dis.append((case, i1, i2, m))
    return dis


def report(chk, dis):
    """disagreements -> search for a concrete failing input of C13 on the implementation"""
    found = 0
    for case, i1, i2, m in dis[:50]:
        k, w, p = case
        cands = [(k, w, p)]
        # neighbours: shorter versions and single characters
        if k == "w":
            cands += [(k, w, p[:i]) for i in range(len(p))] + [(k, w, [c]) for c in p]
        for (kk, ww, pp) in cands:
            why = oracle_write(ww, pp) if kk == "w" else oracle_read(ww, pp)
            if why is None and kk == "w":
                # stream interface must agree with the bytes interface
                if impl_bwrite(ww, pp) != impl_write(ww, pp):
                    why = "bwrite differs from write: %r" % (impl_bwrite(ww, pp),)
            if why is None and kk == "r":
                if impl_bread(ww, pp) != impl_read(ww, pp):
                    why = "bread differs from read: %r" % (impl_bread(ww, pp),)
            if why:
                chk.violation("BTSString.%s(%d, %r): %s" % ("write" if kk == "w" else "read", ww, pp[:40], why),
                              {"kind": kk, "width": ww, "payload": pp, "impl": i1, "model": m}, True)
                found += 1
                break
        if found >= 3:
            break
    if dis and not found:
        case, i1, i2, m = dis[0]
        chk.violation("correspondence Str.v <-> BTSString broke on %r: impl=%r/%r model=%r" % (case, i1, i2, m),
                      {"correspondence": "Model/Str.v vs tdfTypes.BTSString", "case": case,
                       "impl": i1, "impl_stream": i2, "model": m}, False)


def stateless(chk):
    """write and read are functions of their arguments: reading a field with another code page (the documented
    `encoding` parameter, e.g. to inspect a label written by a DOS tool) in between does not change what the ordinary
    read of the same bytes returns, in either order; and the parameter itself is honoured"""
    from basictdf.tdfTypes import BTSString
    rng = common.rng_for(chk.seed, "C13stateless")
    others = ["cp850", "latin-1", "cp1253", "cp437", "cp1251"]
    chars = cp_chars()
    for j in range(300 if chk.tier == "quick" else 3000):
        w = rng.choice((8, 32, 256, 3))
        n = rng.randrange(0, w)
        text = [rng.choice(chars) for _ in range(n)]
        if text:
            text[rng.randrange(n)] = rng.choice([c for c in chars if c >= 0x80])        # a character the code pages disagree on
        try:
            field = BTSString.write(w, "".join(map(chr, text)))
        except Exception:
            continue
        if j % 3 == 0:
            field = field[:n] + b"\x00" + bytes(rng.getrandbits(8) for _ in range(w - n - 1))  # foreign tail
        want = "".join(map(chr, text))
        enc = others[j % len(others)]
        order = j % 2
        seen = []
        try:
            if order == 0:
                seen.append(BTSString.read(w, field))
            try:
                alt = BTSString.read(w, field, encoding=enc)
            except Exception as e:
                alt = None
            import io
            try:
                BTSString.bread(io.BytesIO(field), w, encoding=enc)
            except Exception:
                pass
            seen.append(BTSString.read(w, field))
            seen.append(BTSString.bread(io.BytesIO(field), w))
            explicit = BTSString.read(w, field, encoding="windows-1252")
        except Exception as e:
            chk.violation("BTSString.read(%d, field of %r) raised %s around a read with encoding=%r" % (w, want[:30], common.exc_info(e), enc),
                          {"width": w, "text": text, "other_encoding": enc}, True)
            return
        chk.note_case(("stateless", w, tuple(text), enc, order), True)
        chk.count("read interleaved with another code page")
        found = None
        if any(x != want for x in seen) or explicit != want:
            found = "the ordinary read returns %r (written: %r) when the same field is also read with encoding=%r %s" % (
                [x for x in seen + [explicit] if x != want][0][:30], want[:30], enc, "before it" if order else "in between")
        elif alt is not None:
            raw = field[:field.index(b"\x00")] if b"\x00" in field else field
            try:
                ref = raw.decode(enc)
            except Exception:
                ref = None
            if ref is not None and alt != ref:
                found = "read(..., encoding=%r) returns %r, the bytes decode to %r in that code page" % (enc, alt[:30], ref[:30])
        if found:
            chk.violation("BTSString.read(%d, ...): %s" % (w, found), {"width": w, "text": text, "field": list(field), "other_encoding": enc}, True)
            return


def run(chk):
    chk.rule = ("write: every code point as 1-char string (thorough: all 0x110000; quick: <0x3000 + sample), every "
                "cp1252 char at every position for widths 1,2,3,8 and first/middle/last for 32,256, lengths 0..w+3, "
                "NUL / non-encodable at each position, random strings; read: every byte in small fields, random "
                "fields with/without terminator; non-trivial = contains a non-ASCII char or is within 1 of the width "
                "(write) / contains a byte >=128 or no NUL (read); each case run through BTSString.write/bwrite or "
                "read/bread and through the extracted Str.v; plus ordinary reads interleaved with reads of the same field through the `encoding` parameter (five other code pages), in both orders; texts beginning like a signature of another encoding (byte-order marks, escapes); and the same write / read-back through the real fields: entry comment, event label, 32-byte camera and lens names, add_block + reopen; and the read side through the decoders that own the fields (entry comment, event / EMG / force / marker / platform labels, the three 32-byte names of an optical channel): library-written records with the field's bytes replaced by terminated texts with junk behind the NUL, unterminated and undecodable fields, against Str.v's read")
    chk.assumptions = ["cp1252 table of the running CPython is the reference for 'encodable'"]
    cases = gen_cases(chk)
    dis = evaluate(chk, cases)
    # cross-check extraction against the kernel's evaluator on a small sample
    rng = common.rng_for(chk.seed, "C13coq")
    sample = [cases[rng.randrange(len(cases))] for _ in range(25)]
    sample = [c for c in sample if len(c[2]) <= 40]
    mc = [((1 if k == "w" else 2), [w, p]) for (k, w, p) in sample]
    if mc:
        a = common.run_model(mc)
        b = common.coq_eval_sample(mc)
        chk.extra["extraction_crosscheck"] = {"cases": len(mc), "equal": a == b}
        if a != b:
            chk.violation("extracted model differs from vm_compute", {"cases": mc, "ocaml": a, "coq": b}, False)
    report(chk, dis)
    stateless(chk)
    through_fields(chk)
    raw_fields(chk)
    chk.exhaustive = chk.tier == "thorough"


def replay(chk, path):
    d = json.load(open(path))
    r = d["replay"]
    case = (r["kind"], r["width"], r["payload"])
    dis = evaluate(chk, [case])
    report(chk, dis)
    chk.rule = "replay of " + path

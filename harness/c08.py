"""C08 — files are only modified inside an explicitly write-enabled context.
Call sequences over {allow_write, enter, exit, exit-by-exception} + 12 mutator requests + 14 readers, run on
a real Tdf object and on Access.v (op 39); observed after every call: raised? (mutators), file bytes
changed?, handler state, _inside_context."""
import hashlib
import itertools
import json
import os
import shutil

from harness import blocks, codec, common, container
from harness.container import T0, Clock, scripted_clock

CONTROL = ["allow_write", "enter", "exit", "exit_exn", "copy_switch", "clobber", "restore"]
MUTATORS = ["add_block", "add_block_dup", "remove_block", "remove_absent", "replace_block", "replace_equal", "set_equal",
            "set_data3D", "set_force_and_torque", "set_force_platforms_data", "set_events", "set_emg"]
READERS = ["blocks", "get_block_index", "get_block_type", "getitem", "data3D", "events", "emg", "has_data3D",
           "has_events", "len", "nBytes", "eq", "eq_unreadable", "iter_next", "repr", "copy"]
PLAIN = {"len", "nBytes", "copy"}
ALPHABET = CONTROL + MUTATORS + READERS


class Session:
    def __init__(self, work, rng, idx):
        from basictdf import Tdf
        self.path = os.path.join(work, "s%d.tdf" % idx)
        self.other = os.path.join(work, "o%d.tdf" % idx)
        self.work, self.idx, self.ncopy = work, idx, 0
        shutil.copyfile(os.path.join(work, "base.tdf"), self.path)
        shutil.copyfile(os.path.join(work, "base.tdf"), self.other)
        self.t = Tdf(self.path)
        self.t2 = Tdf(self.other)
        with self.t2:               # the right operand of == has been opened before: == then depends on self.t alone
            pass
        # a right operand whose file cannot be opened (not a TDF file / no longer there): the comparison raises
        self.unreadable = os.path.join(work, "o%d_unreadable.tdf" % idx)
        shutil.copyfile(os.path.join(work, "base.tdf"), self.unreadable)
        self.t3 = Tdf(self.unreadable)
        if idx % 2:
            open(self.unreadable, "wb").write(b"this is not a TDF file " * 20)
        else:
            os.unlink(self.unreadable)
        self.rng = rng
        self.iters = []              # half-consumed iterators over the object, kept alive
        self.saved = None            # the TDF bytes while the file is clobbered

    def sha(self):
        return hashlib.sha1(open(self.path, "rb").read()).hexdigest()

    def types(self):
        data = self.saved if self.saved is not None else open(self.path, "rb").read()
        return [e["type"] for e in codec.parse_tdf(data)["entries"] if e["type"] != 0]

    def handle_code(self):
        h = getattr(self.t, "handler", None)
        if h is None:
            return 0
        if h.closed:
            return 3
        return 2 if "+" in getattr(h, "mode", "rb") else 1           # (an in-memory stream has no mode: counts as read-only)

    def close(self):
        h = getattr(self.t, "handler", None)
        if h is not None and not h.closed:
            h.close()
        for f in os.listdir(self.work):
            if f.startswith("s%d" % self.idx) or f.startswith("o%d" % self.idx) or f.startswith("c%d_" % self.idx):
                os.unlink(os.path.join(self.work, f))


SPECS = {}


def spec(kind, j=1):
    return SPECS[(kind, j)].build()


def perform(sess, name):
    """returns (model call, raised?)"""
    from basictdf.tdfBlock import BlockType
    t = sess.t
    present = sess.types()
    mcall, thunk = None, None
    if name == "allow_write":
        mcall, thunk = [1], lambda: t.allow_write()
    elif name == "enter":
        mcall, thunk = [2], lambda: t.__enter__()
    elif name == "exit":
        mcall, thunk = [3], lambda: t.__exit__(None, None, None)
    elif name == "exit_exn":
        mcall, thunk = [4], lambda: t.__exit__(ValueError, ValueError("boom"), None)
    elif name in ("clobber", "restore"):
        # not a call on the object: somebody else replaces the file by non-TDF bytes / puts the TDF file back
        mcall = [8] if name == "clobber" else [9]

        def thunk():
            if name == "clobber" and sess.saved is None:
                sess.saved = open(sess.path, "rb").read()
                open(sess.path, "wb").write(b"this is not a TDF file " * (1 + sess.rng.randrange(300)))
            elif name == "restore" and sess.saved is not None:
                open(sess.path, "wb").write(sess.saved)
                sess.saved = None
    elif name == "copy_switch":
        # t = t.copy(path): the session goes on with the object copy() returned (and with the copied file)
        sess.ncopy += 1
        dst = os.path.join(sess.work, "s%d_copy%d.tdf" % (sess.idx, sess.ncopy))
        mcall = [7]

        def thunk():
            new = t.copy(dst)
            h = getattr(t, "handler", None)          # tidy up the object left behind (not part of the observation)
            if h is not None and not h.closed:
                h.close()
            sess.t, sess.path = new, dst
    elif name == "add_block":
        k = next((k for k in ("FT", "OS", "PC", "CA", "D2", "PD", "EM", "D3", "EV") if blocks.TY[k] not in present), None)
        if k is None:
            mcall, thunk = [5, 0, 0], lambda: t.add_block(spec("EV"))
        else:
            mcall, thunk = [5, 0, 1], lambda: t.add_block(spec(k), "c8")
    elif name == "add_block_dup":
        k = next((k for k in blocks.KINDS if blocks.TY[k] in present), None)
        mcall = [5, 0, 0 if k else 1]
        thunk = lambda: t.add_block(spec(k or "EV"))
    elif name == "remove_block":
        ty = next((x for x in present), None)
        mcall = [5, 0, 1 if ty is not None else 0]
        thunk = lambda: t.remove_block(BlockType(ty if ty is not None else 16))
    elif name == "remove_absent":
        ty = next(x for x in (13, 14, 15, 1, 3) if x not in present)
        mcall, thunk = [5, 0, 0], lambda: t.remove_block(BlockType(ty))
    elif name == "replace_block":
        k = next((k for k in blocks.KINDS if blocks.TY[k] in present), None)
        mcall = [5, 0, 1 if k else 0]
        thunk = lambda: t.replace_block(spec(k or "EV", 0))
    elif name in ("replace_equal", "set_equal"):
        # a request that changes nothing in the block's content (the block read from the file, handed back): it is
        # still a mutation — it needs a write context, and it rewrites the entry's dates
        ev = blocks.TY["EV"] in present
        mcall = [5, 0 if name == "replace_equal" else 2, 1 if ev else (0 if name == "replace_equal" else 1)]
        same = SPECS[("EV", 1)].build()
        if name == "replace_equal":
            thunk = lambda: t.replace_block(same)
        else:
            thunk = lambda: setattr(t, "events", same)
    elif name.startswith("set_"):
        attr = name[4:]
        kind = {"data3D": "D3", "force_and_torque": "FT", "force_platforms_data": "PD", "events": "EV", "emg": "EM"}[attr]
        mcall = [5, 1 if attr == "data3D" else 2, 1]
        thunk = lambda: setattr(t, attr, spec(kind, 0))
    else:
        kindcode = 1 if name in PLAIN else 2 if name == "eq" else 3 if name == "eq_unreadable" else 0
        mcall = [6, kindcode]
        if name == "blocks":
            thunk = lambda: t.blocks
        elif name == "get_block_index":
            thunk = lambda: t.get_block(0)
        elif name == "get_block_type":
            thunk = lambda: t.get_block(BlockType.temporalEventsData)
        elif name == "getitem":
            thunk = lambda: t[BlockType.data3D]
        elif name in ("data3D", "events", "emg", "has_data3D", "has_events", "nBytes"):
            thunk = lambda: getattr(t, name)
        elif name == "len":
            thunk = lambda: len(t)
        elif name == "eq":
            thunk = lambda: t == sess.t2
        elif name == "eq_unreadable":
            thunk = lambda: t == sess.t3
        elif name == "iter_next":
            # a loop over the object that is left half-way, the iterator kept alive:  it = iter(t); next(it)
            def thunk():
                it = iter(t)
                sess.iters.append(it)
                next(it)
        elif name == "repr":
            thunk = lambda: repr(t)
        elif name == "copy":
            sess.ncopy += 1
            dst = os.path.join(sess.work, "c%d_%d.tdf" % (sess.idx, sess.ncopy))
            thunk = lambda: t.copy(dst)
    try:
        thunk()
        return mcall, False, None
    except Exception as e:
        return mcall, True, common.exc_info(e)


def track(inside, valid, name):
    """(inside, valid) after the call, as the property text has it: a context is only entered on a TDF file"""
    if name == "clobber":
        return inside, False
    if name == "restore":
        return inside, True
    if name == "enter":
        return valid, valid
    if name in ("exit", "exit_exn", "copy_switch"):
        return False, valid
    return inside, valid


def enabled(inside, name, depth=None):
    """with-blocks on the one object may be nested (depth = number of with-blocks currently open); the environment does
    not swap the file while the object holds an open handle"""
    if depth is None:
        depth = 1 if inside else 0
    if name in ("clobber", "restore"):
        return not inside
    if name in ("exit", "exit_exn"):
        return depth > 0
    return True


def track_depth(depth, valid, name):
    if name == "enter" and valid:
        return depth + 1
    if name in ("exit", "exit_exn"):
        return depth - 1
    if name == "copy_switch":
        return 0
    return depth


def run_sequence(chk, work, rng, idx, seq):
    """returns (records, model calls) ; record = (name, raised, changed, handle, inside, exc)"""
    sess = Session(work, rng, idx)
    recs, mcalls = [], []
    try:
        with scripted_clock():
            for j, name in enumerate(seq):
                Clock.now = T0 + 100 + j
                before = sess.sha()
                mcall, raised, exc = perform(sess, name)
                after = sess.sha()
                other_ok = hashlib.sha1(open(sess.other, "rb").read()).hexdigest() == SPECS["base_sha"]
                recs.append((name, raised, before != after, sess.handle_code(), bool(sess.t._inside_context), exc, other_ok))
                mcalls.append(mcall)
    finally:
        sess.close()
    return recs, mcalls


def well_bracketed(seq, inside0=False):
    inside, valid, depth = inside0, True, 1 if inside0 else 0
    for name in seq:
        if not enabled(inside, name, depth):
            return False
        depth = track_depth(depth, valid, name)
        inside, valid = track(inside, valid, name)
    return True


def judge(chk, seq, recs, mres):
    disk = 0
    diverged = False
    write_ctx = False        # harness-side reference of "inside a context entered after allow_write"
    allowed = False
    inside = False
    valid = True             # the file is a TDF file (clobber / restore)
    for j, (rec, m) in enumerate(zip(recs, mres)):
        name, raised, changed, hcode, ins, exc, other_ok = rec
        what = {"sequence": seq, "step": j, "call": name, "exception": exc}
        in_wctx = inside and write_ctx
        # ---- oracle on the implementation alone
        found = None
        auto_reader = name in READERS and name not in PLAIN
        if name in ("clobber", "restore"):
            pass                      # somebody else's write, not the object's
        elif not valid and not inside and (name == "enter" or auto_reader) and not raised:
            found = "the file is not a TDF file, yet %s did not raise" % name
        elif not valid and not inside and (name == "enter" or auto_reader) and (ins or hcode in (1, 2)):
            found = "%s was refused (not a TDF file) but left the object %s" % (name, "inside a context" if ins else "with an open handle")
        elif changed and not (name in MUTATORS and in_wctx):
            found = "the file's bytes changed by %s %s" % (name, "outside a write-enabled context" if name in MUTATORS else "(not a mutator)")
        elif name in MUTATORS and not in_wctx and not raised:
            found = "%s did not raise outside a write-enabled context" % name
        elif not other_ok:
            found = "the other file (right operand of ==) changed"
        elif name in READERS and not inside and hcode in (1, 2):
            found = "%s left an implicitly opened handle open" % name
        if found:
            chk.violation("C08: %s [after %r]" % (found, seq[:j]), what, True)
            return
        # ---- correspondence with Access.v
        mraised, mdisk, mh, mins = bool(m[0]), m[1], m[2], bool(m[3])
        mchanged = mdisk != disk
        disk = mdisk
        diff = None
        if (name in MUTATORS or name == "enter" or (mraised and not raised)) and raised != mraised:
            diff = "raised=%r, Access.a_step says %r (%s)" % (raised, mraised, exc)
        elif name in ("clobber", "restore"):
            pass
        elif changed != mchanged:
            diff = "bytes changed=%r, Access.a_step says %r" % (changed, mchanged)
        elif hcode != mh:
            diff = "handler state %d, Access.a_step says %d" % (hcode, mh)
        elif ins != mins:
            diff = "_inside_context=%r, Access.a_step says %r" % (ins, mins)
        if diff and not diverged:
            chk.violation("C08: correspondence broken at %s: %s [after %r]" % (name, diff, seq[:j]),
                          dict(what, correspondence="coq/Model/Access.v a_step"), False)
            diverged = True         # keep judging the rest of the sequence with the oracle alone
        # reference bookkeeping (independent of the model: straight from the property text)
        if name == "allow_write":
            allowed = True
        elif name == "clobber":
            valid = False
        elif name == "restore":
            valid = True
        elif name == "enter" and not valid:
            inside, write_ctx, allowed = False, False, False         # refused: the context is left again, permission gone
        elif name == "enter":
            inside, write_ctx = True, allowed
        elif name in ("exit", "exit_exn", "copy_switch"):
            inside, write_ctx, allowed = False, False, False          # the object copy() returns starts from scratch
        elif name in READERS and name not in PLAIN and not inside:
            allowed = False          # the implicit context consumed the permission when it exited


def run(chk):
    from basictdf import Tdf
    rng = common.rng_for(chk.seed, "C08")
    work = os.path.join(chk.work, "c08")
    os.makedirs(work, exist_ok=True)
    base = os.path.join(work, "base.tdf")
    for k in blocks.KINDS:
        for j in (0, 1):
            SPECS[(k, j)] = container.small_block(k, rng, 1)
    with scripted_clock():
        Clock.now = T0
        Tdf.new(base)
        with Tdf(base).allow_write() as f:
            f.add_block(spec("EV"), "initial events")
    SPECS["base_sha"] = hashlib.sha1(open(base, "rb").read()).hexdigest()
    prefixes = [[], ["allow_write"], ["enter"], ["allow_write", "enter"], ["allow_write", "enter", "exit", "enter"],
                ["allow_write", "enter", "exit_exn"], ["allow_write", "enter", "exit_exn", "enter"], ["enter", "allow_write"],
                ["allow_write", "has_events"], ["allow_write", "enter", "add_block", "exit"],
                ["allow_write", "copy_switch"], ["allow_write", "enter", "copy_switch"], ["allow_write", "enter", "add_block", "copy_switch", "enter"],
                ["enter", "allow_write", "enter", "exit"], ["allow_write", "enter", "enter", "exit"], ["enter", "allow_write", "enter", "exit", "enter"],
                ["clobber"], ["enter", "exit", "clobber"], ["allow_write", "clobber", "enter"], ["clobber", "has_events", "restore"],
                ["allow_write", "clobber", "blocks", "restore", "enter"]]
    L = 2 if chk.tier == "quick" else 3
    seqs = []
    for p in prefixes:
        for l in range(1, L + 1):
            for tail in itertools.product(ALPHABET, repeat=l):
                if L == 3 and l == 3 and rng.random() < 0.75:
                    continue
                s = p + list(tail)
                if well_bracketed(s):
                    seqs.append(s)
    nrand = 300 if chk.tier == "quick" else 4000
    for _ in range(nrand):
        s, inside, valid, depth = [], False, True, 0
        for _ in range(rng.randrange(3, 13)):
            r = rng.random()
            if r < 0.35:
                name = rng.choice([c for c in CONTROL if enabled(inside, c, depth)])
            elif r < 0.7:
                name = rng.choice(MUTATORS)
            else:
                name = rng.choice(READERS)
            s.append(name)
            depth = track_depth(depth, valid, name)
            inside, valid = track(inside, valid, name)
        seqs.append(s)
    chk.extra["exhaustive_tail_length"] = L
    chk.extra["prefix_modes"] = len(prefixes)
    chk.rule = ("call sequences on a Tdf object over a file holding one block: every tail of length <= L (stated in "
                "exhaustive_tail_length) over the 35-call alphabet {allow_write, enter, exit, exit-by-exception, continue with the object copy() returns, somebody replaces the file by non-TDF bytes / puts it back (only while no context is open)} + 12 mutator "
                "requests (add valid/duplicate, remove present/absent, replace with another / with equal content, the five setters, a setter with equal content) + 16 readers (incl. == with an operand whose file cannot be opened, and a loop over the object left half-way with its iterator kept alive), after each of 21 "
                "prefix modes (no context; allow_write only; read-only context; write context; re-entered after a write context; "
                "after exit by exception; re-entered after that; allow_write inside a read-only context; allow_write consumed by "
                "a reader; after a successful write session; on a copy taken with the permission pending, taken inside a write context, and entered after that; with-blocks nested on the one object (a write block inside a read block and left again; a read block inside a write block; a third block opened after that); with the file clobbered — before any context, after one, with the permission pending, after a refused reader and restored, after a refused reader, restored and entered), plus random sequences of 3-12 calls; observed after each call: "
                "raised? (mutators), bytes changed?, handler state, _inside_context, the == operand's file; non-trivial = contains "
                "a mutator")
    results = []
    BATCH = 1500
    for k in range(0, len(seqs), BATCH):
        chunk = seqs[k:k + BATCH]
        runs = [run_sequence(chk, work, rng, k + i, s) for i, s in enumerate(chunk)]
        mres = common.run_model_sharded([(39, mc) for _, mc in runs])
        for s, (recs, mc), m in zip(chunk, runs, mres):
            chk.note_case(tuple(s), any(n in MUTATORS for n in s))
            chk.count("length %d" % min(len(s), 8))
            for rec in recs:
                if rec[0] in MUTATORS:
                    chk.count("mutator %s" % ("raised" if rec[1] else "changed" if rec[2] else "no-op"))
            judge(chk, s, recs, m[1])
            if chk.n_found() >= 3:
                return


def replay(chk, path):
    d = json.load(open(path))["replay"]
    run(chk)
    chk.rule = "replay (re-runs the seeded sequences; the recorded one was %r)" % (d.get("sequence"),)

import argparse
import importlib
import os
import sys
import traceback

from harness import common


def main():
    # a broken implementation may decode garbage counts and try to allocate without bound:
    # turn that into MemoryError inside this process instead of exhausting the machine
    import resource
    lim = int(os.environ.get("VERIF_MEM_GB", "16")) << 30
    try:
        resource.setrlimit(resource.RLIMIT_AS, (lim, resource.RLIM_INFINITY))
    except Exception:
        pass
    ap = argparse.ArgumentParser()
    ap.add_argument("pid")
    ap.add_argument("--tier", default=os.environ.get("VERIF_TIER", "quick"))
    ap.add_argument("--replay", default=None)
    a = ap.parse_args()
    tier = a.tier if a.tier in ("quick", "thorough") else "quick"
    seed = int(os.environ.get("VERIF_SEED", "1") or "1")
    if a.replay:
        # a replay re-creates the run that produced the file: same seed, same tier
        try:
            import json
            rj = json.load(open(a.replay))
            seed = int(rj.get("seed", seed))
            tier = rj.get("tier", tier) if rj.get("tier") in ("quick", "thorough") else tier
        except Exception:
            pass
    pid = a.pid.upper()
    chk = common.Check(pid, tier, seed)
    try:
        okb, log = common.build_model()
        if not okb:
            chk.violation("model build failed: " + log[-1500:], {"stage": "build"}, found_input=False)
            chk.rule = "model build failed"
            sys.exit(chk.finish())
        chk.coq = common.check_theorems(pid)
        if not chk.coq["ok"]:
            chk.violation("theorem file Properties/%s.v does not check: %s" % (pid, chk.coq["log"][-1200:]),
                          {"theorem_file": "coq/Properties/%s.v" % pid, "log": chk.coq["log"][-3000:]},
                          found_input=False)
        mod = importlib.import_module("harness." + pid.lower())
        try:
            import basictdf  # noqa: F401  (the implementation under test, from /repo/src)
        except Exception as e:
            chk.violation("implementation does not import: " + common.exc_info(e),
                          {"stage": "import", "traceback": traceback.format_exc()}, found_input=False)
            sys.exit(chk.finish())
        if a.replay:
            mod.replay(chk, a.replay)
        else:
            mod.run(chk)
    except SystemExit:
        raise
    except common.EnoughFound:
        chk.extra["stopped_early"] = "%d failing inputs found" % chk.n_found()
    except Exception as e:
        chk.violation("harness error: " + common.exc_info(e),
                      {"traceback": traceback.format_exc()}, found_input=False)
    sys.exit(chk.finish())


if __name__ == "__main__":
    main()

"""C15 — channel numbers stay attached to their items through edits.
Edit sequences on EMG, platform-calibration and platform-data blocks from three origins (new, constructor-filled,
decoded from bytes), each followed by encode + decode; compared with BlockAPI.v part 3 (op 43)."""
import io
import itertools
import json
import struct

import numpy as np

from harness import api, common
from harness.api import cps

KCODE = {"EM": 0, "PC": 1, "PD": 2}
NS = 3            # samples / frames of every item
ERRNAME = {1: "ValueError", 2: "TypeError", 3: "KeyError", 4: "IndexError"}


class World:
    """item factory with stable content ids (equal content <-> equal id, as the model's ieq_id assumes)"""

    def __init__(self, kind):
        self.kind = kind
        self.reg = {}          # id(python object) -> model obj
        self.keep = []

    def item(self, label, salt):
        k = self.kind
        base = float(salt)
        if k == "EM":
            from basictdf.tdfEMG import EMGTrack
            o = EMGTrack(label, np.arange(NS, dtype="<f4") + base)
        elif k == "PC":
            from basictdf.tdfForcePlatformsCalibration import ForcePlatformInfo
            o = ForcePlatformInfo(label, np.array([1.0 + base, 2.0], dtype="<f4"), np.zeros((4, 3), dtype="<f4") + base)
        else:
            from basictdf.tdfForcePlatformsData import ForcePlatformData
            o = ForcePlatformData(np.zeros((NS, 2), dtype="<f4") + base, np.ones((NS, 3), dtype="<f4") + base,
                                  np.zeros((NS,), dtype="<f4") + base)
            label = ""
        cid = 1000 * (abs(hash(label)) % 997) + salt if k != "PD" else salt
        self.reg[id(o)] = [0, cid, cps(label), NS]
        self.keep.append(o)
        return o, self.reg[id(o)]

    def other(self):
        o = api.make_item("D3", "zz", NS)
        self.keep.append(o)
        return o, [4, 1]

    def model_of(self, o):
        return self.reg.get(id(o), [4, 9])


def new_block(kind):
    if kind == "EM":
        from basictdf.tdfEMG import EMG
        return EMG(1000, NS)
    if kind == "PC":
        from basictdf.tdfForcePlatformsCalibration import ForcePlatformsCalibrationDataBlock
        return ForcePlatformsCalibrationDataBlock()
    from basictdf.tdfForcePlatformsData import ForcePlatformsDataBlock
    return ForcePlatformsDataBlock(0.0, 100, NS)


def state_of(kind, b):
    """(channel list, item object list) as the block holds them, plus what the public view yields"""
    if kind == "EM":
        return [int(c) for c in b._emgMap], list(b._signals), [(None, s) for s in b]
    if kind == "PC":
        return [int(c) for c in b._platformMap], list(b._platforms), [(int(c), p) for c, p in b.platforms]
    return [int(c) for c in b._plat_map], list(b._platforms), [(int(c), p) for c, p in b]


def encode_map(kind, b):
    """the channel numbers as they appear in the encoded bytes, the declared item count, and the decoded pairs"""
    f = io.BytesIO()
    b._write(f)
    raw = f.getvalue()
    if kind == "EM":
        n = struct.unpack_from("<i", raw, 0)[0]
        m = list(struct.unpack_from("<%dh" % n, raw, 16))
    elif kind == "PC":
        n = struct.unpack_from("<i", raw, 0)[0]
        m = list(struct.unpack_from("<%dh" % n, raw, 8))
    else:
        n = struct.unpack_from("<i", raw, 0)[0]
        m = list(struct.unpack_from("<%dH" % n, raw, 16))
    cls = type(b)
    fmt = b.format.value
    o = cls._build(io.BytesIO(raw), fmt)
    return n, m, o, len(raw), int(b.nBytes)


def start_block(kind, origin, world, rng):
    """returns (block, model map, model items)"""
    n0 = rng.choice([0, 1, 2, 3])
    pool = [0, 1, 2, 3, 7, 9]
    if rng.random() < 0.2:            # maps that already hold the highest / lowest channel the 16-bit field can store
        pool = pool[:3] + list(edge_channels(kind)[:3])
    chans = rng.sample(pool, n0)
    items = [world.item(rng.choice(["a", "b", "a", ""]), rng.randrange(3)) for _ in range(n0)]
    b = new_block(kind)
    if origin == "new":
        return b, [], []
    if origin == "ctor":          # only platform calibration takes items in its constructor
        from basictdf.tdfForcePlatformsCalibration import ForcePlatformsCalibrationDataBlock
        world.given = [o for o, _ in items]               # the caller's own list: he may go on using it
        b = ForcePlatformsCalibrationDataBlock(platforms=world.given)
        return b, None, [m for _, m in items]             # channels: whatever the constructor assigns (checked by the oracle)
    for (o, m), c in zip(items, chans):
        if kind == "EM":
            b.addSignal(o, channel=c)
        else:
            b.add_platform(o, channel=c)
    if origin == "filled":
        return b, list(chans), [m for _, m in items]
    # decoded: through the bytes
    n, mm, o2, _, _ = encode_map(kind, b)
    its = state_of(kind, o2)[1]
    for it, (_, m) in zip(its, items):
        world.reg[id(it)] = m
        world.keep.append(it)
    return o2, list(chans), [m for _, m in items]


LO = {"EM": -32768, "PC": -32768, "PD": 0}
HI = {"EM": 32767, "PC": 32767, "PD": 65535}


def edge_channels(kind):
    """(in range..., out of range...) around the ends of the 16-bit channel field: int16 for EMG and platform
    calibration, uint16 for platform data"""
    if kind == "PD":
        return (65535, 65534, 32768, 65536, -1, 70000)
    return (32767, 32766, -32768, 32768, -32769, 40000)


def pick_channel(kind, rng, cur_map):
    if rng.random() < 0.15:
        return rng.choice(edge_channels(kind))
    return rng.choice([0, 1, 2, 3, 7, 9] + (cur_map[:2] if cur_map else []))


def gen_call(kind, world, rng, cur_map, cur_items):
    """returns (model call(s), thunk builder)"""
    r = rng.random()
    lab = rng.choice(["a", "b", "", "zz"])
    if r < 0.30:
        o, m = world.item(lab, rng.randrange(3))
        return ("add_auto", o, m, None)
    if r < 0.55:
        o, m = world.item(lab, rng.randrange(3))
        c = pick_channel(kind, rng, cur_map)
        # a channel number is a number: a quarter of them arrive as numpy integers (what a decoded block's own map holds)
        return ("add_explicit", o, m, c, rng.choice(("int", "int", "int", "np")))
    if r < 0.60:
        o, m = world.other()
        return ("add_auto", o, m, None) if rng.random() < 0.5 else ("add_explicit", o, m, 5)
    if kind == "EM":
        return ("remove_label", lab)
    if kind == "PC":
        q = rng.random()
        n = len(cur_items)
        if q < 0.35:
            return ("remove_index", rng.randrange(-n - 2, n + 3))
        if q < 0.5:
            if cur_items and rng.random() < 0.7:
                return ("remove_item", rng.choice(cur_items))
            o, m = world.item("nobody", 9)
            return ("remove_item", o)
        if q < 0.56 and cur_items:
            # the block's own (channel, platform) pairs, filtered / reordered, assigned back:  b.platforms = [(c, p) for ...]
            return ("reassign_own_pairs", rng.randrange(0, n + 1), rng.random() < 0.3)
        if q < 0.6:                                    # remove_platforms: a list of platform objects and indices
            keys = []
            for _ in range(rng.randrange(0, 4)):
                if cur_items and rng.random() < 0.5:
                    keys.append(rng.choice(cur_items))
                elif rng.random() < 0.8:
                    keys.append(rng.randrange(-n - 1, n + 2))
                else:
                    keys.append(world.item("nobody", 9)[0])
            return ("remove_many", keys)
        k = rng.randrange(0, 3)
        objs = [world.item(rng.choice(["a", "b"]), rng.randrange(3)) for _ in range(k)]
        if objs and rng.random() < 0.25:
            objs[rng.randrange(len(objs))] = world.other()          # an element of the wrong kind inside a bulk call
        if q < 0.8:
            # the two lists of a bulk add need not be equally long: the surplus of either is ignored
            chs = None if rng.random() < 0.5 else [pick_channel(kind, rng, []) for _ in range(max(0, k + rng.choice((0, 0, -1, 1, 3))))]
            return ("add_many", objs, chs)
        return ("assign_pairs", objs, [pick_channel(kind, rng, []) for _ in range(k)])
    k = rng.randrange(0, 4)
    objs = [world.item("", rng.randrange(3)) for _ in range(k)]
    if objs and rng.random() < 0.35:
        objs[rng.randrange(len(objs))] = world.other()
    return ("assign_items", objs)


def perform(kind, b, call):
    """runs the call; returns (model calls, exception name or None)"""
    name = call[0]
    mcalls = []
    try:
        if name == "add_auto":
            mcalls = [[1, call[2], []]]
            (b.addSignal if kind == "EM" else b.add_platform)(call[1])
        elif name == "add_explicit":
            mcalls = [[1, call[2], [call[3]]]]
            ch = call[3]
            if len(call) > 4 and call[4] == "np":
                import numpy as np
                ch = np.int16(ch) if -32768 <= ch <= 32767 else np.int64(ch)
            if kind == "EM":
                b.addSignal(call[1], channel=ch)
            else:
                b.add_platform(call[1], channel=ch)
        elif name == "reassign_own_pairs":
            pairs = list(b.platforms)
            kept = [pr for i, pr in enumerate(pairs) if i != call[1]]
            if call[2]:
                kept.reverse()
            mcalls = [[6, [[WORLD.model_of(p_), [int(c_)]] for c_, p_ in kept]]]
            b.platforms = kept
        elif name == "remove_label":
            mcalls = [[2, cps(call[1])]]
            b.removeSignal(call[1])
        elif name == "remove_index":
            mcalls = [[3, call[1]]]
            b.remove_platform(call[1])
        elif name == "remove_item":
            mcalls = [[4, WORLD.model_of(call[1])]]
            b.remove_platform(call[1])
        elif name == "remove_many":
            mcalls = [[7, [[0, k] if isinstance(k, int) else [1, WORLD.model_of(k)] for k in call[1]]]]
            b.remove_platforms(list(call[1]))
        elif name == "add_many":
            objs, chs = call[1], call[2]
            pairs = [[m, [c]] for (o, m), c in zip(objs, chs)] if chs else [[m, []] for o, m in objs]
            mcalls = [[5, pairs]]
            b.add_platforms([o for o, _ in objs], chs)
        elif name == "assign_pairs":
            objs, chs = call[1], call[2]
            mcalls = [[6, [[m, [c]] for (o, m), c in zip(objs, chs)]]]
            b.platforms = [(c, o) for (o, _), c in zip(objs, chs)]
        elif name == "assign_items":
            mcalls = [[5, [[m, []] for o, m in call[1]]]]
            b.platforms = [o for o, _ in call[1]]
        return mcalls, None
    except Exception as e:
        return mcalls, api.exc_name(e)


WORLD = None


def label_of(call):
    n = call[0]
    if n in ("add_auto", "add_explicit"):
        return "%s(%s%s)" % (n, "item" if call[2][0] == 0 else "non-item", "" if call[3] is None else ", channel=%d" % call[3])
    if n == "remove_item":
        return "remove_item"
    if n == "remove_many":
        return "remove_many(%r)" % (["item" if not isinstance(k, int) else k for k in call[1]],)
    if n == "reassign_own_pairs":
        return "platforms = own pairs%s%s" % (" without #%d" % call[1], ", reversed" if call[2] else "")
    if n in ("add_many", "assign_pairs"):
        return "%s(%d items, channels=%r)" % (n, len(call[1]), call[2])
    if n == "assign_items":
        return "assign_items(%d)" % len(call[1])
    return "%s(%r)" % (n, call[1])


def one_sequence(chk, rng, kind, origin, length, idx, script=None):
    global WORLD
    world = World(kind)
    WORLD = world
    b, m0, i0 = start_block(kind, origin, world, rng)
    cmap, citems, _ = state_of(kind, b)
    what = {"kind": kind, "origin": origin, "start_channels": cmap, "calls": []}
    # the constructor-filled origin: the oracle applies to the start state as well
    pre = aligned_violation(kind, b, world, None, None)
    if pre:
        chk.violation("C15 %s: after construction with %d items: %s" % (kind, len(citems), pre), what, True)
        return
    if m0 is None:
        m0 = cmap
    mcalls_all, obs = [], []
    given = {}                       # id(item) -> channel it was given (explicitly) / got (automatically)
    for c, it in zip(cmap, citems):
        given[id(it)] = c
    for j in range(length):
        cmap, citems, _ = state_of(kind, b)
        call = script[j](world) if script else gen_call(kind, world, rng, cmap, citems)
        what["calls"].append(label_of(call))
        before = (list(cmap), [id(x) for x in citems])
        mcs, exc = perform(kind, b, call)
        cmap2, citems2, view = state_of(kind, b)
        # ---- oracle on the implementation alone
        found = aligned_violation(kind, b, world, before, given)
        if not found and call[0] == "add_explicit" and call[2][0] == 0:
            if call[3] in before[0]:
                if exc != "ValueError":
                    found = "explicit channel %d is taken but the add %s" % (call[3], "succeeded" if exc is None else "raised " + exc)
                elif (cmap2, [id(x) for x in citems2]) != before:
                    found = "a refused add changed the block"
            elif not (LO[kind] <= call[3] <= HI[kind]):
                if exc is None:
                    found = "channel %d does not fit the 16-bit channel map, yet the add succeeded" % call[3]
                elif exc != "ValueError":
                    found = "channel %d does not fit the 16-bit channel map: raised %s, not ValueError" % (call[3], exc)
                elif (cmap2, [id(x) for x in citems2]) != before:
                    found = "a refused add changed the block"
            elif exc is not None:
                found = "explicit free channel %d was refused (%s)" % (call[3], exc)
            elif cmap2[-1] != call[3] or citems2[-1] is not call[1]:
                found = "explicit channel %d not honoured: the item is bound to %r" % (call[3], cmap2[-1] if cmap2 else None)
        if not found and call[0] == "add_auto" and call[2][0] == 0:
            if exc is not None:
                found = "an automatic add was refused (%s)" % exc
            elif cmap2[-1] in before[0]:
                found = "automatic channel %d was already in use" % cmap2[-1]
        if found:
            chk.violation("C15 %s (%s): %s [calls %r]" % (kind, origin, found, what["calls"]), what, True)
            return
        for c, it in zip(cmap2, citems2):
            given.setdefault(id(it), c)
        mcalls_all += mcs
        obs.append((exc, cmap2, [world.model_of(x) for x in citems2]))
    if origin == "ctor" and getattr(world, "given", None) is not None:
        # the caller goes on using the list he passed to the constructor: appends to it, pops from it, and builds a second
        # block from it which he then edits — none of that may show in the first block
        from basictdf.tdfForcePlatformsCalibration import ForcePlatformsCalibrationDataBlock
        snap = (list(state_of(kind, b)[0]), [id(x) for x in state_of(kind, b)[1]])
        raw0 = encode_map(kind, b)
        given = world.given
        given.append(world.item("later", 1)[0])
        if given[:-1]:
            given.pop(0)
        try:
            b2 = ForcePlatformsCalibrationDataBlock(platforms=given)
            b2.add_platform(world.item("second", 2)[0])
            if len(b2._platforms) > 1:
                b2.remove_platform(0)
        except Exception:
            pass
        now = (list(state_of(kind, b)[0]), [id(x) for x in state_of(kind, b)[1]])
        found = None
        if now != snap:
            found = "the block changed when the caller went on using the list he had passed to the constructor (channels %r -> %r, %d -> %d items)" % (
                snap[0], now[0], len(snap[1]), len(now[1]))
        else:
            found = aligned_violation(kind, b, world, None, None)
        if found:
            chk.violation("C15 %s (%s): %s [calls %r]" % (kind, origin, found, what["calls"]), dict(what, then="caller edits the constructor's list and builds a second block from it"), True)
            return
    return (kind, m0, i0, mcalls_all, obs, what)


def aligned_violation(kind, b, world, before, given):
    cmap, citems, view = state_of(kind, b)
    if len(cmap) != len(citems):
        return "the channel list has %d entries, the item list %d" % (len(cmap), len(citems))
    if len(set(cmap)) != len(cmap):
        return "channels are not unique: %r" % (cmap,)
    if given is not None:
        for c, it in zip(cmap, citems):
            if id(it) in given and given[id(it)] != c and [id(x) for x in citems].count(id(it)) == 1:
                return "a surviving item moved from channel %d to channel %d" % (given[id(it)], c)
    if kind != "EM":
        if [c for c, _ in view] != cmap or any(p is not q for (_, p), q in zip(view, citems)):
            return "iteration / platforms does not yield the (channel, item) pairs in order"
    try:
        n, m, o2, nwritten, nbytes = encode_map(kind, b)
    except Exception as e:
        return "the block cannot be encoded and decoded: %s" % common.exc_info(e)
    if n != len(citems) or m != list(cmap):
        return "encoding declares %d items with channels %r, the block holds %d with %r" % (n, m, len(citems), cmap)
    if nwritten != nbytes:
        return "nBytes %d but %d bytes written" % (nbytes, nwritten)
    c2, i2, _ = state_of(kind, o2)
    if c2 != cmap or len(i2) != len(citems):
        return "after encode + decode the channels are %r (were %r)" % (c2, cmap)
    return None


def nearly_full_map(chk):
    """the far end of auto_channel_exists: an EMG block that holds every channel of the 16-bit range from 0 up but ONE
    (32 767 signals).  The next automatic add must find exactly that channel; the one after it finds none, raises
    ValueError and leaves the block as it was.  (Only the oracle: the pigeonhole argument is Coq's.)"""
    import numpy as np
    from basictdf.tdfEMG import EMG, EMGTrack
    hi = HI["EM"]
    for free in ((hi - 1, hi - 2) if chk.tier == "quick" else (hi - 1, hi - 2, 0, 12345)):
        e = EMG(1000, 1)
        z = np.zeros(1, dtype="<f4")
        what = {"kind": "EM", "channels_in_use": "0..%d without %d" % (hi, free)}
        chk.note_case(("nearly full map", free), True)
        chk.count("EMG block with one free channel left in 0..32767")
        try:
            for c in range(0, hi + 1):
                if c != free:
                    e.addSignal(EMGTrack("s%d" % c, z), channel=c)
            e.addSignal(EMGTrack("auto", z))
            got = int(e._emgMap[-1])
        except Exception as x:
            chk.violation("C15 EM: with every channel of 0..%d in use but %d, an automatic add fails: %s" % (hi, free, common.exc_info(x)), what, True)
            return
        if got != free or len(set(int(c) for c in e._emgMap)) != len(e._emgMap):
            chk.violation("C15 EM: with every channel of 0..%d in use but %d, the automatic add took channel %d" % (hi, free, got), what, True)
            return
        n = len(e._emgMap)
        try:
            e.addSignal(EMGTrack("one too many", z))
            chk.violation("C15 EM: an automatic add into a block that uses all of 0..%d was accepted with channel %r" % (hi, int(e._emgMap[-1])), what, True)
            return
        except ValueError:
            pass
        except Exception as x:
            chk.violation("C15 EM: an automatic add into a full block raised %s, not ValueError" % common.exc_info(x), what, True)
            return
        if len(e._emgMap) != n or len(e._signals) != n:
            chk.violation("C15 EM: the refused add into a full block changed it (%d channels, %d signals, were %d)" % (len(e._emgMap), len(e._signals), n), what, True)
            return


def run(chk):
    rng = common.rng_for(chk.seed, "C15")
    n = 900 if chk.tier == "quick" else 12000
    jobs = []
    combos = [("EM", "new"), ("EM", "filled"), ("EM", "decoded"), ("PC", "new"), ("PC", "ctor"), ("PC", "filled"),
              ("PC", "decoded"), ("PD", "new"), ("PD", "filled"), ("PD", "decoded")]
    chk.rule = ("edit sequences of 1-6 calls on EMG, platform-calibration and platform-data blocks starting empty, "
                "constructor-filled, filled through the API, or decoded from bytes: add with automatic / explicit channel (free, "
                "taken, at and beyond both ends of the 16-bit channel field), add of a non-item, remove by label / index (-n-2..n+2) / item (present, absent), remove_platforms with lists of items and indices, add_platforms with and "
                "without channels, the two `platforms = ...` setters, and for constructor-filled blocks the caller going on to use the list he passed; after EVERY call: both lists, the (channel, item) view, the "
                "channel map parsed from the encoded bytes, nBytes, and the decode of the encoding; plus EMG blocks holding all of 0..32767 but one channel (automatic add finds it; the next is refused and changes nothing); non-trivial = >= 2 calls")
    # scripted: both ends of the 16-bit channel field, explicit and automatic
    def ex(c):
        return lambda w: ("add_explicit",) + w.item("e", 1) + (c,)

    def au():
        return lambda w: ("add_auto",) + w.item("u", 2) + (None,)
    for kind in ("EM", "PC", "PD"):
        lo, hi = LO[kind], HI[kind]
        for script in ([ex(hi), au(), au(), ex(hi)], [ex(hi - 1), au(), au()], [ex(hi + 1), au()], [ex(lo), au(), ex(lo)],
                       [ex(lo - 1), au()], [ex(0), ex(hi), ex(1), au(), au()], [ex(lo), ex(-1) if lo < 0 else ex(5), au()]):
            r = one_sequence(chk, rng, kind, "new", len(script), -1, script=script)
            chk.note_case((kind, "scripted", len(jobs)), True)
            chk.count("%s scripted ends of the channel range" % kind)
            if r:
                jobs.append(r)
    for i in range(n):
        kind, origin = combos[i % len(combos)]
        length = rng.choice([1, 2, 2, 3, 3, 4, 6])
        r = one_sequence(chk, rng, kind, origin, length, i)
        chk.note_case((kind, origin, i), length >= 2)
        chk.count("%s from %s" % (kind, origin))
        if r:
            jobs.append(r)
            for lab in r[5]["calls"]:
                chk.count("call " + lab.split("(")[0])
        if chk.n_found() >= 3:
            return
    mres = common.run_model_sharded([(43, [KCODE[k], m0, i0, mcalls]) for k, m0, i0, mcalls, obs, what in jobs])
    for (kind, m0, i0, mcalls, obs, what), m in zip(jobs, mres):
        for j, ((exc, cmap, items), ms) in enumerate(zip(obs, m[1])):
            mexc = ERRNAME.get(ms[0]) if ms[0] else None
            same_err = (exc is None) == (mexc is None) and (exc == mexc or exc not in ERRNAME.values())
            if not same_err or cmap != ms[1] or [x[1] for x in items] != [x[1] for x in ms[2]]:
                chk.violation("C15 %s: correspondence broken at call %d (%s): raised %r / channels %r / items %r; BlockAPI.c_step: %r / %r / %r" %
                              (kind, j, what["calls"][j], exc, cmap, [x[1] for x in items], mexc, ms[1], [x[1] for x in ms[2]]),
                              dict(what, correspondence="coq/Model/BlockAPI.v c_step"), False)
                break
    nearly_full_map(chk)


def replay(chk, path):
    run(chk)
    chk.rule = "replay (re-runs the seeded sequences) of " + path

"""C16 — no track of the wrong length enters a block; list assignment is all-or-nothing."""
import itertools
import json

from harness import api, common
from harness.api import cps

ERRNAME = {1: "ValueError", 2: "TypeError"}


def universe(kind, nfr, rng):
    """(model obj, python object factory) — fresh python objects per use so that ids are distinct"""
    other = {"D3": "FT", "FT": "D3", "EM": "D3"}[kind]
    u = [
        ("good", lambda j: ([0, 100 + j, cps("g%d" % j), nfr], api.make_item(kind, "g%d" % j, nfr, j))),
        ("short", lambda j: ([0, 200 + j, cps("s"), nfr - 1], api.make_item(kind, "s", nfr - 1, j))),
        ("long", lambda j: ([0, 300 + j, cps("l"), nfr + 1], api.make_item(kind, "l", nfr + 1, j))),
        ("empty", lambda j: ([0, 400 + j, cps("e"), 0], api.make_item(kind, "e", 0, j))),
        # a track object that was first looked at (its frame count read) and THEN given arrays of another length through its
        # public attributes: what counts is the length it has when it is offered
        ("shrunk", lambda j: ([0, 500 + j, cps("k"), nfr - 1], resized(kind, "k", nfr, nfr - 1, j))),
        ("regrown", lambda j: ([0, 600 + j, cps("r"), nfr], resized(kind, "r", nfr - 1, nfr, j))),
        ("int", lambda j: ([1, 7], 7)),
    ]
    if kind == "EM" and nfr > 1:
        # an EMG track whose samples are a 1 x n ROW vector (what scipy.io.loadmat returns): one sample long, n elements
        import numpy as np
        from basictdf.tdfEMG import EMGTrack
        u.append(("rowvec", lambda j: ([0, 700 + j, cps("v"), 1], EMGTrack("v", (np.arange(nfr, dtype="<f4") + j).reshape(1, nfr)))))
    u += [
        ("none", lambda j: ([3], None)),
        ("str", lambda j: ([2, cps("g0")], "g0")),
        ("foreign", lambda j: ([4, 1], api.make_item(other, "g0", nfr, j))),
    ]
    return u


VALID = ("good", "regrown")
ARRAYS = {"D3": ("data",), "EM": ("data",), "FT": ("application_point", "force", "torque")}


def resized(kind, label, n0, n1, j):
    t = api.make_item(kind, label, n0, j)
    _ = (getattr(t, "nFrames", None), getattr(t, "nSamples", None), getattr(t, "nBytes", None), repr(t))        # the track is looked at ...
    src = api.make_item(kind, label, n1, j)
    for a in ARRAYS[kind]:
        setattr(t, a, getattr(src, a))                                                        # ... and then re-dimensioned
    return t


def true_len(kind, x):
    """the number of frames an item really has (its arrays' length), not what an attribute says"""
    try:
        return int(getattr(x, ARRAYS[kind][0]).shape[0])
    except Exception:
        return getattr(x, "nFrames", getattr(x, "nSamples", None))


def run_one(chk, kind, nfr, prior, calls, uni, how="ctor"):
    """calls: list of ("add", name) | ("assign", [names]) | ("assign_bad", python value)
    how: the block gets its frame count from the constructor, or is built with another one and re-timed (while it is
    still empty) through its public attribute"""
    if how == "ctor":
        b = api.make_block(kind, nfr)
    else:
        b = api.make_block(kind, nfr + 3)
        setattr(b, "nSamples" if kind == "EM" else "nFrames", nfr)
    names = dict(uni)
    counter = [0]
    registry = {}

    def fresh(name):
        counter[0] += 1
        m, p = names[name](counter[0])
        if m[0] == 0:
            registry[id(p)] = m
        return m, p
    pri = [fresh("good") for _ in range(prior)]
    try:
        api.install(kind, b, [p for _, p in pri])
    except Exception as e:
        chk.violation("C16 %s: a block of %d frames (frame count %s) refuses tracks of %d frames: %s" %
                      (kind, nfr, "given to the constructor" if how == "ctor" else "assigned to the empty block", nfr, common.exc_info(e)),
                      {"kind": kind, "nframes": nfr, "frame_count_set_by": how, "prior_tracks": prior}, True)
        return None
    mtracks = [m for m, _ in pri]
    mcalls, obs = [], []
    keep = []
    for c in calls:
        before = list(api.items_of(kind, b))
        if c[0] == "add":
            m, p = fresh(c[1].split("@")[0])
            keep.append(p)
            mcalls.append([1, m])
            if kind != "EM":
                thunk = lambda p=p: b.add_track(p)
            elif c[1].endswith("@ch"):            # EMG: the same checks must hold when a channel is given explicitly
                thunk = lambda p=p, ch=500 + counter[0]: b.addSignal(p, channel=ch)
            else:
                thunk = lambda p=p: b.addSignal(p)
        elif c[0] == "assign":
            ms, ps = [], []
            for nme in c[1]:
                m, p = fresh(nme)
                ms.append(m)
                ps.append(p)
            keep.append(ps)
            mcalls.append([2, ms])
            shape = c[2] if len(c) > 2 else "list"
            val = ps if shape == "list" else tuple(ps) if shape == "tuple" else (x for x in ps)
            thunk = lambda val=val: setattr(b, "tracks", val)
        elif c[0] == "assign_self":
            # the right-hand side is derived from the block ITSELF (a lazy view of its current tracks, optionally dropping
            # the first one), as in  blk.tracks = (t for t in blk if keep(t))
            cur = list(api.items_of(kind, b))
            drop = cur[0] if (cur and c[2]) else None
            keep = [t for t in cur if t is not drop]
            ms = [registry[id(t)] for t in keep]
            mcalls.append([2, ms])
            how = c[1]
            import itertools as _it
            if how == "genexp":
                val = (t for t in b if t is not drop)
            elif how == "filter":
                val = filter(lambda t: t is not drop, b)
            elif how == "map":
                val = map(lambda t: t, (t for t in b if t is not drop))
            elif how == "islice":
                val = _it.islice(iter(b), 1 if drop is not None else 0, None)
            elif how == "iter":
                val = iter(b) if drop is None else (t for t in iter(b) if t is not drop)
            elif how == "same list":
                val = b.tracks if drop is None else [t for t in b.tracks if t is not drop]
            else:
                val = reversed(list(reversed(b.tracks))) if drop is None else reversed([t for t in reversed(b.tracks) if t is not drop])
            keep_alive = keep
            thunk = lambda val=val: setattr(b, "tracks", val)
        else:
            mcalls.append([3])
            thunk = lambda v=c[1]: setattr(b, "tracks", v)
        try:
            thunk()
            rc = None
        except Exception as e:
            rc = api.exc_name(e)
        if c[0] == "assign" and rc is None and (len(c) < 3 or c[2] == "list"):
            # the caller goes on using the list object he passed: the block must own its own container
            snapshot = list(api.items_of(kind, b))
            _, short = fresh("short")
            ps.append(short)
            ps.append(7)
            if list(api.items_of(kind, b)) != snapshot:
                rc = "ALIASED"
                del ps[-2:]
        after = list(api.items_of(kind, b))
        obs.append((rc, [registry.get(id(x), ["?"]) for x in after], before == after and all(x is y for x, y in zip(before, after)),
                    [true_len(kind, x) for x in after]))
    return mtracks, mcalls, obs


def judge(chk, kind, nfr, prior, calls, mtracks, mcalls, obs, mres, how="ctor"):
    what = {"kind": kind, "nframes": nfr, "frame_count_set_by": how, "prior_tracks": prior,
            "calls": [list(c[:2]) if c[0] not in ("assign_bad", "assign_self") else [c[0], repr(c[1:])] for c in calls]}
    for j, (c, (rc, tracks, same, lens), m) in enumerate(zip(calls, obs, mres)):
        # oracle
        found = None
        if rc == "ALIASED":
            found = "the block adopted the caller's list: appending to that list afterwards put a wrong-length track and an int into the block"
        elif any(l != nfr for l in lens):
            found = "the block now holds a track with %r frames (block: %d)" % ([l for l in lens if l != nfr][0], nfr)
        elif c[0] == "add" and c[1].split("@")[0] not in VALID and rc is None:
            found = "adding a %s object was accepted" % c[1]
        elif rc is not None and not same:
            found = "%s raised %s but the block's tracks changed" % (c[0], rc)
        elif c[0] in ("assign", "assign_self") and rc is None and [t[1] for t in tracks] != [x[1] for x in mcalls[j][1]]:
            found = "the assignment did not install exactly the given list" + (" (a %s over the block's own tracks)" % c[1] if c[0] == "assign_self" else "")
        elif c[0] == "assign_self" and rc is not None:
            found = "assigning a %s over the block's own (valid) tracks raised %s" % (c[1], rc)
        elif c[0] == "assign" and rc is None and any(n not in VALID for n in c[1]):
            found = "a list with an invalid element (%r) was accepted" % (c[1],)
        elif c[0] == "assign_bad" and rc is None:
            found = "assigning %r was accepted" % (c[1],)
        if found:
            chk.violation("C16 %s: %s [call %d of %r]" % (kind, found, j, what["calls"]), what, True)
            return
        mrc = ERRNAME.get(m[0]) if m[0] else None
        if (rc is None) != (mrc is None) or (rc in ("ValueError", "TypeError") and rc != mrc) or [t[1:] for t in tracks] != [t[1:] for t in m[1]]:
            chk.violation("C16 %s: correspondence broken at call %d: raised %r (model %r), tracks %r (model %r)" %
                          (kind, j, rc, mrc, [t[1] for t in tracks], [t[1] for t in m[1]]),
                          dict(what, correspondence="BlockAPI.t_step"), False)
            return


def run(chk):
    rng = common.rng_for(chk.seed, "C16")
    jobs = []
    for kind in ("D3", "FT", "EM"):
        for nfr in ((2, 5) if chk.tier == "quick" else (1, 2, 5, 9)):
            uni = universe(kind, nfr, rng)
            names = [n for n, _ in uni]
            single = [("add", n) for n in names]
            if kind == "EM":
                single += [("add", n + "@ch") for n in names]
            if kind != "EM":
                single += [("assign", [])]
                single += [("assign", [a]) for a in names]
                single += [("assign", [a, b]) for a in names for b in names if "good" in (a, b)]
                single += [("assign", list(t)) for t in itertools.product(["good", rng.choice(names[1:])], repeat=3)]
                single += [("assign", ["good", "good"], "tuple"), ("assign", ["good", "short"], "generator"),
                           ("assign", ["good", "good", "good"], "generator")]
                single += [("assign_bad", 5), ("assign_bad", None), ("assign_bad", 2.5)]
                single += [("assign_self", how, drop) for how in ("genexp", "filter", "map", "islice", "iter", "same list", "reversed")
                           for drop in (False, True)]
            L = 2 if chk.tier == "quick" else 3
            for prior in (0, 2):
                for l in range(1, L + 1):
                    for seq in itertools.product(single, repeat=l):
                        if l >= 2 and rng.random() < (0.85 if chk.tier == "quick" else 0.97):
                            continue
                        jobs.append((kind, nfr, prior, list(seq), uni, "ctor"))
                        if l == 1 or rng.random() < 0.3:
                            jobs.append((kind, nfr, prior, list(seq), uni, "attr"))
    chk.rule = ("call sequences (length <= 2 quick / 3 thorough, sampled at the longest length) of add-track and whole-list "
                "assignment on 3D-marker, force/torque and EMG blocks (frame counts 1-9, given to the constructor or assigned to the still-empty block; 0 or 2 prior tracks); the objects: a "
                "track of the right length, one frame short, one frame long, empty, a track that was looked at and then re-dimensioned through its public array attributes (to the right / to a wrong length), an int, None, a str, a track of another "
                "class, at every position of lists of length 0-3 (as list, tuple and generator), and non-iterable right-hand "
                "sides, lists that equal the current tracks element-wise under numpy broadcasting but hold one wrong-length track, and right-hand sides derived lazily from the block's own tracks (generator expression, filter, map, islice, iter, the list itself, reversed); observed after each call: exception class, identity and frame counts of block.tracks; plus blocks of 100 000 and 250 000 frames offered tracks one and two frames off; non-trivial = "
                "contains an invalid object")
    runs, done = [], []
    for kind, nfr, prior, seq, uni, how in jobs:
        r = run_one(chk, kind, nfr, prior, seq, uni, how)
        if r is None:
            if chk.n_found() >= 3:
                break
            continue
        done.append((kind, nfr, prior, seq, uni, how))
        runs.append(r)
    jobs = done
    mres = common.run_model_sharded([(41, [nfr, mt, mc]) for (kind, nfr, prior, seq, uni, how), (mt, mc, obs) in zip(jobs, runs)])
    for (kind, nfr, prior, seq, uni, how), (mt, mc, obs), m in zip(jobs, runs, mres):
        flat = [n for c in seq for n in ([c[1].split("@")[0]] if c[0] == "add" else c[1] if c[0] == "assign" else ["good"] if c[0] == "assign_self" else ["bad"])]
        chk.note_case((kind, nfr, prior, repr(seq), how), any(n not in VALID for n in flat))
        chk.count("%s %s" % (kind, "+".join(c[0] for c in seq)))
        chk.count("frame count given by the constructor" if how == "ctor" else "frame count assigned to the empty block afterwards")
        judge(chk, kind, nfr, prior, seq, mt, mc, obs, m[1], how)
        if chk.n_found() >= 3:
            break
    check_decoded(chk)
    equal_looking_lists(chk)
    long_recordings(chk)


def long_recordings(chk):
    """the frame-count rule at the sizes real recordings have (100 s of EMG at 1 kHz, 250 000 frames): a track one or two
    frames off is refused and changes nothing — singly, and at any position of an assigned list — exactly as for short
    blocks; a track of the right length is accepted"""
    for kind in ("D3", "FT", "EM"):
        for nfr in ((100000, 250000) if chk.tier == "quick" else (65536, 100000, 250000, 1000000)):
            b = api.make_block(kind, nfr)
            good = api.make_item(kind, "good", nfr, 1)
            api.install(kind, b, [good])
            for d in (1, -1, 2, -2):
                bad = api.make_item(kind, "off by %d" % d, nfr + d, 2)
                chk.note_case(("long recording", kind, nfr, d), True)
                chk.count("%s block of >= 65536 frames, track off by one or two" % kind)
                what = {"kind": kind, "nframes": nfr, "track_frames": nfr + d}
                before = list(api.items_of(kind, b))
                calls = [("add", lambda: (b.add_track(bad) if kind != "EM" else b.addSignal(bad)))]
                if kind != "EM":
                    calls.append(("tracks = [held, good, off]", lambda: setattr(b, "tracks", [good, api.make_item(kind, "g2", nfr, 3), bad])))
                for name, thunk in calls:
                    try:
                        thunk()
                        rc = None
                    except Exception as e:
                        rc = api.exc_name(e)
                    after = list(api.items_of(kind, b))
                    lens = [true_len(kind, x) for x in after]
                    if rc is None or any(l != nfr for l in lens) or len(after) != len(before) or any(x is not y for x, y in zip(before, after)):
                        chk.violation("C16 %s: a block of %d frames, %s with a track of %d frames: %s; the block now holds tracks of %r frames" %
                                      (kind, nfr, name, nfr + d, "accepted" if rc is None else "raised " + rc, lens), dict(what, call=name), True)
                        return
            ok = api.make_item(kind, "second", nfr, 4)
            try:
                b.add_track(ok) if kind != "EM" else b.addSignal(ok)
            except Exception as e:
                chk.violation("C16 %s: a block of %d frames refuses a track of %d frames: %s" % (kind, nfr, nfr, common.exc_info(e)), {"kind": kind, "nframes": nfr}, True)
                return


def equal_looking_lists(chk):
    """a list that LOOKS like the block's current tracks — same labels, element-wise `==` to them under numpy's
    broadcasting — but holds a track of the wrong length: a marker / sensor that does not move (every frame the same
    row), and in the list a 1-frame (or, in a 1-frame block, 0-frame) track with that label and that row.  The
    assignment is refused and the previous tracks stay; adding such a track is refused too."""
    import numpy as np
    from basictdf.tdfData3D import Data3D, MarkerTrack
    from basictdf.tdfForce3D import ForceTorque3D, ForceTorqueTrack
    rng = common.rng_for(chk.seed, "C16equal")

    def track(kind, label, n, row):
        a = np.tile(np.array(row, dtype="<f4"), (n, 1))
        return MarkerTrack(label, a) if kind == "D3" else ForceTorqueTrack(label, a.copy(), a.copy(), a.copy())
    for j in range(60 if chk.tier == "quick" else 600):
        kind = ("D3", "FT")[j % 2]
        nfr = rng.choice((1, 2, 5, 12))
        b = api.make_block(kind, nfr)
        ntr = rng.choice((1, 2, 3))
        rows = [[float(rng.randrange(-5, 6)) for _ in range(3)] for _ in range(ntr)]
        labels = ["static%d" % i for i in range(ntr)]
        for lab, row in zip(labels, rows):
            b.add_track(track(kind, lab, nfr, row))
        before = list(api.items_of(kind, b))
        k = rng.randrange(ntr)
        wrong_n = 1 if nfr > 1 else 0
        how = j % 3
        cand = [t if (how == 0) else track(kind, t.label, nfr, rows[i]) for i, t in enumerate(before)]     # the same objects, or equal copies
        cand[k] = track(kind, labels[k], wrong_n, rows[k])
        chk.note_case(("equal-looking list", kind, nfr, ntr, k, how), True)
        chk.count("equal-looking list with one wrong-length track")
        what = {"kind": kind, "nframes": nfr, "tracks": ntr, "position_of_the_wrong_track": k, "its_frames": wrong_n,
                "other_elements": "the block's own track objects" if how == 0 else "equal copies"}
        try:
            b.tracks = cand
            rc = None
        except Exception as e:
            rc = api.exc_name(e)
        after = list(api.items_of(kind, b))
        lens = [getattr(t, "nFrames", None) for t in after]
        found = None
        if any(l != nfr for l in lens):
            found = "the block (%d frames) now holds tracks of %r frames" % (nfr, lens)
        elif rc is None:
            found = "a list holding a %d-frame track was accepted by a %d-frame block" % (wrong_n, nfr)
        elif len(after) != len(before) or any(x is not y for x, y in zip(after, before)):
            found = "the assignment raised %s but the previous tracks are not in place" % rc
        if not found:
            try:
                b.add_track(track(kind, labels[k], wrong_n, rows[k]))
                found = "add_track accepted a %d-frame track into a %d-frame block" % (wrong_n, nfr)
            except Exception:
                if [getattr(t, "nFrames", None) for t in api.items_of(kind, b)] != [nfr] * ntr:
                    found = "a refused add_track changed the block"
        if found:
            chk.violation("C16 %s: %s [tracks that do not move; the list equals the current tracks element-wise under broadcasting]" % (kind, found), what, True)
            return


def check_decoded(chk):
    """blocks obtained by decoding: every track has the block's own number of frames, for every gap pattern"""
    from harness import blocks, codec
    from harness.c05 import mask_cases
    cases = mask_cases(chk, 6 if chk.tier == "quick" else 9)
    for kind, fmt, v in cases:
        if kind not in ("D3", "FT", "EM"):
            continue
        chk.note_case(("decoded", kind, repr(v)[:200]), True)
        chk.count("decoded block " + kind)
        try:
            o = blocks.build(kind, fmt, v)
            d, _ = blocks.impl_build(kind, fmt, blocks.impl_write(o))
        except Exception as e:
            chk.violation("C16 %s: a valid block cannot be encoded and decoded: %s" % (kind, common.exc_info(e)), {"kind": kind, "v": v}, True)
            continue
        want = v[0] if kind == "D3" else v[3]
        got = [getattr(t, "nFrames", getattr(t, "nSamples", None)) for t in api.items_of(kind, d)]
        if any(g != want for g in got):
            chk.violation("C16 %s: the decoded block has %d frames but holds tracks of %r frames" % (kind, want, got),
                          {"kind": kind, "fmt": fmt, "v": v}, True)
            if chk.n_found() >= 3:
                return


def replay(chk, path):
    run(chk)
    chk.rule = "replay (re-runs the seeded call sequences) of " + path

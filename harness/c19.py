"""C19 — constructors refuse arguments whose shape would mis-size the encoding.
The property's finite universe is enumerated completely: every array shape of rank 0-3 with extents 0..4 x 7
dtypes, lists and tuples of length 0..4, None, str, int, float, a CameraViewPort, an arbitrary object — for each
validated argument of each constructor with the others valid; coupled arrays: all triples of a shape subset."""
import io
import itertools
import json

import numpy as np

from harness import api, common

DTYPES = ["<f4", "<f8", "<i4", "<i8", "u1", "bool", "object"]
ERR = {"ValueError": 1, "TypeError": 2, "AttributeError": 11}


def shapes():
    out = [()]
    for r in (1, 2, 3):
        out += list(itertools.product(range(5), repeat=r))
    return out


def arr(shape, dtype):
    n = int(np.prod(shape)) if shape else 1
    if dtype == "object":
        a = np.empty(shape, dtype=object)
        a[...] = 1.5
        return a
    if dtype == "bool":
        return np.ones(shape, dtype=bool)
    return (np.arange(n) % 7 + 1).reshape(shape).astype(dtype)


def universe(full):
    """[(model pyval, python value, description)]"""
    u = []
    for sh in shapes():
        for dt in (DTYPES if full else DTYPES[:1]):
            u.append(([5, list(sh)], arr(sh, dt), "array%r %s" % (sh, dt)))
    for n in range(5):
        u.append(([3, n], [1] * n, "list %d" % n))
        u.append(([4, n], tuple([1] * n), "tuple %d" % n))
    u += [([0], None, "None"), ([1, 2], "ab", "str"), ([1, 0], "", "empty str"), ([2], 3, "int"), ([2], 2.5, "float"),
          ([7], object(), "object"), ([7], {"a": 1}, "dict")]
    nan = float("nan")
    u += [([3, 2], [1.25, nan], "list 2 holding a NaN"), ([4, 2], (nan, nan), "tuple 2 of NaNs"), ([3, 3], [nan, 7.5, nan], "list 3 with one number"),
          ([5, [4]], np.array([nan, 7.5, nan, nan], dtype="<f4"), "array(4,) <f4 with one number"), ([5, [2]], np.array([nan, nan], dtype="<f8"), "array(2,) <f8 of NaNs")]
    from basictdf.tdfTypes import CameraViewPort
    u.append(([6], CameraViewPort(np.array([0, 0]), np.array([4, 4])), "CameraViewPort"))
    # "every other kind of object": sequences and containers that are neither list, tuple nor array, lengths 0..4
    # (no statement is made about them as Event values: they are iterable)
    import array
    import collections
    for n in range(5):
        for desc, val in (("bytes", b"1234"[:n]), ("bytearray", bytearray(b"\x00\x01\x02\x03"[:n])), ("range", range(n)),
                          ("deque", collections.deque([1] * n)), ("array.array('i')", array.array("i", [1] * n)),
                          ("array.array('f')", array.array("f", [1.0] * n)), ("memoryview", memoryview(bytes(n))),
                          ("set", set(range(n))), ("frozenset", frozenset(range(n))), ("dict", {i: i for i in range(n)}),
                          ("dict keys", {i: i for i in range(n)}.keys())):
            u.append(([7], val, "%s of length %d" % (desc, n), "not for events"))
    # arrays of dtype object whose ELEMENTS are sequences (what np.array makes of ragged input; what unpacking would turn
    # into two perfectly good vectors): shapes (2,), (3,), (1,), (2,1) of 2-lists / 2-tuples / (2,)-arrays / viewports
    for shape in ((2,), (3,), (1,), (2, 1)):
        for edesc, mk in (("2-lists", lambda: [0, 640]), ("2-tuples", lambda: (0, 480)), ("(2,)-arrays", lambda: np.array([1, 2], dtype="<i4")),
                          ("3-lists", lambda: [1, 2, 3]), ("viewports", lambda: CameraViewPort(np.array([0, 0]), np.array([4, 4])))):
            a = np.empty(shape, dtype=object)
            for idx in np.ndindex(*shape):
                a[idx] = mk()
            u.append(([5, list(shape)], a, "object array%r of %s" % (shape, edesc), "not for events"))
    return u


def good(shape, dtype="<f4"):
    return arr(shape, dtype)


def vp():
    from basictdf.tdfTypes import CameraViewPort
    return CameraViewPort(np.array([0, 0], dtype="<i4"), np.array([640, 480], dtype="<i4"))


def sized_ok(o):
    """nBytes vs encoded length of an accepted object (None if it cannot be written at all)"""
    try:
        f = io.BytesIO()
        if hasattr(o, "_write"):
            o._write(f)
        elif hasattr(o, "bwrite"):
            o.bwrite(f)
        else:
            f.write(o.write())
        return int(o.nBytes), len(f.getvalue())
    except Exception as e:
        return "unwritable " + type(e).__name__


# (ctor id, name, number of validated args, builder(args) -> object, valid args (model, python), required spec)
def constructors():
    from basictdf.tdfData3D import Data3D
    from basictdf.tdfForce3D import ForceTorque3D, ForceTorqueTrack
    from basictdf.tdfCalibrationData import (CalibrationDataBlock, DistorsionModel, SeelabCameraData)
    from basictdf.tdfTypes import CameraViewPort
    from basictdf.tdfOpticalSystem import OpticalChannelData
    A = lambda sh, dt="<f4": ([5, list(sh)], good(sh, dt))
    cs = []
    cs.append((1, "Data3D", lambda a: Data3D(100, 3, a[2], a[0], a[1]), [A((3, 3)), A((3,)), A((3,))],
               ["rotationMatrix", "translationVector", "volume"]))
    cs.append((1, "ForceTorque3D", lambda a: ForceTorque3D(100, 3, a[2], a[0], a[1]), [A((3, 3)), A((3,)), A((3,))],
               ["rotationMatrix", "translationVector", "volume"]))
    cs.append((2, "CalibrationDataBlock",
               lambda a: CalibrationDataBlock(DistorsionModel.noDistorsion, a[0], a[1], a[2], a[3], []),
               [A((3,)), A((3, 3)), A((3,)), ([5, [0]], np.zeros((0,), dtype="<i2"))],
               ["calibration_volume_size", "rotation_matrix", "translation_vector", "cameras_calibration_map"]))
    cs.append((3, "CameraViewPort", lambda a: CameraViewPort(a[0], a[1]),
               [([5, [2]], np.array([1, 2], dtype="<i4")), ([5, [2]], np.array([3, 4], dtype="<i4"))], ["origin", "size"]))
    D = lambda sh: A(sh, "<f8")
    cs.append((4, "SeelabCameraData", lambda a: SeelabCameraData(*a),
               [D((3, 3)), D((3,)), D((2,)), D((2,)), D((2,)), D((2,)), D((2,)), ([6], vp())],
               ["rotation_matrix", "translation_vector", "focus", "optical_center", "radial_distortion", "decentering",
                "thin_prism", "view_port"]))
    cs.append((5, "OpticalChannelData", lambda a: OpticalChannelData(1, "lens", "type", "name", a[0]), [([6], vp())],
               ["camera_viewport"]))
    # the BTS-format camera record takes its viewport by the same rule (its other arguments are not fixed-shape geometry)
    from basictdf.tdfCalibrationData import BTSCameraData
    cs.append((5, "BTSCameraData", lambda a: BTSCameraData(good((3, 3), "<f8"), good((3,), "<f8"), good((2,), "<f8"), good((2,), "<f8"),
                                                          good((4,), "<f8"), good((4,), "<f8"), a[0]), [([6], vp())], ["view_port"]))
    return cs


REQUIRED = {
    ("Data3D", 0): lambda m: m == [5, [3, 3]], ("Data3D", 1): lambda m: m == [5, [3]], ("Data3D", 2): lambda m: m == [5, [3]],
    ("ForceTorque3D", 0): lambda m: m == [5, [3, 3]], ("ForceTorque3D", 1): lambda m: m == [5, [3]],
    ("ForceTorque3D", 2): lambda m: m == [5, [3]],
    ("CalibrationDataBlock", 0): lambda m: m == [5, [3]], ("CalibrationDataBlock", 1): lambda m: m == [5, [3, 3]],
    ("CalibrationDataBlock", 2): lambda m: m == [5, [3]], ("CalibrationDataBlock", 3): lambda m: m[0] == 5 and len(m[1]) == 1,
    ("CameraViewPort", 0): lambda m: m in ([5, [2]], [3, 2], [4, 2]), ("CameraViewPort", 1): lambda m: m in ([5, [2]], [3, 2], [4, 2]),
    ("SeelabCameraData", 0): lambda m: m == [5, [3, 3]], ("SeelabCameraData", 1): lambda m: m == [5, [3]],
    ("SeelabCameraData", 2): lambda m: m == [5, [2]], ("SeelabCameraData", 3): lambda m: m == [5, [2]],
    ("SeelabCameraData", 4): lambda m: m == [5, [2]], ("SeelabCameraData", 5): lambda m: m == [5, [2]],
    ("SeelabCameraData", 6): lambda m: m == [5, [2]], ("SeelabCameraData", 7): lambda m: m in ([6], [5, [2, 2]]),
    ("OpticalChannelData", 0): lambda m: m in ([6], [5, [2, 2]]), ("BTSCameraData", 0): lambda m: m in ([6], [5, [2, 2]]),
}


def run(chk):
    full = chk.tier != "quick"
    uni = universe(True)
    chk.rule = ("complete enumeration of the property's universe: every array shape of rank 0-3 with extents 0..4 (156 shapes) x "
                "dtypes {f4,f8,i4,i8,u1,bool,object}, object arrays whose elements are 2-/3-sequences or viewports, lists and tuples of length 0..4, None, str, int, float, dict, object, other sequences and containers of length 0..4 (bytes, bytearray, range, deque, array.array, memoryview, set, frozenset, dict, dict keys), "
                "CameraViewPort — substituted for each validated argument of Data3D, ForceTorque3D, CalibrationDataBlock, "
                "CameraViewPort, SeelabCameraData, OpticalChannelData, the viewport of BTSCameraData (others valid; an accepted viewport argument must be held as the numbers given), and two or three geometry arguments wrong at once (all triples over 12 values; all pairs of Seelab positions over 6 values); ForceTorqueTrack: all triples over a "
                "12-shape subset + non-arrays; Event: every value x both kinds; observed: accepted / exception class, and "
                "nBytes vs encoded length of every accepted object; a sample of the single-argument cases taken again after successful and after failed (cut, damaged) decodes of every block type; all single-argument cases once more in an interpreter started with -O; non-trivial = the substituted value is not the valid one")
    chk.exhaustive = True
    cases = []           # (ctor id, name, argpos, margs, thunk, mval, desc)
    for cid, name, build, valid, argnames in constructors():
        for pos in range(len(valid)):
            for m, p, desc in (x[:3] for x in uni):
                margs = [v[0] for v in valid]
                pargs = [v[1] for v in valid]
                margs[pos], pargs[pos] = m, p
                cases.append((cid, name, pos, margs, bound(build, pargs), m, "%s.%s = %s" % (name, argnames[pos], desc)))
    # several arguments wrong AT ONCE (a check that looks at the arguments together must not let two wrong shapes cancel
    # out): every triple over a 12-value subset for the three geometry arguments of Data3D / ForceTorque3D /
    # CalibrationDataBlock, every pair of positions over a 6-value subset for the Seelab record
    sub3 = [(), (3,), (3, 3), (3, 3, 3), (9,), (1, 3), (3, 1), (2,), (4,), (0,)]
    vals3 = [([5, list(sh)], arr(sh, "<f4"), "array%r" % (sh,)) for sh in sub3] + [([3, 3], [1, 2, 3], "list 3"), ([0], None, "None")]
    for cid, name, build, valid, argnames in constructors():
        if name in ("Data3D", "ForceTorque3D", "CalibrationDataBlock"):
            for combo in itertools.product(vals3, repeat=3):
                margs = [v[0] for v in valid]
                pargs = [v[1] for v in valid]
                for pos, (m, p, d) in enumerate(combo):
                    margs[pos], pargs[pos] = m, p
                nwrong = sum(1 for pos in range(3) if not REQUIRED[(name, pos)](margs[pos]))
                if nwrong < 2:
                    continue              # none / one wrong: covered above, argument by argument
                desc = "%s(%s)" % (name, ", ".join("%s=%s" % (argnames[pos], combo[pos][2]) for pos in range(3)))
                cases.append((cid, name, None, margs, (lambda build=build, pargs=pargs: build(pargs)), None, desc, "multi"))
        if name == "SeelabCameraData":
            vals6 = [([5, list(sh)], arr(sh, "<f8"), "array%r" % (sh,)) for sh in [(2,), (3,), (3, 3), (2, 2), (), (4,)]]
            for p1, p2 in itertools.combinations(range(7), 2):
                for (m1, v1, d1), (m2, v2, d2) in itertools.product(vals6, repeat=2):
                    margs = [v[0] for v in valid]
                    pargs = [v[1] for v in valid]
                    margs[p1], pargs[p1], margs[p2], pargs[p2] = m1, v1, m2, v2
                    if REQUIRED[(name, p1)](m1) or REQUIRED[(name, p2)](m2):
                        continue
                    desc = "%s(%s=%s, %s=%s)" % (name, argnames[p1], d1, argnames[p2], d2)
                    cases.append((cid, name, None, margs, (lambda build=build, pargs=pargs: build(pargs)), None, desc, "multi"))
    # coupled arrays
    from basictdf.tdfForce3D import ForceTorqueTrack
    sub = [(), (0,), (3,), (4,), (0, 3), (1, 3), (4, 3), (4, 2), (3, 4), (4, 4), (2, 3, 1), (4, 3, 1)]
    vals = [([5, list(s)], arr(s, "<f4"), "array%r" % (s,)) for s in sub] + [([3, 3], [1, 2, 3], "list 3"), ([0], None, "None"),
                                                                          ([7], bytes(36), "bytes of length 36")]
    for a, b, c in itertools.product(vals, repeat=3):
        cases.append((6, "ForceTorqueTrack", 0, [a[0], b[0], c[0]],
                      (lambda a=a, b=b, c=c: ForceTorqueTrack("t", a[1], b[1], c[1])), None, "ForceTorqueTrack(%s, %s, %s)" % (a[2], b[2], c[2])))
    # events
    from basictdf.tdfEvents import Event, EventsDataType
    for m, p, desc in (x for x in uni if len(x) == 3):
        for single in (1, 0):
            ty = EventsDataType.singleEvent if single else EventsDataType.eventSequence
            cases.append((7, "Event", 0, [m], (lambda p=p, ty=ty: Event("e", p, ty)), m, "Event(values=%s, %s)" % (desc, ty.name), single))
    mres = common.run_model_sharded([(42, [c[0], c[3], c[7] if len(c) > 7 and c[7] != "multi" else 0]) for c in cases])
    judge_all(chk, list(zip(cases, mres)))
    if chk.n_found():
        return
    # the same verdicts whatever happened before in the process: after decodes that FAILED half-way (a truncated or damaged
    # stream of each block type) and after decodes that succeeded — a constructor has no memory
    optimised_interpreter(chk)
    if chk.n_found():
        return
    rng = common.rng_for(chk.seed, "C19-history")
    single = [(c, m) for c, m in zip(cases, mres) if c[0] <= 5 and len(c) == 7]
    rng.shuffle(single)
    single = single[: 1500 if chk.tier == "quick" else 12000]
    damaged = damaged_streams(rng)
    for k in range(0, len(single), 25):
        what = disturb(damaged, k // 25)
        chk.count("verdicts re-taken after " + what.split(":")[0])
        judge_all(chk, single[k:k + 25], "after %s: " % what)
        if chk.n_found():
            return


def single_argument_verdicts():
    """[(description, None | exception name)] for every validated constructor argument x every value of the universe, in a
    fixed order (used to compare two interpreters)"""
    uni = universe(True)
    out = []
    for cid, name, build, valid, argnames in constructors():
        for pos in range(len(valid)):
            for m, p, desc in (x[:3] for x in uni):
                pargs = [v[1] for v in valid]
                pargs[pos] = p
                try:
                    build(pargs)
                    rc = None
                except Exception as e:
                    rc = api.exc_name(e)
                out.append(("%s.%s = %s" % (name, argnames[pos], desc), rc))
    return out


def child():
    """entry point of the second interpreter (python -O): prints its verdicts"""
    import sys
    sys.stdout.write(json.dumps([rc for _, rc in single_argument_verdicts()]))


def optimised_interpreter(chk):
    """the same verdicts in an interpreter started with -O (asserts and `if __debug__:` blocks compiled out — how batch
    converters are often run): argument checks are not debugging aids"""
    import os
    import subprocess
    import sys
    mine = single_argument_verdicts()
    env = dict(os.environ)
    env["PYTHONPATH"] = os.pathsep.join([common.VERIF] + [p for p in env.get("PYTHONPATH", "").split(os.pathsep) if p])
    p = subprocess.run([sys.executable, "-O", "-W", "ignore", "-c", "from harness import c19; c19.child()"], cwd=common.VERIF, env=env,
                       stdout=subprocess.PIPE, stderr=subprocess.PIPE, text=True, timeout=900)
    try:
        theirs = json.loads(p.stdout)
    except Exception:
        chk.violation("C19: the constructors cannot be exercised under python -O: %s" % (p.stderr or p.stdout)[-400:], {"interpreter": "python -O"}, False)
        return
    chk.count("verdicts re-taken in an interpreter started with -O", len(theirs))
    if len(theirs) != len(mine):
        chk.violation("C19: python -O enumerates %d cases, this interpreter %d" % (len(theirs), len(mine)), {"interpreter": "python -O"}, False)
        return
    for (desc, rc), rc2 in zip(mine, theirs):
        if rc != rc2:
            chk.violation("C19: under python -O, %s is %s (without -O: %s)" % (desc, "accepted" if rc2 is None else "refused with " + rc2,
                                                                               "accepted" if rc is None else "refused with " + rc),
                          {"interpreter": "python -O", "argument": desc}, True)
            if chk.n_found() >= 3:
                return


def damaged_streams(rng):
    """[(kind, format, bytes, description)]: encodings of valid blocks of every type, whole / cut short / with a count blown up"""
    from harness import blocks
    out = []
    for kind in blocks.KINDS:
        for fmt in blocks.FORMATS[kind]:
            for _ in range(20):
                f, v = blocks.gen(kind, rng, fmt=fmt, big=3)
                if blocks.nontrivial(kind, v):
                    break
            raw = blocks.impl_write(blocks.build(kind, f, v))
            out.append((kind, f, raw, "a successful decode of a %s block" % kind))
            for cut in sorted({len(raw) - 1, len(raw) // 2, len(raw) - len(raw) // 3, 5}):
                if 0 < cut < len(raw):
                    out.append((kind, f, raw[:cut], "a failed decode of a %s block: stream cut at byte %d of %d" % (kind, cut, len(raw))))
            out.append((kind, f, b"\xff\xff\xff\x7f" + raw[4:], "a failed decode of a %s block: first count field blown up" % kind))
    return out


def disturb(damaged, k):
    from harness import blocks
    kind, fmt, raw, what = damaged[k % len(damaged)]
    try:
        blocks.impl_build(kind, fmt, raw, b"")
    except Exception:
        pass
    return what


def bound(build, pargs):
    def thunk():
        return build(pargs)
    thunk.pargs = pargs
    return thunk


def viewport_kept(name, pos, given, o):
    """an accepted viewport argument is taken as the numbers it holds: origin = its first pair, size = its second"""
    from basictdf.tdfTypes import CameraViewPort
    try:
        if name == "CameraViewPort":
            got = (o.origin, o.size)[pos]
            want = given
        else:
            vp_ = o.view_port if name in ("SeelabCameraData", "BTSCameraData") else o.camera_viewport
            got = [vp_.origin, vp_.size]
            want = [given.origin, given.size] if isinstance(given, CameraViewPort) else [given[0], given[1]]
        try:
            want = [int(x) for x in np.asarray(want).reshape(-1)]
        except Exception:
            return None              # not numbers at all (an object array of something else): writing it fails loudly
        got = [int(x) for x in np.asarray(got).reshape(-1)]
        return None if got == want else "holds %r, given %r" % (got, want)
    except Exception as e:
        return "cannot be read back: " + common.exc_info(e)


def judge_all(chk, pairs, prefix=""):
    for c, m in pairs:
        cid, name, pos, margs, thunk, mval, desc = c[:7]
        desc = prefix + desc
        try:
            o = thunk()
            rc = None
        except Exception as e:
            o = None
            rc = api.exc_name(e)
        multi = len(c) > 7 and c[7] == "multi"
        trivial = (not multi) and mval is not None and cid < 6 and REQUIRED[(name, pos)](mval)
        chk.note_case(desc, not trivial)
        chk.count("%s %s" % (name, "accepted" if rc is None else rc))
        what = {"constructor": name, "argument": desc, "model_args": margs}
        # ---- oracle
        found = None
        if multi:
            if rc is None:
                found = "%s was accepted although two or more of its arguments have the wrong shape" % desc
        elif cid < 6:
            req = REQUIRED[(name, pos)](mval)
            if rc is None and not req:
                found = "%s was accepted" % desc
            elif rc is not None and req and not (mval[0] == 5 and "object" in desc and False):
                found = "%s (exactly the required shape) was refused with %s" % (desc, rc)
        elif cid == 6:
            ok3 = all(x[0] == 5 and len(x[1]) == 2 and x[1][1] == 3 for x in margs) and margs[0] == margs[1] == margs[2]
            if rc is None and not ok3:
                found = "%s was accepted" % desc
            elif rc is not None and ok3:
                found = "%s was refused with %s" % (desc, rc)
        else:
            single = c[7]
            n = mval[1] if mval[0] in (3, 4) else mval[1][0] if (mval[0] == 5 and len(mval[1]) == 1) else None
            okv = n is not None and not (single and n > 1)
            if rc is None and not okv:
                found = "%s was accepted" % desc
            elif okv and rc is not None:
                found = "%s was refused with %s" % (desc, rc)
            elif not okv and mval[0] in (0, 2, 6, 7) and rc != "TypeError":
                found = "%s (not iterable) raised %s, expected TypeError" % (desc, rc)
            elif single and n is not None and n > 1 and rc != "TypeError":
                found = "%s (more than one value for a single event) raised %s, expected TypeError" % (desc, rc)
        # (the camera map's LENGTH is coupled to the camera list, which is not one of the fixed-shape arguments
        #  this property is about: its sizing is not judged here)
        if not found and rc is None and hasattr(o, "nBytes") and not (name == "CalibrationDataBlock" and pos == 3) and not multi:
            sz = sized_ok(o)
            if isinstance(sz, tuple) and sz[0] != sz[1]:
                found = "%s was accepted and is mis-sized: nBytes %d, %d bytes written" % (desc, sz[0], sz[1])
        if not found and rc is None and not multi and hasattr(thunk, "pargs") and (
                name == "CameraViewPort" or (name == "SeelabCameraData" and pos == 7) or name in ("OpticalChannelData", "BTSCameraData")):
            bad = viewport_kept(name, pos, thunk.pargs[pos], o)
            if bad:
                found = "%s was accepted but the object %s" % (desc, bad)
        if found:
            chk.violation("C19: " + found, what, True)
            if chk.n_found() >= 5:
                break
            continue
        # ---- correspondence
        mrc = None if m[0] == 0 else {1: "ValueError", 2: "TypeError", 11: "AttributeError"}.get(m[0], "error %d" % m[0])
        if (rc is None) != (mrc is None) or (rc is not None and rc in ERR and rc != mrc and not (cid == 7 and mval[0] == 1)):
            chk.violation("C19: correspondence broken: %s -> %s, Shapes.v says %s" % (desc, rc or "accepted", mrc or "accepted"),
                          dict(what, correspondence="coq/Model/Shapes.v"), False)


def replay(chk, path):
    run(chk)
    chk.rule = "replay (the universe is enumerated completely on every run) of " + path

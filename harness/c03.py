"""C03 — see harness/cprops.py (shared container engine) and coq/Properties/C03.v."""
from harness import cprops


def run(chk):
    cprops.run(chk, "C03")


def replay(chk, path):
    cprops.replay(chk, "C03", path)

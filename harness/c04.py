"""C04 — see harness/cprops.py (shared container engine) and coq/Properties/C04.v."""
from harness import cprops


def run(chk):
    cprops.run(chk, "C04")


def replay(chk, path):
    cprops.replay(chk, "C04", path)

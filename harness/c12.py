"""C12 — reserved, padding and after-terminator bytes never influence what is read."""
import json
import os

from harness.common import err_code
from harness import blocks, codec, common

JUNKS = [(0, 255), (0, 0x81), (37, 11), (101, 7), (0, 0x3F)]       # all-0xFF, all-0x81 (undecodable in cp1252), two mixed, all-0x3F (any four of them are the float 0.747: junk that looks like plausible numbers)


def runs_of(dc):
    """maximal runs of consecutive don't-care positions: [(start, length)]"""
    out = []
    for i in dc:
        if out and out[-1][0] + out[-1][1] == i:
            out[-1][1] += 1
        else:
            out.append([i, 1])
    return out


# contents a don't-care run (a string tail, a pad) may hold that LOOK like something: the rest of a wide (UTF-16)
# string, another NUL-terminated text, a second terminator followed by text, spaces, a byte-order mark
STRUCTURED = {
    "rest of a UTF-16LE string": lambda n: (b"0\x00\x00\x00" + b"\xcd" * n)[:n],
    "longer rest of a UTF-16LE string": lambda n: (b"a\x00m\x00 \x00\x00\x00" + b"\xab" * n)[:n],
    "rest of a UTF-16BE string": lambda n: (b"\x00a\x00b\x00\x00" + b"\xcd" * n)[:n],
    "another NUL-terminated text": lambda n: (b"left over\x00" * (n // 10 + 1))[:n],
    "a second NUL, then text": lambda n: (b"\x00" + b"shadow" * (n // 6 + 1))[:n],
    "spaces": lambda n: b" " * n,
    "UTF-8 BOM and text": lambda n: (b"\xef\xbb\xbfname\x00" + b"\x00" * n)[:n],
}


def structured_fills(enc, dc):
    rs = runs_of(dc)
    for name, pat in STRUCTURED.items():
        bb = bytearray(enc)
        for st, ln in rs:
            bb[st:st + ln] = pat(ln)
        yield name, bytes(bb)


def short_text_cases(chk):
    """blocks whose fixed-width strings hold 0, 1, 2 or 3 characters (the tail starts right behind them)"""
    rng = common.rng_for(chk.seed, "C12short")
    out = []
    for n in (0, 1, 2, 3):
        lab = [0x33 + i for i in range(n)]
        out.append(("OS", 1, [2, [], [[1, [], lab, [], lab, [[0, 0], [640, 480]]], [2, [], lab, [], [0x41], [[0, 0], [640, 480]]]]]))
        out.append(("EV", 1, [2, 0, [[lab, 1, 1, [blocks.rf32(rng)]], [lab + [0x42], 1, 0, []]]]))
        out.append(("EM", 1, [1, 1000, 0, 2, [3], [[lab, [blocks.rf32(rng), blocks.rf32(rng)]]]]))
        out.append(("PC", 2, [1, [], [0], [[lab, [0, 0], [0] * 12, []]]]))
        z3, z9 = [0, 0, 0], [0] * 9
        out.append(("D3", 2, [1, 100, 0, 1, z3, z9, z3, 0, [], [[lab, [[1, 2, 3]]]]]))
        out.append(("FT", 1, [1, 100, 0, 1, z3, z9, z3, [], [[lab, [[1, 2, 3, 4, 5, 6, 7, 8, 9]]]]]))
    for k, f, v in out:
        chk.count("short strings: " + k)
    return out


def check_cases(chk, cases):
    mres = codec.model_eval(cases, want=("wfb", "enc"))
    masks = codec.dc_mask(cases)
    junked = [codec.model_encj(cases, a, b) for a, b in JUNKS]
    for idx, ((kind, fmt, v), m, dc) in enumerate(zip(cases, mres, masks)):
        case = {"kind": kind, "fmt": fmt, "v": v}
        if not m["wfb"]:
            raise RuntimeError("generator produced an invalid block: " + blocks.describe(kind, fmt, v))
        chk.note_case((kind, fmt, v), len(dc) > 8)
        chk.count("dc bytes:%s" % ("0" if not dc else "<=8" if len(dc) <= 8 else "<=300" if len(dc) <= 300 else ">300"))
        base = codec.impl_decode(kind, fmt, m["enc"])
        if base.get("dec") is None:
            chk.violation("%s: zero-junk encoding does not decode: %s" % (kind, base.get("dec_exc")), case, True)
            continue
        for (a, b), enc in zip(JUNKS, junked):
            bj = enc[idx]
            r = codec.impl_decode(kind, fmt, bj)
            cj = dict(case, junk=[a, b], dont_care_positions=dc[:50])
            if r.get("dec") is None:
                chk.violation("%s fmt=%d: decoding fails when don't-care bytes are (%d*off+%d)%%256: %s" %
                              (kind, fmt, a, b, r.get("dec_exc")), cj, True)
                break
            if r["dec"] != base["dec"]:
                chk.violation("%s fmt=%d: decoded content depends on don't-care bytes: %s" %
                              (kind, fmt, codec.fdiff(r["dec"], base["dec"])), cj, True)
                break
            if r["reenc"] != base["reenc"] or r["reenc"] is None or len(r["reenc"]) != len(bj):
                chk.violation("%s fmt=%d: re-encoding after junk differs / changes size" % (kind, fmt), cj, True)
                break
            if r["dec"] != v:
                chk.violation("model and implementation disagree on junked bytes",
                              dict(cj, correspondence="Fmt.encj/dec vs _build"), False)
                break
        else:
            for name, bj in structured_fills(m["enc"], dc):
                r = codec.impl_decode(kind, fmt, bj)
                cj = dict(case, dont_care_filled_with=name, dont_care_positions=dc[:50])
                if r.get("dec") is None:
                    chk.violation("%s fmt=%d: decoding fails when every don't-care run holds %s: %s" %
                                  (kind, fmt, name, r.get("dec_exc")), cj, True)
                    break
                if r["dec"] != base["dec"]:
                    chk.violation("%s fmt=%d: decoded content depends on don't-care bytes (every run holding %s): %s" %
                                  (kind, fmt, name, codec.fdiff(r["dec"], base["dec"])), cj, True)
                    break
                if r["reenc"] != base["reenc"] or r["reenc"] is None or len(r["reenc"]) != len(bj):
                    chk.violation("%s fmt=%d: re-encoding after %s in the don't-care runs differs / changes size" % (kind, fmt, name), cj, True)
                    break


def check_capture(chk):
    if not os.path.exists(common.CAPTURE):
        return
    caps = codec.capture_blocks()
    md = codec.model_dec_bytes([(k, f, b) for k, t, f, b in caps])
    cases = [(k, f, m[0]) for (k, t, f, b), m in zip(caps, md) if m is not None]
    if len(cases) != len(caps):
        chk.violation("model cannot decode a capture block", {"correspondence": "Blocks.v vs capture"}, False)
    masks = [dc for _, dc in codec.model_capture_views(cases)]
    for (kind, ty, fmt, b), (k2, f2, v), dc in zip(caps, cases, masks):
        if dc is None:
            chk.violation("model cannot re-encode a capture block", {"correspondence": "Blocks.v vs capture"}, False)
            continue
        chk.note_case(("capture", kind, len(dc)), True)
        chk.count("capture:" + kind)
        base = codec.impl_decode(kind, fmt, b)
        if base.get("dec") is None:
            chk.violation("capture %s does not decode" % kind, {"capture_block": kind}, True)
            continue
        variants = []
        for fill in (0x00, 0xFF, 0x81, None):
            bb = bytearray(b)
            for i in dc:
                bb[i] = fill if fill is not None else (37 * i + 11) % 256
            variants.append((fill, bytes(bb)))
        variants += list(structured_fills(b, dc))
        for fill, bb in variants:
            r = codec.impl_decode(kind, fmt, bb)
            what = {"capture_block": kind, "fill": fill, "positions": dc[:50]}
            if r.get("dec") is None:
                chk.violation("capture %s: decoding fails after re-assigning its %d don't-care bytes to %r: %s" %
                              (kind, len(dc), fill, r.get("dec_exc")), what, True)
                break
            if r["dec"] != base["dec"] or r["reenc"] != base["reenc"]:
                chk.violation("capture %s: content depends on don't-care bytes (%r)" % (kind, fill), what, True)
                break


def check_container(chk):
    try:
        from harness import container
    except Exception:
        return
    container.check_dontcare(chk)


def check_text_tails(chk):
    """every fixed-width text field of the format, through the decoder that owns it: the SAME bytes in front of the first
    NUL with different bytes behind it (zeros, 0xFF, text-like remains of an older label, bytes cp1252 cannot decode) give
    the same outcome — the same text, or, when the text part itself cannot be decoded, the same refusal.  Nothing behind
    the terminator may turn a refusal into a text or one text into another."""
    from harness import c13
    rng = common.rng_for(chk.seed, "C12-tails")
    try:
        sites = c13.field_sites()
    except Exception as e:
        chk.violation("a record with valid short labels cannot be built or written: " + common.exc_info(e), {"site": "field_sites"}, False)
        return
    heads = [b"", b"Right Heel Strike", b"caf\xe9", b"chu\x9d", b"\x81", b"a\x8d\x8f b", b"\x90" * 5, b"x" * 20]
    for name, w, make, decode in sites:
        a, b = make("A" * (w - 1)), make("B" * (w - 1))
        diff = [i for i in range(min(len(a), len(b))) if a[i] != b[i]]
        if len(a) != len(b) or len(diff) != w - 1:
            chk.violation("%s: the field does not occupy %d consecutive bytes of the record" % (name, w), {"site": name}, False)
            continue
        start = diff[0]
        for head in heads:
            room = w - len(head) - 1
            if room < 2:
                continue
            tails = [b"\0" * room, b"\xff" * room, (b"rike (previous label)\0" * 20)[:room], (b"\x81\x9d" * w)[:room],
                     bytes(rng.getrandbits(8) for _ in range(room)), b"\0" * (room - 1) + b"Z"]
            want = common.run_model([(2, [w, list(head + b"\0" + tails[0])])])[0]
            outcomes = []
            for t in tails:
                rec = a[:start] + head + b"\0" + t + a[start + w:]
                try:
                    outcomes.append([0, [ord(c) for c in decode(rec)]])
                except Exception as e:
                    outcomes.append([err_code(e)])
            chk.count("one text, six tails behind its terminator: %s" % ("text" if outcomes[0][0] == 0 else "refused"))
            chk.note_case(("text tails", name, head), True)
            what = {"site": name, "width": w, "text_bytes": list(head), "outcomes": outcomes}
            odd = next((k for k, o in enumerate(outcomes) if o != outcomes[0]), None)
            if odd is not None:
                chk.violation("%s: the text bytes %r read as %s with zeros behind the terminator and as %s with %r... behind it" % (
                    name, head, shown(outcomes[0]), shown(outcomes[odd]), tails[odd][:12]), what, True)
                return
            if outcomes[0] != want:
                chk.violation("%s: the text bytes %r read as %s, Str.v's read gives %s" % (name, head, shown(outcomes[0]), shown(want)),
                              dict(what, correspondence="Str.v read"), False)


def shown(o):
    return repr("".join(map(chr, o[1]))[:40]) if o[0] == 0 else "an error (%d)" % o[0]


def run(chk):
    chk.rule = ("valid blocks of all nine types: the model's free encoder writes the block with four junk patterns "
                "(0xFF, 0x81, two position-dependent) in every don't-care position (reserved words, pads, the 256-byte "
                "calibration pad, string tails); the library must decode each to the same fields as the zero-junk "
                "encoding and re-encode to identical bytes of the same size; then every run of don't-care bytes filled with content that looks like something (the rest of a UTF-16 string, another NUL-terminated text, a second NUL then text, spaces, a BOM), also on blocks whose strings hold 0-3 characters and on blocks with hundreds of items / segments; same for the 8 capture blocks with their "
                "don't-care positions (computed by the model) re-assigned; header/entries via the container module; every fixed-width text field through the decoder that owns it: one text part (decodable or not) with six different tails behind its terminator must give one outcome; "
                "non-trivial = more than 8 don't-care bytes")
    check_cases(chk, codec.load_corpus("C12"))
    n = 700 if chk.tier == "quick" else 12000
    check_cases(chk, codec.gen_cases(chk, n, "C12"))
    check_cases(chk, short_text_cases(chk))
    check_cases(chk, codec.large_count_cases(chk))           # e.g. one track with 310 segments: every per-track pad word
    check_capture(chk)
    check_container(chk)
    check_text_tails(chk)


def replay(chk, path):
    d = json.load(open(path))["replay"]
    if "kind" in d:
        check_cases(chk, [(d["kind"], d["fmt"], d["v"])])
    else:
        check_capture(chk)
        check_container(chk)
        check_text_tails(chk)
    chk.rule = "replay of " + path

"""C18 — lookup by index, by label, membership, iteration and length are coherent."""
import json

from harness import api, common
from harness.api import cps

KINDS = ["D3", "FT", "EM", "EV"]
ERRCODE = {"ValueError": 1, "TypeError": 2, "KeyError": 3, "IndexError": 4}


def keys_for(items, labels, kind, n):
    """(model key, python key) pairs"""
    ks = []
    for i in range(-n - 2, n + 3):
        ks.append(([1, i], i))
    ks.append(([1, 1], True))
    seen = []
    nulls = [l + "\x00" for l in labels[:2]] + [l.rstrip("\x00") for l in labels if l.endswith("\x00")] + ["\x00", "c7\x00\x00"]
    for s in labels + ["c7", "C7", " c7", "c7 ", "", "absent", "HEEL", "heel ", "é€", "toe off"] + nulls:
        if s not in seen:
            seen.append(s)
            ks.append(([2, cps(s)], s))
    for s in list(dict.fromkeys(labels))[:3] + ["absent"]:
        ks.append(([2, cps(s)], api.Named(s)))          # the same texts as str-subclass instances
    import unicodedata
    for s in list(dict.fromkeys(labels)) + ["Met\xe0 piede", "\xe9\u20ac"]:
        for form in ("NFD", "NFKD"):
            k = unicodedata.normalize(form, s)          # another spelling of the same glyphs (letter + combining accent): another key
            if k != s and k not in seen:
                seen.append(k)
                ks.append(([2, cps(k)], k))
    return ks, [([3], None), ([4, 1], 1.5), ([4, 2], b"c7"), ([4, 3], ["c7"]), ([4, 4], (0,)), ([4, 5], object())]


def one_block(chk, rng, kind, idx):
    n = rng.choice([0, 1, 2, 3, 4, 6])
    nfr = rng.choice([1, 2, 5])
    labels = [rng.choice(api.LABEL_POOL) for _ in range(n)]
    if n and rng.random() < 0.15:        # a name taken from a fixed-width buffer without cutting at the terminator
        j = rng.randrange(n)
        labels[j] = labels[j][:20] + "\x00" * rng.randrange(1, 5)
    content = {}
    items, mitems = [], []
    for j, lab in enumerate(labels):
        salt = rng.randrange(2)
        # events carry their own number of values (possibly none: such an event is falsy in Python)
        ni = nfr if kind != "EV" else rng.choice([0, 0, 1, 3])
        it = api.make_item(kind, lab, ni, salt)
        cid = content.setdefault((lab, salt, ni), len(content) + 1)
        items.append(it)
        mitems.append([0, cid, cps(lab), ni])
    b = api.make_block(kind, nfr)
    api.install(kind, b, items)
    edits = []

    def do_edits(count):
        for _ in range(count):
            r = rng.random()
            if r < 0.12 and len(items) >= 2:
                # an earlier item takes the label of a later one: the FIRST carrier of that label is now another item
                j = rng.randrange(1, len(items))
                i = rng.randrange(0, j)
                items[i].label = labels[j]
                labels[i] = labels[j]
                mitems[i] = [0, 7000 + len(edits) * 10 + i, cps(labels[j]), mitems[i][3]]
                edits.append("relabel %d -> the label of %d" % (i, j))
                continue
            if r < 0.2 and len(items) >= 2 and kind != "EM":
                # the same items in reverse order (assigned through the list setter / the event list reversed)
                if kind == "EV":
                    b.events.reverse()
                else:
                    b.tracks = list(reversed(list(b.tracks)))
                items.reverse(), labels.reverse(), mitems.reverse()
                edits.append("reverse")
                continue
            r = (r - 0.2) / 0.8
            if r < 0.4 and items:
                j = rng.randrange(len(items))
                if kind == "EM":
                    j = labels.index(labels[j])            # removeSignal(label) removes the first carrier
                    b.removeSignal(labels[j])
                elif kind == "EV":
                    del b.events[j]
                else:
                    b.tracks = [t for k, t in enumerate(b.tracks) if k != j]
                edits.append("remove %d" % j)
                del items[j], labels[j], mitems[j]
            elif r < 0.7:
                lab = rng.choice(api.LABEL_POOL)
                salt = rng.randrange(2)
                ni = nfr if kind != "EV" else rng.choice([0, 1, 3])
                it = api.make_item(kind, lab, ni, salt)
                api.install(kind, b, [it]) if kind != "EV" else b.events.append(it)
                items.append(it)
                labels.append(lab)
                mitems.append([0, content.setdefault((lab, salt, ni), len(content) + 1), cps(lab), ni])
                edits.append("add %r" % lab)
            elif items:
                j = rng.randrange(len(items))
                lab = rng.choice(api.LABEL_POOL)
                items[j].label = lab
                labels[j] = lab
                mitems[j] = [0, 5000 + len(edits) * 10 + j, cps(lab), mitems[j][3]]
                edits.append("relabel %d -> %r" % (j, lab))

    def inspect(stage):
        n = len(items)
        before_ids = [id(x) for x in api.items_of(kind, b)]
        before_bytes = api.encoded(b)
        ks, others = keys_for(items, labels, kind, n)
        # item keys: a present object, an equal-but-distinct one, an absent one, an item of another class
        item_keys = []
        if items:
            j = rng.randrange(n)
            item_keys.append((mitems[j], items[j], "present"))
            lab = labels[j]
            hit = next(((s, k) for (l, s, k) in content if l == lab and content[(l, s, k)] == mitems[j][1]), None)
            if hit is not None:
                item_keys.append((mitems[j], api.make_item(kind, lab, hit[1], hit[0]), "equal copy"))
            # near misses of a present item: the same label with other numbers, the same numbers under another label —
            # neither is "in" the block (an item is its label AND its data)
            if hit is not None and hit[1] > 0:
                twin = api.make_item(kind, lab, hit[1], hit[0] + 11)
                same = api.make_item(kind, lab, hit[1], hit[0])
                held = [api.encoded_item(kind, x) for x, l in zip(items, labels) if l == lab]
                if api.encoded_item(kind, twin) not in held:
                    item_keys.append(([0, 9100 + j, cps(lab), mitems[j][3]], twin, "same label, other data"))
                same.label = lab + "'" if len(lab) < 200 else "other"
                if same.label not in labels:
                    item_keys.append(([0, 9200 + j, cps(same.label), mitems[j][3]], same, "same data, other label"))
        item_keys.append(([0, 999, cps("nobody"), nfr], api.make_item(kind, "nobody", nfr, 7), "absent"))
        other_kind = "EV" if kind != "EV" else "EM"
        foreign = api.make_item(other_kind, "c7", nfr)
        allk = ks + others + [(m, p) for m, p, _ in item_keys] + [([4, 9], foreign)]
        # ---- implementation
        obs = []
        for mk, pk in allk:
            try:
                r = b[pk]
                g = [0, before_ids.index(id(r))] if id(r) in before_ids else [0, -1]
            except Exception as e:
                g = [api.exc_name(e)]
            try:
                c = [0, 1 if (pk in b) else 0]
            except Exception as e:
                c = [api.exc_name(e)]
            obs.append((g, c))
        it = [id(x) for x in b]
        ln = len(b)
        # iteration is repeatable and re-entrant: two iterators over one block do not disturb each other, and iterating does
        # not change the block (not even attributes that do not show in its encoding)
        state0 = sorted((k, id(v)) for k, v in vars(b).items())
        pairs = [(id(x), id(y)) for x, y in zip(b, b)]
        nested = sum(1 for _x in b for _y in b)
        i1 = iter(b)
        head = [id(next(i1))] if ln else []
        full = [id(x) for x in b]                    # a complete pass while i1 is suspended
        rest = head + [id(x) for x in i1]
        state1 = sorted((k, id(v)) for k, v in vars(b).items())
        what = {"kind": kind, "labels": labels, "nframes": nfr, "edits_before_lookup": edits}
        chk.note_case((kind, tuple(labels), nfr), n >= 2 and len(set(labels)) < n or n >= 1)
        chk.count("%s items=%d" % (kind, n))
        chk.count("duplicate labels" if len(set(labels)) < n else "distinct labels")
        chk.count("edited before lookup: %d" % len(edits))
        # ---- oracle: the property's clauses on the implementation alone
        found = None
        if ln != len(it):
            found = "len() = %d but iteration yields %d items" % (ln, len(it))
        elif it != before_ids:
            found = "iteration does not yield the items in order"
        if not found:
            if pairs != [(i, i) for i in before_ids]:
                found = "zip(block, block) pairs %d items (i-th with i-th expected for all %d)" % (len(pairs), n)
            elif nested != n * n:
                found = "a loop over the block nested in a loop over the block runs %d times, expected %d" % (nested, n * n)
            elif full != before_ids or rest != before_ids:
                found = "an iterator suspended while the block is iterated again yields %d items, the other pass %d (expected %d each)" % (len(rest), len(full), n)
            elif state0 != state1:
                found = "iterating changed an attribute of the block (%r)" % sorted(set(k for k, _ in set(state0) ^ set(state1)))
        for (mk, pk), (g, c) in zip(allk, obs):
            if found:
                break
            if mk[0] == 1:
                i = mk[1]
                if -n <= i < n:
                    if g != [0, i % n]:
                        found = "block[%r] returned %r, expected the item at position %d" % (pk, g, i % n)
                elif g != ["IndexError"]:
                    found = "block[%r] with %d items gave %r, expected IndexError" % (pk, n, g)
            elif mk[0] == 2:
                first = next((j for j, l in enumerate(labels) if l == pk), None)
                if first is None:
                    if g != ["KeyError"]:
                        found = "block[%r] (no such label) gave %r, expected KeyError" % (pk, g)
                    if c != [0, 0]:
                        found = found or "%r in block is %r although no item carries that label" % (pk, c)
                else:
                    if g != [0, first]:
                        found = "block[%r] returned %r, expected the first carrier at position %d" % (pk, g, first)
                    if c != [0, 1]:
                        found = found or "%r in block is %r although lookup by it succeeds" % (pk, c)
            elif mk[0] in (3, 4):
                if g != ["TypeError"]:
                    found = "block[%r] gave %r, expected TypeError" % (type(pk).__name__, g)
                elif c != ["TypeError"]:
                    found = "%s in block gave %r, expected TypeError" % (type(pk).__name__, c)
            elif mk[0] == 0:
                if g != ["TypeError"]:
                    found = "block[<item>] gave %r, expected TypeError" % (g,)
        if not found and ([id(x) for x in api.items_of(kind, b)] != before_ids or api.encoded(b) != before_bytes):
            found = "a lookup changed the block"
        if found:
            chk.violation("C18 %s: %s [labels %r, %s]" % (kind, found, labels, stage), what, True)
            return True
        # ---- correspondence with BlockAPI.v
        m = common.run_model([(40, [list(mitems), [mk for mk, _ in allk]])])[0][1]
        if m[0] != ln:
            chk.violation("C18 %s: correspondence broken: len %d vs b_len %d" % (kind, ln, m[0]), dict(what, correspondence="BlockAPI.b_len"), False)
            return True
        for (mk, pk), (g, c), (mg, mc) in zip(allk, obs, m[1]):
            eg = [0, None] if mg[0] == 0 else [{1: "ValueError", 2: "TypeError", 3: "KeyError", 4: "IndexError"}[mg[0]]]
            if mg[0] == 0:
                # the model returns the item; its position is the first item with that content id and label
                want = mg[1]
                got = mitems[g[1]] if g[0] == 0 and g[1] >= 0 else None
                okg = got is not None and want[1:] == got[1:]
            else:
                okg = g == eg
            ec = [0, mc[1]] if mc[0] == 0 else [{1: "ValueError", 2: "TypeError", 3: "KeyError", 4: "IndexError"}[mc[0]]]
            if not okg or c != ec:
                chk.violation("C18 %s: correspondence broken at key %r: block[k] -> %r (model %r), k in block -> %r (model %r)" %
                              (kind, pk if not hasattr(pk, "label") else "<item>", g, mg, c, ec),
                              dict(what, correspondence="BlockAPI.getitem / contains", key=repr(mk)), False)
                return True

        return False

    # the block is looked into, edited (removals, additions, re-labelling, re-ordering), and looked into again: what a lookup
    # returns depends on what the block holds NOW
    first_look = rng.random() < 0.6
    if first_look and inspect("before any edit"):
        return
    do_edits(rng.choice([0, 1, 2, 3]) if first_look else rng.choice([0, 0, 1, 2, 3]))
    if edits or not first_look:
        inspect("after the edits %r%s" % (edits, " that followed a first round of lookups" if first_look else ""))


def run(chk):
    chk.rule = ("blocks of the four kinds (3D markers, force/torque, EMG, events) with 0-6 items whose labels are drawn from a "
                "pool built to collide (duplicates, empty, case and blank variants, non-ASCII, 255 characters, trailing NULs); keys: every "
                "integer in [-n-2, n+2], True, every pool label and near-miss variants (incl. the label plus / minus trailing NULs), None, float, bytes, list, tuple, an "
                "arbitrary object, item objects (the present object, an equal copy, an absent one, an item of another class); "
                "observed: len, iteration order (one pass, two simultaneous iterators, a nested loop, a suspended iterator), block[key], key in block, and that the block's items and encoding are unchanged; "
                "non-trivial = at least one item")
    rng = common.rng_for(chk.seed, "C18")
    n = 600 if chk.tier == "quick" else 6000
    for i in range(n):
        one_block(chk, rng, KINDS[i % 4], i)
        if chk.n_found() >= 3:
            break


def replay(chk, path):
    run(chk)
    chk.rule = "replay (re-runs the seeded blocks) of " + path

"""C11 — see harness/cprops.py (shared container engine) and coq/Properties/C11.v."""
from harness import cprops


def run(chk):
    cprops.run(chk, "C11")


def replay(chk, path):
    cprops.replay(chk, "C11", path)

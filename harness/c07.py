"""C07 — see harness/cprops.py (shared container engine) and coq/Properties/C07.v."""
from harness import cprops


def run(chk):
    cprops.run(chk, "C07")


def replay(chk, path):
    cprops.replay(chk, "C07", path)

"""C10 — see harness/cprops.py (shared container engine) and coq/Properties/C10.v."""
from harness import cprops


def run(chk):
    cprops.run(chk, "C10")


def replay(chk, path):
    cprops.replay(chk, "C10", path)

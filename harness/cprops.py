"""Correspondence + oracles for the container properties C03, C04, C07, C09, C10, C11.

One exploration engine: operation histories (exhaustive small scope + random + fault injection + the BTS
capture) are run on the implementation (real files, scripted clock, fresh OS handle after every call) and
on the extracted Container.v model; each property compares exactly the observation it talks about and
evaluates its own oracle on the implementation alone (that oracle is the failing-input search)."""
import copy
import hashlib
import io
import itertools
import json
import os
import shutil
import tempfile

from harness import blocks, codec, common, container
from harness.container import (DEFAULT_COMMENT, OPAQUE_TYPES, SETTER, T0, Clock, Spec, cps,
                               craft_file, disk_state, entry_tuple, history_label, op_json, op_unjson,
                               scripted_clock, ts)

ACC_TYPES = [5, 11, 12, 9, 16, 2, 4, 6, 7, 13]
GETTERS = {5: "data3D", 12: "force_and_torque", 9: "force_platforms_data", 16: "events", 11: "emg",
           2: "calibrationData"}
HAS = {5: "has_data3D", 12: "has_force_and_torque", 9: "has_force_platforms_data", 16: "has_events",
       11: "has_emg"}
KIND_OF_TY = {v: k for k, v in blocks.TY.items()}


# ------------------------------------------------------------------ material
def bad_label_spec(kind, rng, where):
    """a block whose `where` (first / last) item carries a label that cannot be written"""
    for _ in range(50):
        fmt, v = blocks.gen(kind, rng, big=4, nframes=2)
        items = {"D3": 9, "EM": 5, "FT": 8, "EV": 2, "PC": 3, "OS": 2}[kind]
        if len(v[items]) >= 2:
            break
    else:
        return None
    i = 0 if where == "first" else len(v[items]) - 1
    bad = [0x78] * 300 if rng.random() < 0.6 else [0x78, 0x2192]        # too long | not cp1252
    if kind == "OS":
        v[items][i][2 + rng.randrange(3)] = bad[:40] if len(bad) > 2 else bad
    else:
        v[items][i][0] = bad
    return Spec(kind, fmt, v, bad="label_" + where)


def make_pool(rng, kinds, big=False):
    pool = {}
    for k in kinds:
        pool[k] = [container.small_block(k, rng, 0), container.small_block(k, rng, 1), container.small_block(k, rng, 1)]
        if k == "D3":
            # one of the marker blocks always has a link table, with links that name tracks the block does not (yet) hold —
            # the format stores what it is given
            for _ in range(30):
                f, v = blocks.gen("D3", rng, fmt=1, big=4, nframes=rng.choice((1, 2, 3)))
                if v[9]:
                    break
            v[8] = [2, [], [[0, len(v[9]) + 6], [len(v[9]) + 2, 1]]]
            pool[k][2] = Spec("D3", 1, v)
        if k == "EM":
            # ... and one of the EMG blocks always has gaps and is built from numpy masked arrays (the mask is the gaps)
            for _ in range(40):
                f, v = blocks.gen("EM", rng, big=4, nframes=rng.choice((3, 5, 8)))
                if v[5] and any(fr == [] for sig in v[5] for fr in sig[1]) and any(fr != [] for sig in v[5] for fr in sig[1]):
                    break
            sp = Spec("EM", f, v)
            sp.layout = "masked"
            pool[k][2] = sp
    if big:
        # a payload larger than 64 KiB so that tail moves span several I/O chunks
        fmt, v = blocks.gen("EM", rng, big=2, nframes=9000)
        v[0], v[4] = 2, [1, 2]
        v[5] = [[[65], [0x3F800000 + (i % 1000) for i in range(9000)]], [[66], [0x40000000 + (i % 777) for i in range(9000)]]]
        pool.setdefault("EM", []).append(Spec("EM", fmt, v))
    return pool


BAD_COMMENTS = ["y" * 256, "z" * 300, "bad → arrow"]


def inject_faults(rng, ops, kinds, pool):
    """insert rejected calls (every cause of C07) at random positions"""
    out = list(ops)
    n = rng.randrange(1, 4)
    for _ in range(n):
        k = rng.choice(kinds)
        cause = rng.choice(["dup", "comment", "comment_replace", "label_first", "label_last", "format", "wrong_object",
                            "absent_remove", "absent_replace", "bad_set", "format_int", "bad_date", "comment_none"])
        spec = rng.choice(pool[k])
        if cause == "dup":
            op = [("add", spec, None), ("add", rng.choice(pool[k]), "again")]
        elif cause == "comment":
            op = [("add", spec, rng.choice(BAD_COMMENTS))]
        elif cause == "comment_none":
            op = [("add", spec, container.EXPLICIT_NONE)]
        elif cause == "comment_replace":
            op = [("replace", spec, rng.choice(BAD_COMMENTS))]
        elif cause in ("label_first", "label_last"):
            kk = rng.choice([x for x in kinds if x in ("D3", "EM", "FT", "EV", "PC", "OS")] or ["EV"])
            s = bad_label_spec(kk, rng, cause[6:])
            if s is None:
                continue
            op = [(rng.choice(["add", "replace"]), s, None)] if rng.random() < 0.7 or kk not in SETTER else [("set", s)]
        elif cause == "format":
            kk = rng.choice(["D3", "EM"])
            s = copy.deepcopy(rng.choice(pool[kk])) if kk in pool else container.small_block(kk, rng, 1)
            s.bad = "format"
            op = [(rng.choice(["add", "replace"]), s, None)]
        elif cause in ("format_int", "bad_date"):
            s = copy.deepcopy(spec)
            s.bad = cause
            # on a type that is present (replace / set) and on one that is absent (add)
            pre = [("add", spec, None)] if rng.random() < 0.6 else []
            op = pre + [(rng.choice(["replace", "add"] + (["set"] if k in SETTER else [])), s, None)][:2]
            op = [o if o[0] != "set" else ("set", o[1]) for o in op]
        elif cause == "wrong_object":
            s = copy.deepcopy(spec)
            s.bad = "wrong_object"
            op = [("add", s, None)]
        elif cause == "absent_remove":
            op = [("remove", rng.choice(OPAQUE_TYPES + [blocks.TY[k]]))]
        elif cause == "absent_replace":
            op = [("replace", spec, None)]
        else:
            kk = rng.choice([x for x in kinds if x in SETTER and x in ("D3", "EM", "FT", "EV")] or ["EV"])
            s = bad_label_spec(kk, rng, "last")
            if s is None:
                continue
            op = [("set", s)]
        pos = rng.randrange(0, len(out) + 1)
        out[pos:pos] = op
    return out


def crafted(workdir, tag, n, live, rng):
    p = os.path.join(workdir, "init_%s.tdf" % tag)
    craft_file(p, n, live, free_meta=[(T0 - 100 - k, "free %d" % k if k % 2 else "") for k in range(n - len(live))])
    return p


def opaque_live(rng, count):
    live = []
    for ty in rng.sample(OPAQUE_TYPES, count):
        payload = bytes(rng.getrandbits(8) for _ in range(rng.choice((0, 1, 7, 64, 300))))
        live.append((ty, rng.randrange(0, 4), payload, T0 - rng.randrange(1, 10 ** 6), T0 - rng.randrange(1, 10 ** 6),
                     T0 - 3, rng.choice(container.COMMENTS[1:])))
    return live


# ------------------------------------------------------------------ the exploration
class Case:
    __slots__ = ("desc", "init", "contexts", "steps", "msteps", "n0", "stratum", "who")


def observe_outside(tdf, rec):
    """C10 / C11: what the long-lived object says about the file while NO context is open, asked right after a
    context was closed (possibly a context of another Tdf object on the same path) and before any getter: the
    presence checks first, then the block list"""
    out = {"has": {}}
    for ty in ACC_TYPES:
        if ty in HAS:
            try:
                out["has"][ty] = bool(getattr(tdf, HAS[ty]))
            except Exception as e:
                out["has"][ty] = "raised " + type(e).__name__
    try:
        out["blocks"] = [block_id(b) for b in tdf.blocks]
    except NotImplementedError:
        out["blocks"] = "notimpl"
    except Exception as e:
        out["blocks"] = "raised " + type(e).__name__
    rec["outside"] = out


def observe_accessors(t, rec):
    """everything C10 / C11 look at, evaluated through the open object right after the call"""
    from basictdf import Tdf
    from basictdf.tdfBlock import BlockType
    acc = {}
    try:
        acc["len"] = len(t)
    except Exception as e:
        acc["len"] = "raised " + type(e).__name__
    try:
        acc["nbytes"] = int(t.nBytes)
    except Exception as e:
        acc["nbytes"] = "raised " + type(e).__name__
    has, get = {}, {}
    for ty in ACC_TYPES:
        if ty in HAS:
            try:
                has[ty] = bool(getattr(t, HAS[ty]))
            except Exception as e:
                has[ty] = "raised " + type(e).__name__
        get[ty] = fetch(lambda: t.get_block(BlockType(ty)))
        if ty in GETTERS:
            g = fetch(lambda: getattr(t, GETTERS[ty]))
            if g != get[ty]:
                get[ty] = ("getter differs from get_block", g, get[ty])
    acc["has"], acc["get"] = has, get
    n = len(t.entries)
    acc["index"] = {i: fetch(lambda: t.get_block(i)) for i in (-1, 0, 1, n - 1, n)}
    try:
        bl = t.blocks
        acc["blocks"] = [block_id(b) for b in bl]
    except NotImplementedError:
        acc["blocks"] = "notimpl"
    except Exception as e:
        acc["blocks"] = "raised " + type(e).__name__
    acc["bad_key"] = fetch(lambda: t.get_block("data3D"))
    rec["acc"] = acc
    # what a second, freshly opened object sees while the first is still inside its context
    try:
        with Tdf(rec["path"]) as t2:
            rec["reopen_mid"] = [entry_tuple(e) for e in t2.entries]
    except Exception as e:
        rec["reopen_mid"] = "raised " + common.exc_info(e)


def observe_get(t, rec):
    """C04: every live block read through the open object right after the call"""
    out = {}
    for i, e in enumerate(t.entries):
        ty = int(e.type.value)
        if ty != 0:
            out[ty] = fetch(lambda: t.get_block(i))
            byty = fetch(lambda: t.get_block(e.type))
            if byty != out[ty]:
                out[ty] = ("lookup by type and by slot differ", out[ty], byty)
    rec["get_now"] = out


def block_id(b):
    try:
        f = io.BytesIO()
        b._write(f)
        return (int(b.type.value), hashlib.sha1(f.getvalue()).hexdigest())
    except Exception as e:
        return (int(b.type.value), "unwritable " + type(e).__name__)


def fetch(thunk):
    try:
        return block_id(thunk())
    except NotImplementedError:
        return "notimpl"
    except IndexError:
        return "IndexError"
    except TypeError:
        return "TypeError"
    except Exception as e:
        return "raised " + type(e).__name__


DIGEST_ABOVE = 1 << 20         # model states with more data than this are printed as (length, Adler-32 sums) only


class Digest:
    """the data region of a large model state, known by length and Adler-32 sums: compares with bytes"""
    __hash__ = None

    def __init__(self, n, a, b):
        self.n, self.a, self.b = n, a, b

    def __len__(self):
        return self.n

    def __eq__(self, other):
        if isinstance(other, Digest):
            return (self.n, self.a, self.b) == (other.n, other.a, other.b)
        if isinstance(other, (bytes, bytearray)):
            if len(other) != self.n:
                return False
            import zlib
            v = zlib.adler32(bytes(other))
            return (v & 0xFFFF, v >> 16) == (self.a, self.b)
        return NotImplemented

    def __ne__(self, other):
        r = self.__eq__(other)
        return r if r is NotImplemented else not r


def model_data(v):
    if len(v) == 4 and v[0] == -1:
        return Digest(v[1], v[2], v[3])
    return bytes(v)


def run_cases(chk, specs, want_acc):
    """specs: [(desc, init_path, contexts, stratum)] -> [Case] with both sides evaluated"""
    cases, jobs = [], []
    for spec in specs:
        desc, init, contexts, stratum = spec[:4]
        who = spec[4] if len(spec) > 4 else None
        c = Case()
        c.desc, c.contexts, c.stratum, c.who = desc, contexts, stratum, who
        path = os.path.join(chk.work, "run_%d.tdf" % len(cases))
        shutil.copyfile(init, path)
        c.init = disk_state(path)
        c.n0 = c.init["n"]

        def obs(t, rec, path=path):
            rec["path"] = path
            if want_acc is True:
                observe_accessors(t, rec)
            elif want_acc == "readback":
                observe_get(t, rec)
        try:
            c.steps = container.run_impl(path, contexts, observe=obs, who=who, outside=observe_outside if want_acc is True else None)
        except Exception as e:
            c.steps = []
            chk.violation("history cannot be run at all: %s on %s: %s" % (history_label(contexts), desc, common.exc_info(e)),
                          replay_of(c), False)
        if want_acc == "readback" and c.steps:
            c.steps[-1]["readback"] = read_back(path)
        os.unlink(path)
        flat = [o for ctx in contexts for o in ctx]
        nows = [s["now"] for s in c.steps]
        jobs.append((c.init, flat[:len(c.steps)], nows, [s["rc"] for s in c.steps], [in_readonly_context(c, k) for k in range(len(c.steps))]))
        cases.append(c)
    mcases = []
    for init, ops, nows, rcs, ro in jobs:
        mops = []
        for k, (op, now) in enumerate(zip(ops, nows)):
            mo = container.model_op(op, now, rc=rcs[k])
            if ro[k] and rcs[k] != 0:
                mo = None                        # refused inside a read-only context: the model keeps its state
            mops.append(mo if mo is not None else [9])
        mcases.append((36, [container.model_state(init), mops, ACC_TYPES, DIGEST_ABOVE]))
    res = common.run_model_sharded(mcases)
    for c, r in zip(cases, res):
        c.msteps = []
        for st in r[1]:
            rc, s, acc = st
            c.msteps.append({"rc": rc, "n": s[0], "mem": s[1], "tab": s[2], "data": model_data(s[3]), "acc": acc})
    return cases


def read_back(path):
    """every block of the file through a freshly opened Tdf: {type: (type, sha of its re-encoding)}"""
    from basictdf import Tdf
    out = {}
    try:
        with Tdf(path) as t:
            for i, e in enumerate(t.entries):
                if int(e.type.value) != 0:
                    out[int(e.type.value)] = fetch(lambda: t.get_block(i))
    except Exception as x:
        out["error"] = common.exc_info(x)
    return out


def replay_of(c, step=None):
    return {"initial": c.desc, "n": getattr(c, "n0", None), "history": [[op_json(o) for o in ctx] for ctx in c.contexts],
            "contexts_run_by": getattr(c, "who", None) or "the client's one long-lived Tdf object",
            "step": step, "initial_file_hex": c.init["raw"].hex() if getattr(c, "init", None) and len(c.init["raw"]) < 20000 else None}


def gen_specs(chk, pid):
    """the histories explored for one property check"""
    from basictdf import Tdf
    rng = common.rng_for(chk.seed, "container", pid)
    quick = chk.tier == "quick"
    kinds3 = ["EV", "EM", "D3"]
    specs = []
    # --- 1. exhaustive small scope: every history up to L over 3 types x 2 sizes x {add, remove, replace, set}
    pool3 = make_pool(rng, kinds3)
    alphabet = []
    for k in kinds3:
        for s in pool3[k][:2]:
            alphabet += [("add", s, None), ("replace", s, None), ("set", s)]
        alphabet.append(("remove", blocks.TY[k]))
    L = 2 if quick else 3
    inits = []
    for n in (1, 2, 3):
        inits.append((crafted(chk.work, "ex%d" % n, n, [], rng), "crafted N=%d empty" % n))
        if n >= 2:
            inits.append((crafted(chk.work, "ex%dp" % n, n, opaque_live(rng, 1), rng), "crafted N=%d + 1 opaque block" % n))
    for init, desc in inits:
        for l in range(1, L + 1):
            for seq in itertools.product(alphabet, repeat=l):
                if not quick and l == 3 and rng.random() < 0.6:      # thin the largest layer (still > 10 000)
                    continue
                specs.append((desc, init, [list(seq)], "exhaustive<=%d" % L))
    chk.extra["exhaustive_small_scope"] = {"alphabet": len(alphabet), "max_length": L, "initial_files": len(inits)}
    # --- 2. random histories on Tdf.new and crafted files (all nine kinds, several contexts, faults injected)
    nrand = 150 if quick else 2500
    all_kinds = blocks.KINDS
    pool = make_pool(rng, all_kinds, big=True)
    files = container.initial_files(rng, chk.work, "r")
    for n in (2, 3, 4):                                         # full or nearly full tables
        files.append((crafted(chk.work, "full%d" % n, n, opaque_live(rng, n - 1), rng), "crafted N=%d live=%d" % (n, n - 1)))
    for i in range(nrand):
        init, desc = files[i % len(files)]
        n = codec.parse_tdf(open(init, "rb").read())["n"]
        kinds = rng.sample(all_kinds, rng.randrange(2, 6))
        ops = container.random_history(rng, kinds, rng.randrange(2, 26 if n >= 5 else 10), pool)
        if rng.random() < 0.55:
            ops = inject_faults(rng, ops, kinds, pool)
        ctxs = container.split_contexts(rng, ops)
        who = rng.choice([None, None, ["long", "fresh"], ["fresh", "long", "long"]]) if len(ctxs) >= 2 else None
        specs.append((desc, init, ctxs, "random") + ((who,) if who else ()))
    # --- 3. mandatory strata: remove first / middle / last live block with 0, 1, many unused slots after it
    for nfree in (0, 1, 5):
        for pos in (0, 1, 2):
            n = 3 + nfree
            init = crafted(chk.work, "st%d_%d" % (nfree, pos), n, [], rng)
            ks = ["EV", "EM", "D3"]
            ops = [("add", rng.choice(pool[k][1:3]), "c%d" % j) for j, k in enumerate(ks)]
            ops.append(("remove", blocks.TY[ks[pos]]))
            ops.append(("add", rng.choice(pool["FT"]), None) if rng.random() < 0.5 else ("set", rng.choice(pool[ks[pos]])))
            specs.append(("crafted N=%d empty" % n, init, [ops[:2], ops[2:]], "remove pos=%d free_after=%d" % (pos, nfree)))
    # --- 3b. boundary strata: the 14-slot table filled completely; blocks of identical size next to each other;
    #         dates at the end of the 32-bit range
    for j in range(2 if quick else 10):
        init = crafted(chk.work, "full14_%d" % j, 14, opaque_live(rng, 5), rng)
        adds = [("add", rng.choice(pool[k][1:3]), "slot") for k in blocks.KINDS]           # 5 + 9 = 14 live blocks
        rng.shuffle(adds)
        tail = [("set", rng.choice(pool["EV"])), ("replace", rng.choice(pool["D3"]), None), ("add", pool["EM"][1], "no room"),
                ("remove", rng.choice(OPAQUE_TYPES)), ("remove", blocks.TY[rng.choice(blocks.KINDS)]), ("add", pool["FT"][1], "again"),
                ("set", rng.choice(pool["FT"])), ("remove", 16), ("set", rng.choice(pool["EV"]))]
        specs.append(("crafted N=14 live=5", init, [adds[:5], adds[5:] + tail[:3], tail[3:]], "table filled to the 14th slot"))
    for j in range(2 if quick else 10):
        ev = rng.choice(pool["EV"][1:3])
        size = len(ev.as_model()[3][0])
        twin = [(ty, 1, bytes(rng.getrandbits(8) for _ in range(size)), T0 - 5, T0 - 4, T0 - 3, "same size") for ty in rng.sample(OPAQUE_TYPES, 2)]
        init = os.path.join(chk.work, "same%d.tdf" % j)
        craft_file(init, 6, twin)
        ops = [("add", ev, None), ("remove", twin[0][0]), ("add", rng.choice(pool["EM"][1:3]), None), ("remove", 16), ("add", ev, "back"),
               ("remove", twin[1][0])]
        specs.append(("crafted N=6 live=2 (same-size blocks)", init, [ops[:3], ops[3:]], "blocks of identical size"))
        # ... and the plainest case: the removed block is exactly as long as everything stored behind it (one twin; two halves)
        init2 = os.path.join(chk.work, "same%db.tdf" % j)
        half = [(ty, 1, bytes(rng.getrandbits(8) for _ in range(size // 2)), T0 - 5, T0 - 4, T0 - 3, "half") for ty in rng.sample([t for t in OPAQUE_TYPES if t not in (twin[0][0], twin[1][0])], 2)]
        if j % 2 and size % 2 == 0:
            craft_file(init2, 6, [twin[0]] + half)
        else:
            craft_file(init2, 6, twin)
        specs.append(("crafted N=6 (the first block as long as all that follows it)", init2, [[("remove", twin[0][0]), ("add", ev, None)], [("remove", twin[1][0])] if not (j % 2 and size % 2 == 0) else [("remove", half[0][0])]],
                      "blocks of identical size"))
    for j, stamp in enumerate((2 ** 31 - 1, 2 ** 31 - 2, 0, 1, -1, -2 ** 31, -2 ** 31 + 1, -157766400)):
        sp = copy.deepcopy(rng.choice(pool["EV"][1:3]))
        sp.cd, sp.md = stamp, max(stamp - 1, -2 ** 31)
        init = crafted(chk.work, "date%d" % j, 4, [], rng)
        # the dated entry is written, re-read on the next context, shifted up by a removal before it, and replaced
        specs.append(("crafted N=4 empty", init, [[("add", pool["EM"][1], None), ("add", sp, "dated"), ("add", pool["D3"][1], None)],
                                                  [("remove", 11), ("set", sp), ("remove", 5)]],
                      "dates at the ends of the 32-bit range and before 1970"))
    # the block's dates given as time-zone-aware datetimes (UTC, +5:30, -8:00, mixed): the same instants must be stored
    for j, tz in enumerate(((0, 0), (330, 330), (-480, 60), (60, -720))):
        sp = copy.deepcopy(rng.choice(pool["EV"][1:3]))
        sp.tz = tz
        sp2 = copy.deepcopy(rng.choice(pool["D3"][1:3]))
        sp2.tz = (tz[1], tz[0])
        init = crafted(chk.work, "aware%d" % j, 4, [], rng)
        specs.append(("crafted N=4 empty", init, [[("add", pool["EM"][1], None), ("add", sp, "aware"), ("add", sp2, None)],
                                                  [("remove", 11), ("set", sp), ("replace", sp2, "again")]],
                      "block dates given as time-zone-aware datetimes"))
    for j in range(2 if quick else 6):                     # the same in entries somebody else wrote
        stamps = [rng.choice((-1, -2 ** 31, -86400 * 400, 2 ** 31 - 1, -7)) for _ in range(3)]
        live = [(ty, 1, bytes(rng.getrandbits(8) for _ in range(rng.randrange(1, 50))), stamps[0], stamps[1], stamps[2], "old")
                for ty in rng.sample(OPAQUE_TYPES, 3)]
        init = os.path.join(chk.work, "olddates%d.tdf" % j)
        craft_file(init, 6, live)
        ops = [("add", pool["EV"][1], None), ("remove", live[0][0]), ("add", pool["EM"][1], None), ("remove", live[1][0]), ("set", pool["EV"][2])]
        specs.append(("crafted N=6 live=3 (foreign dates)", init, [ops[:2], ops[2:]], "dates at the ends of the 32-bit range and before 1970"))
    # a comment of exactly the field width (and one less) on an entry in the MIDDLE of the table, then removals and
    # replacements in front of it: the entries behind are re-serialised and must stay on their 288-byte grid
    for j, clen in enumerate((256, 255, 256) if quick else (256, 255, 256, 255, 257, 256)):
        init = crafted(chk.work, "widecomment%d" % j, 5, opaque_live(rng, j % 2), rng)
        k1, k2, k3 = rng.sample(["EV", "EM", "D3", "FT", "PD"], 3)
        wide = ("add", pool[k2][1], "w" * clen) if j % 3 != 2 else ("replace", pool[k2][2], "w" * clen)
        pre = [("add", pool[k1][1], None)] + ([("add", pool[k2][1], "short")] if wide[0] == "replace" else [])
        ops = pre + [wide, ("add", pool[k3][1], "behind"), ("remove", blocks.TY[k1]), ("set", pool[k3][2]) if k3 in SETTER else ("replace", pool[k3][2], None),
                     ("remove", blocks.TY[k2])]
        specs.append(("crafted N=5 + %d opaque" % (j % 2), init, [ops[:3], ops[3:]], "comment of the full field width in the middle of the table"))
    # --- 3c. two Tdf objects on one path, used one after the other: the client's long-lived object, and a second object
    #          created for one context (another part of the program).  What the second one did must be seen by the first:
    #          a same-size replacement of a block that is not the last (the file length stays the same, every later block
    #          moves), an add, a removal — followed by mutations and questions through the long-lived object
    for j in range(3 if quick else 12):
        k1, k2, k3 = rng.sample(["EV", "EM", "D3", "FT", "PD"], 3)
        first = pool[k1][1 + j % 2]
        twin, want = None, len(first.as_model()[3][0])
        for _ in range(60):                       # another content of exactly the same encoded size
            cand = Spec(first.kind, first.fmt, blocks.perturb(first.kind, first.fmt, first.v, rng))
            if cand.v != first.v and len(cand.as_model()[3][0]) == want:
                twin = cand
                break
        if twin is None:
            continue
        init = crafted(chk.work, "twohandles%d" % j, 5, opaque_live(rng, j % 2), rng)
        adds = [("add", first, "one"), ("add", pool[k2][1], "two"), ("add", pool[k3][2], "three")]
        same = [("set", twin) if first.kind in SETTER and j % 2 else ("replace", twin, None)]
        after = [("remove", blocks.TY[k2]), ("add", pool[k2][2], None)]
        last = [("remove", blocks.TY[k3])] if j % 3 else [("add", pool["OS"][1], None), ("remove", blocks.TY[k1])]
        # the long-lived object comes back right after the second object's same-size replacement — in the 3rd context
        # (after a refused out-of-context call on it) or in the 5th (after plain reads through it)
        if j % 2:
            hist, who = [adds, same, after, last], ["long", "fresh", "long", "fresh"]
        else:
            hist, who = [adds[:2], adds[2:], [("set", pool[k3][1]) if k3 in SETTER else ("replace", pool[k3][1], None)], same, after, last], \
                        ["long", "long", "long", "fresh", "long", "fresh"]
        specs.append(("crafted N=5 + %d opaque" % (j % 2), init, hist, "two Tdf objects on one path, in turn", who))
    # --- 3d. files of a writer that does not pack: padding in front of blocks (e.g. 512-byte alignment).  Sound files
    #          (C03's definition allows the holes); not compact, so not for C09.  Removing / replacing a block in front of
    #          a hole moves everything behind by exactly the removed size: the blocks behind keep their bytes
    if pid in ("C03", "C04", "C10", "C11"):
        for j in range(3 if quick else 12):
            nlive = 3 + j % 2
            live = [(ty, 1, rng.randbytes(rng.randrange(1, 300)), T0 - 5, T0 - 4, T0 - 3, "aligned") for ty in rng.sample(OPAQUE_TYPES, nlive)]
            base = 64 + 288 * 6
            pads, off = [], base
            for k, e in enumerate(live):
                pad = (-off) % 512 if j % 3 != 2 else rng.choice((0, 1, 7, 300))
                pads.append(pad)
                off += pad + len(e[2])
            init = os.path.join(chk.work, "padded%d.tdf" % j)
            craft_file(init, 6, live, pads=pads)
            k1, k2 = rng.sample(["EV", "EM", "D3", "FT", "PD"], 2)
            ops = [("remove", live[0][0]), ("add", pool[k1][1], None), ("remove", live[1][0]), ("set", pool[k1][2]) if k1 in SETTER else ("replace", pool[k1][2], None),
                   ("add", pool[k2][1], "two"), ("remove", live[2][0])]
            specs.append(("crafted N=6 live=%d, padding %r in front of the blocks" % (nlive, pads), init, [ops[:2], ops[2:4], ops[4:]],
                          "foreign file with padding between blocks"))
    # the unused slots of a foreign file point at a free region BETWEEN two live blocks that is large enough for what is
    # added next (a writer that dropped a block without compacting): one add, observed from all sides
    if pid in ("C10", "C11", "C04", "C03"):
        for j in range(2 if quick else 8):
            small = pool["EV"][1] if j % 2 else pool["EM"][1]
            need = len(small.as_model()[3][0])
            live = [(ty, 1, rng.randbytes(rng.randrange(1, 200)), T0 - 5, T0 - 4, T0 - 3, "kept") for ty in rng.sample(OPAQUE_TYPES, 2)]
            hole = need + rng.choice((0, 1, 100))
            base = 64 + 288 * 5
            init = os.path.join(chk.work, "freeregion%d.tdf" % j)
            craft_file(init, 5, live, pads=[0, hole], free_offset=base + len(live[0][2]))
            specs.append(("crafted N=5 live=2, unused slots point at a %d-byte free region between them" % hole, init,
                          [[("add", small, "into the hole")]], "unused slots pointing at a free region between live blocks"))
    # --- 4. large payloads: tail moves of more than 64 KiB
    bigs = [s for s in pool["EM"] if len(repr(s.v)) > 100000]
    for j in range(2 if quick else 8):
        init = crafted(chk.work, "big%d" % j, 5, opaque_live(rng, 1), rng)
        ops = [("add", pool["EV"][1], None), ("add", bigs[0], "big"), ("add", pool["D3"][2], None),
               ("remove", rng.choice([16, 16, 11])), ("set", pool["D3"][1]), ("replace", bigs[0], None), ("remove", 11)]
        specs.append(("crafted N=5 + 1 opaque block", init, [ops[:4], ops[4:]] if j % 2 else [ops], "large payload (>64 KiB tail)"))
    # --- 4b. a tail of several MiB behind the block that is removed / replaced (what a chunked or buffered move sees):
    #         just above 4 MiB; in the thorough tier also above 8 MiB
    sizes = ([4 * 2 ** 20 + 4097] if pid in ("C04", "C09", "C11") else []) if quick else [4 * 2 ** 20 + 4097, 8 * 2 ** 20 + 513]
    for j, size in enumerate(sizes):
        live = [(13, 1, rng.randbytes(40 + j), T0 - 5, T0 - 4, T0 - 3, "small"),
                (14, 1, rng.randbytes(size), T0 - 5, T0 - 4, T0 - 3, "several MiB")]
        init = os.path.join(chk.work, "mib%d.tdf" % j)
        craft_file(init, 5, live)
        # a library block behind the large one, then the small block in front of both goes away
        specs.append(("crafted N=5 live=2 (%d-byte block)" % size, init,
                      [[("add", pool["EV"][2], "behind"), ("remove", 13)], [("remove", 14)]], "tail of more than 4 MiB"))
    # --- 4b'. the bytes behind the removed block are EXACTLY a power of two (what a move in pieces of 64 KiB / 1 MiB sees when the
    #          last piece is a whole one): 2^16 and 2^20 (thorough: also 2^21 and 3 * 2^20)
    exact = ([2 ** 16, 2 ** 20] if pid in ("C03", "C04", "C09") else []) if quick else [2 ** 16, 2 ** 20, 2 ** 21, 3 * 2 ** 20]
    for j, size in enumerate(exact):
        live = [(13, 1, rng.randbytes(33 + j), T0 - 5, T0 - 4, T0 - 3, "small"),
                (14, 1, rng.randbytes(size - 1000), T0 - 5, T0 - 4, T0 - 3, "most of it"),
                (15, 1, rng.randbytes(1000), T0 - 5, T0 - 4, T0 - 3, "the rest")]
        init = os.path.join(chk.work, "exact%d.tdf" % j)
        craft_file(init, 6, live)
        specs.append(("crafted N=6 live=3 (exactly %d bytes behind the first block)" % size, init,
                      [[("remove", 13)], [("add", pool["EV"][1], "then"), ("remove", 14)]], "the tail behind the removed block is exactly a power of two"))
    # --- 4c. (thorough tier, C03 only: about 5 minutes and 6 GB) a VALID block of more than 16 MiB added through the library,
    #          then further adds / a removal: what a size-gated streaming path for large blocks would have to get right
    if not quick and pid == "C03":
        n = (16 << 20) // 8 + 70000
        frames = [0x3F800000 + (i & 0xFFFF) for i in range(n)]
        huge = Spec("EM", 1, [2, 1000, 0, n, [1, 2], [[[0x61], frames], [[0x62], frames]]])
        init = crafted(chk.work, "huge", 4, [], rng)
        specs.append(("crafted N=4 empty", init, [[("add", huge, "more than 16 MiB"), ("add", pool["EV"][1], None)], [("add", pool["D3"][1], None), ("remove", 11)]],
                      "a valid block of more than 16 MiB added, then more calls"))
    # --- 5. the BTS capture as the initial file
    if os.path.exists(common.CAPTURE):
        for j in range(1 if quick else 4):
            ops = [("remove", rng.choice([6, 7, 2])), ("add", pool["EV"][1], "events"), ("set", pool["EV"][2]),
                   ("remove", rng.choice([9, 11, 12]))][: 3 + j % 2]
            specs.append(("BTS capture", common.CAPTURE, [ops], "BTS capture"))
    return specs


# ------------------------------------------------------------------ reference content (independent of the model)
def ghost_apply(ghost, op, rc, now):
    """what each live type must hold after a successful op: (format, comment, cdate, mdate, payload)"""
    if rc != 0:
        return
    if op[0] == "remove":
        ghost.pop(op[1], None)
        return
    spec = op[1]
    m = spec.as_model()
    ty, fmt, payload = m[0], m[1], (bytes(m[3][0]) if m[3] else None)     # None: the block has no encoding (an invalid request got through)
    if op[0] == "add":
        comment = "" if op[2] == container.EXPLICIT_NONE else op[2] if op[2] is not None else DEFAULT_COMMENT
    elif op[0] == "replace":
        comment = op[2] if op[2] is not None else ghost[ty][1]
    else:
        comment = ghost[ty][1] if ty in ghost else DEFAULT_COMMENT
    ghost.pop(ty, None)
    ghost[ty] = (fmt, comment) + tuple(spec.stored_dates()) + (payload,)


def ghost_init(d):
    g = {}
    for e in d["tab"]:
        if e[0] != 0:
            base = 64 + 288 * d["n"]
            g[e[0]] = (e[1], "".join(map(chr, e[7])), e[4], e[5], d["data"][e[2] - base: e[2] - base + e[3]])
    return g


def content_violation(d, ghost):
    """C04 oracle: every live entry of the parsed file against the reference content"""
    base = 64 + 288 * d["n"]
    seen = {}
    for e in d["tab"]:
        if e[0] == 0:
            continue
        if e[0] in seen:
            return "two entries of type %d" % e[0]
        seen[e[0]] = 1
        if e[0] not in ghost:
            return "type %d is present but was removed / never added" % e[0]
        fmt, comment, cd, md, payload = ghost[e[0]]
        got = d["data"][e[2] - base: e[2] - base + e[3]] if e[2] >= base else None
        if payload is None:
            return "block type %d was stored although the request was invalid (it has no encoding)" % e[0]
        if got != payload:
            k = next((i for i, (x, y) in enumerate(zip(got or b"", payload)) if x != y), min(len(got or b""), len(payload)))
            return "stored bytes of block type %d changed (first difference at byte %d of %d)" % (e[0], k, len(payload))
        if e[1] != fmt:
            return "format code of block type %d is %d, stored %d" % (e[0], e[1], fmt)
        if "".join(map(chr, e[7])) != comment:
            return "comment of block type %d is %r, stored %r" % (e[0], "".join(map(chr, e[7]))[:40], comment[:40])
        if e[4] != cd or e[5] != md:
            return "dates of block type %d are (%d,%d), stored (%d,%d)" % (e[0], e[4], e[5], cd, md)
    for ty in ghost:
        if ty not in seen:
            return "block type %d was stored and never removed, but is absent" % ty
    return None


# ------------------------------------------------------------------ per-property judgement of one case
def in_readonly_context(c, i):
    """is the i-th call of the history issued inside a context entered WITHOUT allow_write()"""
    who = getattr(c, "who", None)
    if not who or not c.steps or i >= len(c.steps):
        return False
    return who[c.steps[i]["ctx"] % len(who)].endswith("readonly")


def expected_rc(c, i):
    """the model's outcome, with the calls the model cannot express (wrong object) patched in"""
    flat = [o for ctx in c.contexts for o in ctx]
    op = flat[i]
    if in_readonly_context(c, i) and c.steps[i]["rc"] != 0:
        return None         # refused for want of permission (whatever else is wrong with the request): state unchanged
    if op[0] in ("add", "replace", "set") and op[1].bad in ("wrong_object", "format_int", "bad_date"):
        return None         # any exception (which one depends on what the code touches first), state unchanged
    if op[0] in ("add", "replace", "set") and getattr(op[1], "duck", False) and c.steps[i]["rc"] != 0:
        return None         # a stand-in object may be refused like a wrong object — but then with the state unchanged
    if op[0] == "add" and op[2] == container.EXPLICIT_NONE and c.steps[i]["rc"] != 0:
        return None         # add_block(b, comment=None): no text at all — refused with whatever the code trips over, state unchanged
    return c.msteps[i]["rc"]


def tab4(tab):
    return [e[:4] for e in tab]


def judge(chk, pid, c):
    """returns nothing; records violations"""
    flat = [o for ctx in c.contexts for o in ctx]
    ghost = ghost_init(c.init)
    prev_model = {"tab": c.init["tab"], "data": c.init["data"]}
    diverged = False
    for i, (s, m) in enumerate(zip(c.steps, c.msteps)):
        op = flat[i]
        d = s["disk"]
        exp = expected_rc(c, i)
        if exp is None:
            m = dict(m, tab=prev_model["tab"], mem=prev_model["tab"], data=prev_model["data"], rc=s["rc"] if s["rc"] else 12)
        prev_model = m
        label = "%s, step %d = %s" % (c.desc, i, container.op_label(op))
        rep = replay_of(c, i)
        raised = s["rc"] != 0
        if in_readonly_context(c, i) and not raised:
            chk.violation("%s: %s succeeded inside a context entered without allow_write() [%s]" % (pid, container.op_label(op), label), rep, True)
            return
        ghost_apply(ghost, op, 0 if not raised else 1, s["now"])
        found = None          # oracle verdict on the implementation alone
        differs = None        # correspondence verdict
        if pid == "C03":
            found = container.wf_violation(d, c.n0, version0=c.init["version"])
            if d["raw"][:16] != c.init["raw"][:16] or d["raw"][16:20] != c.init["raw"][16:20]:
                found = found or "signature / version bytes changed"
            if (raised != (m["rc"] != 0)) or tab4(d["tab"]) != tab4(m["tab"]) or d["length"] != 64 + 288 * m["n"] + len(m["data"]):
                differs = "table geometry / file length differ from Container.step (rc %d vs %d)" % (s["rc"], m["rc"])
        elif pid == "C09":
            found = container.compact_violation(d)
            if found is None and s["stat"] != d["length"]:
                found = "os.stat size %d, bytes read %d" % (s["stat"], d["length"])
            if found is None and not raised and i > 0 or (found is None and not raised):
                # size deltas: remove shrinks by the block's size, add grows by it
                before = s["before"]
                if op[0] == "remove":
                    sz = next((e[3] for e in before["tab"] if e[0] == op[1]), None)
                    if sz is not None and d["length"] != before["length"] - sz:
                        found = "remove of a %d-byte block changed the file length by %d" % (sz, d["length"] - before["length"])
                elif op[0] == "add":
                    sz = len(op[1].as_model()[3][0])
                    if d["length"] != before["length"] + sz:
                        found = "add of a %d-byte block changed the file length by %d" % (sz, d["length"] - before["length"])
            if (raised != (m["rc"] != 0)) or tab4(d["tab"]) != tab4(m["tab"]) or s["stat"] != 64 + 288 * m["n"] + len(m["data"]):
                differs = "table / size differ from Container.step (rc %d vs %d)" % (s["rc"], m["rc"])
        elif pid == "C04":
            found = content_violation(d, ghost)
            if found is None and "readback" in s:
                found = readback_violation(s["readback"], ghost)
            if found is None and "get_now" in s:
                found = readback_violation(s["get_now"], ghost, "through the open object right after the call")
            mt = [[e[0], e[1], e[4], e[5], e[7]] for e in m["tab"] if e[0] != 0]
            dt = [[e[0], e[1], e[4], e[5], e[7]] for e in d["tab"] if e[0] != 0]
            if mt != dt or d["data"] != m["data"]:
                differs = "live entries' metadata / payload bytes differ from Container.step"
        elif pid == "C07":
            if raised:
                if s["before"]["sha"] != d["sha"]:
                    k = next((j for j, (x, y) in enumerate(zip(s["before"]["raw"], d["raw"])) if x != y),
                             min(len(d["raw"]), len(s["before"]["raw"])))
                    found = "the call raised (%s) but the file changed (first difference at byte %d, length %d -> %d)" % (
                        errname(s["rc"]), k, s["before"]["length"], d["length"])
                elif s["mem_before"] != s["mem"]:
                    found = "the call raised (%s) but Tdf.entries changed" % errname(s["rc"])
            if exp is not None and s["rc"] != m["rc"]:
                if m["rc"] != 0 and not raised:
                    found = found or "an invalid request was accepted (the model refuses with %s)" % errname(m["rc"])
                differs = "outcome differs from Container.step: %s vs %s" % (errname(s["rc"]), errname(m["rc"]))
            if d["tab"] != m["tab"] or d["data"] != m["data"] or s["mem"] != m["mem"]:
                differs = differs or "state after the call differs from Container.step (continuation not as if the failed call had not been made)"
        elif pid == "C10":
            if s["mem"] != d["tab"]:
                j = next(j for j, (x, y) in enumerate(zip(s["mem"], d["tab"])) if x != y) if len(s["mem"]) == len(d["tab"]) else -1
                found = "Tdf.entries differs from the table on disk at slot %d right after the call" % j
            elif s.get("reopen_mid") != d["tab"]:
                found = "a freshly opened object sees a different table than the one on disk (%r)" % (str(s.get("reopen_mid"))[:80])
            elif "reopen" in s and s["reopen"]["tab"] != d["tab"]:
                found = "the table after closing and reopening differs from the one seen inside the context"
            elif s["acc"]["nbytes"] != s["stat"] or s["stat"] != d["length"]:
                found = "Tdf.nBytes=%r, os.stat=%d, bytes read=%d" % (s["acc"]["nbytes"], s["stat"], d["length"])
            else:
                found = read_through_violation(s, d)
            if s["mem"] != m["mem"] or d["tab"] != m["tab"] or d["data"] != m["data"]:
                differs = "Tdf.entries / table on disk / data differ from Container.step"
        elif pid == "C11":
            types = [e[0] for e in d["tab"] if e[0] != 0]
            if len(set(types)) != len(types):
                found = "two live blocks of one type: %r" % types
            else:
                found = accessor_violation(s, d)
            if op[0] == "add" and not raised and any(e[0] == op[1].ty() for e in s["before"]["tab"]):
                found = found or "add_block accepted a second block of type %d" % op[1].ty()
            if op[0] == "add" and raised and op[1].bad is None and any(e[0] == op[1].ty() for e in s["before"]["tab"]) \
                    and s["rc"] != common.ERR["ValueError"] and not in_readonly_context(c, i):
                found = found or "add_block of a type that is present raised %s, not ValueError" % errname(s["rc"])
            if op[0] == "set" and op[1].bad is None and compact_before(s) and not in_readonly_context(c, i):
                # assigning through a convenience property replaces the block when present and adds it when absent
                present = any(e[0] == op[1].ty() for e in s["before"]["tab"])
                room = any(e[0] == 0 for e in s["before"]["tab"])
                if (present or room) and raised:
                    found = found or "assigning the %s property raised %s although the type is %s" % (
                        SETTER[op[1].kind], errname(s["rc"]), "present (replace)" if present else "absent and a slot is free (add)")
                elif not raised:
                    want = (op[1].ty(), hashlib.sha1(bytes(op[1].as_model()[3][0])).hexdigest())
                    if s["acc"]["get"].get(op[1].ty()) != want:
                        found = found or "after assigning the %s property its getter does not return the assigned block" % SETTER[op[1].kind]
            if exp is not None and s["rc"] != m["rc"] and (op[0] in ("add", "set")):
                differs = "outcome of %s differs from Container.step: %s vs %s" % (op[0], errname(s["rc"]), errname(m["rc"]))
            dm = model_accessor_diff(s, m, d)
            if dm:
                differs = differs or dm
        if found:
            chk.violation("%s: %s [%s]" % (pid, found, label), rep, True, key=finding_key(pid, c, found))
            return
        if differs and not diverged:
            chk.violation("%s: correspondence broken: %s [%s]" % (pid, differs, label),
                          dict(rep, correspondence="coq/Model/Container.v step vs basictdf.py", theorem="Properties/%s.v" % pid), False)
            diverged = True         # the model has left the code's path: judge the rest with the oracle alone


def compact_before(s):
    return container.compact_violation(s["before"]) is None


def finding_key(pid, c, found):
    if c.stratum.startswith("F3b"):
        return c.stratum.split()[0]
    return None


def errname(code):
    inv = {v: k for k, v in common.ERR.items()}
    return "no error" if code == 0 else inv.get(code, "error %d" % code)


def read_through_violation(s, d):
    """C10: get_block through the open object = decoding the bytes stored on disk"""
    base = 64 + 288 * d["n"]
    for e in d["tab"]:
        ty = e[0]
        if ty == 0 or ty not in KIND_OF_TY or ty not in s["acc"]["get"]:
            continue
        raw = d["data"][e[2] - base: e[2] - base + e[3]]
        try:
            o, n = blocks.impl_build(KIND_OF_TY[ty], e[1], raw)
            want = (ty, hashlib.sha1(blocks.impl_write(o)).hexdigest())
        except Exception as x:
            want = "raised " + type(x).__name__
        if s["acc"]["get"][ty] != want:
            return "get_block(type %d) through the open object gives %r, decoding the bytes on disk gives %r" % (
                ty, s["acc"]["get"][ty], want)
    return None


def accessor_violation(s, d):
    """C11 oracle: every accessor against the independently parsed table"""
    acc = s["acc"]
    live = [e for e in d["tab"] if e[0] != 0]
    types = [e[0] for e in live]
    if acc["len"] != len(live):
        return "len() = %r but %d live blocks" % (acc["len"], len(live))
    for ty, h in acc["has"].items():
        if h != (ty in types):
            return "%s = %r but the table %s a block of type %d" % (HAS[ty], h, "has" if ty in types else "has not", ty)
    base = 64 + 288 * d["n"]
    for ty in ACC_TYPES:
        g = acc["get"][ty]
        if ty not in types:
            if not (isinstance(g, str) and g.startswith("raised")):
                return "lookup of absent type %d does not raise: %r" % (ty, g)
            continue
        if isinstance(g, tuple) and len(g) == 3:
            return "convenience getter and get_block disagree for type %d" % ty
        if ty in KIND_OF_TY:
            if not (isinstance(g, tuple) and g[0] == ty):
                return "get_block(type %d) returned %r" % (ty, g)
        elif g != "notimpl":
            return "get_block of undecodable type %d gave %r" % (ty, g)
    n = d["n"]
    for i, g in acc["index"].items():
        if i < 0 or i >= n:
            if g != "IndexError":
                return "get_block(%d) with %d slots gave %r, expected IndexError" % (i, n, g)
        else:
            ty = d["tab"][i][0]
            if ty in KIND_OF_TY and ty != 0:
                if g != acc["get"].get(ty, g):
                    return "get_block(%d) differs from get_block(type %d)" % (i, ty)
    if acc["bad_key"] != "TypeError":
        return "get_block('data3D') gave %r, expected TypeError" % (acc["bad_key"],)
    if isinstance(acc["blocks"], list):
        if [b[0] for b in acc["blocks"]] != [e[0] for e in d["tab"]]:
            return "blocks lists types %r, table has %r" % ([b[0] for b in acc["blocks"]], [e[0] for e in d["tab"]])
    out = s.get("outside")
    if out and "reopen" in s:
        rtypes = [e[0] for e in s["reopen"]["tab"] if e[0] != 0]
        for ty, h in out["has"].items():
            if h != (ty in rtypes):
                return ("with no context open, the client's long-lived object reports %s = %r but the file %s a block of type %d" %
                        (HAS[ty], h, "holds" if ty in rtypes else "holds no", ty))
        if isinstance(out["blocks"], list) and [b[0] for b in out["blocks"]] != [e[0] for e in s["reopen"]["tab"]]:
            return "with no context open, .blocks of the long-lived object lists types %r, the file's table has %r" % (
                [b[0] for b in out["blocks"]], [e[0] for e in s["reopen"]["tab"]])
    return None


def model_accessor_diff(s, m, d):
    a = m["acc"]
    acc = s["acc"]
    if acc["len"] != a[0]:
        return "len(): %r vs model %d" % (acc["len"], a[0])
    if acc["nbytes"] != a[1]:
        return "nBytes: %r vs model %d" % (acc["nbytes"], a[1])
    for ty, (h, g) in zip(ACC_TYPES, a[3]):
        if ty in acc["has"] and acc["has"][ty] != bool(h):
            return "has(type %d): %r vs model %r" % (ty, acc["has"][ty], bool(h))
        present = isinstance(acc["get"][ty], tuple) or acc["get"][ty] == "notimpl"
        if present != bool(g):
            return "get_block(type %d): %r vs model %s" % (ty, acc["get"][ty], "found" if g else "absent")
    n = d["n"]
    for i, g in zip((-1, 0, 1, n - 1, n), a[4]):
        inrange = acc["index"][i] != "IndexError"
        if inrange != bool(g):
            return "get_block(%d): %r vs model %s" % (i, acc["index"][i], "entry" if g else "IndexError")
    return None


# ------------------------------------------------------------------ entry points
RULES = {
    "C03": "parsed (type, format, offset, size) of every slot, N, signature/version bytes, file length after EACH call "
           "(fresh OS handle, independent struct parser) vs Container.step; oracle: the property's soundness conditions",
    "C04": "per live entry (type, format, comment, cdate, mdate) and payload bytes after EACH call vs Container.step; oracle: "
           "a reference content map maintained from the history alone (independent of the model)",
    "C07": "for every raising call: file bytes and Tdf.entries before/after, exception class vs Container.step, and the full "
           "state after every later call (continuation); oracle: sha before == sha after",
    "C09": "parsed table + os.stat size after EACH call vs Container.step; oracle: back-to-back layout, unused slots at end of "
           "data, length = header + table + sum of sizes, size deltas of add/remove; Coq's compactb evaluated on the parsed file",
    "C10": "Tdf.entries (inside the context), independent parse at that instant, a second object opened at that instant, parse "
           "after the context, get_block through the open object vs decoding the disk bytes, nBytes vs os.stat — after EACH call",
    "C11": "len, has_*, get_block by type and by index (-1, 0, 1, N-1, N), blocks, the convenience getters, a str key — after "
           "EACH call vs Container.v's accessors; oracle: the same against the independently parsed table",
}


def run(chk, pid):
    specs = gen_specs(chk, pid)
    want_acc = True if pid in ("C10", "C11") else "readback" if pid == "C04" else False
    if pid == "C10":
        specs = gap_specs(chk, with_remove=True) + specs
    if pid == "C03":
        specs = f3b_specs(chk) + gap_specs(chk) + lazy_writer_specs(chk) + specs
    if pid == "C07":
        specs = gap_specs(chk) + full_comment_specs(chk) + large_invalid_specs(chk) + missized_specs(chk) + specs
    if pid in ("C04", "C07", "C10", "C11"):
        specs = held_object_specs(chk) + standin_specs(chk) + specs
    if pid in ("C04", "C10", "C11", "C06"):
        specs = format_twin_specs(chk) + specs
    if pid in ("C03", "C09", "C04"):
        specs = zero_frame_specs(chk) + specs
    if pid in ("C10", "C07", "C04", "C11"):
        specs = readonly_interlude_specs(chk) + specs
    chk.rule = ("operation histories: exhaustive over {add,replace,set} x 3 types x 2 sizes + remove x 3 types up to the stated "
                "length on crafted files N in {1,2,3} (empty / one opaque block), random histories (2-25 calls, 1-6 contexts, "
                "all nine block types, opaque pre-populated blocks, full tables, rejected calls of every cause injected) on "
                "Tdf.new and crafted files N in {1,2,3,4,5,14}, the first/middle/last-removal strata, >64 KiB payloads, the "
                "BTS capture; observed: " + RULES[pid] + "; non-trivial = at least one successful mutation and (>= 2 live "
                "blocks at some point or a rejected call)")
    if pid in ("C04", "C03", "C09"):
        huge_block_frame(chk, pid)
        if chk.n_found():
            return
    if pid in ("C03", "C04", "C09", "C10"):
        overlapping_sessions(chk, pid)
        if chk.n_found():
            return
    BATCH = 400
    seen_init = {}
    for k in range(0, len(specs), BATCH):
        cases = run_cases(chk, specs[k:k + BATCH], want_acc)
        premise_of_theorems(chk, cases, seen_init)
        for c in cases:
            flat = [o for ctx in c.contexts for o in ctx]
            if pid == "C09":
                check_compactb(chk, c)
            if pid == "C03":
                check_soundb(chk, c)
            okn = any(s["rc"] == 0 for s in c.steps)
            multi = any(sum(1 for e in s["disk"]["tab"] if e[0] != 0) >= 2 for s in c.steps)
            rej = any(s["rc"] != 0 for s in c.steps)
            chk.note_case((c.desc, history_label(c.contexts)), okn and (multi or rej))
            chk.count("stratum:" + c.stratum)
            chk.count("N=%d" % c.n0)
            chk.count("history length %s" % ("1-2" if len(flat) <= 2 else "3-5" if len(flat) <= 5 else "6-12" if len(flat) <= 12 else "13+"))
            chk.count("contexts %d" % min(len(c.contexts), 4))
            for s, op in zip(c.steps, flat):
                chk.count("op:%s %s" % (op[0], "ok" if s["rc"] == 0 else errname(s["rc"])))
                if op[0] == "remove" and s["rc"] == 0:
                    live = [e for e in s["before"]["tab"] if e[0] != 0]
                    pos = next((j for j, e in enumerate(live) if e[0] == op[1]), None)
                    if pos is None:
                        continue            # a removal that "succeeded" on a type the file does not hold: the oracles will speak
                    where = "only" if len(live) == 1 else "first" if pos == 0 else "last" if pos == len(live) - 1 else "middle"
                    free = s["before"]["n"] - len(live)
                    chk.count("remove:%s live block, %s unused after" % (where, "0" if free == 0 else "1" if free == 1 else "many"))
            judge(chk, pid, c)
            if pid == "C07":
                cv = control_violation(chk, c)
                if cv:
                    chk.violation("C07: %s [%s]" % (cv[0], c.desc), replay_of(c, cv[1]), True)
            if chk.n_found() >= 3:
                return


def control_violation(chk, c):
    """C07, second half, on the implementation alone: the same history with the refused calls left out (same clock
    readings for the calls that remain) must produce the same file and the same Tdf.entries after every call"""
    flat = [o for ctx in c.contexts for o in ctx]
    if len(c.steps) != len(flat) or not any(s["rc"] != 0 for s in c.steps) or all(s["rc"] != 0 for s in c.steps):
        return None
    kept, k = [], 0
    contexts2 = []
    for ctx in c.contexts:
        ctx2 = []
        for op in ctx:
            if c.steps[k]["rc"] == 0:
                ctx2.append(op)
                kept.append(k)
            k += 1
        contexts2.append(ctx2)
    path = os.path.join(chk.work, "control.tdf")
    open(path, "wb").write(c.init["raw"])
    try:
        steps2 = container.run_impl(path, contexts2, nows=[c.steps[i]["now"] for i in kept])
    except Exception as e:
        return "the history without its refused calls cannot be run: " + common.exc_info(e), None
    finally:
        if os.path.exists(path):
            os.unlink(path)
    chk.count("control run without the refused calls")
    for i, s2 in zip(kept, steps2):
        s1 = c.steps[i]
        if s2["rc"] != 0:
            return "%s succeeds after the refused call(s) but raises %s when they are left out" % (container.op_label(flat[i]), errname(s2["rc"])), i
        if s1["disk"]["sha"] != s2["disk"]["sha"]:
            a, b = s1["disk"]["raw"], s2["disk"]["raw"]
            j = next((q for q, (x, y) in enumerate(zip(a, b)) if x != y), min(len(a), len(b)))
            return ("after %s the file differs from the one the same history produces WITHOUT the refused call(s) %s "
                    "(first difference at byte %d, lengths %d / %d)" %
                    (container.op_label(flat[i]), [container.op_label(flat[q]) for q in range(i) if c.steps[q]["rc"] != 0], j, len(a), len(b))), i
        if s1["mem"] != s2["mem"]:
            return "after %s Tdf.entries differs from what the same history gives without the refused call(s)" % container.op_label(flat[i]), i
    return None


NOT_ORDERED_STRATA = ("gap in the table", "F3b-unused-offset-zero finding", "lazy foreign writer", "unterminated comment field",
                      "unused slots pointing at a free region between live blocks")


def premise_of_theorems(chk, cases, seen):
    """the container theorems speak about ORDERED initial files (GFile.v; packed files are a special case).  Coq's own
    decision procedure [orderedb] (sound by C03_orderedb_sound) is evaluated on every distinct initial file: the
    evidence says for how many histories the theorems' premise holds; the other strata are covered by the
    statement-by-statement model and the oracles only."""
    todo = []
    for c in cases:
        key = hashlib.sha1(c.init["raw"]).hexdigest()
        if key not in seen and len(c.init["raw"]) < 300000:
            seen[key] = None
            todo.append((key, c))
    if todo:
        res = common.run_model([(48, container.model_state(c.init)) for _, c in todo])
        for (key, c), r in zip(todo, res):
            seen[key] = (r == [0, 1])
    for c in cases:
        key = hashlib.sha1(c.init["raw"]).hexdigest()
        v = seen.get(key)
        if v is None:
            chk.count("premise: initial file too large for orderedb (not evaluated)")
            continue
        chk.count("premise: initial file is %s (Coq orderedb)" % ("ordered" if v else "sound but NOT ordered: outside the theorems"))
        if not v and c.desc.startswith("Tdf.new"):
            wf = container.wf_violation(c.init, c.init["n"])
            chk.violation("%s: the file Tdf.new creates is not a sound, ordered container (Coq orderedb rejects it%s)" %
                          (chk.pid, ": " + wf if wf else ""), {"initial": c.desc, "initial_file_hex": c.init["raw"].hex()[:20000]}, True)
            seen[key] = True            # reported once
            continue
        if not v and c.stratum not in NOT_ORDERED_STRATA and not c.stratum.startswith("replay"):
            raise RuntimeError("stratum %r starts from a file Coq's orderedb rejects (%s): the generator claims more than it delivers"
                               % (c.stratum, c.desc))
        if not v:
            first_add_on_sound_file(chk, c)


def first_add_on_sound_file(chk, c):
    """outside the ordered class one theorem still speaks: C03_add_on_any_sound_file — on ANY sound file a successful
    add_block keeps the file sound iff the region the block occupies is behind the table and free of live blocks.  Coq's
    add_safeb (sound by C03_add_safeb_sound) is evaluated on the initial file for the first call when that is an add;
    the library must agree with the theorem in both directions."""
    flat = [o for ctx in c.contexts for o in ctx]
    if not flat or flat[0][0] != "add" or not c.steps or container.wf_violation(c.init, c.init["n"]) is not None:
        return
    m = flat[0][1].as_model()
    if m is None or not m[3] or m[4] != 0:
        return
    size = len(m[3][0])
    safe = common.run_model([(50, [container.model_state(c.init), size])])[0] == [0, 1]
    st = c.steps[0]
    chk.count("first add on a sound file outside the ordered class: add_safeb says %s, the call %s" % (
        "safe" if safe else "NOT safe", "succeeded" if st["rc"] == 0 else "was refused"))
    if st["rc"] != 0:
        return
    bad = container.wf_violation(st["disk"], c.n0)
    if safe and bad:
        pass                      # the C03 oracle reports it with the concrete history
    elif not safe and not bad and chk.pid == "C03":
        chk.violation("C03: correspondence broken: Coq's add_safeb says the first add cannot keep %s sound, yet the file the library wrote is sound"
                      % c.desc, dict(replay_of(c, 0), correspondence="GFile.add_safeb / C03_add_on_any_sound_file"), False)


def check_compactb(chk, c):
    """C09: Coq's compactb (the property's explicit layout statement) evaluated on the files the library wrote"""
    sample = [s for s in c.steps[-2:]]
    if not sample or len(c.init["raw"]) > 200000:
        return
    res = common.run_model([(37, container.model_state(s["disk"])) for s in sample])
    for s, r in zip(sample, res):
        chk.count("compactb evaluated on an implementation file")
        if r != [0, 1] and container.compact_violation(s["disk"]) is None:
            chk.violation("C09: Coq compactb and the harness oracle disagree on a file", replay_of(c), False)


def check_soundb(chk, c):
    """C03: the property's own soundness conditions, decided by Coq (soundb, = wf by C03_soundb_decides), evaluated on
    the files the library wrote — the harness's Python oracle and Coq's predicate have to agree on every one of them"""
    sample = [s for s in c.steps[-2:]]
    if not sample or len(c.init["raw"]) > 200000:
        return
    res = common.run_model([(51, container.model_state(s["disk"])) for s in sample])
    for s, r in zip(sample, res):
        chk.count("soundb evaluated on an implementation file: %s" % ("sound" if r == [0, 1] else "NOT sound"))
        mine = container.wf_violation(s["disk"], c.n0)
        if r != [0, 1] and mine is None:
            chk.violation("C03: Coq's soundb rejects a file the library wrote and the harness oracle accepts", replay_of(c), False)
        elif r == [0, 1] and mine is not None and "signature" not in mine and "version" not in mine and "slots" not in mine:
            chk.violation("C03: the harness oracle rejects a file (%s) that Coq's soundb accepts" % mine, replay_of(c), False)


def readback_violation(rb, ghost, when="after reopen"):
    """C04: reading a block after reopen returns content equal to what was stored (the stored bytes decoded
    independently of the container)"""
    if "error" in rb:
        return "the file cannot be reopened: " + rb["error"]
    for ty, (fmt, comment, cd, md, payload) in ghost.items():
        if ty not in KIND_OF_TY:
            if rb.get(ty) != "notimpl":
                return "undecodable block type %d reads back as %r" % (ty, rb.get(ty))
            continue
        try:
            o, n = blocks.impl_build(KIND_OF_TY[ty], fmt, payload)
            want = (ty, hashlib.sha1(blocks.impl_write(o)).hexdigest())
        except Exception as x:
            continue            # the stored bytes are not a decodable block (not this property's business)
        if rb.get(ty) != want:
            return "block type %d read back %s (%r) differs from the stored content" % (ty, when, rb.get(ty))
    return None


def f3b_specs(chk):
    """recorded finding F3b: files that are sound but not compact"""
    rng = common.rng_for(1, "f3b")
    p = os.path.join(chk.work, "f3b_a.tdf")
    craft_file(p, 2, [])
    raw = bytearray(open(p, "rb").read())
    import struct
    for k in range(2):
        struct.pack_into("<i", raw, 64 + 288 * k + 8, 0)      # unused slots carry offset 0 instead of the end of data
    open(p, "wb").write(bytes(raw))
    ev = container.small_block("EV", rng, 1)
    return [("sound but not compact: unused slots carry offset 0", p, [[("add", ev, None)]], "F3b-unused-offset-zero finding")]


def gap_specs(chk, with_remove=False):
    """C07, cause 'an unused slot lies between live blocks': files with a hole in the table (not reachable by
    the library's own histories, but well-formed); add / replace / set must raise and change nothing"""
    import struct
    rng = common.rng_for(chk.seed, "gap")
    out = []
    pool = make_pool(rng, ["EV", "D3", "FT", "EM"])
    for j, (n, gap_at, nlive) in enumerate([(4, 1, 3), (5, 0, 3), (3, 1, 3), (14, 2, 5), (4, 2, 4),
                                            (5, (1, 2), 4), (6, (0, 1), 3), (14, (1, 2, 3), 5), (5, (2, 3), 5)]):
        p = os.path.join(chk.work, "gap%d.tdf" % j)
        kinds = ["EV", "D3", "EM", "FT", "OS"][:nlive]
        craft_file(p, n, [])
        ops = [("add", pool.get(k, [container.small_block(k, rng, 1)])[-1], "g%d" % i) for i, k in enumerate(kinds)]
        container.run_impl(p, [ops])
        raw = bytearray(open(p, "rb").read())
        gaps = (gap_at,) if isinstance(gap_at, int) else gap_at          # one slot, or a hole several slots wide
        for g in gaps:
            o = 64 + 288 * g
            # the slot becomes unused, size 0; it keeps the old block's offset, or (every other file) points at the
            # end of the data as BTS-written free slots do
            off = struct.unpack_from("<i", raw, o + 8)[0] if j % 2 == 0 else len(raw)
            struct.pack_into("<IIii", raw, o, 0, 0, off, 0)
        if with_remove and j % 3 == 2 and nlive >= 3 and isinstance(gap_at, int):
            # and a table that is not in file order: the last two live entries swapped
            a, b = 64 + 288 * (nlive - 2), 64 + 288 * (nlive - 1)
            if (nlive - 2) not in gaps and (nlive - 1) not in gaps:
                raw[a:a + 288], raw[b:b + 288] = raw[b:b + 288], raw[a:a + 288]
        open(p, "wb").write(bytes(raw))
        live = [k for i, k in enumerate(kinds) if i not in gaps]
        gap_at = gaps[0]
        before = [k for i, k in enumerate(kinds) if i < gap_at]
        rem = [("remove", blocks.TY[k]) for k in live] if with_remove else []
        for op in (rem + [("replace", rng.choice(pool[k]), None) for k in live if k in pool] +
                   [("set", rng.choice(pool[k])) for k in live if k in pool and k in SETTER] +
                   [("add", container.small_block("PC", rng, 1), None), ("set", container.small_block("PD", rng, 1))]):
            out.append(("unused slot(s) %r between live blocks, N=%d" % (list(gaps), n), p, [[op, ("add", container.small_block("CA", rng, 1), "after")]],
                        "gap in the table"))
    return out


def lazy_writer_specs(chk):
    """compact foreign files whose writer maintains only the FIRST free slot's offset (the later unused slots still
    carry the end-of-table value): the library copes with them — every add re-points the later slots"""
    import struct
    rng = common.rng_for(chk.seed, "lazy")
    out = []
    pool = make_pool(rng, ["EV", "D3", "FT", "EM"])
    for j, n in enumerate((3, 5, 14)):
        p = os.path.join(chk.work, "lazy%d.tdf" % j)
        craft_file(p, n, opaque_live(rng, 1))
        raw = bytearray(open(p, "rb").read())
        base = 64 + 288 * n
        for k in range(2, n):                                   # slots after the first free one
            struct.pack_into("<i", raw, 64 + 288 * k + 8, base)
        open(p, "wb").write(bytes(raw))
        ops = [("add", pool["EV"][1], None), ("add", pool["D3"][2], "x"), ("set", pool["FT"][1]), ("add", pool["EM"][1], None)][:n - 1]
        out.append(("compact, only the first free slot maintained, N=%d" % n, p, [ops[:2], ops[2:]] if len(ops) > 2 else [ops], "lazy foreign writer"))
    return out


def held_object_specs(chk):
    """the client keeps ONE Python block object, edits it in place between calls and hands it in again — also after a
    call with it was refused for a reason that has nothing to do with the block (comment too long / not cp1252, the
    type already present, the type absent): what is stored is the object's content at the time of each call"""
    from harness.container import HeldSpec, Holder
    rng = common.rng_for(chk.seed, "heldobject")
    out = []
    quick = chk.tier == "quick"
    kinds = ["EV", "EM", "D3", "FT", "PD"] if quick else list(blocks.KINDS)
    for rep in range(1 if quick else 6):
        for kind in kinds:
            base = container.small_block(kind, rng, 2)
            vs = [base.v]
            for _ in range(3):
                vs.append(blocks.perturb(kind, base.fmt, vs[-1], rng))
            if len({repr(v) for v in vs}) < 4:
                continue
            h = Holder()
            use = [HeldSpec(kind, base.fmt, v, h) for v in vs]
            other = container.small_block("PC" if kind != "PC" else "EV", rng, 1)
            ty = blocks.TY[kind]
            refused = [("replace", use[1], "c" * 256), ("replace", use[1], "\u03a9 not cp1252"), ("add", use[1], None)]
            for bad in refused:
                init = crafted(chk.work, "held_%s_%d_%d" % (kind, rep, len(out)), 4, [], rng)
                hist = [[("add", other, None), ("add", use[0], "first")], [bad, ("remove", ty), ("add", use[2], "again")], [("replace", use[3], None)]]
                out.append(("crafted N=4 empty", init, hist, "one block object kept, edited in place and handed in again"))
            if kind in SETTER:
                init = crafted(chk.work, "held_%s_%d_s" % (kind, rep), 4, [], rng)
                out.append(("crafted N=4 empty", init, [[("set", use[0]), ("set", use[1]), ("replace", use[2], "c" * 300), ("set", use[3])]],
                            "one block object kept, edited in place and handed in again"))
            # a refused removal-less replace (type absent), then the add
            init = crafted(chk.work, "held_%s_%d_a" % (kind, rep), 3, [], rng)
            out.append(("crafted N=3 empty", init, [[("replace", use[0], None), ("add", use[1], None), ("replace", use[2], None)]],
                        "one block object kept, edited in place and handed in again"))
    return out


def huge_block_frame(chk, pid="C04"):
    """C04 at the size of a long capture: a recording of more than 32 MiB (quick) / 64 MiB (thorough) added behind two small
    blocks, then the first small block removed so that everything moves.  Judged on the file alone (the block is too large
    to be worth sending through the extracted model; the theorems hold for every size): the other blocks keep entry and
    bytes, the new block's bytes are its encoding, the file is as long as its parts."""
    import numpy as np
    from basictdf import Tdf
    from basictdf.tdfBlock import BlockType
    from basictdf.tdfEMG import EMG, EMGTrack
    rng = common.rng_for(chk.seed, "hugeframe")
    for mib in ((33,) if chk.tier == "quick" else (33, 65)):
        p = os.path.join(chk.work, "huge%d.tdf" % mib)
        if os.path.exists(p):
            os.unlink(p)
        n = (mib << 20) // 4
        d3, ev = container.small_block("D3", rng, 1), container.small_block("EV", rng, 1)
        big = EMG(1000, n)
        big.addSignal(EMGTrack("long", (np.arange(n, dtype="<f4") % 1013) / 8))
        want = hashlib.sha1(blocks.impl_write(big)).hexdigest()
        size = int(big.nBytes)
        chk.note_case(("huge block", mib), True)
        chk.count("a block of more than 32 MiB added behind other blocks")
        what = {"scenario": "Tdf.new; add(D3, 'markers'); add(EV); add(EMG of %d samples = %d MiB); add(OS); remove(OS); remove(D3)" % (n, mib)}

        def view():
            raw = open(p, "rb").read()
            t = codec.parse_tdf(raw)
            out = {}
            for e in t["entries"]:
                if e["type"] != 0:
                    out[e["type"]] = (e["format"], e["offset"], e["size"], e["cdate"], e["mdate"], e["comment"],
                                      hashlib.sha1(raw[e["offset"]: e["offset"] + e["size"]]).hexdigest())
            live = sum(e["size"] for e in t["entries"] if e["type"] != 0)
            stray = [e["offset"] for e in t["entries"] if e["type"] == 0 and e["offset"] != len(raw)]
            return out, len(raw), (64 + 288 * t["n"] + live) if not stray else -stray[0]
        try:
            with scripted_clock():
                Clock.now = T0
                Tdf.new(p)
                with Tdf(p).allow_write() as f:
                    f.add_block(d3.build(), "markers")
                    f.add_block(ev.build())
                v0, _, _ = view()
                with Tdf(p).allow_write() as f:
                    f.add_block(big, "long recording")
                v1, len1, sum1 = view()
                osb = container.small_block("OS", rng, 1)
                with Tdf(p).allow_write() as f:
                    f.add_block(osb.build(), "behind the long one")        # lands where the unused slots point: behind the recording
                v1b, len1b, sum1b = view()
                with Tdf(p).allow_write() as f:
                    f.remove_block(BlockType.opticalSystemConfiguration)
                    f.remove_block(BlockType.data3D)
                v2, len2, sum2 = view()
        except Exception as e:
            chk.violation("%s: %s fails: %s" % (pid, what["scenario"], common.exc_info(e)), what, True)
            return
        found = None
        for ty in v0:
            if v1.get(ty) != v0[ty]:
                found = "adding the long recording changed block type %d: %r -> %r" % (ty, v0[ty][:6], (v1.get(ty) or ())[:6]) + (
                    " (bytes differ)" if v1.get(ty) and v1[ty][6] != v0[ty][6] else "")
        em = v1.get(11)
        if not found and (em is None or em[2] != size or em[6] != want or em[5] != b"long recording"):
            found = "the long recording is not stored as given: entry %r, encoding is %d bytes" % (em and em[:6], size)
        if not found and len1 != sum1:
            found = ("after the add the file is %d bytes, header + table + blocks = %d" % (len1, sum1)) if sum1 >= 0 else \
                    ("after the add an unused slot points at %d, the file ends at %d" % (-sum1, len1))
        if not found:
            want_os = hashlib.sha1(bytes(osb.as_model()[3][0])).hexdigest()
            got_os = v1b.get(6)
            if any(v1b.get(ty) != v1[ty] for ty in v1):
                found = "a small block added behind the long recording changed another block"
            elif got_os is None or got_os[6] != want_os or got_os[1] != len1:
                found = "a small block added behind the long recording is not stored at the end of the data as given (entry %r, data ended at %d)" % (got_os and got_os[:3], len1)
            elif len1b != sum1b:
                found = "after the second add the file is %d bytes, header + table + blocks = %d" % (len1b, sum1b)
        if not found:
            gone = v0[5][2]
            for ty in (16, 11):
                a, b = v1[ty], v2.get(ty)
                if b is None or (a[0], a[1] - gone, a[2], a[3], a[4], a[5], a[6]) != b:
                    found = "removing the first block changed block type %d: %r -> %r%s" % (ty, a[:6], b and b[:6], " (bytes differ)" if b and a[6] != b[6] else "")
            if not found and (5 in v2 or len2 != sum2):
                found = "after the removal the file is %d bytes, header + table + blocks = %d" % (len2, sum2)
        os.unlink(p)
        if found:
            chk.violation("%s: %s [%s]" % (pid, found, what["scenario"]), what, True)
            return


def overlapping_sessions(chk, pid):
    """two Tdf objects on one path whose sessions OVERLAP: the client's object A is inside a session (a write session in
    which it has or has not mutated yet, or a plain one) when a helper opens the path itself (object B), runs a write
    session of its own to the end and returns; A then leaves its session without touching the file again.  The file is
    what A's calls followed by B's calls make of it (Container.step run over that sequence), sound and compact."""
    from basictdf import Tdf
    rng = common.rng_for(chk.seed, "overlap", pid)
    kinds = ["EV", "EM", "D3", "FT", "PD", "OS"]
    for j in range(9 if chk.tier == "quick" else 60):
        pool = make_pool(rng, kinds)
        ks = rng.sample(kinds, 4)
        pre = [("add", pool[ks[0]][1], "there before")] if j % 3 else []
        ops_a = [[], [("add", pool[ks[1]][1], "by A")], [("add", pool[ks[1]][1], None), ("add", pool[ks[2]][2], "by A")]][j % 3]
        mode_a = "plain" if (not ops_a and j % 2) else "write"
        ops_b = [[("add", pool[ks[3]][1], "by B")], [("add", pool[ks[3]][2], None), ("remove", blocks.TY[ks[1]])] if ops_a else [("add", pool[ks[3]][2], None)],
                 [("remove", blocks.TY[ks[0]])] if pre else [("add", pool[ks[3]][1], "by B")]][(j // 3) % 3]
        init = crafted(chk.work, "overlap_%s_%d" % (pid, j), rng.choice((4, 6, 14)), [], rng)
        path = os.path.join(chk.work, "overlap_run_%s_%d.tdf" % (pid, j))
        shutil.copyfile(init, path)
        flat = pre + ops_a + ops_b
        nows = [T0 + 1000 + 10 * k for k in range(len(flat))]
        desc = "A: %s session%s; meanwhile B: %s; A leaves" % (mode_a, (" with " + "; ".join(container.op_label(o) for o in ops_a)) if ops_a else ", idle",
                                                               "; ".join(container.op_label(o) for o in ops_b))
        chk.note_case(("overlapping sessions", pid, j), True)
        chk.count("two objects, overlapping sessions (A %s%s)" % (mode_a, ", has mutated" if ops_a else ", idle"))
        what = {"scenario": desc, "history": [[op_json(o) for o in part] for part in (pre, ops_a, ops_b)], "slots": None}
        rcs = []
        try:
            with scripted_clock():
                k = 0
                if pre:
                    with Tdf(path).allow_write() as t0:
                        for op in pre:
                            Clock.now = nows[k]
                            rcs.append(container.apply_op(t0, op))
                            k += 1
                init_state = disk_state(init)
                a = Tdf(path)
                with (a.allow_write() if mode_a == "write" else a) as ta:
                    for op in ops_a:
                        Clock.now = nows[k]
                        rcs.append(container.apply_op(ta, op))
                        k += 1
                    with Tdf(path).allow_write() as tb:          # the helper: its own object, its own session
                        for op in ops_b:
                            Clock.now = nows[k]
                            rcs.append(container.apply_op(tb, op))
                            k += 1
            final = disk_state(path)
        except Exception as e:
            chk.violation("%s: overlapping sessions cannot be run: %s [%s]" % (pid, common.exc_info(e), desc), what, True)
            return
        finally:
            if os.path.exists(path):
                os.unlink(path)
        msteps = container.run_models([(init_state, flat, nows)])[0]
        m = msteps[-1] if msteps else None
        found = None
        if any(rc != 0 for rc in rcs):
            found = "a valid call was refused (outcomes %r)" % (rcs,)
        elif container.wf_violation(final, init_state["n"]):
            found = container.wf_violation(final, init_state["n"])
        elif container.compact_violation(final):
            found = container.compact_violation(final)
        elif m is not None and (tab4(final["tab"]) != tab4(m["tab"]) or final["data"] != m["data"]):
            found = "the file differs from what the calls make of it (table %r, expected %r; %d data bytes, expected %d)" % (
                [e[:4] for e in final["tab"] if e[0]], [e[:4] for e in m["tab"] if e[0]], len(final["data"]), len(m["data"]))
        if found:
            chk.violation("%s: %s [%s]" % (pid, found, desc), what, True)
            return


def readonly_interlude_specs(chk):
    """the client's one long-lived object: a write session, then a plain `with t:` in which he tries mutations all the same
    (each refused, nothing changes), then another write session that goes on as if the interlude had not happened"""
    rng = common.rng_for(chk.seed, "readonly")
    out = []
    kinds = ["EV", "EM", "D3", "FT", "PD", "OS"]
    for j in range(6 if chk.tier == "quick" else 40):
        pool = make_pool(rng, kinds)
        k1, k2, k3 = rng.sample(kinds, 3)
        first = [("add", pool[k1][1], "first"), ("add", pool[k2][1], None)]
        tries = [("replace", pool[k1][2], None), ("set", pool[k2][2]) if k2 in SETTER else ("replace", pool[k2][2], "x"), ("remove", blocks.TY[k1]),
                 ("add", pool[k3][1], None)]
        rng.shuffle(tries)
        later = [("add", pool[k3][2], "after the interlude"), ("replace", pool[k1][2], None), ("remove", blocks.TY[k2]), ("add", pool[k2][1], "again")]
        init = crafted(chk.work, "readonly%d" % j, rng.choice((4, 5, 14)), [], rng)
        out.append(("crafted empty", init, [first, tries[: 1 + j % 4], later], "mutations tried inside a read-only context between two write sessions",
                    ["long", "long-readonly", "long"]))
    return out


def zero_frame_specs(chk):
    """blocks of a recording that was set up but never ran: zero frames, one or two tracks.  They are outside the codec
    model's valid values (C01 wants a frame), but the container only ever sees nBytes and the bytes of _write: stored as
    the last block of a file and then shifted about, they must leave the file as sound and as compact as any other block"""
    rng = common.rng_for(chk.seed, "zeroframes")
    z3, z9 = [0, 0, 0], [0] * 9
    zero = {"FT": Spec("FT", 1, [2, 100, 0, 0, z3, z9, z3, [], [[[0x66], []], [[0x67], []]]]),
            "D3": Spec("D3", 2, [0, 100, 0, 1, z3, z9, z3, 0, [], [[[0x6D], []]]]),
            "EM": Spec("EM", 1, [1, 1000, 0, 0, [3], [[[0x73], []]]]),
            "PD": Spec("PD", 1, [1, 100, 0, 0, [2], [[]]])}
    out = []
    for j, kind in enumerate(zero):
        other = container.small_block("EV" if kind != "EV" else "OS", rng, 1)
        more = container.small_block("OS", rng, 1)
        ops = [("add", other, None), ("set", zero[kind]) if kind in SETTER else ("add", zero[kind], None), ("remove", other.ty()), ("add", more, None),
               ("replace", zero[kind], "again"), ("remove", zero[kind].ty())]
        init = crafted(chk.work, "zeroframes%d" % j, 4, [], rng)
        out.append(("crafted N=4 empty", init, [ops[:2], ops[2:4], ops[4:]], "a block with zero frames and one or two tracks"))
    return out


def format_twin_specs(chk):
    """a block replaced by one of ANOTHER FORMAT of its type whose encoding has exactly the same length — or is byte for
    byte the same (events and optical setups, whose payload does not depend on the format code; marker data with and
    without the link table, sized to match).  The format code lives only in the table entry: it must be the new one."""
    rng = common.rng_for(chk.seed, "formattwins")
    out = []
    quick = chk.tier == "quick"
    for rep in range(1 if quick else 5):
        pairs = []
        for kind in ("EV", "OS"):
            for _ in range(50):
                f, v = blocks.gen(kind, rng, big=3)
                if v[2]:
                    break
            pairs.append((Spec(kind, 1, v), Spec(kind, 0, copy.deepcopy(v))))
        n = rng.choice((3, 6))
        z3, rot = [0, 0, 0], [blocks.rf32(rng) for _ in range(9)]
        fr = [[blocks.rf32(rng) for _ in range(3)] for _ in range(n + 1)]
        with_links = Spec("D3", 1, [n, 100, 0, 1, z3, rot, z3, 0, [0, [], []], [[[0x61], fr[:n]]]])
        gap = fr[:1] + [[]] + fr[2:]
        without = Spec("D3", 2, [n + 1, 100, 0, 1, z3, rot, z3, 0, [], [[[0x61], gap]]])
        if len(with_links.as_model()[3][0]) != len(without.as_model()[3][0]):
            raise RuntimeError("generator problem: the two marker blocks are not equally long")
        pairs.append((with_links, without))
        for a, b in pairs:
            kind = a.kind
            other = container.small_block("PC", rng, 1)
            more = container.small_block("EM", rng, 1)
            for x, y in ((a, b), (b, a)):
                hists = [[[("add", other, None), ("add", x, "first format")], [("replace", y, None), ("add", more, None)]],
                         [[("add", x, "first format")], [("replace", y, "other format, same length"), ("replace", x, None)], [("add", other, None)]]]
                if kind in SETTER:
                    hists.append([[("add", other, None), ("set", x)], [("set", y), ("add", more, None)], [("set", x)]])
                for h in hists:
                    init = crafted(chk.work, "twin_%s_%d_%d" % (kind, rep, len(out)), 4, [], rng)
                    out.append(("crafted N=4 empty", init, h, "replaced by an equally long block of another format"))
    return out


def large_invalid_specs(chk):
    """C07 at size: a replacement / assignment with an UNENCODABLE block of more than 16 MiB (a long EMG recording whose
    first or last signal carries a label that cannot be written) over an existing block of that type.  The model never
    sees the samples (the block has no encoding), so this is cheap — and a pre-flight that skips "expensive" checks for
    large blocks shows here."""
    rng = common.rng_for(chk.seed, "largeinvalid")
    out = []
    n = (16 << 20) // 8 + 70000                      # two float32 signals: just above 16 MiB
    frames = [0x3F800000] * n
    for j, where in enumerate(("first", "last")):
        labels = [[0x61], [0x62]]
        labels[0 if where == "first" else 1] = [0x78] * 300 if j == 0 else [0x78, 0x2192]
        big = Spec("EM", 1, [2, 1000, 0, n, [1, 2], [[labels[0], frames], [labels[1], frames]]], bad="label_" + where)
        small = container.small_block("EM", rng, 1)
        ev = container.small_block("EV", rng, 1)
        init = crafted(chk.work, "largeinvalid%d" % j, 4, [], rng)
        hist = [[("add", ev, None), ("add", small, "recording")], [("set", big) if j == 0 else ("replace", big, None), ("add", container.small_block("OS", rng, 1), None)]]
        out.append(("crafted N=4 empty", init, hist, "an unencodable block of more than 16 MiB replacing an existing one"))
    return out


def missized_specs(chk):
    """C07 with a block whose nBytes is not the length of its own encoding (marker samples handed over as n x 4): whether
    the library stores it or refuses it is not this property's business — but IF the call raises, nothing may have
    changed.  The model stores it the way add_block's statements do (entry size = nBytes, the bytes = what _write
    writes), so a refusal also shows as a difference."""
    rng = common.rng_for(chk.seed, "missized")
    out = []
    for j in range(3 if chk.tier == "quick" else 12):
        for _ in range(50):
            fmt, v = blocks.gen("D3", rng, fmt=1 + 0 * j, big=3, nframes=rng.choice((2, 5, 9)))
            if v[9] and any(fr != [] for fr in v[9][0][1]):
                break
        bad = Spec("D3", fmt, v, bad="missized")
        good = container.small_block("D3", rng, 1)
        ev, em = container.small_block("EV", rng, 1), container.small_block("EM", rng, 1)
        init = crafted(chk.work, "missized%d" % j, 4, [], rng)
        hist = [[[("add", ev, None), ("add", bad, "n x 4 samples")], [("add", em, None)]],
                [[("add", ev, None), ("add", good, "good")], [("replace", bad, None), ("add", em, None)]],
                [[("add", good, "good"), ("add", ev, None)], [("set", bad), ("add", em, None)]]][j % 3]
        out.append(("crafted N=4 empty", init, hist, "a block whose nBytes is not the length of its encoding"))
    return out


def standin_specs(chk):
    """requests made with an object that is not a Block subclass but offers a block's whole interface (type, format,
    nBytes, dates, _write): stored like the block it stands for, or refused like any wrong object — never half of each"""
    rng = common.rng_for(chk.seed, "standin")
    out = []
    quick = chk.tier == "quick"
    for rep in range(1 if quick else 5):
        for kind in (["EV", "D3", "EM"] if quick else list(blocks.KINDS)):
            a, b2 = container.small_block(kind, rng, 1), container.small_block(kind, rng, 2)
            da = Spec(a.kind, a.fmt, a.v, duck=True)
            db = Spec(b2.kind, b2.fmt, b2.v, duck=True)
            other = container.small_block("PC" if kind != "PC" else "EV", rng, 1)
            ty = blocks.TY[kind]
            hists = [[[("add", other, None), ("add", a, "real")], [("replace", db, None), ("add", container.small_block("OS" if kind != "OS" else "EV", rng, 1), None)]],
                     [[("add", a, "real"), ("add", other, None)], [("replace", db, "new comment"), ("remove", ty), ("add", da, "stand-in")]],
                     [[("add", da, "stand-in first"), ("add", da, "again: the type is present")], [("remove", ty), ("add", a, None)]]]
            if kind in SETTER:
                hists.append([[("add", other, None), ("set", da)], [("set", db), ("set", a)]])
            for h in hists:
                init = crafted(chk.work, "standin_%s_%d_%d" % (kind, rep, len(out)), 4, [], rng)
                out.append(("crafted N=4 empty", init, h, "a stand-in object that is not a Block subclass"))
    return out


def full_comment_specs(chk):
    """C07: a foreign entry whose 256-byte comment field is completely filled (no terminator): it reads as 256
    characters, which cannot be written back — replacing that block without a new comment must be refused
    before anything is touched"""
    rng = common.rng_for(chk.seed, "fullcomment")
    out = []
    pool = make_pool(rng, ["EV", "D3", "EM"])
    for j, k in enumerate(("EV", "D3", "EM")):
        p = os.path.join(chk.work, "fullc%d.tdf" % j)
        craft_file(p, 4, [])
        container.run_impl(p, [[("add", pool[k][1], "c"), ("add", pool["EV" if k != "EV" else "EM"][2], None)]])
        raw = bytearray(open(p, "rb").read())
        raw[64 + 32: 64 + 288] = bytes(0x41 + (i % 26) for i in range(256))       # slot 0's comment: 256 letters, no NUL
        open(p, "wb").write(bytes(raw))
        for op in ([("replace", pool[k][2], None)] + ([("set", pool[k][2])] if k in SETTER else []) + [("replace", pool[k][2], "fresh")]):
            out.append(("slot 0 carries a 256-character comment (no terminator)", p, [[op, ("add", container.small_block("PC", rng, 1), None)]],
                        "unterminated comment field"))
    return out


def replay(chk, pid, path):
    d = json.load(open(path))["replay"]
    chk.rule = "replay of " + path
    if not d.get("initial_file_hex") or "v_omitted" in json.dumps(d.get("history")):
        run(chk, pid)
        return
    init = os.path.join(chk.work, "replay_init.tdf")
    open(init, "wb").write(bytes.fromhex(d["initial_file_hex"]))
    contexts = [[op_unjson(o) for o in ctx] for ctx in d["history"]]
    who = d.get("contexts_run_by")
    cases = run_cases(chk, [(d["initial"], init, contexts, "replay") + ((who,) if isinstance(who, list) else ())],
                      True if pid in ("C10", "C11") else "readback" if pid == "C04" else False)
    for c in cases:
        chk.note_case((c.desc, history_label(c.contexts)), True)
        judge(chk, pid, c)

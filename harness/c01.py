"""C01 — decode(encode(b)) = b field for field, and re-encoding reproduces the bytes."""
import json

from harness import blocks, codec, common


def check_cases(chk, cases, label):
    mres = codec.model_eval(cases, want=("wfb", "enc", "dec"))
    for (kind, fmt, v), m in zip(cases, mres):
        case = {"kind": kind, "fmt": fmt, "v": v}
        if not m["wfb"]:
            raise RuntimeError("generator produced a block the model calls invalid: " + blocks.describe(kind, fmt, v))
        chk.note_case((kind, fmt, v), blocks.nontrivial(kind, v))
        i = codec.impl_roundtrip(kind, fmt, v)
        if "build_err" in i:
            chk.violation("valid %s block cannot be constructed: %s" % (kind, i["build_err"]), case, True)
            continue
        if i["enc"] is None:
            chk.violation("valid %s block cannot be encoded: %s" % (kind, i["enc_exc"]), case, True)
            continue
        if i["dec"] is None:
            chk.violation("%s: own encoding cannot be decoded: %s" % (kind, i["dec_exc"]), case, True)
            continue
        # model observation: dec (enc v)  (= v by theorem C01_roundtrip)
        if i["dec"] != m["dec"]:
            d = codec.fdiff(i["dec"], v)
            if d:
                chk.violation("%s fmt=%d: decode(encode(b)) differs from b at %s" % (kind, fmt, d), case, True)
            else:
                chk.violation("model dec(enc v) differs from implementation at %s" % codec.fdiff(i["dec"], m["dec"]),
                              dict(case, correspondence="Blocks.v dec/enc vs _build/_write"), False)
            continue
        if i["reenc"] != i["enc"]:
            chk.violation("%s fmt=%d: re-encoding the decoded block gives different bytes" % (kind, fmt), case, True)


def run(chk):
    chk.rule = ("valid blocks of all nine types built bottom-up from small-biased size parameters, gap masks from "
                "{all present, all missing, first/last missing, alternating, random runs}, labels incl. empty / 255 "
                "chars / every cp1252 char, integer extremes, float specials (+-0, denormals, FLT_MAX, +-inf) and "
                "random bits; every block is validated by the extracted wfb; observation = extracted fields of "
                "_build(_write(b)) and bytes of a second _write, compared with the model's dec(enc v); also: blocks built, used (sized / encoded / compared / printed), then edited IN PLACE to another content of the same shape and used again; blocks built from arrays with the same values but another memory layout (column-major, strided, reversed, big-endian, read-only, unaligned); non-trivial = "
                ">=1 item and (a gap or >=2 items)")
    corpus = codec.load_corpus("C01")
    chk.count("corpus", len(corpus))
    check_cases(chk, corpus, "corpus")
    n = 1800 if chk.tier == "quick" else 30000
    cases = codec.gen_cases(chk, n, "C01")
    check_cases(chk, cases, "generated")
    check_cases(chk, codec.large_count_cases(chk), "large counts")
    check_cases(chk, codec.threshold_cases(chk), "thresholds")
    codec.check_inplace(chk, "C01", 200 if chk.tier == "quick" else 3000)
    codec.check_layouts(chk, "C01", 240 if chk.tier == "quick" else 3000)
    codec.check_trimmed(chk, "C01", 96 if chk.tier == "quick" else 1200)
    codec.check_partial_gaps(chk, "C01", 45 if chk.tier == "quick" else 600)
    codec.check_stray_attributes(chk, "C01", 30 if chk.tier == "quick" else 400)
    codec.check_reassigned_arrays(chk, "C01", 60 if chk.tier == "quick" else 800)
    if chk.tier == "thorough":
        # every mask n<=8 on each run-length coded kind (single-track blocks)
        from harness.c05 import mask_cases
        check_cases(chk, mask_cases(chk, 8), "masks")


def replay(chk, path):
    d = json.load(open(path))["replay"]
    check_cases(chk, [(d["kind"], d["fmt"], d["v"])], "replay")
    chk.rule = "replay of " + path

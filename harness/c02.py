"""C02 — declared size = bytes written = bytes consumed (blocks and nested items; BTS capture)."""
import io
import json

from harness import blocks, codec, common


def item_triples(kind, fmt, v, o):
    """(name, nBytes, bytes written, bytes consumed by the item's own _build) for every nested item"""
    out = []

    def one(name, item, write, build):
        try:
            f = io.BytesIO()
            write(item, f)
            b = f.getvalue()
            nb = int(item.nBytes)
            g = io.BytesIO(b + codec.TRAILER)
            build(g)
            out.append((name, nb, len(b), g.tell()))
        except Exception as e:
            out.append((name, "err", common.exc_info(e), None))
    if kind == "D3":
        from basictdf.tdfData3D import MarkerTrack
        for t in o._tracks:
            one("MarkerTrack", t, lambda x, f: x._write(f), lambda g: MarkerTrack._build(g, v[0]))
    elif kind == "EM":
        from basictdf.tdfEMG import EMGTrack
        for t in o._signals:
            one("EMGTrack", t, lambda x, f: x._write(f), lambda g: EMGTrack._build(g, v[3]))
    elif kind == "FT":
        from basictdf.tdfForce3D import ForceTorqueTrack
        for t in o._tracks:
            one("ForceTorqueTrack", t, lambda x, f: x._write(f), lambda g: ForceTorqueTrack._build(g, v[3]))
    elif kind == "PD":
        from basictdf.tdfForcePlatformsData import ForcePlatformData
        for t in o._platforms:
            one("ForcePlatformData", t, lambda x, f: x._write(f, o.format),
                lambda g: ForcePlatformData._build(g, o.format, v[3]))
    elif kind == "PC":
        from basictdf.tdfForcePlatformsCalibration import ForcePlatformInfo
        for t in o._platforms:
            one("ForcePlatformInfo", t, lambda x, f: x._write(f), lambda g: ForcePlatformInfo._build(g))
    elif kind == "D2":
        from basictdf.tdfData2D import Data2DPCK
        one("Data2DPCK", o._data, lambda x, f: x._write(f), lambda g: Data2DPCK._build(g, v[1], v[0]))
    elif kind == "CA":
        for t in o.cam_data:
            one(type(t).__name__, t, lambda x, f: x._write(f), lambda g, c=type(t): c._build(g))
    elif kind == "OS":
        from basictdf.tdfOpticalSystem import OpticalChannelData
        for t in o.channels:
            one("OpticalChannelData", t, lambda x, f: x._write(f), lambda g: OpticalChannelData._build(g))
    elif kind == "EV":
        from basictdf.tdfEvents import Event
        for t in o.events:
            one("Event", t, lambda x, f: x._write(f), lambda g: Event._build(g))
    return out


def check_cases(chk, cases):
    mres = codec.model_eval(cases, want=("wfb", "enc", "dec", "size"))
    for (kind, fmt, v), m in zip(cases, mres):
        case = {"kind": kind, "fmt": fmt, "v": v}
        if not m["wfb"]:
            raise RuntimeError("generator produced an invalid block: " + blocks.describe(kind, fmt, v))
        chk.note_case((kind, fmt, v), blocks.nontrivial(kind, v))
        # model triple: size, length written, length consumed — equal by theorem, evaluated anyway
        mt = (m["size"] - len(m["enc"]), m["consumed"] - len(m["enc"]))
        i = codec.impl_roundtrip(kind, fmt, v)
        if "build_err" in i or i.get("enc") is None or i.get("dec") is None:
            chk.violation("%s: valid block does not round-trip: %r" %
                          (kind, i.get("build_err") or i.get("enc_exc") or i.get("dec_exc")), case, True)
            continue
        if not isinstance(i["nbytes"], int):
            chk.violation("%s: nBytes raises: %s" % (kind, i["nbytes"]), case, True)
            continue
        it = (i["nbytes"] - len(i["enc"]), i["consumed"] - len(i["enc"]))
        if it != mt:
            chk.violation("%s fmt=%d: nBytes=%d, bytes written=%d, bytes consumed=%d" %
                          (kind, fmt, i["nbytes"], len(i["enc"]), i["consumed"]), case, True)
            continue
        if i.get("nbytes2") != len(i["enc"]):
            chk.violation("%s fmt=%d: decoded block reports nBytes=%r for %d bytes" %
                          (kind, fmt, i.get("nbytes2"), len(i["enc"])), case, True)
            continue
        try:
            o = blocks.build(kind, fmt, v)
            triples = item_triples(kind, fmt, v, o)
            for name, nb, nw, nc in triples:
                chk.count("item:" + name)
                if not (nb == nw == nc):
                    chk.violation("%s in %s: nBytes=%r, written=%r, consumed=%r" % (name, kind, nb, nw, nc), case, True)
                    break
            else:
                # the run-length coded items: the code's own size arithmetic as modelled in SizeFacts.v
                spec = {"D3": (1, 12, lambda: [t[1] for t in v[9]]), "EM": (1, 4, lambda: [t[1] for t in v[5]]),
                        "FT": (1, 36, lambda: [t[1] for t in v[8]]), "PD": (0, 24, lambda: list(v[5]))}.get(kind)
                if spec and triples:
                    res = common.run_model([(47, [spec[0], spec[1], fr]) for fr in spec[2]()])
                    for (name, nb, nw, nc), r in zip(triples, res):
                        chk.count("item size formula compared")
                        if r[1] != nb:
                            chk.violation("%s in %s: nBytes=%r, the modelled size arithmetic (SizeFacts.nbytes_track) gives %r" %
                                          (name, kind, nb, r[1]), dict(case, correspondence="Proofs/SizeFacts.v nbytes_track"), False)
                            break
        except Exception as e:
            chk.violation("%s: item sizes: %s" % (kind, common.exc_info(e)), case, True)


def check_short_coefficients(chk):
    """BTS camera records built with fewer than 70 distortion coefficients (constructor allows <= 70)"""
    rng = common.rng_for(chk.seed, "C02short")
    for _ in range(40 if chk.tier == "quick" else 400):
        fmt, v = blocks.gen("CA", rng, fmt=2)
        if v[0] == 0:
            continue
        full = json.loads(json.dumps(v))
        for c in v[6]:
            kx, ky = rng.randrange(0, 71), rng.randrange(0, 71)
            c[4], c[5] = c[4][:kx], c[5][:ky]
        for c, cf in zip(v[6], full[6]):
            cf[4] = c[4] + [0] * (70 - len(c[4]))
            cf[5] = c[5] + [0] * (70 - len(c[5]))
        case = {"kind": "CA", "fmt": 2, "v": v, "short_coefficients": True}
        chk.note_case(("CA-short", v), True)
        chk.count("short BTS coefficient vectors")
        try:
            o = blocks.build("CA", 2, v)
            b = blocks.impl_write(o)
            nb = int(o.nBytes)
            o2, n = blocks.impl_build("CA", 2, b, codec.TRAILER)
            got = blocks.extract("CA", 2, o2)
        except Exception as e:
            chk.violation("CA block with short coefficient vectors: " + common.exc_info(e), case, True)
            continue
        if not (nb == len(b) == n):
            chk.violation("CA (BTS) with short coefficient vectors: nBytes=%d, written=%d, consumed=%d" %
                          (nb, len(b), n), case, True)
        elif got != full:
            chk.violation("CA (BTS) short coefficients are not zero-padded on read-back: " +
                          str(codec.fdiff(got, full)), case, True)


def check_capture(chk):
    import os
    if not os.path.exists(common.CAPTURE):
        chk.count("capture missing")
        return
    caps = codec.capture_blocks()
    md = codec.model_dec_bytes([(k, f, b) for k, t, f, b in caps])
    for (kind, ty, fmt, b), m in zip(caps, md):
        chk.note_case(("capture", kind, fmt, len(b)), True)
        chk.count("capture:" + kind)
        r = codec.impl_decode(kind, fmt, b)
        what = {"capture_block": kind, "format": fmt, "table_size": len(b)}
        if r.get("dec") is None:
            chk.violation("capture %s block does not decode: %s" % (kind, r.get("dec_exc")), what, True)
            continue
        if r["consumed"] != len(b) or r["nbytes2"] != len(b):
            chk.violation("capture %s: jump table says %d bytes, decoder consumed %d, decoded block reports %r" %
                          (kind, len(b), r["consumed"], r["nbytes2"]), what, True)
            continue
        if m is None or m[1] != len(b):
            chk.violation("model does not consume the capture's %s block exactly (%r of %d)" %
                          (kind, m and m[1], len(b)), dict(what, correspondence="Blocks.v dec vs capture"), False)


def run(chk):
    chk.rule = ("valid blocks of all nine types over every shape class (0/1/2/many items, every gap pattern family, links "
                "present/absent, empty 2D cells, both calibration formats): observation = (nBytes - written, consumed - "
                "written) for the block, nBytes of the decoded block, and (nBytes, written, consumed) of every nested "
                "item; plus the 8 blocks of the BTS capture against their jump-table sizes; compared with the model's "
                "(size, |enc|, consumed); also: blocks built, used (sized / encoded / compared / printed), then edited IN PLACE to another content of the same shape and used again; blocks built from arrays with the same values but another memory layout (column-major, strided, reversed, big-endian, read-only, unaligned); blocks with a frame count of zero (implementation alone); blocks that have just refused a call (bulk assignment with a bad element, taken / out-of-range channel, wrong length, wrong kind, index out of range) and then accept one more item; non-trivial = >=1 item and (a gap or >=2 items)")
    corpus = codec.load_corpus("C02")
    check_cases(chk, corpus)
    n = 1500 if chk.tier == "quick" else 25000
    cases = codec.gen_cases(chk, n, "C02")
    if chk.tier == "thorough":
        from harness.c05 import mask_cases
        cases += mask_cases(chk, 8)
    check_cases(chk, cases)
    check_short_coefficients(chk)
    check_cases(chk, codec.large_count_cases(chk))
    check_cases(chk, codec.threshold_cases(chk))
    codec.check_inplace(chk, "C02", 200 if chk.tier == "quick" else 3000)
    codec.check_layouts(chk, "C02", 240 if chk.tier == "quick" else 3000)
    codec.check_trimmed(chk, "C02", 96 if chk.tier == "quick" else 1200)
    codec.check_partial_gaps(chk, "C02", 45 if chk.tier == "quick" else 600)
    codec.check_stray_attributes(chk, "C02", 30 if chk.tier == "quick" else 400)
    codec.check_reassigned_arrays(chk, "C02", 60 if chk.tier == "quick" else 800)
    boundary_labels(chk)
    after_refused_calls(chk)
    zero_frame_blocks(chk)
    check_capture(chk)


def zero_frame_blocks(chk):
    """blocks with a frame count of ZERO (a trial set up but not recorded) and 0-3 tracks: outside the valid blocks of
    the model (C01: frame count >= 1), so the implementation is judged alone — declared size = bytes written = bytes
    consumed, for the block and for each track"""
    import numpy as np
    from basictdf.tdfData3D import Data3D, MarkerTrack
    from basictdf.tdfEMG import EMG, EMGTrack
    from basictdf.tdfForce3D import ForceTorque3D, ForceTorqueTrack
    from basictdf.tdfForcePlatformsData import ForcePlatformData, ForcePlatformsDataBlock
    z3, e3 = np.zeros(3, dtype="<f4"), np.eye(3, dtype="<f4")

    def empty(cols):
        return np.zeros((0, cols), dtype="<f4") if cols else np.zeros((0,), dtype="<f4")
    for kind in ("D3", "FT", "EM", "PD"):
        for ntr in (0, 1, 2, 3):
            if kind == "D3":
                b = Data3D(100, 0, z3, e3, z3)
                for i in range(ntr):
                    b.add_track(MarkerTrack("m%d" % i, empty(3)))
            elif kind == "FT":
                b = ForceTorque3D(100, 0, z3, e3, z3)
                for i in range(ntr):
                    b.add_track(ForceTorqueTrack("f%d" % i, empty(3), empty(3), empty(3)))
            elif kind == "EM":
                b = EMG(1000, 0)
                for i in range(ntr):
                    b.addSignal(EMGTrack("s%d" % i, empty(0)))
            else:
                b = ForcePlatformsDataBlock(0.0, 100, 0)
                for i in range(ntr):
                    b.add_platform(ForcePlatformData(empty(2), empty(3), empty(0)))
            chk.note_case(("zero frames", kind, ntr), ntr >= 1)
            chk.count("zero-frame block: " + kind)
            what = {"kind": kind, "nFrames": 0, "tracks": ntr}
            try:
                nb = int(b.nBytes)
                f = io.BytesIO()
                b._write(f)
                raw = f.getvalue()
                stream = io.BytesIO(raw + b"\xAA" * 16)
                type(b)._build(stream, b.format.value)
                consumed = stream.tell()
            except Exception as e:
                chk.violation("%s with 0 frames and %d tracks cannot be sized / written / decoded: %s" % (kind, ntr, common.exc_info(e)), what, True)
                continue
            if not (nb == len(raw) == consumed):
                chk.violation("%s with 0 frames and %d tracks: nBytes=%d, bytes written=%d, bytes consumed=%d" % (kind, ntr, nb, len(raw), consumed), what, True)


def after_refused_calls(chk):
    """a block that has just REFUSED a call (a bulk assignment with a bad element after good ones, a taken channel, a
    track of the wrong length, a wrong kind of object, an index out of range), or taken a bulk call whose two lists are
    not equally long (the surplus is ignored), is still a valid block: its declared
    size, the bytes it writes and the bytes its decoder consumes agree — also after one more successful add"""
    import io
    import numpy as np
    from basictdf.tdfEMG import EMGTrack
    from harness import api, c15
    rng = common.rng_for(chk.seed, "C02-refused")
    for trial in range(60 if chk.tier == "quick" else 600):
        kind = ("D3", "FT", "EM", "PD", "PC")[trial % 5]
        calls = []
        if kind in ("D3", "FT"):
            nfr = rng.choice((2, 5))
            b = api.make_block(kind, nfr)
            api.install(kind, b, [api.make_item(kind, "g%d" % i, nfr, i) for i in range(rng.randrange(0, 3))])
            good = lambda j: api.make_item(kind, "n%d" % j, nfr, j)
            short = api.make_item(kind, "s", nfr - 1, 3)
            menu = [("tracks = [good, good, short]", lambda: setattr(b, "tracks", [good(1), good(2), short])),
                    ("tracks = [good, None]", lambda: setattr(b, "tracks", [good(3), None])),
                    ("add_track(short)", lambda: b.add_track(short)), ("add_track(7)", lambda: b.add_track(7)),
                    ("tracks = 5", lambda: setattr(b, "tracks", 5))]
            more = ("add_track(good)", lambda: b.add_track(good(9)))
        else:
            w = c15.World(kind)
            b = c15.new_block(kind)
            add = (lambda o, ch=None: b.addSignal(o, channel=ch)) if kind == "EM" else (lambda o, ch=None: b.add_platform(o, channel=ch))
            for i in range(rng.randrange(0, 3)):
                add(w.item("g%d" % i, i)[0], [3, 7, 9][i])
            good = lambda j: w.item("n%d" % j, j)[0]
            menu = [("add(good, channel=taken)", lambda: add(good(1), 3) if 3 in c15.state_of(kind, b)[0] else add(None)),
                    ("add(non-item)", lambda: add(w.other()[0])), ("add(good, channel=70000)", lambda: add(good(2), 70000))]
            if kind == "PD":
                menu += [("platforms = [good, good, None]", lambda: setattr(b, "platforms", [good(3), good(4), None])),
                         ("platforms = [good, 5]", lambda: setattr(b, "platforms", [good(5), 5]))]
            if kind == "PC":
                menu += [("platforms = [(7, good), (7, good)]", lambda: setattr(b, "platforms", [(7, good(3)), (7, good(4))])),
                         ("add_platforms([good, None])", lambda: b.add_platforms([good(5), None])),
                         ("add_platforms([good, good], [1, 1])", lambda: b.add_platforms([good(6), good(7)], [1, 1])),
                         ("add_platforms([good, good], range(20, 26))", lambda: b.add_platforms([good(10), good(11)], range(20, 26))),
                         ("add_platforms([good, good, good], [30])", lambda: b.add_platforms([good(12), good(13), good(14)], [30])),
                         ("add_platforms([good], (40, 41, 3))", lambda: b.add_platforms([good(15)], (40, 41, 3))),
                         ("remove_platforms([0, 99])", lambda: b.remove_platforms([0, 99])),
                         ("remove_platform(99)", lambda: b.remove_platform(99))]
            if kind == "EM":
                menu += [("removeSignal(absent)", lambda: b.removeSignal("nobody")),
                         ("addSignal(short)", lambda: b.addSignal(EMGTrack("s", np.zeros(1, dtype="<f4"))))]
            more = ("add(good)", lambda: add(good(9)))
        for name, thunk in rng.sample(menu, rng.randrange(1, 4)) + [more]:
            try:
                thunk()
                calls.append(name + " -> ok")
            except Exception as e:
                calls.append(name + " -> " + type(e).__name__)
            chk.note_case(("after refused calls", kind, trial, len(calls)), True)
            chk.count("sizes after a refused call: " + kind)
            what = {"kind": kind, "calls": list(calls)}
            try:
                nb = int(b.nBytes)
                f = io.BytesIO()
                b._write(f)
                raw = f.getvalue()
                o2 = type(b)._build(io.BytesIO(raw + b"\xAA" * 16), b.format.value)
            except Exception as e:
                chk.violation("%s: after %r the block cannot be sized / written / decoded: %s" % (kind, calls, common.exc_info(e)), what, True)
                break
            stream = io.BytesIO(raw + b"\xAA" * 16)
            type(b)._build(stream, b.format.value)
            consumed = stream.tell()
            if not (nb == len(raw) == consumed):
                chk.violation("%s: after %r: nBytes=%d, bytes written=%d, bytes consumed=%d" % (kind, calls, nb, len(raw), consumed), what, True)
                break
        if chk.n_found() >= 3:
            return


def boundary_labels(chk):
    """a text of exactly the field's width cannot be stored (no room for the terminator): the block must be refused
    at encoding time — or, if it is written, its size must still be right"""
    rng = common.rng_for(chk.seed, "C02-boundary")
    spots = {"D3": (9, 0, 256), "EM": (5, 0, 256), "FT": (8, 0, 256), "PC": (3, 0, 256), "EV": (2, 0, 256), "OS": (2, 2, 32)}
    for kind, (ik, pos, width) in spots.items():
        for extra in (0, 1):
            for _ in range(50):
                fmt, v = blocks.gen(kind, rng, big=3)
                if v[ik]:
                    break
            else:
                continue
            j = rng.randrange(len(v[ik]))
            v[ik][j][pos] = [0x41 + (i % 26) for i in range(width + extra)]
            chk.note_case(("boundary label", kind, width + extra), True)
            chk.count("label of %s characters" % ("exactly the width" if extra == 0 else "width + 1"))
            try:
                o = blocks.build(kind, fmt, v)
                raw = blocks.impl_write(o)
            except ValueError:
                continue
            except Exception as e:
                chk.violation("C02 %s: a %d-character label in a %d-byte field raised %s" % (kind, width + extra, width, common.exc_info(e)),
                              {"kind": kind, "fmt": fmt, "v": v}, True)
                continue
            nb = int(o.nBytes)
            chk.violation("C02 %s: a %d-character label in a %d-byte field was written (%d bytes, nBytes %d): the text spills "
                          "out of its field" % (kind, width + extra, width, len(raw), nb), {"kind": kind, "fmt": fmt, "v": v}, True)


def replay(chk, path):
    d = json.load(open(path))["replay"]
    if "kind" in d:
        check_cases(chk, [(d["kind"], d["fmt"], d["v"])])
    else:
        check_capture(chk)
    chk.rule = "replay of " + path

"""C09 — see harness/cprops.py (shared container engine) and coq/Properties/C09.v."""
from harness import cprops


def run(chk):
    cprops.run(chk, "C09")


def replay(chk, path):
    cprops.replay(chk, "C09", path)
